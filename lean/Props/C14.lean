/-
  C14 — `!py` expressions and `pypyr.steps.py` blocks read every context key as a plain variable
  (from every scope nesting, before pyimport names, before builtins) and never add, remove or rebind
  a context key, except for what a py block passes to `save(...)`; in-place mutations of mutable
  context values stay visible.

  Property theorems about the binding-only model `PypyrModel/PyNs.lean`. All of them are for EVERY
  expression / block of the model language, every state (context, imports, builtins, heap — also
  ill-formed heaps), every fuel, and hold whether the evaluation returns or raises (the final state
  is what is constrained). Helper lemmas: `Props/Lemmas/C14_Inv.lean` (invariant principle for the
  six mutual evaluators), `C14_Stmt.lean` (the same for statements/blocks), `C14_Env.lean`
  (`dict.update` facts), `C14_Frame.lean` (the two instances, `load` unfoldings), `C14_Hidden.lean`
  (evaluation commutes with replacing the per-Context namespace object's raw slot).

  What the model is and is not: see the header of `PyNs.lean` — a model of NAME BINDING under
  CPython 3.12's compilation scheme over pypyr's namespace objects; the scheme itself is validated by
  the correspondence harness only.

  `runEval false` is `Context.get_eval_string` as it is NOW (commits 81f45d6 + 2f08756: one throw-away
  `_EvalNamespace` per evaluation, used as globals and locals, own dict → context → imports →
  builtins); `runEval true` is the code before 62901c4 and `runEvalChild` the code in between — both
  kept only for the two pre-fix witnesses of section 2. `runRehydrate` / `runCtxSet` / `runCtxDel` /
  `runClearAll` are the non-Python operations the harness interleaves with evaluations on one Context.
  `runEvalSet` (`pypyr.steps.set` with a `!py` value) and `runForeach` (`Step.foreach_loop` over a
  `!py` value) are the two routes by which a function / generator object a `!py` expression made is
  kept and run LATER. A function / generator object carries the namespace object of the run that made
  it as its globals (`Closure.ns`, `GenObj.ns`, `St.nss`); whoever calls / pulls it, and whenever, its
  body resolves against that object: section 7.
-/
import Props.Lemmas.C14_Frame
import Props.Lemmas.C14_Hidden
import Props.Lemmas.C14_Import

namespace Pypyr.C14
open Pypyr.PyNs

/-! ### the world of the non-vacuity examples
  context `{a, len, T: (1, 2), L: [7]}`; pyimport registered `math` and (shadowed) `a`;
  builtins `len`, `abs`. -/
def exSt : St :=
  { ctx := [("a", .tok .ctx "a"), ("len", .tok .ctx "len"), ("T", .ref 0), ("L", .ref 1)]
    imps := [("math", .tok .mod "math"), ("a", .tok .imp "a")]
    hidden := [("__builtins__", builtinsTok)]
    bi := [("len", .tok .bi "len"), ("abs", .tok .bi "abs")]
    heap := [.tuple [.cst 1, .cst 2], .list [.cst 7]]
    saved := []
    nss := []
    cur := 0
    next := 0 }

/-- `((x := a), [(y := i) for i in T if a for j in T], (lambda p: (q := p))(a), L.append(len))` -/
def exExpr : Expr :=
  .tuple [.walrus "x" (.name "a"),
          .comp false (.walrus "y" (.name "i")) [("i", .name "T", [.name "a"]), ("j", .name "T", [])],
          .call (.lam ["p"] (.walrus "q" (.name "p"))) [.name "a"],
          .append (.name "L") (.name "len")]

/-- ```
    x = a
    import os as math
    def f(p): global g; g = p; loc = a; return (lambda: loc)()
    class C: a = len
    r = f(a)
    L.append(r)
    save('r', 'g', 'f', k=C)
    del a
    ``` -/
def exBlock : List Stmt :=
  [.assign "x" (.name "a"),
   .imp "math" (.tok .mod "os"),
   .def_ "f" ["p"] ["g"] [("g", .name "p"), ("loc", .name "a")] (.call (.lam [] (.name "loc")) []),
   .cls "C" [("a", .name "len")],
   .assign "r" (.call (.name "f") [.name "a"]),
   .expr (.append (.name "L") (.name "r")),
   .save ["r", "g", "f"] [("k", .name "C")],
   .del "a"]

/-! ### 1. `!py` cannot touch the context — nor anything else but the heap (`get_eval_string` NOW) -/

/-- `eval_frame`: for the arrangement of `get_eval_string` as it is now
    (`n = _EvalNamespace(ctx, imps); eval(src, n, n)`), for EVERY expression (calls of function
    objects and pulls of generator objects made by EARLIER evaluations / py steps, and calls of the
    namespace object's own methods, included), fuel and state — whether the evaluation returns or
    raises — the WHOLE state afterwards is the state before except for the heap, the table of
    namespace objects (a new one for this evaluation; own dicts of older ones that deferred code
    wrote to) and the id counter: the context (same key list in the same order, same bindings), the
    pyimport mapping, the raw dict slot of the per-Context namespace object (`hidden`: nothing an
    expression binds lands there — this is what 81f45d6 + 2f08756 repaired), the builtins, the save
    log, the current-namespace pointer. -/
theorem eval_frame (fuel : Nat) (st : St) (e : Expr) :
    (runEval false fuel st e).2 =
      { st with heap := (runEval false fuel st e).2.heap, nss := (runEval false fuel st e).2.nss,
                next := (runEval false fuel st e).2.next } := by
  have h := evalExpr_evalFixed_rest fuel
    { kind := .module, chain := [], explicit := e.compWalrus } e (st.enter .evalFixed ownInit)
  apply St.ext'
  · simpa only [runEval, Bool.false_eq_true, if_false, St.evalRest, St.retire, St.enter] using h
  · rfl
  · rfl
  · rfl
  · rfl

/-- `eval_frame` field by field. -/
theorem eval_frame_fields (fuel : Nat) (st : St) (e : Expr) :
    (runEval false fuel st e).2.ctx = st.ctx ∧
    (runEval false fuel st e).2.imps = st.imps ∧
    (runEval false fuel st e).2.hidden = st.hidden ∧
    (runEval false fuel st e).2.bi = st.bi ∧
    (runEval false fuel st e).2.saved = st.saved ∧
    (runEval false fuel st e).2.cur = st.cur := by
  have h := eval_frame fuel st e
  refine ⟨?_, ?_, ?_, ?_, ?_, ?_⟩ <;> rw [h]

/-- The example expression runs to completion with three assignment expressions at three different
    nestings; none lands in the context or in the per-Context namespace object; the append is
    visible. -/
example : (runEval false 30 exSt exExpr).2.hidden = [("__builtins__", builtinsTok)] ∧
    (runEval false 30 exSt exExpr).2.ctx = exSt.ctx ∧
    seqItems (runEval false 30 exSt exExpr).2.heap (.ref 1) = some [.cst 7, .tok .ctx "len"] := by
  decide +kernel

/-- `eval_frame_nested`: the same at every scope nesting (inside lambdas, comprehensions, bodies of
    function / generator objects found in the heap — whichever of the two live arrangements their
    namespace object has), not only for the top-level entry point: only own dicts of namespace
    objects and the heap can differ. -/
theorem eval_frame_nested {a : Arr} (ha : a.live) (fuel : Nat) (sc : Scope) (st : St) (e : Expr) :
    (evalExpr a fuel sc e st).2.ctx = st.ctx ∧
    (evalExpr a fuel sc e st).2.imps = st.imps ∧
    (evalExpr a fuel sc e st).2.hidden = st.hidden := by
  have h := evalExpr_live_rest ha fuel sc e st
  simp only [St.evalRest, Prod.mk.injEq] at h
  exact ⟨h.1, h.2.1, h.2.2.1⟩

/-- inside a function scope both the module-level `x` and the comprehension's `y` go to the own dict
    of the throw-away namespace -/
example : (evalExpr .evalFixed 30 { kind := .func, chain := [], explicit := [] } exExpr exSt).2.own =
    [("x", .tok .ctx "a"), ("y", .cst 2)] ∧
    (evalExpr .evalFixed 30 { kind := .func, chain := [], explicit := [] } exExpr exSt).2.hidden = exSt.hidden := by
  decide +kernel

/-- `eval_session_frame`: any number of evaluations one after the other on the same context (a
    session of `!py` strings) leave context, imports and the per-Context namespace object as they
    were: nothing accumulates from one evaluation to the next. -/
theorem eval_session_frame (fuel : Nat) (es : List Expr) (st : St) :
    (es.foldl (fun s e => (runEval false fuel s e).2) st).ctx = st.ctx ∧
    (es.foldl (fun s e => (runEval false fuel s e).2) st).imps = st.imps ∧
    (es.foldl (fun s e => (runEval false fuel s e).2) st).hidden = st.hidden := by
  induction es generalizing st with
  | nil => exact ⟨rfl, rfl, rfl⟩
  | cons e rest ih =>
    obtain ⟨h1, h2, h3, _⟩ := eval_frame_fields fuel st e
    obtain ⟨i1, i2, i3⟩ := ih (runEval false fuel st e).2
    exact ⟨i1.trans h1, i2.trans h2, i3.trans h3⟩

/-- `(x := a)`, then `[(y := i) for i in T]`, then `x`: the third evaluation is a NameError — the
    first one's binding is gone — and the context is as it was. -/
example : (runEval false 30 ([Expr.walrus "x" (.name "a"),
      .comp false (.walrus "y" (.name "i")) [("i", .name "T", [])]].foldl
        (fun s e => (runEval false 30 s e).2) exSt) (.name "x")).1 = .err .nameError ∧
    (runEval false 30 ([Expr.walrus "x" (.name "a"),
      .comp false (.walrus "y" (.name "i")) [("i", .name "T", [])]].foldl
        (fun s e => (runEval false 30 s e).2) exSt) (.name "y")).1 = .err .nameError := by
  decide +kernel

/-! ### 2. … which the code before commits 62901c4 / 81f45d6 did not guarantee (F6) -/

/-- `walrus_leak_pre_fix`: the witness. With `eval(src, ns)` (locals is globals) the top-level
    assignment expression `(x := 5)` ADDS key `x` to the context; with the arrangement now the
    same expression leaves the context as it was. -/
theorem walrus_leak_pre_fix :
    (runEval true 5 exSt (.walrus "x" (.const 5))).2.ctx = exSt.ctx ++ [("x", .cst 5)] ∧
    (runEval false 5 exSt (.walrus "x" (.const 5))).2.ctx = exSt.ctx := by
  decide +kernel

/-- `walrus_leak_pre_fix_all`: not an accident of the example — before the fix `(x := n)` stored into
    the context for every state, name and constant (adding the key or REBINDING an existing one). -/
theorem walrus_leak_pre_fix_all (fuel : Nat) (st : St) (x : String) (n : Nat) :
    (runEval true (fuel + 2) st (.walrus x (.const n))).2.ctx = st.ctx.set x (.cst n) := by
  simp [runEval, evalExpr, store, chainStore, Expr.compWalrus, storeName, St.enter, St.retire]

example : (runEval true 2 exSt (.walrus "a" (.const 5))).2.ctx.get? "a" = some (.cst 5) := by
  decide +kernel

/-- `comp_walrus_leftover_pre_fix`: the second witness (the code of 62901c4 .. 81f45d6^,
    `eval(src, ns, ns.new_child())`). `[(y := i) for i in T]` left `y` behind in the raw dict slot of
    the per-Context namespace object, where a LATER `!py y` found it, and
    `([(y := i) for i in T], y)` could not read its own binding back (NameError); with the arrangement
    now nothing is left, the later `y` is a NameError, and the read-back works. -/
theorem comp_walrus_leftover_pre_fix :
    let e : Expr := .comp false (.walrus "y" (.name "i")) [("i", .name "T", [])]
    (runEvalChild 30 exSt e).2.hidden = [("__builtins__", builtinsTok), ("y", .cst 2)] ∧
    (runEvalChild 30 (runEvalChild 30 exSt e).2 (.name "y")).1 = .ok (.cst 2) ∧
    (runEvalChild 30 exSt (.tuple [e, .name "y"])).1 = .err .nameError ∧
    (runEval false 30 exSt e).2.hidden = [("__builtins__", builtinsTok)] ∧
    (runEval false 30 (runEval false 30 exSt e).2 (.name "y")).1 = .err .nameError ∧
    (∃ r, (runEval false 30 exSt (.tuple [e, .name "y"])).1 = .ok (.ref r) ∧
      (seqItems (runEval false 30 exSt (.tuple [e, .name "y"])).2.heap (.ref r)).map (·.drop 1) =
        some [.cst 2]) := by
  refine ⟨by decide +kernel, by decide +kernel, by decide +kernel, by decide +kernel,
    by decide +kernel, ⟨4, by decide +kernel, by decide +kernel⟩⟩

/-! ### 3. a py block changes the context only through `save` -/

/-- `exec_frame`: for EVERY block, fuel and state — whether the block finishes or raises half way —
    there is a list `log` of `(key, value)` pairs, exactly what the block's `save(...)` calls handed
    to `context.update` (the ghost log `saved` grew by it), such that the context afterwards is the
    context before `dict.update`d with `log`, and every logged key is one the block names literally
    in a `save(...)` (positional name or keyword). Nothing else is touched: pyimport mapping,
    builtins, the `!py` namespace object. So locals, imports,
    function and class definitions, `__builtins__` and `save` itself reach the context only when
    saved by name. -/
theorem exec_frame (fuel : Nat) (st : St) (b : List Stmt) :
    ∃ log : Env,
      (runPyStep fuel st b).2.saved = st.saved ++ log ∧
      (runPyStep fuel st b).2.ctx = st.ctx.update log ∧
      (∀ k ∈ Env.keys log, k ∈ blockSaveKeys b) ∧
      (runPyStep fuel st b).2.imps = st.imps ∧
      (runPyStep fuel st b).2.bi = st.bi ∧
      (runPyStep fuel st b).2.hidden = st.hidden ∧
      (runPyStep fuel st b).2.cur = st.cur := by
  obtain ⟨log, h1, h2, h3, h4, h5, h7⟩ := execBlock_exec_saved fuel
    { kind := .module, chain := [], explicit := blockExplicit b } b
    (st.enter .exec (pyStepNs st.ctx))
  exact ⟨log, h1, h2, h3, h4, h7, h5, rfl⟩

/-- The example block binds `x`, `math`, `f`, `C`, `r`, `g` and deletes its copy of `a`; the context
    gets exactly the four saved keys (after the existing ones) and keeps `a`. -/
example : (runPyStep 30 exSt exBlock).2.ctx =
      exSt.ctx ++ [("r", .tok .ctx "a"), ("g", .tok .ctx "a"), ("f", .ref 2), ("k", .ref 3)] ∧
    (runPyStep 30 exSt exBlock).2.saved =
      [("r", .tok .ctx "a"), ("g", .tok .ctx "a"), ("f", .ref 2), ("k", .ref 3)] ∧
    blockSaveKeys exBlock = ["r", "g", "f", "k"] ∧
    seqItems (runPyStep 30 exSt exBlock).2.heap (.ref 1) = some [.cst 7, .tok .ctx "a"] := by
  decide +kernel

/-- `exec_keys_kept`: no context key is ever removed or moved by a py block: the old key list is a
    prefix of the new one (`del a` in the block deletes the block's copy only). -/
theorem exec_keys_kept (fuel : Nat) (st : St) (b : List Stmt) :
    Env.keys st.ctx <+: Env.keys (runPyStep fuel st b).2.ctx := by
  obtain ⟨log, _, h2, _⟩ := exec_frame fuel st b
  rw [h2]; exact Env.keys_update_prefix _ _

example : (runPyStep 30 exSt [.del "a", .assign "T" (.const 0)]).2.ctx = exSt.ctx := by decide +kernel

/-- `exec_only_saved_keys_change`: a key the block does not name in a `save(...)` reads after the
    block exactly as before it — not added, not removed, not rebound. -/
theorem exec_only_saved_keys_change (fuel : Nat) (st : St) (b : List Stmt) (k : String)
    (hk : k ∉ blockSaveKeys b) : (runPyStep fuel st b).2.ctx.get? k = st.ctx.get? k := by
  obtain ⟨log, _, h2, h3, _⟩ := exec_frame fuel st b
  rw [h2]; exact Env.get?_update_of_not_mem _ _ _ (fun h => hk (h3 k h))

example : "x" ∉ blockSaveKeys exBlock ∧ "math" ∉ blockSaveKeys exBlock ∧ "C" ∉ blockSaveKeys exBlock ∧
    "__builtins__" ∉ blockSaveKeys exBlock ∧ "save" ∉ blockSaveKeys exBlock ∧ "a" ∉ blockSaveKeys exBlock := by
  decide +kernel

/-- `exec_bindings_old_or_saved`: every binding of the context after the block is a binding it had
    before or a pair that a `save(...)` call of the block passed. -/
theorem exec_bindings_old_or_saved (fuel : Nat) (st : St) (b : List Stmt) (k : String) (v : V)
    (h : (runPyStep fuel st b).2.ctx.get? k = some v) :
    st.ctx.get? k = some v ∨
      ∃ log : Env, (runPyStep fuel st b).2.saved = st.saved ++ log ∧ (k, v) ∈ log := by
  obtain ⟨log, h1, h2, _⟩ := exec_frame fuel st b
  rw [h2] at h
  rcases Env.get?_update_cases _ _ _ _ h with h3 | h3
  · exact Or.inl h3
  · exact Or.inr ⟨log, h1, h3⟩

example : (runPyStep 30 exSt exBlock).2.ctx.get? "f" = some (.ref 2) ∧ exSt.ctx.get? "f" = Option.none := by
  decide +kernel

/-- `exec_no_save_no_change`: a block without a `save(...)` statement leaves the context exactly as
    it was. -/
theorem exec_no_save_no_change (fuel : Nat) (st : St) (b : List Stmt) (hb : blockSaveKeys b = []) :
    (runPyStep fuel st b).2.ctx = st.ctx := by
  obtain ⟨log, _, h2, h3, _⟩ := exec_frame fuel st b
  have : log = [] := by
    cases log with
    | nil => rfl
    | cons p rest => exact absurd (h3 p.1 (by simp [Env.keys])) (by simp [hb])
  rw [h2, this]; rfl

example : blockSaveKeys (exBlock.take 6 ++ [.del "a"]) = [] ∧
    (runPyStep 30 exSt (exBlock.take 6 ++ [.del "a"])).2.heap.length = 7 := by decide +kernel

/-- `save_passes_namespace_bindings`: what a successful `save('n1', …)` passes: the context becomes
    the old one updated with a dict whose every entry `(k, v)` has `k` among the names and `v` the
    object `k` is bound to in the block's namespace at that moment. -/
theorem save_passes_namespace_bindings (fuel : Nat) (sc : Scope) (st st' : St) (names : List String)
    (h : execStmt .exec fuel sc (.save names []) st = (.ok (), st')) :
    ∃ d : Env, st' = doSave st d ∧
      ∀ k v, d.get? k = some v → k ∈ names ∧ st.own.get? k = some v := by
  simp only [execStmt, evalKws] at h
  split at h
  · cases h
  · split at h
    · cases h
    · split at h
      · cases h
      · rename_i d hd
        simp only [Env.update_nil, Prod.mk.injEq, true_and] at h
        refine ⟨d, h.symm, ?_⟩
        intro k v hkv
        constructor
        · have : k ∈ Env.keys d := by
            apply Classical.byContradiction
            intro hn
            rw [(Env.get?_eq_none_iff d k).2 hn] at hkv
            cases hkv
          rcases saveNames_keys _ _ _ _ hd k this with h2 | h2
          · simp [Env.keys] at h2
          · exact h2
        · rcases saveNames_values _ _ _ _ hd k v hkv with h2 | h2
          · simp [Env.get?] at h2
          · exact h2

example : (execStmt .exec 5 { kind := .module, chain := [], explicit := [] } (.save ["a", "T"] [])
    (exSt.enter .exec (pyStepNs exSt.ctx))).2.saved = [("a", .tok .ctx "a"), ("T", .ref 0)] := by
  decide +kernel

/-! ### 4. pyimport names live beside the context, never in it -/

/-- `imports_beside_context`: `pyimport` changes the imports mapping and nothing else (the context
    in particular); and afterwards a `!py` read of ANY name `x` resolves, in this order, to: the
    own dict of the new namespace object (which at the start of an evaluation holds `__builtins__`
    and nothing else); the context's binding; the newly imported binding (the last one for `x`); an
    earlier import; the builtins; else NameError. -/
theorem imports_beside_context (fuel : Nat) (st : St) (bindings : Env) (x : String) :
    (runPyImport st bindings).ctx = st.ctx ∧
    (runPyImport st bindings).bi = st.bi ∧
    (runPyImport st bindings).hidden = st.hidden ∧
    (runPyImport st bindings).heap = st.heap ∧
    (runPyImport st bindings).saved = st.saved ∧
    (runEval false (fuel + 1) (runPyImport st bindings) (.name x)).1 =
      optRes (orElse (ownInit.get? x) (orElse (st.ctx.get? x) (orElse (Env.get? bindings.reverse x)
        (orElse (st.imps.get? x) (st.bi.get? x))))) := by
  refine ⟨rfl, rfl, rfl, rfl, rfl, ?_⟩
  rw [runEval_name]
  simp only [Bool.false_eq_true, if_false, loadName_evalFixed, loadGlobal_evalFixed, runPyImport,
    Env.get?_update, orElse_assoc, St.own_enter, St.enter_ctx, St.enter_imps, St.enter_bi]

example : (runEval false 1 (runPyImport exSt [("os", .tok .mod "os"), ("abs", .tok .imp "abs")])
      (.name "abs")).1 = .ok (.tok .imp "abs") ∧
    (runEval false 1 (runPyImport exSt [("os", .tok .mod "os")]) (.name "abs")).1 = .ok (.tok .bi "abs") := by
  decide +kernel

/-- The same read from inside a lambda: the same layers in the same order (one namespace object for
    globals and locals). -/
theorem imports_beside_context_nested (fuel : Nat) (st : St) (bindings : Env) (x : String) :
    (runEval false (fuel + 4) (runPyImport st bindings) (.call (.lam [] (.name x)) [])).1 =
      optRes (orElse (ownInit.get? x) (orElse (st.ctx.get? x) (orElse (Env.get? bindings.reverse x)
        (orElse (st.imps.get? x) (st.bi.get? x))))) := by
  simp only [runEval, Bool.false_eq_true, if_false]
  rw [lambda_reads_global _ _ _ _ _ rfl]
  simp only [loadGlobal_evalFixed, runPyImport, Env.get?_update, orElse_assoc, St.own_enter, St.enter_ctx,
    St.enter_imps, St.enter_bi]

example : (runEval false 4 (runPyImport exSt [("os", .tok .mod "os")]) (.call (.lam [] (.name "os")) [])).1 =
    .ok (.tok .mod "os") := by decide +kernel

/-- `import_visible`: a name bound by pyimport and not a context key resolves to the imported
    object — at top level and inside a lambda. (`__builtins__` is not importable over: the new
    namespace object's own entry stands first.) -/
theorem import_visible (fuel : Nat) (st : St) (bindings : Env) (x : String) (v : V)
    (hx : x ≠ "__builtins__")
    (hc : st.ctx.get? x = Option.none) (hb : Env.get? bindings.reverse x = some v) :
    (runEval false (fuel + 1) (runPyImport st bindings) (.name x)).1 = .ok v ∧
    (runEval false (fuel + 4) (runPyImport st bindings) (.call (.lam [] (.name x)) [])).1 = .ok v := by
  constructor
  · rw [(imports_beside_context fuel st bindings x).2.2.2.2.2, ownInit_get?_of_ne x hx, hc, hb]; rfl
  · rw [imports_beside_context_nested, ownInit_get?_of_ne x hx, hc, hb]; rfl

example : exSt.ctx.get? "os" = Option.none ∧
    Env.get? [("os", V.tok .mod "os"), ("abs", .tok .imp "abs")].reverse "os" = some (.tok .mod "os") := by
  decide +kernel

/-- `context_shadows_import`: a name that is both a context key and a pyimport name reads as the
    context's value (the import never replaces it) — at top level and inside a lambda. -/
theorem context_shadows_import (fuel : Nat) (st : St) (bindings : Env) (x : String) (v : V)
    (hx : x ≠ "__builtins__") (hc : st.ctx.get? x = some v) :
    (runEval false (fuel + 1) (runPyImport st bindings) (.name x)).1 = .ok v ∧
    (runEval false (fuel + 4) (runPyImport st bindings) (.call (.lam [] (.name x)) [])).1 = .ok v := by
  constructor
  · rw [(imports_beside_context fuel st bindings x).2.2.2.2.2, ownInit_get?_of_ne x hx, hc]; rfl
  · rw [imports_beside_context_nested, ownInit_get?_of_ne x hx, hc]; rfl

example : (runEval false 4 (runPyImport exSt [("len", .tok .imp "len")]) (.call (.lam [] (.name "len")) [])).1 =
    .ok (.tok .ctx "len") := by decide +kernel

/-- `builtins_last`: a name that neither the context nor any pyimport binds falls through to the
    builtins, at top level and inside a lambda alike (`__builtins__` itself is answered by the
    namespace object's own entry, in both). -/
theorem builtins_last (fuel : Nat) (st : St) (bindings : Env) (x : String)
    (hc : st.ctx.get? x = Option.none) (hb : Env.get? bindings.reverse x = Option.none)
    (hi : st.imps.get? x = Option.none) :
    (runEval false (fuel + 1) (runPyImport st bindings) (.name x)).1 =
      optRes (orElse (ownInit.get? x) (st.bi.get? x)) ∧
    (runEval false (fuel + 4) (runPyImport st bindings) (.call (.lam [] (.name x)) [])).1 =
      optRes (orElse (ownInit.get? x) (st.bi.get? x)) := by
  constructor
  · rw [(imports_beside_context fuel st bindings x).2.2.2.2.2, hc, hb, hi]; rfl
  · rw [imports_beside_context_nested, hc, hb, hi]; rfl

example : (runEval false 4 (runPyImport exSt [("os", .tok .mod "os")]) (.call (.lam [] (.name "abs")) [])).1 =
      .ok (.tok .bi "abs") ∧
    (runEval false 1 exSt (.name "__builtins__")).1 = .ok builtinsTok ∧
    (runEval false 4 exSt (.call (.lam [] (.name "__builtins__")) [])).1 = .ok builtinsTok ∧
    (runEval false 4 exSt (.call (.lam [] (.name "nope")) [])).1 = .err .nameError := by
  decide +kernel

/-- `rehydrate_invisible`: a Context that went through `__getstate__`/`__setstate__` (pickle round
    trip, `copy.deepcopy`, `copy.copy`) keeps context, imports, builtins, heap; and a pyimport made
    AFTER the rehydration is read by `!py` exactly as on the original object, at top level and
    inside a lambda (the rebuilt namespace object chains the same two mappings). -/
theorem rehydrate_invisible (fuel : Nat) (st : St) (bindings : Env) (x : String) :
    (runRehydrate st).ctx = st.ctx ∧ (runRehydrate st).imps = st.imps ∧
    (runRehydrate st).bi = st.bi ∧ (runRehydrate st).heap = st.heap ∧
    (runRehydrate st).saved = st.saved ∧
    (runEval false (fuel + 1) (runPyImport (runRehydrate st) bindings) (.name x)).1 =
      (runEval false (fuel + 1) (runPyImport st bindings) (.name x)).1 ∧
    (runEval false (fuel + 4) (runPyImport (runRehydrate st) bindings) (.call (.lam [] (.name x)) [])).1 =
      (runEval false (fuel + 4) (runPyImport st bindings) (.call (.lam [] (.name x)) [])).1 := by
  refine ⟨rfl, rfl, rfl, rfl, rfl, ?_, ?_⟩
  · rw [(imports_beside_context fuel _ bindings x).2.2.2.2.2,
      (imports_beside_context fuel st bindings x).2.2.2.2.2]; rfl
  · rw [imports_beside_context_nested, imports_beside_context_nested]; rfl

example : (runEval false 1 (runPyImport (runRehydrate exSt) [("os", .tok .mod "os")]) (.name "os")).1 =
    .ok (.tok .mod "os") ∧
    (runEval false 1 (runClearAll (runPyImport (runRehydrate exSt) [("os", .tok .mod "os")])) (.name "os")).1 =
    .err .nameError ∧
    (runEval false 1 (runClearAll exSt) (.name "math")).1 = .err .nameError := by decide +kernel

/-- `eval_ignores_namespace_object`: for EVERY expression, fuel and state, `get_eval_string` as it is
    now neither reads nor writes the raw dict slot of the per-Context `_pystring_namespace` object:
    the result is the same whatever that slot holds, and so is the final state (with the slot as it
    was put). Whatever an older evaluation (or an older pypyr) left in that object cannot show up in a
    read. -/
theorem eval_ignores_namespace_object (fuel : Nat) (st : St) (e : Expr) (h : Env) :
    runEval false fuel { st with hidden := h } e =
      ((runEval false fuel st e).1, { (runEval false fuel st e).2 with hidden := h }) := by
  have key := (eval_hidden h fuel).1 .evalFixed Arr.live_evalFixed
    { kind := .module, chain := [], explicit := e.compWalrus } e
    (st.enter .evalFixed ownInit)
  simp only [runEval, Bool.false_eq_true, if_false]
  change (match evalExpr .evalFixed fuel _ e (St.withHidden h (st.enter .evalFixed ownInit)) with
    | (r, st1) => (r, st1.retire st.next st.cur)) = _
  rw [key]
  rfl

/-- a stale `y` in the per-Context object (what the code before 81f45d6 left behind) is not readable -/
example : (runEval false 3 { exSt with hidden := exSt.hidden ++ [("y", .cst 2)] } (.name "y")).1 = .err .nameError ∧
    (runEval false 4 { exSt with hidden := exSt.hidden ++ [("y", .cst 2)] } (.call (.lam [] (.name "y")) [])).1 =
      .err .nameError := by decide +kernel

/-- No `_EvalNamespace` of an earlier `!py` evaluation on THIS Context object is still the globals of
    a live function / generator object (a fresh Context; one whose `!py` expressions made no lambdas
    or generator objects that outlived them; one that was just rehydrated). -/
def NoLiveEvalNs (st : St) : Prop := ∀ p ∈ st.nss, p.2.arr = .evalFixed → p.2.stale = true

theorem runRehydrate_of_noLiveEvalNs (st : St) (h : NoLiveEvalNs st) :
    runRehydrate st = { st with hidden := ownInit } := by
  have : st.nss.map (fun p => (p.1, { p.2 with stale := p.2.stale || p.2.arr == .evalFixed })) = st.nss := by
    have key : ∀ (l : NsTab), (∀ p ∈ l, p.2.arr = .evalFixed → p.2.stale = true) →
        l.map (fun p => (p.1, { p.2 with stale := p.2.stale || p.2.arr == .evalFixed })) = l := by
      intro l hl
      induction l with
      | nil => rfl
      | cons p rest ih =>
        obtain ⟨k, r⟩ := p
        have h1 := hl (k, r) List.mem_cons_self
        simp only [List.map_cons, ih (fun q hq => hl q (List.mem_cons_of_mem _ hq))]
        congr 2
        cases r with
        | mk arr own stale =>
          cases stale with
          | true => rfl
          | false =>
            simp only at h1
            cases arr <;> first | rfl | exact absurd (h1 rfl) (by decide)
    exact key st.nss h
  simp only [runRehydrate, this]

/-- `rehydrate_invisible_everywhere`: a Context that went through `__getstate__`/`__setstate__`
    evaluates EVERY `!py` expression to the same result, with the same effect on the heap, as the
    original object would have (strengthens `rehydrate_invisible` from name reads to all expressions)
    — PROVIDED no function / generator object made by an earlier `!py` evaluation on the original
    object is still alive (`NoLiveEvalNs`). (Restated: the version without the proviso that stood here
    while calls of closures of earlier runs were outside the model is FALSE — such an object keeps
    chaining to the OLD Context object, which the session no longer updates; the model answers
    `outOfDomain` for it, see the example below and `deferred_scope_resolves`.) -/
theorem rehydrate_invisible_everywhere (fuel : Nat) (st : St) (e : Expr) (hno : NoLiveEvalNs st) :
    (runEval false fuel (runRehydrate st) e).1 = (runEval false fuel st e).1 ∧
    (runEval false fuel (runRehydrate st) e).2 = { (runEval false fuel st e).2 with hidden := ownInit } := by
  rw [runRehydrate_of_noLiveEvalNs st hno]
  have h := eval_ignores_namespace_object fuel st e ownInit
  rw [h]
  exact ⟨rfl, rfl⟩

example : NoLiveEvalNs exSt ∧
    (runEval false 30 (runRehydrate exSt) exExpr).1 = (runEval false 30 exSt exExpr).1 := by
  refine ⟨(by intro p hp; cases hp), (by decide +kernel)⟩

/-- Without the proviso: `set: f: !py lambda: a`, then rehydration, then `!py f()` — on the original
    object the call reads the context's `a`; after rehydration the lambda's namespace object chains to
    the object left behind: outside the modelled domain. -/
example :
    let st1 := (runEvalSet 5 exSt "f" (.lam [] (.name "a"))).2
    (runEval false 9 st1 (.call (.name "f") [])).1 = .ok (.tok .ctx "a") ∧
    (runEval false 9 (runRehydrate st1) (.call (.name "f") [])).1 = .err .outOfDomain ∧
    ¬ NoLiveEvalNs st1 := by
  refine ⟨by decide +kernel, by decide +kernel, ?_⟩
  intro h
  exact absurd (h (0, { arr := .evalFixed, own := ownInit, stale := false }) (by decide +kernel) rfl) (by decide)

/-! ### 5. context keys are variables in every scope -/

/-- `eval_one_namespace`: under the arrangement now, in EVERY scope (`sc`: module level, inside any
    nesting of lambdas / generator expressions / inlined comprehensions — any frame chain, any heap)
    a read of a name `x` that no enclosing local scope declares (`chainLoad` misses, or finds `x`
    declared `global`) resolves through the same layers in the same order: what the SAME expression
    bound so far (own dict of the throw-away namespace; `__builtins__` at the start), the context,
    the imports, the builtins — plain Python's rule for a global variable. `hkind`: the scope is not
    directly a class body (those exist only in py blocks). -/
theorem eval_one_namespace (sc : Scope) (st : St) (x : String)
    (hchain : chainLoad st.heap x sc.chain = .miss ∨ chainLoad st.heap x sc.chain = .declGlobal)
    (hkind : ∀ r, sc.kind ≠ .cls r) :
    load .evalFixed sc st x =
      optRes (orElse (st.own.get? x) (orElse (st.ctx.get? x)
        (orElse (st.imps.get? x) (st.bi.get? x)))) := by
  rw [← loadGlobal_evalFixed]
  rcases hchain with h | h
  · cases hk : sc.kind with
    | module =>
      rw [load_of_miss_module _ _ _ _ h hk, loadName_evalFixed]
      split <;> rfl
    | func => rw [load_of_miss_func _ _ _ _ h hk]
    | cls r => exact absurd hk (hkind r)
  · rw [load_of_declGlobal _ _ _ _ h]

example : load .evalFixed { kind := .func, chain := [], explicit := [] }
      (exSt.setOwn [("a", .cst 5)]) "a" = .ok (.cst 5) ∧
    load .evalFixed { kind := .module, chain := [], explicit := [] } exSt "a" = .ok (.tok .ctx "a") := by
  decide +kernel

/-- `eval_reads_context_everywhere`: under the `!py` arrangement now (`old = false`) and the one
    before 62901c4 (`old = true`), in EVERY scope, a read of a context key `x` yields the context's
    value, provided no enclosing local scope declares `x`. Imports and builtins of the same name do
    not matter. Side conditions: `hkind` — the scope is not directly a class body; `hown` — the
    SAME expression has not itself bound `x` with an assignment expression earlier in this
    evaluation (then `own_binding_shadows_everywhere` applies: plain Python's shadowing). At the
    start of an evaluation the own dict is `{__builtins__}`, so `hown` holds for every other name. -/
theorem eval_reads_context_everywhere (old : Bool) (sc : Scope) (st : St) (x : String) (v : V)
    (hchain : chainLoad st.heap x sc.chain = .miss ∨ chainLoad st.heap x sc.chain = .declGlobal)
    (hkind : ∀ r, sc.kind ≠ .cls r)
    (hown : old = false → st.own.get? x = Option.none)
    (hctx : st.ctx.get? x = some v) :
    load (if old then .evalOld else .evalFixed) sc st x = .ok v := by
  cases old with
  | false =>
    simp only [Bool.false_eq_true, if_false]
    rw [eval_one_namespace sc st x hchain hkind, hown rfl, hctx]; rfl
  | true =>
    simp only [if_true]
    have hg : loadGlobal .evalOld st x = some v := by
      simp [loadGlobal, globalsGetItem, hctx, orElse]
    rcases hchain with h | h
    · cases hk : sc.kind with
      | module =>
        rw [load_of_miss_module _ _ _ _ h hk]
        split
        · rw [hg]; rfl
        · simp [loadName, localsGetItem, hctx, orElse, optRes]
      | func => rw [load_of_miss_func _ _ _ _ h hk, hg]; rfl
      | cls r => exact absurd hk (hkind r)
    · rw [load_of_declGlobal _ _ _ _ h, hg]; rfl

/-- `own_binding_shadows_everywhere`: what an assignment expression of the SAME `!py` expression
    bound (at top level or inside a comprehension: both go to the own dict of the throw-away
    namespace, see `walrus_binds_own_dict`) is what every later read of that name in this evaluation
    yields, in EVERY scope — in front of a context key, an import, a builtin of the same name. That
    is plain Python's rule for `(n := …)` on a global; the context itself keeps its binding
    (`eval_frame`). -/
theorem own_binding_shadows_everywhere (sc : Scope) (st : St) (x : String) (w : V)
    (hchain : chainLoad st.heap x sc.chain = .miss ∨ chainLoad st.heap x sc.chain = .declGlobal)
    (hkind : ∀ r, sc.kind ≠ .cls r)
    (hown : st.own.get? x = some w) :
    load .evalFixed sc st x = .ok w := by
  rw [eval_one_namespace sc st x hchain hkind, hown]; rfl

/-- `walrus_binds_own_dict`: an assignment expression whose target no enclosing FUNCTION scope
    owns (module level, or inside comprehensions at module level — `chainStore` skips comprehension
    frames; or a `global` declaration) binds in the own dict of the throw-away namespace, replaces
    an earlier such binding, and touches nothing else. -/
theorem walrus_binds_own_dict (sc : Scope) (st : St) (x : String) (v : V)
    (hchain : chainStore st.heap x sc.chain = .default ∨ chainStore st.heap x sc.chain = .global)
    (hkind : ∀ r, sc.kind ≠ .cls r) :
    store .evalFixed sc st x v = st.setOwn (st.own.set x v) ∧
    (store .evalFixed sc st x v).own.get? x = some v ∧
    (store .evalFixed sc st x v).ctx = st.ctx := by
  have h : store .evalFixed sc st x v = st.setOwn (st.own.set x v) := by
    unfold PyNs.store
    rcases hchain with h | h
    · rw [h]
      cases hk : sc.kind with
      | module => simp only []; split <;> rfl
      | func => rfl
      | cls r => exact absurd hk (hkind r)
    · rw [h]; rfl
  rw [h]
  exact ⟨rfl, by rw [St.own_setOwn]; exact Env.get?_set_same _ _ _, rfl⟩

/-- `n` is a context key: `[n for i in T if (n := i)]` reads back what it bound (1, 2), not the
    context's `n`; `([(n := i) for i in T], n, (lambda: n)())` sees the last binding at top level
    and inside the lambda; the context's `n` is untouched, and the next evaluation reads it again. -/
example :
    let st : St := { exSt with ctx := exSt.ctx ++ [("n", .tok .ctx "n")] }
    let e1 : Expr := .comp false (.name "n") [("i", .name "T", [.walrus "n" (.name "i")])]
    let e2 : Expr := .tuple [.comp false (.walrus "n" (.name "i")) [("i", .name "T", [])], .name "n",
                             .call (.lam [] (.name "n")) []]
    seqItems (runEval false 30 st e1).2.heap (.ref 3) = some [.cst 1, .cst 2] ∧
    (runEval false 30 st e2).1 = .ok (.ref 6) ∧
    (seqItems (runEval false 30 st e2).2.heap (.ref 6)).map (·.drop 1) = some [.cst 2, .cst 2] ∧
    (runEval false 30 st e2).2.ctx = st.ctx ∧
    (runEval false 30 (runEval false 30 st e2).2 (.name "n")).1 = .ok (.tok .ctx "n") := by
  refine ⟨by decide +kernel, by decide +kernel, by decide +kernel, by decide +kernel, by decide +kernel⟩

/-- Non-vacuity on run-time scopes: the read of `a` happens three scopes deep —
    `(lambda p: [*( (lambda: (i, j, a, len))() for i in T for j in T )])(a)` — and, with a shadowing
    parameter, does NOT see the context: `(lambda a: a)(len)`. -/
example : seqItems (runEval false 40 exSt (.call (.lam ["p"] (.comp true (.call (.lam [] (.tuple [.name "i", .name "j", .name "a", .name "len"])) [])
      [("i", .name "T", []), ("j", .name "T", [])])) [.name "a"])).2.heap (.ref 7) =
      some [.cst 1, .cst 1, .tok .ctx "a", .tok .ctx "len"] ∧
    (runEval false 40 exSt (.call (.lam ["a"] (.name "a")) [.name "len"])).1 = .ok (.tok .ctx "len") :=
  ⟨by decide +kernel, by decide +kernel⟩

/-- the hypotheses of the theorem on a scope with two live frames (a function frame declaring `p`
    and a comprehension frame declaring `i`) -/
example :
    let st : St := { exSt with heap := exSt.heap ++
      [.frame { declared := ["p"], globals := [], isComp := false, vars := [("p", .cst 0)] },
       .frame { declared := ["i"], globals := [], isComp := true, vars := [] }] }
    chainLoad st.heap "a" [3, 2] = .miss ∧ chainLoad st.heap "p" [3, 2] = .val (.cst 0) ∧
    load .evalFixed { kind := .func, chain := [3, 2], explicit := [] } st "a" = .ok (.tok .ctx "a") :=
  ⟨by decide +kernel, by decide +kernel, by decide +kernel⟩

/-- `exec_reads_context_everywhere`: the py step's namespace starts as a copy of the context (plus
    `__builtins__`, `save`), so every context key other than those two names reads as the context's
    value in EVERY scope of the block (module level, function bodies, lambdas, comprehensions, class
    bodies) as long as the block's own namespace still binds it to that value (module-level
    assignments of the block rebind the COPY — that is the local shadowing of this arrangement), no
    enclosing local scope declares it, and — directly in a class body — the class namespace does not
    bind it. -/
theorem exec_reads_context_everywhere (sc : Scope) (st : St) (x : String) (v : V)
    (hchain : chainLoad st.heap x sc.chain = .miss ∨ chainLoad st.heap x sc.chain = .declGlobal)
    (hcls : ∀ r, sc.kind = .cls r → clsGet st.heap r x = Option.none)
    (hns : st.own.get? x = some v) :
    load .exec sc st x = .ok v := by
  rcases hchain with h | h
  · cases hk : sc.kind with
    | module =>
      rw [load_of_miss_module _ _ _ _ h hk]
      split <;> simp [loadGlobal, loadName, localsGetItem, globalsGetItem, hns, orElse, optRes]
    | func =>
      rw [load_of_miss_func _ _ _ _ h hk]
      simp [loadGlobal, globalsGetItem, hns, orElse, optRes]
    | cls r =>
      rw [load_of_miss_cls _ _ _ _ r h hk, hcls r hk]
      simp [globalsRaw, hns, orElse, optRes]
  · rw [load_of_declGlobal _ _ _ _ h]
    simp [loadGlobal, globalsGetItem, hns, orElse, optRes]

/-- `py_step_namespace_is_context_copy`: the namespace a py block starts with binds every context
    key (other than the two injected names, which hide context keys of those names — ADR 0001) to
    the very object the context holds. -/
theorem py_step_namespace_is_context_copy (ctx : Env) (x : String)
    (h1 : x ≠ "__builtins__") (h2 : x ≠ "save") :
    (pyStepNs ctx).get? x = ctx.get? x ∧
    (pyStepNs ctx).get? "save" = some saveTok ∧
    (pyStepNs ctx).get? "__builtins__" = some builtinsTok :=
  ⟨pyStepNs_get? ctx x h1 h2, pyStepNs_save ctx, pyStepNs_builtins ctx⟩

/-- in the example block `f`'s body and the lambda inside it read context key `a`; the class body
    reads `len` (context, not builtin) -/
example : (runPyStep 30 exSt exBlock).2.saved.get? "r" = some (.tok .ctx "a") ∧
    clsGet (runPyStep 30 exSt exBlock).2.heap 3 "a" = some (.tok .ctx "len") := by
  decide +kernel

/-! ### 6. in-place mutation of a context value stays visible -/

/-- `inplace_visible`: the context stores a REFERENCE; appending to the list cell behind it changes
    the heap cell, not the context: afterwards the same key holds the same reference and the cell
    has the new item at the end. -/
theorem inplace_visible (st : St) (k : String) (r : Nat) (xs : List V) (w : V)
    (hk : st.ctx.get? k = some (.ref r)) (hr : st.heap[r]? = some (.list xs)) :
    (doAppend st (.ref r) w).ctx = st.ctx ∧
    (doAppend st (.ref r) w).ctx.get? k = some (.ref r) ∧
    (doAppend st (.ref r) w).heap[r]? = some (.list (xs ++ [w])) ∧
    seqItems (doAppend st (.ref r) w).heap (.ref r) = some (xs ++ [w]) := by
  have hlt : r < st.heap.length := by
    rcases Nat.lt_or_ge r st.heap.length with h | h
    · exact h
    · rw [List.getElem?_eq_none h] at hr; cases hr
  have h3 : (doAppend st (.ref r) w).heap[r]? = some (.list (xs ++ [w])) := by
    simp only [doAppend, hr, St.heapSet]
    exact List.getElem?_set_self hlt
  refine ⟨?_, ?_, h3, ?_⟩
  · simp [doAppend, hr, St.heapSet]
  · simp [doAppend, hr, St.heapSet, hk]
  · simp only [seqItems, h3]

example : exSt.ctx.get? "L" = some (.ref 1) ∧ exSt.heap[1]? = some (.list [.cst 7]) := ⟨rfl, rfl⟩

/-- `inplace_visible_py_step`: the py step hands the block a SHALLOW copy of the context
    (`context.copy()`): the statement `k.append(n)` on a context key holding a list returns with the
    context untouched, and the list behind the context's reference longer by `n`, for every starting
    state. -/
theorem inplace_visible_py_step (fuel : Nat) (st : St) (k : String) (r : Nat) (xs : List V) (n : Nat)
    (h1 : k ≠ "__builtins__") (h2 : k ≠ "save")
    (hk : st.ctx.get? k = some (.ref r)) (hr : st.heap[r]? = some (.list xs)) :
    (runPyStep (fuel + 2) st [.expr (.append (.name k) (.const n))]).1 = .ok () ∧
    (runPyStep (fuel + 2) st [.expr (.append (.name k) (.const n))]).2.ctx = st.ctx ∧
    (runPyStep (fuel + 2) st [.expr (.append (.name k) (.const n))]).2.heap =
      st.heap.set r (.list (xs ++ [.cst n])) := by
  simp [runPyStep, execBlock, execStmt, evalExpr, load, chainLoad, blockExplicit, Stmt.explicit,
    Expr.compWalrus, loadName, localsGetItem, pyStepNs_get? _ _ h1 h2, hk, orElse, optRes,
    appendable, hr, doAppend, St.heapSet]

example : seqItems (runPyStep 2 exSt [.expr (.append (.name "L") (.const 9))]).2.heap (.ref 1) =
    some [.cst 7, .cst 9] := by decide +kernel

/-- `inplace_visible_eval`: the same through a `!py` expression: `k.append(n)` mutates the object
    the context holds; the context itself is as before. -/
theorem inplace_visible_eval (fuel : Nat) (st : St) (k : String) (r : Nat) (xs : List V) (n : Nat)
    (h1 : k ≠ "__builtins__")
    (hk : st.ctx.get? k = some (.ref r)) (hr : st.heap[r]? = some (.list xs)) :
    (runEval false (fuel + 2) st (.append (.name k) (.const n))).1 = .ok .none ∧
    (runEval false (fuel + 2) st (.append (.name k) (.const n))).2.ctx = st.ctx ∧
    (runEval false (fuel + 2) st (.append (.name k) (.const n))).2.heap =
      st.heap.set r (.list (xs ++ [.cst n])) := by
  simp [runEval, evalExpr, load, chainLoad, Expr.compWalrus, loadName, localsGetItem, hk, orElse,
    optRes, appendable, hr, doAppend, St.heapSet, ownInit_get?_of_ne k h1]

example : seqItems (runEval false 2 exSt (.append (.name "L") (.const 9))).2.heap (.ref 1) =
    some [.cst 7, .cst 9] := by decide +kernel

/-- `inplace_visible_setitem`: item assignment through a reference (`k[i] = w`, `k.__setitem__(i, w)`):
    the context keeps the same reference, the list behind it has the new item at position `i`. -/
theorem inplace_visible_setitem (st : St) (k : String) (r i : Nat) (xs : List V) (w : V)
    (hk : st.ctx.get? k = some (.ref r)) (hr : st.heap[r]? = some (.list xs)) (hi : i < xs.length) :
    (doSetItem st (.ref r) i w).1 = .ok () ∧
    (doSetItem st (.ref r) i w).2.ctx = st.ctx ∧
    (doSetItem st (.ref r) i w).2.ctx.get? k = some (.ref r) ∧
    seqItems (doSetItem st (.ref r) i w).2.heap (.ref r) = some (xs.set i w) := by
  have hlt : r < st.heap.length := by
    rcases Nat.lt_or_ge r st.heap.length with h | h
    · exact h
    · rw [List.getElem?_eq_none h] at hr; cases hr
  simp [doSetItem, hr, hi, St.heapSet, seqItems, List.getElem?_set_self hlt, hk]

/-- `inplace_visible_iadd`: augmented assignment on a list value (`k += ys`): `list.__iadd__` extends
    the SAME object in place — the value handed back for rebinding is the very reference the context
    holds, the list behind it is longer by the items of `w`, the context is untouched. -/
theorem inplace_visible_iadd (st : St) (k : String) (r r2 : Nat) (xs ys : List V)
    (hk : st.ctx.get? k = some (.ref r)) (hr : st.heap[r]? = some (.list xs))
    (hw : st.heap[r2]? = some (.tuple ys)) :
    (iadd st (.ref r) (.ref r2)).1 = .ok (.ref r) ∧
    (iadd st (.ref r) (.ref r2)).2.ctx = st.ctx ∧
    (iadd st (.ref r) (.ref r2)).2.ctx.get? k = some (.ref r) ∧
    seqItems (iadd st (.ref r) (.ref r2)).2.heap (.ref r) = some (xs ++ ys) := by
  have hlt : r < st.heap.length := by
    rcases Nat.lt_or_ge r st.heap.length with h | h
    · exact h
    · rw [List.getElem?_eq_none h] at hr; cases hr
  simp [iadd, hr, iterable, hw, seqItems, St.heapSet, List.getElem?_set_self hlt, hk]

/-- through a py block: `L[0] = T; L += T; L.__setitem__(1, a)` — the block's copy of `L` is the same
    object the context holds; every one of the three mutations shows through the context's reference,
    the context's own bindings are untouched. -/
example :
    let b : List Stmt := [.setitem (.name "L") 0 (.name "T"), .aug "L" (.name "T"),
                          .expr (.setitem (.name "L") 1 (.name "a"))]
    (runPyStep 20 exSt b).1 = .ok () ∧ (runPyStep 20 exSt b).2.ctx = exSt.ctx ∧
    seqItems (runPyStep 20 exSt b).2.heap (.ref 1) = some [.ref 0, .tok .ctx "a", .cst 2] ∧
    (runPyStep 20 exSt [.setitem (.name "L") 3 (.name "a")]).1 = .err .indexError ∧
    (runPyStep 20 exSt [.setitem (.name "T") 0 (.name "a")]).1 = .err .typeError ∧
    (runEval false 20 exSt (.setitem (.name "T") 0 (.name "a"))).1 = .err .attributeError := by
  decide +kernel

/-- `heap_not_rolled_back`: whatever a block does to heap cells is what the step returns — the step
    drops its namespace dict and nothing else; together with `exec_frame` (unsaved keys keep their
    references) every in-place mutation made by ANY block is visible through the context afterwards. -/
theorem heap_not_rolled_back (fuel : Nat) (st : St) (b : List Stmt) :
    (runPyStep fuel st b).2.heap =
      (execBlock .exec fuel { kind := .module, chain := [], explicit := blockExplicit b } b
        (st.enter .exec (pyStepNs st.ctx))).2.heap := rfl

example : (runPyStep 30 exSt exBlock).2.ctx.get? "L" = some (.ref 1) ∧
    seqItems (runPyStep 30 exSt exBlock).2.heap (.ref 1) = some [.cst 7, .tok .ctx "a"] := by
  decide +kernel

/-! ### 7. deferred nested scopes: a function / generator object made by one run, run LATER

  `foreach: !py (n * scale for n in numbers)` — the step runner pulls the generator after the evaluation
  has returned; `set: f: !py lambda v: v * factor` — a later `!py f(3)` calls the lambda. The object's
  `__globals__` is the namespace object of the evaluation that made it: pypyr has dropped its own
  reference, the object keeps it alive, and its `maps` still are the live `Context` and the live
  imports dict. So the deferred body reads: what its own evaluation bound (`:=`), then the context AS
  IT IS WHEN THE BODY RUNS, then the imports as they are then, then the builtins. -/

/-- `deferred_scope_resolves`: code whose globals is the namespace object `j` of a FINISHED `!py`
    evaluation (`j ≠ st.cur`; the record is an `_EvalNamespace`, not stale), entered from code running
    under ANY arrangement `a`, runs under `.evalFixed` against that object; and there — in every
    scope nesting, whatever the heap has become — a read of a name no enclosing local scope declares
    resolves: the own dict of THAT namespace object (what its evaluation bound itself), then the
    CURRENT context, then the CURRENT imports, then the builtins. -/
theorem deferred_scope_resolves (a : Arr) (st : St) (j : Nat) (rec : NsRec) (sc : Scope) (x : String)
    (h : List Cell)
    (hrec : nsGet st.nss j = some rec) (harr : rec.arr = .evalFixed) (hstale : rec.stale = false)
    (hj : j ≠ st.cur)
    (hchain : chainLoad h x sc.chain = .miss ∨ chainLoad h x sc.chain = .declGlobal)
    (hkind : ∀ r, sc.kind ≠ .cls r) :
    target a st j = some .evalFixed ∧
    load .evalFixed sc { st.setCur j with heap := h } x =
      optRes (orElse (rec.own.get? x) (orElse (st.ctx.get? x) (orElse (st.imps.get? x) (st.bi.get? x)))) := by
  constructor
  · simp [target, hj, hrec, hstale, harr]
  · rw [eval_one_namespace _ _ _ hchain hkind]
    have : ({ st.setCur j with heap := h } : St).own = rec.own := by simp [St.own, St.setCur, hrec]
    rw [this]
    rfl

/-- `deferred_call_runs_in_its_namespace`: what a call does, whoever makes it: the body runs with
    `cur` = the function's own namespace object under that object's arrangement (`target`), and `cur`
    is put back when the call returns or raises. -/
theorem deferred_call_runs_in_its_namespace (a a' : Arr) (fuel : Nat) (ex : List String) (r : Nat)
    (c : Closure) (vs : List V) (st : St)
    (hr : st.heap[r]? = some (.clo c)) (ht : target a st c.ns = some a')
    (hlen : c.params.length = vs.length) :
    callFn a (fuel + 1) ex (.ref r) vs st =
      (match runBody a' fuel { kind := .func, chain := st.heap.length :: c.chain, explicit := ex } c.body
          ((st.setCur c.ns).alloc (.frame { declared := fnDeclared c.params c.globals c.body c.ret,
                                            globals := c.globals, isComp := false,
                                            vars := c.params.zip vs })).2 with
       | (.err er, st2) => (.err er, st2.setCur st.cur)
       | (.ok _, st2) =>
         ((evalExpr a' fuel { kind := .func, chain := st.heap.length :: c.chain, explicit := ex } c.ret st2).1,
          (evalExpr a' fuel { kind := .func, chain := st.heap.length :: c.chain, explicit := ex } c.ret st2).2.setCur
            st.cur)) := by
  simp [callFn, callee, hr, ht, hlen]
  rfl

/-- `deferred_lambda_reads_current_context`: the function object of `lambda: x` made by an earlier
    `!py` evaluation (namespace object `j`), called by ANY later code (a `!py` expression, a py block,
    a function of yet another run): the result is what `x` resolves to NOW — own dict of `j`, current
    context, current imports, builtins; the caller's own namespace object plays no part. -/
theorem deferred_lambda_reads_current_context (a : Arr) (fuel : Nat) (ex : List String) (st : St)
    (r j : Nat) (rec : NsRec) (x : String)
    (hr : st.heap[r]? = some (.clo { params := [], globals := [], body := [], ret := .name x, chain := [], ns := j }))
    (hrec : nsGet st.nss j = some rec) (harr : rec.arr = .evalFixed) (hstale : rec.stale = false)
    (hj : j ≠ st.cur) :
    (callFn a (fuel + 3) ex (.ref r) [] st).1 =
      optRes (orElse (rec.own.get? x) (orElse (st.ctx.get? x) (orElse (st.imps.get? x) (st.bi.get? x)))) ∧
    (callFn a (fuel + 3) ex (.ref r) [] st).2.ctx = st.ctx ∧
    (callFn a (fuel + 3) ex (.ref r) [] st).2.cur = st.cur := by
  have ht : target a st j = some .evalFixed := by simp [target, hj, hrec, hstale, harr]
  rw [deferred_call_runs_in_its_namespace a .evalFixed (fuel + 2) ex r _ [] st hr ht rfl]
  simp only [runBody, evalExpr]
  have hd := (deferred_scope_resolves a st j rec
    { kind := .func, chain := [st.heap.length], explicit := ex } x
    (st.heap ++ [.frame { declared := fnDeclared [] [] [] (.name x), globals := [], isComp := false, vars := [] }])
    hrec harr hstale hj
    (by simp [chainLoad, fnDeclared, bodyAssigned, Expr.assigned]) (by intro r h; cases h)).2
  exact ⟨hd, rfl, rfl⟩

/-- End to end, on the example world: `set: f: !py lambda: (a, math, abs)`; the context's `a` is
    REPLACED; `pyimport` registers `abs` and re-registers `math`; then `!py f()` reads the new `a`, the
    new imports — and after `contextclearall` the same call is a NameError (the same two objects,
    emptied). -/
example :
    let lam : Expr := .lam [] (.tuple [.name "a", .name "math", .name "abs"])
    let st1 := (runEvalSet 9 exSt "f" lam).2
    let st2 := runPyImport (runCtxSet st1 [("a", .tok .ctx "a#1")]) [("abs", .tok .imp "abs"), ("math", .tok .mod "os")]
    (∃ r, (runEval false 9 st1 (.call (.name "f") [])).1 = .ok (.ref r) ∧
      seqItems (runEval false 9 st1 (.call (.name "f") [])).2.heap (.ref r) =
        some [.tok .ctx "a", .tok .mod "math", .tok .bi "abs"]) ∧
    (∃ r, (runEval false 9 st2 (.call (.name "f") [])).1 = .ok (.ref r) ∧
      seqItems (runEval false 9 st2 (.call (.name "f") [])).2.heap (.ref r) =
        some [.tok .ctx "a#1", .tok .mod "os", .tok .imp "abs"]) ∧
    (runEval false 9 st2 (.call (.name "f") [])).2.ctx = st2.ctx ∧
    st2.ctx.get? "f" = some (.ref 2) ∧
    (runEval false 9 (runCtxSet (runClearAll st2) [("f", .ref 2)]) (.call (.name "f") [])).1 = .err .nameError := by
  refine ⟨⟨4, by decide +kernel, by decide +kernel⟩, ⟨4, by decide +kernel, by decide +kernel⟩,
    by decide +kernel, by decide +kernel, by decide +kernel⟩

/-- `deferred_pull_runs_in_its_namespace`: the same for a generator object: `next()` on a suspended
    generator — from `[*g]` in a later expression, from the step runner's `for i in foreach:` — runs its
    body with `cur` = the generator's own namespace object under that object's arrangement, marks the
    generator running meanwhile, and puts `cur` back. -/
theorem deferred_pull_runs_in_its_namespace (a a' : Arr) (fuel : Nat) (r : Nat) (g : GenObj) (st : St)
    (hr : st.heap[r]? = some (.gen g)) (hs : g.status = .suspended) (ht : target a st g.ns = some a') :
    pullGen a (fuel + 1) r st =
      (match genLoop a' fuel { kind := .func, chain := g.chain, explicit := [] } g.frame g.elt g.clauses g.stack
          ((st.setCur g.ns).heapSet r (.gen { g with status := .running })) with
       | (.err er, st1) =>
         (.err er, (st1.setCur st.cur).heapSet r (.gen { g with status := .done, stack := [] }))
       | (.ok (Option.none, _), st1) =>
         (.ok Option.none, (st1.setCur st.cur).heapSet r (.gen { g with status := .done, stack := [] }))
       | (.ok (some w, stack'), st1) =>
         (.ok (some w), (st1.setCur st.cur).heapSet r (.gen { g with status := .suspended, stack := stack' }))) := by
  simp [pullGen, hr, hs, ht]
  rfl

/-- `foreach: !py ((n, a, i) for n in T)` on the example world with `i` absent: the first iterable is
    read when the expression is evaluated, the body at each pull — the first pull cannot read `i`
    (NameError); with `a`, `abs` only: both items arrive, each reading the context at ITS pull (the
    second one sees the `i` the step runner wrote for the first). -/
example :
    (runForeach 20 exSt (.gen (.tuple [.name "n", .name "a", .name "i"]) [("n", .name "T", [])])).1 =
      .err .nameError ∧
    (∃ r1 r2, (runForeach 20 exSt (.gen (.tuple [.name "n", .name "a", .name "abs"]) [("n", .name "T", [])])).1 =
        .ok [.ref r1, .ref r2] ∧
      seqItems (runForeach 20 exSt (.gen (.tuple [.name "n", .name "a", .name "abs"]) [("n", .name "T", [])])).2.heap
        (.ref r1) = some [.cst 1, .tok .ctx "a", .tok .bi "abs"]) ∧
    (∃ r1 r2, (runForeach 20 { exSt with ctx := exSt.ctx ++ [("i", .cst 0)] }
          (.gen (.tuple [.name "n", .name "i"]) [("n", .name "T", [])])).1 = .ok [.ref r1, .ref r2] ∧
      seqItems (runForeach 20 { exSt with ctx := exSt.ctx ++ [("i", .cst 0)] }
          (.gen (.tuple [.name "n", .name "i"]) [("n", .name "T", [])])).2.heap (.ref r2) =
        some [.cst 2, .ref r1]) := by
  refine ⟨by decide +kernel, ⟨4, 5, by decide +kernel, by decide +kernel⟩,
    ⟨4, 5, by decide +kernel, by decide +kernel⟩⟩

/-- A generator kept in the context (`set: g: !py ((n, a) for n in T)`), the context's `a` replaced, then
    drained by a LATER expression: every item carries the new `a`; a second drain finds it exhausted. -/
example :
    let st1 := (runEvalSet 9 exSt "g" (.gen (.tuple [.name "n", .name "a"]) [("n", .name "T", [])])).2
    let st2 := runCtxSet st1 [("a", .tok .ctx "a#1")]
    (∃ r, (runEval false 20 st2 (.comp false (.name "x") [("x", .drain (.name "g"), [])])).1 = .ok (.ref r) ∧
      (seqItems (runEval false 20 st2 (.comp false (.name "x") [("x", .drain (.name "g"), [])])).2.heap (.ref r)).map
        (fun l => l.map (seqItems (runEval false 20 st2 (.comp false (.name "x") [("x", .drain (.name "g"), [])])).2.heap)) =
        some [some [.cst 1, .tok .ctx "a#1"], some [.cst 2, .tok .ctx "a#1"]]) ∧
    (runEval false 20 st2 (.comp false (.name "x") [("x", .drain (.name "g"), [])])).2.ctx = st2.ctx := by
  refine ⟨⟨8, by decide +kernel, by decide +kernel⟩, by decide +kernel⟩

/-- `evalset_frame`: `set: k: !py <e>` changes the context by exactly: key `set` popped, key `k` bound
    to the value (when the evaluation returned); imports, builtins, the per-Context namespace object
    are untouched — whatever the expression is. -/
theorem evalset_frame (fuel : Nat) (st : St) (k : String) (e : Expr) :
    (runEvalSet fuel st k e).2.ctx =
      (match (runEvalSet fuel st k e).1 with
       | .ok v => (st.ctx.erase "set").set k v
       | .err _ => st.ctx.erase "set") ∧
    (runEvalSet fuel st k e).2.imps = st.imps ∧
    (runEvalSet fuel st k e).2.hidden = st.hidden ∧
    (runEvalSet fuel st k e).2.bi = st.bi ∧
    (runEvalSet fuel st k e).2.saved = st.saved := by
  obtain ⟨h1, h2, h3, h4, h5, _⟩ := eval_frame_fields fuel { st with ctx := st.ctx.erase "set" } e
  unfold runEvalSet
  split
  · rename_i er st1 heq
    rw [heq] at h1 h2 h3 h4 h5
    exact ⟨h1, h2, h3, h4, h5⟩
  · rename_i v st1 heq
    rw [heq] at h1 h2 h3 h4 h5
    simp only at h1 h2 h3 h4 h5
    exact ⟨by simp only [h1], h2, h3, h4, h5⟩

/-- The frame of the step runner's loop: the context after it is the context before with key `i`
    set to each item in turn, nothing else. -/
theorem foreachLoop_frame (fuel : Nat) : ∀ (n : Nat) (v : V) (idx : Nat) (acc : List V) (st : St),
    ∃ ws : List V,
      (foreachLoop fuel n v idx acc st).2.ctx = ws.foldl (fun c w => c.set "i" w) st.ctx ∧
      (∀ vs, (foreachLoop fuel n v idx acc st).1 = .ok vs → vs = acc ++ ws) ∧
      (foreachLoop fuel n v idx acc st).2.imps = st.imps ∧
      (foreachLoop fuel n v idx acc st).2.hidden = st.hidden ∧
      (foreachLoop fuel n v idx acc st).2.bi = st.bi ∧
      (foreachLoop fuel n v idx acc st).2.saved = st.saved := by
  intro n
  induction n with
  | zero =>
    intro v idx acc st
    exact ⟨[], rfl, (by intro vs h; cases h), rfl, rfl, rfl, rfl⟩
  | succ n ih =>
    intro v idx acc st
    unfold foreachLoop
    split
    · rename_i r _
      have hp := pullGen_live_rest Arr.live_exec fuel r (st.setCur st.next)
      split
      · rename_i er st1 heq
        rw [heq] at hp
        simp only [St.evalRest, Prod.mk.injEq] at hp
        obtain ⟨p1, p2, p3, p4, p5⟩ := hp
        exact ⟨[], p1, (by intro vs h; cases h), p2, p3, p4, p5⟩
      · rename_i st1 heq
        rw [heq] at hp
        simp only [St.evalRest, Prod.mk.injEq] at hp
        obtain ⟨p1, p2, p3, p4, p5⟩ := hp
        exact ⟨[], p1, (by intro vs h; simp only [R.ok.injEq] at h; simp [h]), p2, p3, p4, p5⟩
      · rename_i w st1 heq
        rw [heq] at hp
        simp only [St.evalRest, Prod.mk.injEq] at hp
        obtain ⟨p1, p2, p3, p4, p5⟩ := hp
        obtain ⟨ws, h1, h2, h3, h4, h5, h6⟩ := ih v (idx + 1) (acc ++ [w]) (runCtxSet (st1.setCur st.cur) [("i", w)])
        refine ⟨w :: ws, ?_, ?_, ?_, ?_, ?_, ?_⟩
        · rw [h1]
          simp only [List.foldl_cons]
          have : (runCtxSet (st1.setCur st.cur) [("i", w)]).ctx = st.ctx.set "i" w := by
            show (st1.ctx.update [("i", w)]) = _
            rw [show st1.ctx = st.ctx from p1]; rfl
          rw [this]
        · intro vs hv; rw [h2 vs hv]; simp
        · rw [h3]; exact p2
        · rw [h4]; exact p3
        · rw [h5]; exact p4
        · rw [h6]; exact p5
    · split
      · exact ⟨[], rfl, (by intro vs h; simp only [R.ok.injEq] at h; simp [h]), rfl, rfl, rfl, rfl⟩
      · rename_i w _
        obtain ⟨ws, h1, h2, h3, h4, h5, h6⟩ := ih v (idx + 1) (acc ++ [w]) (runCtxSet st [("i", w)])
        refine ⟨w :: ws, ?_, ?_, h3, h4, h5, h6⟩
        · rw [h1]; rfl
        · intro vs hv; rw [h2 vs hv]; simp

/-- `foreach_frame`: `foreach: !py <e>` — evaluation, then the loop, generator bodies running at every
    pull — leaves the context as it was except for key `i`, which the STEP RUNNER (not the
    expression) sets to each item in turn: `ws` are the items delivered (all of them when the loop
    finishes); imports, builtins, the per-Context namespace object are untouched. -/
theorem foreach_frame (fuel : Nat) (st : St) (e : Expr) :
    ∃ ws : List V,
      (runForeach fuel st e).2.ctx = ws.foldl (fun c w => c.set "i" w) st.ctx ∧
      (∀ vs, (runForeach fuel st e).1 = .ok vs → vs = ws) ∧
      (runForeach fuel st e).2.imps = st.imps ∧
      (runForeach fuel st e).2.hidden = st.hidden ∧
      (runForeach fuel st e).2.bi = st.bi ∧
      (runForeach fuel st e).2.saved = st.saved := by
  obtain ⟨h1, h2, h3, h4, h5, _⟩ := eval_frame_fields fuel st e
  unfold runForeach
  split
  · rename_i er st1 heq
    rw [heq] at h1 h2 h3 h4 h5
    exact ⟨[], h1, (by intro vs h; cases h), h2, h3, h4, h5⟩
  · rename_i v st1 heq
    rw [heq] at h1 h2 h3 h4 h5
    simp only at h1 h2 h3 h4 h5
    split
    · exact ⟨[], h1, (by intro vs h; cases h), h2, h3, h4, h5⟩
    · obtain ⟨ws, g1, g2, g3, g4, g5, g6⟩ := foreachLoop_frame fuel fuel v 0 [] st1
      refine ⟨ws, by rw [g1, h1], ?_, by rw [g3, h2], by rw [g4, h3], by rw [g5, h4], by rw [g6, h5]⟩
      intro vs hv
      simpa using g2 vs hv

/-- keys other than `i` read after a `foreach` as before it -/
theorem foreach_only_i_changes (fuel : Nat) (st : St) (e : Expr) (k : String) (hk : k ≠ "i") :
    (runForeach fuel st e).2.ctx.get? k = st.ctx.get? k := by
  obtain ⟨ws, h1, _⟩ := foreach_frame fuel st e
  rw [h1]
  have key : ∀ (ws : List V) (c : Env), (ws.foldl (fun c w => c.set "i" w) c).get? k = c.get? k := by
    intro ws
    induction ws with
    | nil => intro c; rfl
    | cons w rest ih =>
      intro c
      simp only [List.foldl_cons]
      rw [ih, Env.get?_set_other _ _ _ _ (Ne.symm hk)]
  exact key ws st.ctx

example : (runForeach 20 exSt (.gen (.tuple [.name "n", .name "a", .name "abs"]) [("n", .name "T", [])])).2.ctx.get? "i" =
      some (.ref 5) ∧
    Env.keys (runForeach 20 exSt (.gen (.tuple [.name "n", .name "a", .name "abs"]) [("n", .name "T", [])])).2.ctx =
      ["a", "len", "T", "L", "i"] := by decide +kernel

/-! ### 8. the namespace object's own methods (`globals().pop('a')` …) stay within its own dict -/

/-- `nsop_own_dict_only`: a call of `pop`, `popitem`, `clear`, `setdefault`, `update`, `__setitem__`,
    `__delitem__`, `__ior__` on the namespace object of the running code changes nothing but the own
    dict of that object (`eval_frame` / `exec_frame` say the same for whole expressions / blocks that
    contain such calls: `nsop` is a constructor of the language they quantify over). -/
theorem nsop_own_dict_only (a : Arr) (st : St) (m : NsMeth) (k : String) (w : V) :
    (nsopApply a st m k w).2.ctx = st.ctx ∧ (nsopApply a st m k w).2.imps = st.imps ∧
    (nsopApply a st m k w).2.hidden = st.hidden ∧ (nsopApply a st m k w).2.heap = st.heap ∧
    (nsopApply a st m k w).2.cur = st.cur := by
  unfold nsopApply
  split <;> exact ⟨rfl, rfl, rfl, rfl, rfl⟩

/-- `ns_pop_of_context_key`: `globals().pop('k')` for a name that is a context key (and not bound by
    the expression itself) is a KeyError and removes nothing — the key stays readable; with a default,
    the default comes back. (Plain Python with a dict would hand out the value and forget the
    variable: this is the one place where the namespace object is visibly not a dict; see section 10.) -/
theorem ns_pop_of_context_key (st : St) (k : String) (w v : V)
    (hown : st.own.get? k = Option.none) (hctx : st.ctx.get? k = some v) :
    (nsopApply .evalFixed st .pop1 k w).1 = .err .keyError ∧
    (nsopApply .evalFixed st .pop2 k w).1 = .ok w ∧
    (nsopApply .evalFixed st .pop1 k w).2.ctx.get? k = some v ∧
    loadGlobal .evalFixed (nsopApply .evalFixed st .pop1 k w).2 k = some v := by
  simp [nsopApply, nsopOwn, hown, hctx, loadGlobal_evalFixed, orElse]

/-- `clear()` then reads: the context, the imports and the builtins are all still there, at top level
    and in a lambda; `pop('a')` on the context key `a` raises KeyError; `update(a=…)` / `__ior__`
    shadow `a` for this evaluation only. The context is untouched throughout. -/
example :
    let e1 : Expr := .tuple [.nsop .clear "" (.const 0), .name "a", .call (.lam [] (.name "abs")) [], .name "math"]
    let e2 : Expr := .nsop .pop1 "a" (.const 0)
    let e3 : Expr := .tuple [.nsop .update "a" (.const 5), .nsop .ior "len" (.const 6), .name "a",
                             .call (.lam [] (.name "len")) []]
    (∃ r, (runEval false 20 exSt e1).1 = .ok (.ref r) ∧
      seqItems (runEval false 20 exSt e1).2.heap (.ref r) =
        some [.none, .tok .ctx "a", .tok .bi "abs", .tok .mod "math"]) ∧
    (runEval false 20 exSt e2).1 = .err .keyError ∧
    (∃ r, (runEval false 20 exSt e3).1 = .ok (.ref r) ∧
      seqItems (runEval false 20 exSt e3).2.heap (.ref r) = some [.none, .none, .cst 5, .cst 6]) ∧
    (runEval false 20 exSt e1).2.ctx = exSt.ctx ∧ (runEval false 20 exSt e3).2.ctx = exSt.ctx ∧
    (runEval false 20 (runEval false 20 exSt e3).2 (.name "a")).1 = .ok (.tok .ctx "a") := by
  refine ⟨⟨4, by decide +kernel, by decide +kernel⟩, by decide +kernel,
    ⟨4, by decide +kernel, by decide +kernel⟩, by decide +kernel, by decide +kernel, by decide +kernel⟩

/-- What `ChainMap`'s own `pop` / `popitem` / `clear` / `__ior__` do (the code before 8754088 /
    633921f inherited them): they act on `maps[0]` — the context. -/
def chainMapMethodOnContext (ctx : Env) (m : NsMeth) (k : String) (w : V) : Env :=
  match m with
  | .pop1 => ctx.erase k
  | .pop2 => ctx.erase k
  | .popitem => (match ctx.reverse with | (k', _) :: _ => ctx.erase k' | [] => ctx)
  | .clear => []
  | .ior => ctx.set k w
  | _ => ctx

/-- `ns_method_leak_pre_fix`: the witnesses of the two repaired defects: with the inherited methods
    `globals().pop('a')` removes the context key, `clear()` empties the context, `__ior__({'zz': 1})`
    adds a key; with the methods as they are now the context is as it was. -/
theorem ns_method_leak_pre_fix :
    (chainMapMethodOnContext exSt.ctx .pop1 "a" .none).get? "a" = Option.none ∧
    chainMapMethodOnContext exSt.ctx .clear "" .none = [] ∧
    (chainMapMethodOnContext exSt.ctx .ior "zz" (.cst 1)).get? "zz" = some (.cst 1) ∧
    (runEval false 5 exSt (.nsop .pop2 "a" (.const 0))).2.ctx = exSt.ctx ∧
    (runEval false 5 exSt (.nsop .clear "" (.const 0))).2.ctx = exSt.ctx ∧
    (runEval false 5 exSt (.nsop .ior "zz" (.const 1))).2.ctx = exSt.ctx := by
  decide +kernel

/-! ### 9. a py block gets the context — not the pyimport names

  The reading of the property taken (ASSUMPTIONS of the check): "names imported through pyimport"
  are for `!py` strings (`Context.get_eval_string` chains them behind the context); `pypyr.steps.py`
  copies the context and nothing else (`globals = context.copy()`), a block imports for itself. -/

/-- `py_step_ignores_pyimport`: in a py block a name that only pyimport binds is a NameError — whatever
    the pyimport namespace holds — at top level and in a function; and what the block does never
    depends on a pyimport name standing in front of a context key (there is none to stand: the
    namespace is built from the context alone, `pyStepNs`). -/
theorem py_step_ignores_pyimport (fuel : Nat) (st : St) (x : String)
    (h1 : x ≠ "__builtins__") (h2 : x ≠ "save")
    (hc : st.ctx.get? x = Option.none) (hb : st.bi.get? x = Option.none) :
    (runPyStep (fuel + 2) st [.expr (.name x)]).1 = .err .nameError ∧
    (runPyStep (fuel + 5) st [.expr (.call (.lam [] (.name x)) [])]).1 = .err .nameError := by
  constructor
  · simp [runPyStep, execBlock, execStmt, evalExpr, load, chainLoad, blockExplicit, Stmt.explicit,
      Expr.compWalrus, loadName, localsGetItem, globalsRaw, pyStepNs_get? _ _ h1 h2, hc, hb, orElse, optRes]
  · have h := lambda_reads_global .exec (fuel + 2) { kind := .module, chain := [], explicit := [] }
      (st.enter .exec (pyStepNs st.ctx)) x rfl
    have hg : loadGlobal .exec (st.enter .exec (pyStepNs st.ctx)) x = Option.none := by
      simp [loadGlobal, globalsGetItem, pyStepNs_get? _ _ h1 h2, hc, hb, orElse]
    rw [hg] at h
    simp only [runPyStep, execBlock, execStmt, blockExplicit, Stmt.explicit, Expr.compWalrus,
      compWalrusL, List.append_nil]
    rcases hres : evalExpr .exec (fuel + 2 + 3) { kind := .module, chain := [], explicit := [] }
      (.call (.lam [] (.name x)) []) (st.enter .exec (pyStepNs st.ctx)) with ⟨r, st1⟩
    rw [hres] at h
    simp only [optRes] at h
    subst h
    rfl

example : exSt.imps.get? "math" = some (.tok .mod "math") ∧
    (runPyStep 9 exSt [.expr (.name "math")]).1 = .err .nameError ∧
    (runPyStep 9 exSt [.expr (.call (.lam [] (.name "math")) [])]).1 = .err .nameError ∧
    (runEval false 9 exSt (.name "math")).1 = .ok (.tok .mod "math") := by decide +kernel

/-! ### 10. "as plain variables": the three layers behave as ONE dict (partial)

  The property's observation point "value of the expression vs plain eval in dict(context)". What plain
  Python does with `eval(src, D)` for one exact dict `D` is the `.exec` arrangement of this model (one
  dict for every module-level and global operation, then builtins). The FULL statement would be

      theorem eval_agrees_with_plain_dict (fuel st e) (he : e has no `nsop`) (hst : no cell of st.heap
          refers to namespace id st.next) :
        (runEval false fuel st e).1 = (evalExpr .exec fuel sc e (st.enter .exec (plainNs st))).1
          ∧ the heaps agree

  (`nsop` must be excluded: `globals().pop('a')` on a context key is where the namespace object is
  visibly not a dict — `ns_pop_of_context_key`.) It needs a nine-way simulation induction over the
  evaluator with the invariant below threaded through every function and through the code of every
  function / generator object the expression makes; NOT done. PROVED here is the core of that
  induction — every primitive by which the evaluator touches a namespace preserves the simulation
  relation `Flat` and yields the same value under it — and that the relation holds at the start. The
  whole-expression agreement is covered by the harness (monitor M3 on every generated `!py`
  expression). -/

/-- The one dict plain Python would use: own entry `__builtins__`, then the context's bindings, then
    the imports (as an association list: the first match wins — `{**imports, **context, **own}`). -/
def plainNs (st : St) : Env := ownInit ++ st.ctx ++ st.imps

/-- The simulation relation: the two states agree on everything but the namespace objects, and the
    plain side's current dict answers every lookup like the three layers of the `!py` side do. -/
def Flat (se sx : St) : Prop :=
  se.heap = sx.heap ∧ se.bi = sx.bi ∧
  ∀ x, sx.own.get? x = orElse (se.own.get? x) (orElse (se.ctx.get? x) (se.imps.get? x))

/-- `eval_agrees_with_plain_dict_partial` (1/3): the relation holds when the evaluation starts. -/
theorem plain_dict_initial (st : St) :
    Flat (st.enter .evalFixed ownInit) (st.enter .exec (plainNs st)) := by
  refine ⟨rfl, rfl, ?_⟩
  intro x
  simp only [St.own_enter, St.enter_ctx, St.enter_imps, plainNs, Env.get?_append, orElse_assoc]

/-- `eval_agrees_with_plain_dict_partial` (2/3): under the relation EVERY name read — any scope, any
    frame chain, locals / cells / `global` declarations / module level / function level — gives the
    same answer on both sides. (Class bodies exist only in py blocks.) -/
theorem plain_dict_load (se sx : St) (sc : Scope) (x : String) (h : Flat se sx)
    (hkind : ∀ r, sc.kind ≠ .cls r) :
    load .evalFixed sc se x = load .exec sc sx x := by
  obtain ⟨hh, hb, hf⟩ := h
  have hg : loadGlobal .evalFixed se x = loadGlobal .exec sx x := by
    rw [loadGlobal_evalFixed]
    simp only [loadGlobal, globalsGetItem, hf x, hb, orElse_assoc]
  have hn : loadName .evalFixed se x = loadName .exec sx x := by
    rw [loadName_evalFixed, hg]
    simp only [loadName, loadGlobal, localsGetItem, globalsGetItem, globalsRaw]
    cases sx.own.get? x <;> rfl
  unfold load
  rw [hh]
  split
  · rfl
  · rfl
  · rw [hg]
  · cases hk : sc.kind with
    | module => simp only [hg, hn]
    | func => simp only [hg]
    | cls r => exact absurd hk (hkind r)

/-- `eval_agrees_with_plain_dict_partial` (3/3): under the relation EVERY binding operation of an
    expression (`:=` at any nesting: into a function's frame, into the namespace) keeps the
    relation. -/
theorem plain_dict_store (se sx : St) (sc : Scope) (x : String) (v : V) (h : Flat se sx)
    (hkind : ∀ r, sc.kind ≠ .cls r) :
    Flat (store .evalFixed sc se x v) (store .exec sc sx x v) := by
  obtain ⟨hh, hb, hf⟩ := h
  have own_step : Flat (se.setOwn (se.own.set x v)) (sx.setOwn (sx.own.set x v)) := by
    refine ⟨hh, hb, ?_⟩
    intro y
    simp only [St.own_setOwn, St.setOwn_ctx, St.setOwn_imps, Env.get?_set, hf y]
    split <;> rfl
  unfold PyNs.store
  rw [hh]
  split
  · rename_i r _
    refine ⟨?_, ?_, ?_⟩
    · simp only [St.frameSet, hh]; split <;> simp [St.heapSet, hh]
    · have e5 : (se.frameSet r x v).bi = se.bi := by simp only [St.frameSet]; split <;> rfl
      have e6 : (sx.frameSet r x v).bi = sx.bi := by simp only [St.frameSet]; split <;> rfl
      rw [e5, e6]; exact hb
    · intro y
      have e1 : (se.frameSet r x v).own = se.own := by simp only [St.frameSet]; split <;> rfl
      have e2 : (sx.frameSet r x v).own = sx.own := by simp only [St.frameSet]; split <;> rfl
      have e3 : (se.frameSet r x v).ctx = se.ctx := by simp only [St.frameSet]; split <;> rfl
      have e4 : (se.frameSet r x v).imps = se.imps := by simp only [St.frameSet]; split <;> rfl
      rw [e1, e2, e3, e4]; exact hf y
  · exact own_step
  · cases hk : sc.kind with
    | module => simp only []; split <;> exact own_step
    | func => exact own_step
    | cls r => exact absurd hk (hkind r)

/-- the three lemmas on the example world: `(x := a)` then a read of `x`, `a`, `math`, `abs` in a
    function scope gives the same four answers with one plain dict -/
example :
    let sc : Scope := { kind := .func, chain := [], explicit := [] }
    let se := store .evalFixed sc (exSt.enter .evalFixed ownInit) "x" (.cst 3)
    let sx := store .exec sc (exSt.enter .exec (plainNs exSt)) "x" (.cst 3)
    (["x", "a", "math", "abs", "nope"].map (load .evalFixed sc se)) =
      (["x", "a", "math", "abs", "nope"].map (load .exec sc sx)) ∧
    load .evalFixed sc se "a" = .ok (.tok .ctx "a") := by decide +kernel

/-! ### 9. `save(...)` called after its block has ended: every CALL writes exactly its own arguments

  A py block can keep its `save` function — directly (`save('save')`) or inside a helper function whose
  body calls it (`def note(t): …; save(count=…)` + `save('note')`) — and later code (`!py note(i)`, a
  decorator, another step) calls it when the block is long over, after any number of context updates,
  key deletions (`contextclear`) and `contextclearall`.  `runSaveCall st k names kvs` is that call for the
  block whose namespace object is `k`.  The property's exception "except for what a py block passes
  explicitly to save(...)" is PER CALL: the call adds / rebinds the keys it was given (`names`, the keys
  of `kvs`) and nothing else — a key an EARLIER call of the same `save` wrote and the pipeline has since
  removed stays removed, one it has rebound stays rebound. -/

/-- `savecall_writes_exactly_its_arguments`: a `save(*names, **kvs)` call that returns has performed
    exactly one `context.update(d ∪ kvs)` where `d` has no key outside `names` and every value of `d` is
    what that name is bound to in the block's namespace object NOW; imports, heap, namespace objects,
    the raw slot, builtins are as they were. For every state (whatever happened since the block ended). -/
theorem savecall_writes_exactly_its_arguments (st st' : St) (k : Nat) (names : List String) (kvs : Env)
    (h : runSaveCall st k names kvs = (.ok (), st')) :
    ∃ (r : NsRec) (d : Env), nsGet st.nss k = some r ∧
      (∀ x ∈ Env.keys d, x ∈ names) ∧
      (∀ x v, Env.get? d x = some v → Env.get? r.own x = some v) ∧
      st'.ctx = st.ctx.update (d.update kvs) ∧
      st'.saved = st.saved ++ d.update kvs ∧
      st'.imps = st.imps ∧ st'.heap = st.heap ∧ st'.nss = st.nss ∧ st'.hidden = st.hidden ∧
      st'.bi = st.bi ∧ st'.cur = st.cur := by
  unfold runSaveCall at h
  split at h
  · rename_i r hr
    split at h
    · split at h
      · rename_i d hd
        simp only [Prod.mk.injEq, true_and] at h
        subst h
        refine ⟨r, d, hr, ?_, ?_, rfl, rfl, rfl, rfl, rfl, rfl, rfl, rfl⟩
        · intro x hx
          rcases saveNames_keys _ _ _ _ hd x hx with h1 | h1
          · simp [Env.keys] at h1
          · exact h1
        · intro x v hx
          rcases saveNames_values _ _ _ _ hd x v hx with h1 | h1
          · simp [Env.get?] at h1
          · exact h1
      · simp at h
    · simp at h
  · simp at h

/-- `savecall_other_keys_untouched`: a key that is not among the call's arguments reads after the call
    as it did before it — in particular a key that was ABSENT (removed by `contextclear` / `contextclearall`
    after an earlier `save` call wrote it) is still absent, and a key that was REBOUND keeps its new
    value. -/
theorem savecall_other_keys_untouched (st st' : St) (k : Nat) (names : List String) (kvs : Env)
    (h : runSaveCall st k names kvs = (.ok (), st')) (x : String) (h1 : x ∉ names) (h2 : x ∉ Env.keys kvs) :
    st'.ctx.get? x = st.ctx.get? x := by
  obtain ⟨r, d, _, hd, _, hc, _⟩ := savecall_writes_exactly_its_arguments st st' k names kvs h
  rw [hc]
  apply Env.get?_update_of_not_mem
  intro hx
  rcases (Env.mem_keys_update d kvs x).mp hx with h3 | h3
  · exact h1 (hd x h3)
  · exact h2 h3

/-- `savecall_keys`: the key list after the call = the old key list (same order, nothing removed)
    followed by new keys, each of which is one of the call's arguments. -/
theorem savecall_keys (st st' : St) (k : Nat) (names : List String) (kvs : Env)
    (h : runSaveCall st k names kvs = (.ok (), st')) :
    Env.keys st.ctx <+: Env.keys st'.ctx ∧
    ∀ x ∈ Env.keys st'.ctx, x ∈ Env.keys st.ctx ∨ x ∈ names ∨ x ∈ Env.keys kvs := by
  obtain ⟨r, d, _, hd, _, hc, _⟩ := savecall_writes_exactly_its_arguments st st' k names kvs h
  rw [hc]
  refine ⟨Env.keys_update_prefix _ _, ?_⟩
  intro x hx
  rcases (Env.mem_keys_update _ _ x).mp hx with h3 | h3
  · exact Or.inl h3
  · rcases (Env.mem_keys_update d kvs x).mp h3 with h4 | h4
    · exact Or.inr (Or.inl (hd x h4))
    · exact Or.inr (Or.inr h4)

/-- `savecall_error_frame`: a call that raises (a positional name the block's namespace does not bind:
    KeyError; outside the domain) has changed nothing. -/
theorem savecall_error_frame (st st' : St) (k : Nat) (names : List String) (kvs : Env) (e : Err)
    (h : runSaveCall st k names kvs = (.err e, st')) : st' = st := by
  unfold runSaveCall at h
  split at h
  · split at h
    · split at h
      · simp at h
      · simp only [Prod.mk.injEq] at h; exact h.2.symm
    · simp only [Prod.mk.injEq] at h; exact h.2.symm
  · simp only [Prod.mk.injEq] at h; exact h.2.symm

theorem ctxDel_get?_of_ne (c : Env) (k x : String) (h : k ≠ x) : (c.erase k).get? x = c.get? x := by
  induction c with
  | nil => rfl
  | cons p rest ih =>
    obtain ⟨k', v⟩ := p
    simp only [Env.erase]
    split
    · rename_i hk; subst hk; rw [ih, Env.get?_cons, if_neg h]
    · rw [Env.get?_cons, Env.get?_cons, ih]

theorem ctxDel_get?_same (c : Env) (k : String) : (c.erase k).get? k = Option.none := by
  induction c with
  | nil => rfl
  | cons p rest ih =>
    obtain ⟨k', v⟩ := p
    simp only [Env.erase]
    split
    · exact ih
    · rename_i hk; rw [Env.get?_cons, if_neg hk, ih]

theorem runCtxDel_get? (st : St) (ks : List String) (x : String) :
    (runCtxDel st ks).ctx.get? x = if x ∈ ks then Option.none else st.ctx.get? x := by
  unfold runCtxDel
  simp only []
  generalize st.ctx = c
  induction ks generalizing c with
  | nil => simp
  | cons k rest ih =>
    simp only [List.foldl_cons, ih, List.mem_cons]
    by_cases hx : x ∈ rest
    · simp [hx]
    · by_cases hk : x = k
      · subst hk; simp [hx, ctxDel_get?_same]
      · simp [hx, hk, ctxDel_get?_of_ne c k x (Ne.symm hk)]

/-- `savecall_cleared_key_stays_cleared`: `contextclear` removes keys (some of which an earlier `save`
    call of block `k` wrote), then the block's `save` is called again with OTHER arguments: the removed keys
    are still absent. (And after `contextclearall` every key outside the call's arguments is absent.) -/
theorem savecall_cleared_key_stays_cleared (st st' : St) (ks : List String) (k : Nat) (names : List String)
    (kvs : Env) (h : runSaveCall (runCtxDel st ks) k names kvs = (.ok (), st'))
    (x : String) (hx : x ∈ ks) (h1 : x ∉ names) (h2 : x ∉ Env.keys kvs) : st'.ctx.get? x = Option.none := by
  rw [savecall_other_keys_untouched _ _ _ _ _ h x h1 h2, runCtxDel_get?, if_pos hx]

theorem savecall_after_clearall (st st' : St) (k : Nat) (names : List String) (kvs : Env)
    (h : runSaveCall (runClearAll st) k names kvs = (.ok (), st'))
    (x : String) (h1 : x ∉ names) (h2 : x ∉ Env.keys kvs) : st'.ctx.get? x = Option.none := by
  rw [savecall_other_keys_untouched _ _ _ _ _ h x h1 h2]; rfl

/-- `savecall_rebound_key_stays_rebound`: a later step rebinds a key (`pypyr.steps.set`), then the block's
    `save` is called with other arguments: the key keeps the later step's value. -/
theorem savecall_rebound_key_stays_rebound (st st' : St) (x : String) (v : V) (k : Nat) (names : List String)
    (kvs : Env) (h : runSaveCall (runCtxSet st [(x, v)]) k names kvs = (.ok (), st'))
    (h1 : x ∉ names) (h2 : x ∉ Env.keys kvs) : st'.ctx.get? x = some v := by
  rw [savecall_other_keys_untouched _ _ _ _ _ h x h1 h2]
  simp [runCtxSet, Env.update, Env.get?_set_same]

/-- ```
    notes = a
    def note(): return notes          # (a helper; its body calling save(count=…) is `runSaveCall`)
    draft = len
    save('note', 'notes', 'draft')
    ``` -/
def exSaveBlock : List Stmt :=
  [.assign "notes" (.name "a"), .def_ "note" [] [] [] (.name "notes"), .assign "draft" (.name "len"),
   .save ["note", "notes", "draft"] []]

/-- the session of the seeded change C14-5 on the example world: the block saves `note`, `notes`, `draft`;
    `contextclear` removes `draft`; `set` rebinds `notes`; then `save(count=7)` is called (namespace object 0):
    `draft` stays removed, `notes` stays rebound, `count` is the one key added — the hypotheses of the
    theorems above are satisfiable. -/
example :
    let st1 := (runPyStep 30 exSt exSaveBlock).2
    let st2 := runCtxSet (runCtxDel st1 ["draft"]) [("notes", .cst 1)]
    (runSaveCall st2 0 [] [("count", .cst 7)]).1 = .ok () ∧
    (runSaveCall st2 0 [] [("count", .cst 7)]).2.ctx =
      exSt.ctx ++ [("note", .ref 2), ("notes", .cst 1), ("count", .cst 7)] ∧
    (runSaveCall st2 0 ["nope"] []).1 = .err .keyError ∧
    (runSaveCall st2 5 [] []).1 = .err .outOfDomain := by decide +kernel

/-- `hoisted_save_dict_counterexample`: the same session against the counter-model in which the dict is
    made once per `get_save` (`runSaveCallHoisted`, `acc` = what the block's own `save('note', 'notes',
    'draft')` left in it): the later `save(count=7)` brings `draft` back and resets `notes` — keys that were
    NOT passed to that call. -/
theorem hoisted_save_dict_counterexample :
    let st1 := (runPyStep 30 exSt exSaveBlock).2
    let st2 := runCtxSet (runCtxDel st1 ["draft"]) [("notes", .cst 1)]
    let acc : Env := [("note", .ref 2), ("notes", .tok .ctx "a"), ("draft", .tok .ctx "len")]
    (runSaveCallHoisted st2 acc 0 [] [("count", .cst 7)]).2.1.ctx.get? "draft" = some (.tok .ctx "len") ∧
    (runSaveCallHoisted st2 acc 0 [] [("count", .cst 7)]).2.1.ctx.get? "notes" = some (.tok .ctx "a") ∧
    (runSaveCall st2 0 [] [("count", .cst 7)]).2.ctx.get? "draft" = Option.none ∧
    (runSaveCall st2 0 [] [("count", .cst 7)]).2.ctx.get? "notes" = some (.cst 1) := by decide +kernel

/-! ### 11. `save(k=v)` binds THE OBJECT it was given — identity and type, whatever the key held before

  `context.update(d)` stores references: after a `save` call that returns, every key it was given holds the
  very `V` passed (for `.ref r` the same heap object — not a copy, not the equal object the key held before;
  values of another type that compare equal in Python are different `V`s).  No hypothesis on the previous
  binding of the key: absent, identical, equal-but-distinct, unequal — all the same.  Hence an in-place
  change of the saved object AFTER the save shows through the context key, and one of the object the key held
  before does not. -/

/-- `dosave_binds_the_very_object`: `context.update(d)` — a key reads the LAST binding `d` has for it
    (`d` is a dict: built by `Env.set`, one binding per key), for every context before. -/
theorem dosave_binds_the_very_object (st : St) (d : Env) (k : String) (v : V)
    (h : Env.get? d.reverse k = some v) : (doSave st d).ctx.get? k = some v := by
  simp only [doSave]
  rw [Env.get?_update, h]; rfl

/-- `Env.update` from any start: the last binding of the update list wins. -/
theorem update_binds_last (c kvs : Env) (k : String) (v : V) (h : Env.get? kvs.reverse k = some v) :
    Env.get? (c.update kvs) k = some v := by
  rw [Env.get?_update, h]; rfl

/-- an `Env` with one binding per key reads the same from either end. -/
theorem get?_reverse_of_nodup (c : Env) (k : String) (h : (Env.keys c).Nodup) :
    Env.get? c.reverse k = Env.get? c k := by
  induction c with
  | nil => rfl
  | cons p rest ih =>
    obtain ⟨k', v'⟩ := p
    simp only [Env.keys, List.map_cons, List.nodup_cons] at h
    rw [List.reverse_cons, Env.get?_append, ih h.2]
    simp only [Env.get?_cons, Env.get?_nil]
    by_cases hk : k' = k
    · subst hk
      have : Env.get? rest k' = Option.none := (Env.get?_eq_none_iff rest k').2 h.1
      simp [this, orElse]
    · simp only [if_neg hk]
      cases hr : Env.get? rest k <;> rfl

theorem nodup_keys_set (c : Env) (k : String) (v : V) (h : (Env.keys c).Nodup) : (Env.keys (c.set k v)).Nodup := by
  rw [Env.keys_set]
  split
  · exact h
  · rename_i hk
    exact List.nodup_append.2 ⟨h, by simp, by intro a ha b hb; simp at hb; subst hb; intro hab; subst hab; exact hk ha⟩

theorem nodup_keys_update (c kvs : Env) (h : (Env.keys c).Nodup) : (Env.keys (c.update kvs)).Nodup := by
  induction kvs generalizing c with
  | nil => exact h
  | cons p rest ih => rw [Env.update_cons]; exact ih _ (nodup_keys_set c p.1 p.2 h)

theorem saveNames_nodup (ns : Env) (names : List String) (d0 d : Env) (h : saveNames ns names d0 = some d)
    (h0 : (Env.keys d0).Nodup) : (Env.keys d).Nodup := by
  induction names generalizing d0 with
  | nil => simp only [saveNames, Option.some.injEq] at h; subst h; exact h0
  | cons n rest ih =>
    simp only [saveNames] at h
    split at h
    · exact ih _ h (nodup_keys_set d0 n _ h0)
    · cases h

/-- every name handed to `save` positionally ends up in the dict it builds. -/
theorem saveNames_mem (ns : Env) (names : List String) (d0 d : Env) (h : saveNames ns names d0 = some d)
    (x : String) (hx : x ∈ Env.keys d0 ∨ x ∈ names) : x ∈ Env.keys d := by
  induction names generalizing d0 with
  | nil =>
    simp only [saveNames, Option.some.injEq] at h; subst h
    rcases hx with hx | hx
    · exact hx
    · cases hx
  | cons n rest ih =>
    simp only [saveNames] at h
    split at h
    · rename_i v hv
      apply ih _ h
      rcases hx with hx | hx
      · exact Or.inl ((Env.mem_keys_set d0 n x v).2 (Or.inl hx))
      · rcases List.mem_cons.1 hx with hx | hx
        · exact Or.inl ((Env.mem_keys_set d0 n x v).2 (Or.inr hx))
        · exact Or.inr hx
    · cases h

/-- `savecall_binds_the_very_object`: after a `save(*names, **kvs)` call that returns — whatever each key held
    before the call (nothing, the identical object, an equal but distinct one, something else) —
    (1) every keyword key holds THE value passed for it (the last one, were a key given twice), and
    (2) every positional name that is not also a keyword holds THE object the block's namespace binds to it. -/
theorem savecall_binds_the_very_object (st st' : St) (k : Nat) (names : List String) (kvs : Env)
    (h : runSaveCall st k names kvs = (.ok (), st')) :
    (∀ x v, Env.get? kvs.reverse x = some v → st'.ctx.get? x = some v) ∧
    (∀ x, x ∈ names → x ∉ Env.keys kvs →
      ∃ r v, nsGet st.nss k = some r ∧ r.own.get? x = some v ∧ st'.ctx.get? x = some v) := by
  unfold runSaveCall at h
  split at h
  · rename_i r hr
    split at h
    · split at h
      · rename_i d hd
        simp only [Prod.mk.injEq, true_and] at h
        subst h
        have hnd : (Env.keys (d.update kvs)).Nodup :=
          nodup_keys_update d kvs (saveNames_nodup _ _ _ _ hd (by simp [Env.keys]))
        constructor
        · intro x v hx
          apply dosave_binds_the_very_object
          rw [get?_reverse_of_nodup _ _ hnd]
          exact update_binds_last d kvs x v hx
        · intro x hx hnk
          have hmem : x ∈ Env.keys d := saveNames_mem _ _ _ _ hd x (Or.inr hx)
          cases hv : Env.get? d x with
          | none => exact absurd hmem ((Env.get?_eq_none_iff d x).1 hv)
          | some v =>
            refine ⟨r, v, hr, ?_, ?_⟩
            · rcases saveNames_values _ _ _ _ hd x v hv with h1 | h1
              · simp [Env.get?] at h1
              · exact h1
            · apply dosave_binds_the_very_object
              rw [get?_reverse_of_nodup _ _ hnd, Env.get?_update_of_not_mem d kvs x hnk]
              exact hv
      · simp at h
    · simp at h
  · simp at h

/-- the hypotheses are satisfiable: a block's namespace binds `t` to a FRESH list equal to the one context
    key `L` holds; `save('t', L=<that list>)` — `L` then holds the fresh object `.ref 2`, not `.ref 1`. -/
def exSaveSt : St :=
  { exSt with heap := exSt.heap ++ [.list [.cst 7]]
              nss := [(0, { arr := .exec, own := [("t", .ref 2), ("L", .ref 1)], stale := false })]
              next := 1 }

example : ∃ st', runSaveCall exSaveSt 0 ["t"] [("L", .ref 2)] = (.ok (), st') ∧
    exSaveSt.ctx.get? "L" = some (.ref 1) ∧ pyEqV exSaveSt.heap (.ref 1) (.ref 2) = true ∧
    st'.ctx.get? "L" = some (.ref 2) ∧ st'.ctx.get? "t" = some (.ref 2) :=
  ⟨_, rfl, by decide +kernel, by decide +kernel, by decide +kernel, by decide +kernel⟩

/-- `save_stmt_binds_the_very_object`: the statement `save(*names, **kws)` inside a py block: every keyword key
    holds afterwards the very value its expression evaluated to (`evalKws` result, last wins) — for every
    state, every previous binding of the key. -/
theorem save_stmt_binds_the_very_object (fuel : Nat) (sc : Scope) (st st' : St) (names : List String)
    (kws : List (String × Expr)) (h : execStmt .exec fuel sc (.save names kws) st = (.ok (), st')) :
    ∃ kvs st1, evalKws .exec fuel sc kws st = (.ok kvs, st1) ∧
      (∀ x v, Env.get? kvs.reverse x = some v → st'.ctx.get? x = some v) ∧
      (∀ x, x ∈ names → x ∉ Env.keys kvs → ∃ v, st1.own.get? x = some v ∧ st'.ctx.get? x = some v) := by
  simp only [execStmt] at h
  split at h
  · cases h
  · split at h
    · cases h
    · split at h
      · cases h
      · rename_i kvs st1 hk
        split at h
        · cases h
        · rename_i d hd
          simp only [Prod.mk.injEq, true_and] at h
          subst h
          have hnd : (Env.keys (d.update kvs)).Nodup :=
            nodup_keys_update d kvs (saveNames_nodup _ _ _ _ hd (by simp [Env.keys]))
          refine ⟨kvs, st1, hk, ?_, ?_⟩
          · intro x v hx
            apply dosave_binds_the_very_object
            rw [get?_reverse_of_nodup _ _ hnd]
            exact update_binds_last d kvs x v hx
          · intro x hx hnk
            have hmem : x ∈ Env.keys d := saveNames_mem _ _ _ _ hd x (Or.inr hx)
            cases hv : Env.get? d x with
            | none => exact absurd hmem ((Env.get?_eq_none_iff d x).1 hv)
            | some v =>
              refine ⟨v, ?_, ?_⟩
              · rcases saveNames_values _ _ _ _ hd x v hv with h1 | h1
                · simp [Env.get?] at h1
                · exact h1
              · apply dosave_binds_the_very_object
                rw [get?_reverse_of_nodup _ _ hnd, Env.get?_update_of_not_mem d kvs x hnk]
                exact hv

/-- `saved_object_mutation_visible`: once a key holds the saved list object, appending to THAT object shows
    through the key; appending to another object `r'` (the equal list the key held before the save) does not
    change what the key reads. -/
theorem saved_object_mutation_visible (st : St) (k : String) (r r' : Nat) (xs ys : List V) (w : V)
    (hk : st.ctx.get? k = some (.ref r)) (hr : st.heap[r]? = some (.list xs))
    (hne : r' ≠ r) (hr' : st.heap[r']? = some (.list ys)) :
    (doAppend st (.ref r) w).ctx.get? k = some (.ref r) ∧
    seqItems (doAppend st (.ref r) w).heap (.ref r) = some (xs ++ [w]) ∧
    (doAppend st (.ref r') w).ctx.get? k = some (.ref r) ∧
    seqItems (doAppend st (.ref r') w).heap (.ref r) = some xs := by
  obtain ⟨_, h2, _, h4⟩ := inplace_visible st k r xs w hk hr
  refine ⟨h2, h4, ?_, ?_⟩
  · simp [doAppend, hr', St.heapSet, hk]
  · have : (doAppend st (.ref r') w).heap[r]? = some (.list xs) := by
      simp only [doAppend, hr', St.heapSet]
      rw [List.getElem?_set_ne hne]; exact hr
    simp only [seqItems, this]

/-- `changed_only_save_skips_equal`: the COUNTER-MODEL ("write only the keys that changed", `eq` any reading
    of `==`): a key whose current value is `eq` to the value passed keeps its CURRENT value — for a distinct
    `v` the explicit save is not carried out. -/
theorem changed_only_save_skips_equal (eq : V → V → Bool) (st : St) (k : String) (w v : V)
    (hk : st.ctx.get? k = some w) (he : eq w v = true) :
    (doSaveChanged eq st [(k, v)]).ctx.get? k = some w ∧ (doSave st [(k, v)]).ctx.get? k = some v := by
  constructor
  · simp [doSaveChanged, doSave, List.filter, hk, he, Env.update_nil]
  · exact dosave_binds_the_very_object st [(k, v)] k v (by simp [Env.get?])

/-- `changed_only_save_counterexample`: context key `L` holds list object 1 = `[7]`; the block saves the
    fresh equal list object 2 for `L` and appends to it.  As the code is, `L` then reads `[7, 9]`; with the
    "only changed keys" save it still holds object 1 and reads `[7]`. -/
theorem changed_only_save_counterexample :
    let st1 := doSave exSaveSt [("L", .ref 2)]
    let st2 := doSaveChanged (pyEqV exSaveSt.heap) exSaveSt [("L", .ref 2)]
    st1.ctx.get? "L" = some (.ref 2) ∧ st2.ctx.get? "L" = some (.ref 1) ∧
    (st1.ctx.get? "L").bind (seqItems (doAppend st1 (.ref 2) (.cst 9)).heap) = some [.cst 7, .cst 9] ∧
    (st2.ctx.get? "L").bind (seqItems (doAppend st2 (.ref 2) (.cst 9)).heap) = some [.cst 7] := by
  decide +kernel

end Pypyr.C14

/- A second block of the same namespace: `Pypyr.PyNs` is not open here (its `Stmt` / `Err` would be
   ambiguous with the ones of the import source language). -/
namespace Pypyr.C14
open Pypyr.PyImportSrc

/-! ## 10. The pyimport source language (`moduleloader.ImportVisitor`, PypyrModel/PyImportSrc.lean)

"names imported through pyimport": which name an import statement binds to which object. The theorems
are about `visitImport` / `visitFrom` / `visitSource` — the visitor as it is, threading its dict — for
every world of modules, every statement, every item list (induction over the list). -/

section ImportSource

/-- example world: package `a` with sub-package `a.b`, module `a.b.c`, module `a.m`, plain module `c`;
    `a.X`, `a.b.Y` plain attributes; `a.al` is module `c` under another name (`import c as al` in a/__init__) -/
def exW : World :=
  { mods := [["a"], ["a", "b"], ["a", "b", "c"], ["a", "m"], ["c"]],
    attrs := [((["a"], "X"), .attr ["a"] "X"), ((["a", "b"], "Y"), .attr ["a", "b"] "Y"),
              ((["a"], "al"), .mod ["c"])] }

/-- `visit_import_is_fold_of_items`: what `visit_Import` leaves in the visitor's dict is the dict before
    with the bindings of the items — each computed from that item ALONE (`bindItem`, no visitor state) —
    assigned in order; it fails exactly when some item alone fails. An item's binding does not depend
    on its neighbours in the statement. -/
theorem visit_import_is_fold_of_items (w : World) (items : List ImportItem) (ns : Ns) :
    visitImport w ns items = (itemBindings w items).map ns.setAll := by
  induction items generalizing ns with
  | nil => rfl
  | cons it rest ih =>
    simp only [visitImport, itemBindings]
    cases hb : bindItem w it with
    | error e => rfl
    | ok b =>
      simp only [ih]
      cases hr : itemBindings w rest with
      | error e => rfl
      | ok bs => rfl

example : visitImport exW [] [⟨["a", "b"], none⟩, ⟨["c"], none⟩, ⟨["a", "m"], some "x"⟩] =
    .ok [("a", .mod ["a"]), ("c", .mod ["c"]), ("x", .mod ["a", "m"])] := by decide +kernel

/-- `import_statement_splits`: `import i1, i2, …` and `import i1; import i2; …` (one statement per item)
    leave the same dict (or fail alike), whatever follows in the source. -/
theorem import_statement_splits (w : World) (items : List ImportItem) (rest : Source) (ns : Ns) :
    visitSource w ns (.imp items :: rest) = visitSource w ns (items.map (fun i => .imp [i]) ++ rest) := by
  induction items generalizing ns with
  | nil => simp [visitSource, visitStmt, visitImport]
  | cons it tl ih =>
    have := ih
    simp only [visitSource, visitStmt, List.map_cons, List.cons_append] at this ⊢
    simp only [visitImport]
    cases hb : bindItem w it with
    | error e => rfl
    | ok b => simp only []; rw [← this]

example : visitSource exW [] [.imp [⟨["a", "b"], none⟩, ⟨["c"], none⟩]] =
    visitSource exW [] [.imp [⟨["a", "b"], none⟩], .imp [⟨["c"], none⟩]] ∧
    visitSource exW [] [.imp [⟨["a", "b"], none⟩, ⟨["c"], none⟩]] = .ok [("a", .mod ["a"]), ("c", .mod ["c"])] := by
  decide +kernel

/-- `from_statement_splits`: `from m import n1, n2, …` = one `from m import n` statement per name. -/
theorem from_statement_splits (w : World) (m : Path) (names : List FromName) (rest : Source) (ns : Ns)
    (hne : names ≠ []) :
    visitSource w ns (.from_ 0 m names :: rest) =
      visitSource w ns (names.map (fun f => .from_ 0 m [f]) ++ rest) := by
  cases hm : importModule w m with
  | error e =>
    cases names with
    | nil => exact absurd rfl hne
    | cons f tl => simp [visitSource, visitStmt, visitFrom, hm]
  | ok o =>
    clear hne
    induction names generalizing ns with
    | nil => simp [visitSource, visitStmt, visitFrom, hm, visitFromLoop]
    | cons f tl ih =>
      have := ih
      simp only [visitSource, visitStmt, visitFrom, hm, List.map_cons, List.cons_append,
        Nat.lt_irrefl, if_false, gt_iff_lt] at this ⊢
      simp only [visitFromLoop]
      cases hb : bindFrom w m f with
      | error e => rfl
      | ok b => simp only []; rw [← this]

/-- `dotted_import_binds_top_package`: `import a.b…` (no asname) binds exactly the name `a`, to the
    top-level package object — provided the whole dotted name is importable; otherwise it fails. -/
theorem dotted_import_binds_top_package (w : World) (a b : String) (r : Path) :
    bindItem w ⟨a :: b :: r, none⟩ =
      (importModule w (a :: b :: r)).map (fun _ => (a, Obj.mod [a])) := by
  simp only [bindItem]
  cases importModule w (a :: b :: r) <;> rfl

/-- `aliased_import_binds_the_module`: `import p as x` binds exactly `x`, to the module `p` itself
    (the sub-module for a dotted `p`, not its top-level package). -/
theorem aliased_import_binds_the_module (w : World) (p : Path) (x n : String) (o : Obj)
    (h : bindItem w ⟨p, some x⟩ = .ok (n, o)) : n = x ∧ o = .mod p := by
  simp only [bindItem, importModule] at h
  split at h
  · cases h
  · rename_i m hm
    split at hm
    · cases hm; cases h; exact ⟨rfl, rfl⟩
    · cases hm

/-- `plain_import_binds_the_module`: `import a` binds `a` to module `a`. -/
theorem plain_import_binds_the_module (w : World) (a n : String) (o : Obj)
    (h : bindItem w ⟨[a], none⟩ = .ok (n, o)) : n = a ∧ o = .mod [a] := by
  simp only [bindItem, importModule] at h
  split at h
  · cases h
  · rename_i m hm
    split at hm
    · cases hm; cases h; exact ⟨rfl, rfl⟩
    · cases hm

example : bindItem exW ⟨["a", "b", "c"], none⟩ = .ok ("a", .mod ["a"]) ∧
    bindItem exW ⟨["a", "b", "c"], some "x"⟩ = .ok ("x", .mod ["a", "b", "c"]) ∧
    bindItem exW ⟨["c"], none⟩ = .ok ("c", .mod ["c"]) ∧
    bindItem exW ⟨["a", "zz"], none⟩ = .error .modNotFound := by decide +kernel

/-- the name of a binding an item makes is the item's `boundName` -/
theorem bindItem_name (w : World) (it : ImportItem) (b : String × Obj) (h : bindItem w it = .ok b) :
    b.1 = it.boundName := by
  obtain ⟨p, asn⟩ := it
  cases asn with
  | some x =>
    simp only [bindItem] at h
    split at h
    · cases h
    · cases h; rfl
  | none =>
    match p with
    | [] => simp [bindItem] at h
    | [a] =>
      simp only [bindItem] at h
      split at h
      · cases h
      · cases h; rfl
    | a :: b' :: r =>
      simp only [bindItem] at h
      split at h
      · cases h
      · cases h; rfl

theorem itemBindings_names (w : World) (items : List ImportItem) (bs : List (String × Obj))
    (h : itemBindings w items = .ok bs) : bs.map (·.1) = items.map ImportItem.boundName := by
  induction items generalizing bs with
  | nil => simp only [itemBindings] at h; cases h; rfl
  | cons it rest ih =>
    simp only [itemBindings] at h
    cases hb : bindItem w it with
    | error e => simp [hb] at h
    | ok b =>
      cases hr : itemBindings w rest with
      | error e => simp [hb, hr] at h
      | ok cs =>
        simp only [hb, hr] at h
        cases h
        simp [ih cs hr, bindItem_name w it b hb]

/-- `import_binds_exactly_its_item_names`: after a successful `import` statement a name is in the dict
    iff it was there before or is the bound name of one of the items (asname, else first component). -/
theorem import_binds_exactly_its_item_names (w : World) (items : List ImportItem) (ns ns' : Ns)
    (h : visitImport w ns items = .ok ns') (n : String) :
    (ns'.get n).isSome ↔ ((ns.get n).isSome ∨ n ∈ items.map ImportItem.boundName) := by
  rw [visit_import_is_fold_of_items] at h
  cases hb : itemBindings w items with
  | error e => simp [hb, Except.map] at h
  | ok bs =>
    simp only [hb, Except.map] at h
    cases h
    rw [Ns.get_setAll, ← itemBindings_names w items bs hb, ← lastBinding_isSome]
    cases lastBinding bs n <;> simp

/-- `import_lookup_is_last_item_binding`: reading name `n` after the statement gives the binding of the
    LAST item that binds `n`; a name no item binds reads as before. -/
theorem import_lookup_is_last_item_binding (w : World) (items : List ImportItem) (ns ns' : Ns)
    (bs : List (String × Obj)) (hb : itemBindings w items = .ok bs)
    (h : visitImport w ns items = .ok ns') (n : String) :
    ns'.get n = match lastBinding bs n with
      | some o => some o
      | none => ns.get n := by
  rw [visit_import_is_fold_of_items, hb] at h
  simp only [Except.map] at h
  cases h
  exact Ns.get_setAll bs ns n

/-- `visit_source_is_fold_of_bindings`: the whole source: the dict is the binding trace of the source
    (statement by statement, item by item, each taken alone) assigned in order. -/
theorem visit_from_is_fold (w : World) (m : Path) (names : List FromName) (ns : Ns) :
    visitFromLoop w m ns names = (fromBindings w m names).map ns.setAll := by
  induction names generalizing ns with
  | nil => rfl
  | cons f rest ih =>
    simp only [visitFromLoop, fromBindings]
    cases hb : bindFrom w m f with
    | error e => rfl
    | ok b =>
      simp only [ih]
      cases hr : fromBindings w m rest <;> rfl

theorem visit_stmt_is_fold (w : World) (s : Stmt) (ns : Ns) :
    visitStmt w ns s = (stmtBindings w s).map ns.setAll := by
  cases s with
  | imp items => exact visit_import_is_fold_of_items w items ns
  | from_ l m names =>
    simp only [visitStmt, visitFrom, stmtBindings]
    split
    · rfl
    · cases importModule w m with
      | error e => rfl
      | ok o => exact visit_from_is_fold w m names ns
  | other => rfl

theorem visit_source_is_fold_of_bindings (w : World) (src : Source) (ns : Ns) :
    visitSource w ns src = (sourceBindings w src).map ns.setAll := by
  induction src generalizing ns with
  | nil => rfl
  | cons s rest ih =>
    simp only [visitSource, sourceBindings, visit_stmt_is_fold]
    cases hs : stmtBindings w s with
    | error e => rfl
    | ok bs =>
      simp only [Except.map, ih]
      cases hr : sourceBindings w rest with
      | error e => rfl
      | ok cs => simp [Ns.setAll_append]

/-- `source_lookup_is_last_binding`: after `get_namespace(source)` a name reads as the LAST binding of
    it anywhere in the source (a later statement / item overrides an earlier one), and is absent iff
    nothing binds it. -/
theorem source_lookup_is_last_binding (w : World) (src : Source) (ns : Ns) (bs : List (String × Obj))
    (hb : sourceBindings w src = .ok bs) (h : getNamespace w src = .ok ns) (n : String) :
    ns.get n = lastBinding bs n := by
  rw [getNamespace, visit_source_is_fold_of_bindings, hb] at h
  simp only [Except.map] at h
  cases h
  rw [Ns.get_setAll]
  cases lastBinding bs n <;> simp [Ns.get]

example : getNamespace exW [.imp [⟨["a", "m"], some "x"⟩, ⟨["c"], none⟩], .other,
      .from_ 0 ["a"] [⟨"X", none⟩, ⟨"b", some "x"⟩, ⟨"al", some "c2"⟩], .imp [⟨["a", "b", "c"], none⟩]] =
    .ok [("x", .mod ["a", "b"]), ("c", .mod ["c"]), ("X", .attr ["a"] "X"), ("c2", .mod ["c"]),
         ("a", .mod ["a"])] := by decide +kernel

/-- `later_step_overrides_earlier`: several pyimport steps on one Context: a name reads as the last
    binding the latest successful step gave it, else as before that step; a failing step changes nothing. -/
theorem later_step_overrides_earlier (w : World) (g : Ns) (src : Source) (n : String) :
    (runStep w g src).1.get n =
      match sourceBindings w src with
      | .error _ => g.get n
      | .ok bs => match lastBinding bs n with
        | some o => some o
        | none => g.get n := by
  simp only [runStep, getNamespace, visit_source_is_fold_of_bindings]
  cases hb : sourceBindings w src with
  | error e => rfl
  | ok bs =>
    have hwf : (Ns.setAll [] bs).WF := Ns.setAll_wf bs [] (by simp [Ns.WF])
    simp only [Except.map]
    rw [Ns.get_setAll, Ns.lastBinding_of_wf _ _ hwf, Ns.get_setAll]
    cases hl : lastBinding bs n with
    | some o => rfl
    | none => simp [Ns.get]

example : runSession exW [] [[.imp [⟨["a", "b"], some "x"⟩]], [.imp [⟨["nope"], none⟩, ⟨["c"], none⟩]],
      [.from_ 0 ["a"] [⟨"X", some "x"⟩], .imp [⟨["c"], none⟩]]] =
    [("x", .attr ["a"] "X"), ("c", .mod ["c"])] := by decide +kernel

/-- `from_import_binds_attribute_else_submodule`: `from m import n [as x]` binds x (else n) to the
    attribute `n` of module m when it has one, else to sub-module `m.n`. -/
theorem from_import_binds_attribute_else_submodule (w : World) (m : Path) (f : FromName) :
    bindFrom w m f = match getAttr w m f.name with
      | some o => .ok (f.boundName, o)
      | none => (importModule w (m ++ [f.name])).map (fun o => (f.boundName, o)) := by
  simp only [bindFrom]
  cases getAttr w m f.name with
  | some o => rfl
  | none => cases importModule w (m ++ [f.name]) <;> rfl

/-- `relative_import_rejected`: any `from .… import …` is a TypeError, nothing is bound. -/
theorem relative_import_rejected (w : World) (ns : Ns) (l : Nat) (m : Path) (names : List FromName)
    (rest : Source) : visitSource w ns (.from_ (l + 1) m names :: rest) = .error .typeError := by
  simp [visitSource, visitStmt, visitFrom]

/-- `star_import_rejected`: in a world where nothing is called `*` (no attribute, no module),
    `from m import *` ends in ModuleNotFoundError (or the error of importing m), never binds. -/
theorem star_import_rejected (w : World) (ns : Ns) (m : Path) (rest : Source)
    (hattr : ∀ e ∈ w.attrs, e.1.2 ≠ "*") (hmod : ∀ p ∈ w.mods, "*" ∉ p) :
    visitSource w ns (.from_ 0 m [⟨"*", none⟩] :: rest) = .error .modNotFound := by
  have hga : getAttr w m "*" = none := by
    simp only [getAttr, Option.map_eq_none_iff, List.find?_eq_none]
    intro e he
    have := hattr e he
    intro heq
    simp at heq
    exact this (by rw [heq])
  have him : importModule w (m ++ ["*"]) = .error .modNotFound := by
    simp only [importModule]
    split
    · rename_i h
      have hall := h.2
      have hmem : (m ++ ["*"]) ∈ prefixes (m ++ ["*"]) := by
        have : ∀ (q : Path), q ≠ [] → q ∈ prefixes q := by
          intro q
          induction q with
          | nil => intro h; exact absurd rfl h
          | cons a r ih =>
            intro _
            cases r with
            | nil => simp [prefixes]
            | cons b r' =>
              simp only [prefixes, List.mem_cons, List.mem_map]
              right
              exact ⟨b :: r', by simpa [prefixes] using ih (by simp), rfl⟩
        exact this _ (by simp)
      have := List.all_eq_true.mp hall _ hmem
      simp only [List.contains_iff_mem] at this
      exact absurd (by simp) (hmod _ this)
    · rfl
  simp only [visitSource, visitStmt, visitFrom, Nat.lt_irrefl, gt_iff_lt, if_false]
  cases hm : importModule w m with
  | error e =>
    -- importing m itself fails: the error is ModuleNotFoundError as well
    cases importModule_error w m e hm
    rfl
  | ok o => simp [visitFromLoop, bindFrom, hga, him]

/-- `sticky_bind_to_differs`: the COUNTER-MODEL with a statement-level `bind_to` (set by a dotted
    un-aliased item, never reset) is a different function: on `import a.b, c` it never binds `c` and
    leaves `a` bound to module c; the visitor as it is binds `a` to package a and `c` to module c. With the
    dotted item last, or aliased, the two agree — the difference needs exactly the mix of the theorem. -/
theorem sticky_bind_to_differs :
    let items : List ImportItem := [⟨["a", "b"], none⟩, ⟨["c"], none⟩]
    visitImport exW [] items = .ok [("a", .mod ["a"]), ("c", .mod ["c"])] ∧
    visitImportSticky exW none [] items = .ok [("a", .mod ["c"])] ∧
    visitImportSticky exW none [] items ≠ visitImport exW [] items ∧
    visitImportSticky exW none [] [⟨["c"], none⟩, ⟨["a", "b"], none⟩] =
      visitImport exW [] [⟨["c"], none⟩, ⟨["a", "b"], none⟩] ∧
    visitImportSticky exW none [] [⟨["a", "b"], some "x"⟩, ⟨["c"], none⟩] =
      visitImport exW [] [⟨["a", "b"], some "x"⟩, ⟨["c"], none⟩] := by decide +kernel

/-- the general form: whenever `a.b…` and `c` are importable and `c ≠ a`, the sticky visitor leaves `c`
    unbound after `import a.b…, c` from an empty dict, the real one binds it to module c. -/
theorem sticky_bind_to_loses_later_name (w : World) (a b c : String) (r : Path) (hca : a ≠ c)
    (h1 : importModule w (a :: b :: r) = .ok (.mod (a :: b :: r))) (h2 : importModule w [c] = .ok (.mod [c])) :
    (visitImportSticky w none [] [⟨a :: b :: r, none⟩, ⟨[c], none⟩]).map (·.get c) = .ok none ∧
    (visitImport w [] [⟨a :: b :: r, none⟩, ⟨[c], none⟩]).map (·.get c) = .ok (some (.mod [c])) := by
  simp [visitImportSticky, visitImport, bindItem, h1, h2, Except.map, Ns.set, Ns.get, hca]

end ImportSource
end Pypyr.C14
