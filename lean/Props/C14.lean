import Props.Lemmas.C14_Inv
namespace Pypyr.C14
open Pypyr.PyNs
theorem placeholder : True := trivial
end Pypyr.C14
