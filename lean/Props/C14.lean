/-
  C14 — `!py` expressions and `pypyr.steps.py` blocks read every context key as a plain variable
  (from every scope nesting, before pyimport names, before builtins) and never add, remove or rebind
  a context key, except for what a py block passes to `save(...)`; in-place mutations of mutable
  context values stay visible.

  Property theorems about the binding-only model `PypyrModel/PyNs.lean`. All of them are for EVERY
  expression / block of the model language, every state (context, imports, builtins, heap — also
  ill-formed heaps), every fuel, and hold whether the evaluation returns or raises (the final state
  is what is constrained). Helper lemmas: `Props/Lemmas/C14_Inv.lean` (invariant principle for the
  six mutual evaluators), `C14_Stmt.lean` (the same for statements/blocks), `C14_Env.lean`
  (`dict.update` facts), `C14_Frame.lean` (the two instances, `load` unfoldings), `C14_Hidden.lean`
  (evaluation commutes with replacing the per-Context namespace object's raw slot).

  What the model is and is not: see the header of `PyNs.lean` — a model of NAME BINDING under
  CPython 3.12's compilation scheme over pypyr's namespace objects; the scheme itself is validated by
  the correspondence harness only.

  `runEval false` is `Context.get_eval_string` as it is NOW (commits 81f45d6 + 2f08756: one throw-away
  `_EvalNamespace` per evaluation, used as globals and locals, own dict → context → imports →
  builtins); `runEval true` is the code before 62901c4 and `runEvalChild` the code in between — both
  kept only for the two pre-fix witnesses of section 2. `runRehydrate` / `runCtxSet` / `runCtxDel` /
  `runClearAll` are the non-Python operations the harness interleaves with evaluations on one Context.
  A function object made by an EARLIER evaluation / py step still carries that run's namespace object
  as its globals, which the model does not keep: calling one is `outOfDomain` (`callee`).
-/
import Props.Lemmas.C14_Frame
import Props.Lemmas.C14_Hidden

namespace Pypyr.C14
open Pypyr.PyNs

/-! ### the world of the non-vacuity examples
  context `{a, len, T: (1, 2), L: [7]}`; pyimport registered `math` and (shadowed) `a`;
  builtins `len`, `abs`. -/
def exSt : St :=
  { ctx := [("a", .tok .ctx "a"), ("len", .tok .ctx "len"), ("T", .ref 0), ("L", .ref 1)]
    imps := [("math", .tok .mod "math"), ("a", .tok .imp "a")]
    hidden := [("__builtins__", builtinsTok)]
    scratch := []
    ns := []
    bi := [("len", .tok .bi "len"), ("abs", .tok .bi "abs")]
    heap := [.tuple [.cst 1, .cst 2], .list [.cst 7]]
    saved := [] }

/-- `((x := a), [(y := i) for i in T if a for j in T], (lambda p: (q := p))(a), L.append(len))` -/
def exExpr : Expr :=
  .tuple [.walrus "x" (.name "a"),
          .comp false (.walrus "y" (.name "i")) [("i", .name "T", [.name "a"]), ("j", .name "T", [])],
          .call (.lam ["p"] (.walrus "q" (.name "p"))) [.name "a"],
          .append (.name "L") (.name "len")]

/-- ```
    x = a
    import os as math
    def f(p): global g; g = p; loc = a; return (lambda: loc)()
    class C: a = len
    r = f(a)
    L.append(r)
    save('r', 'g', 'f', k=C)
    del a
    ``` -/
def exBlock : List Stmt :=
  [.assign "x" (.name "a"),
   .imp "math" (.tok .mod "os"),
   .def_ "f" ["p"] ["g"] [("g", .name "p"), ("loc", .name "a")] (.call (.lam [] (.name "loc")) []),
   .cls "C" [("a", .name "len")],
   .assign "r" (.call (.name "f") [.name "a"]),
   .expr (.append (.name "L") (.name "r")),
   .save ["r", "g", "f"] [("k", .name "C")],
   .del "a"]

/-! ### 1. `!py` cannot touch the context — nor anything else but the heap (`get_eval_string` NOW) -/

/-- `eval_frame`: for the arrangement of `get_eval_string` as it is now
    (`n = _EvalNamespace(ctx, imps); eval(src, n, n)`), for EVERY expression, fuel and state — whether
    the evaluation returns or raises — the WHOLE state afterwards is the state before except for the
    heap: the context (same key list in the same order, same bindings), the pyimport mapping, the raw
    dict slot of the per-Context namespace object (`hidden`: nothing an expression binds outlives
    the evaluation — this is what 81f45d6 + 2f08756 repaired), the builtins, the save log; the
    throw-away namespace is gone. Only heap cells (in-place mutations, new objects) can differ. -/
theorem eval_frame (fuel : Nat) (st : St) (e : Expr) :
    (runEval false fuel st e).2 =
      { st with heap := (runEval false fuel st e).2.heap, scratch := [] } := by
  have h := evalExpr_evalFixed_rest fuel
    { kind := .module, chain := [], explicit := e.compWalrus, base := st.heap.length } e
    { st with scratch := ownInit }
  apply St.ext'
  · simpa only [runEval, Bool.false_eq_true, if_false, St.evalRest] using h
  · rfl
  · rfl

/-- `eval_frame` field by field. -/
theorem eval_frame_fields (fuel : Nat) (st : St) (e : Expr) :
    (runEval false fuel st e).2.ctx = st.ctx ∧
    (runEval false fuel st e).2.imps = st.imps ∧
    (runEval false fuel st e).2.hidden = st.hidden ∧
    (runEval false fuel st e).2.bi = st.bi ∧
    (runEval false fuel st e).2.saved = st.saved ∧
    (runEval false fuel st e).2.ns = st.ns ∧
    (runEval false fuel st e).2.scratch = [] := by
  have h := eval_frame fuel st e
  refine ⟨?_, ?_, ?_, ?_, ?_, ?_, ?_⟩ <;> rw [h]

/-- The example expression runs to completion with three assignment expressions at three different
    nestings; none lands in the context or in the per-Context namespace object; the append is
    visible. -/
example : (runEval false 30 exSt exExpr).2.hidden = [("__builtins__", builtinsTok)] ∧
    (runEval false 30 exSt exExpr).2.ctx = exSt.ctx ∧
    seqItems (runEval false 30 exSt exExpr).2.heap (.ref 1) = some [.cst 7, .tok .ctx "len"] := by
  decide +kernel

/-- `eval_frame_nested`: the same at every scope nesting (inside lambdas, comprehensions, calls of
    closures found in the heap), not only for the top-level entry point: only the throw-away own
    dict and the heap can differ. -/
theorem eval_frame_nested (fuel : Nat) (sc : Scope) (st : St) (e : Expr) :
    (evalExpr .evalFixed fuel sc e st).2.ctx = st.ctx ∧
    (evalExpr .evalFixed fuel sc e st).2.imps = st.imps ∧
    (evalExpr .evalFixed fuel sc e st).2.hidden = st.hidden := by
  have h := evalExpr_evalFixed_rest fuel sc e st
  simp only [St.evalRest, Prod.mk.injEq] at h
  exact ⟨h.1, h.2.1, h.2.2.1⟩

/-- inside a function scope both the module-level `x` and the comprehension's `y` go to the own dict
    of the throw-away namespace -/
example : (evalExpr .evalFixed 30 { kind := .func, chain := [], explicit := [] } exExpr exSt).2.scratch =
    [("x", .tok .ctx "a"), ("y", .cst 2)] ∧
    (evalExpr .evalFixed 30 { kind := .func, chain := [], explicit := [] } exExpr exSt).2.hidden = exSt.hidden := by
  decide +kernel

/-- `eval_session_frame`: any number of evaluations one after the other on the same context (a
    session of `!py` strings) leave context, imports and the per-Context namespace object as they
    were: nothing accumulates from one evaluation to the next. -/
theorem eval_session_frame (fuel : Nat) (es : List Expr) (st : St) :
    (es.foldl (fun s e => (runEval false fuel s e).2) st).ctx = st.ctx ∧
    (es.foldl (fun s e => (runEval false fuel s e).2) st).imps = st.imps ∧
    (es.foldl (fun s e => (runEval false fuel s e).2) st).hidden = st.hidden := by
  induction es generalizing st with
  | nil => exact ⟨rfl, rfl, rfl⟩
  | cons e rest ih =>
    obtain ⟨h1, h2, h3, _⟩ := eval_frame_fields fuel st e
    obtain ⟨i1, i2, i3⟩ := ih (runEval false fuel st e).2
    exact ⟨i1.trans h1, i2.trans h2, i3.trans h3⟩

/-- `(x := a)`, then `[(y := i) for i in T]`, then `x`: the third evaluation is a NameError — the
    first one's binding is gone — and the context is as it was. -/
example : (runEval false 30 ([Expr.walrus "x" (.name "a"),
      .comp false (.walrus "y" (.name "i")) [("i", .name "T", [])]].foldl
        (fun s e => (runEval false 30 s e).2) exSt) (.name "x")).1 = .err .nameError ∧
    (runEval false 30 ([Expr.walrus "x" (.name "a"),
      .comp false (.walrus "y" (.name "i")) [("i", .name "T", [])]].foldl
        (fun s e => (runEval false 30 s e).2) exSt) (.name "y")).1 = .err .nameError := by
  decide +kernel

/-! ### 2. … which the code before commits 62901c4 / 81f45d6 did not guarantee (F6) -/

/-- `walrus_leak_pre_fix`: the witness. With `eval(src, ns)` (locals is globals) the top-level
    assignment expression `(x := 5)` ADDS key `x` to the context; with the arrangement now the
    same expression leaves the context as it was. -/
theorem walrus_leak_pre_fix :
    (runEval true 5 exSt (.walrus "x" (.const 5))).2.ctx = exSt.ctx ++ [("x", .cst 5)] ∧
    (runEval false 5 exSt (.walrus "x" (.const 5))).2.ctx = exSt.ctx := by
  decide +kernel

/-- `walrus_leak_pre_fix_all`: not an accident of the example — before the fix `(x := n)` stored into
    the context for every state, name and constant (adding the key or REBINDING an existing one). -/
theorem walrus_leak_pre_fix_all (fuel : Nat) (st : St) (x : String) (n : Nat) :
    (runEval true (fuel + 2) st (.walrus x (.const n))).2.ctx = st.ctx.set x (.cst n) := by
  simp [runEval, evalExpr, store, chainStore, Expr.compWalrus, storeName]

example : (runEval true 2 exSt (.walrus "a" (.const 5))).2.ctx.get? "a" = some (.cst 5) := by
  decide +kernel

/-- `comp_walrus_leftover_pre_fix`: the second witness (the code of 62901c4 .. 81f45d6^,
    `eval(src, ns, ns.new_child())`). `[(y := i) for i in T]` left `y` behind in the raw dict slot of
    the per-Context namespace object, where a LATER `!py y` found it, and
    `([(y := i) for i in T], y)` could not read its own binding back (NameError); with the arrangement
    now nothing is left, the later `y` is a NameError, and the read-back works. -/
theorem comp_walrus_leftover_pre_fix :
    let e : Expr := .comp false (.walrus "y" (.name "i")) [("i", .name "T", [])]
    (runEvalChild 30 exSt e).2.hidden = [("__builtins__", builtinsTok), ("y", .cst 2)] ∧
    (runEvalChild 30 (runEvalChild 30 exSt e).2 (.name "y")).1 = .ok (.cst 2) ∧
    (runEvalChild 30 exSt (.tuple [e, .name "y"])).1 = .err .nameError ∧
    (runEval false 30 exSt e).2.hidden = [("__builtins__", builtinsTok)] ∧
    (runEval false 30 (runEval false 30 exSt e).2 (.name "y")).1 = .err .nameError ∧
    (∃ r, (runEval false 30 exSt (.tuple [e, .name "y"])).1 = .ok (.ref r) ∧
      (seqItems (runEval false 30 exSt (.tuple [e, .name "y"])).2.heap (.ref r)).map (·.drop 1) =
        some [.cst 2]) := by
  refine ⟨by decide +kernel, by decide +kernel, by decide +kernel, by decide +kernel,
    by decide +kernel, ⟨4, by decide +kernel, by decide +kernel⟩⟩

/-! ### 3. a py block changes the context only through `save` -/

/-- `exec_frame`: for EVERY block, fuel and state — whether the block finishes or raises half way —
    there is a list `log` of `(key, value)` pairs, exactly what the block's `save(...)` calls handed
    to `context.update` (the ghost log `saved` grew by it), such that the context afterwards is the
    context before `dict.update`d with `log`, and every logged key is one the block names literally
    in a `save(...)` (positional name or keyword). Nothing else is touched: pyimport mapping,
    builtins, the `!py` namespace object; the exec namespace dict is dropped. So locals, imports,
    function and class definitions, `__builtins__` and `save` itself reach the context only when
    saved by name. -/
theorem exec_frame (fuel : Nat) (st : St) (b : List Stmt) :
    ∃ log : Env,
      (runPyStep fuel st b).2.saved = st.saved ++ log ∧
      (runPyStep fuel st b).2.ctx = st.ctx.update log ∧
      (∀ k ∈ Env.keys log, k ∈ blockSaveKeys b) ∧
      (runPyStep fuel st b).2.imps = st.imps ∧
      (runPyStep fuel st b).2.bi = st.bi ∧
      (runPyStep fuel st b).2.hidden = st.hidden ∧
      (runPyStep fuel st b).2.scratch = st.scratch ∧
      (runPyStep fuel st b).2.ns = [] := by
  obtain ⟨log, h1, h2, h3, h4, h5, h6, h7⟩ := execBlock_exec_saved fuel
    { kind := .module, chain := [], explicit := blockExplicit b, base := st.heap.length } b
    { st with ns := pyStepNs st.ctx }
  exact ⟨log, h1, h2, h3, h4, h7, h5, h6, rfl⟩

/-- The example block binds `x`, `math`, `f`, `C`, `r`, `g` and deletes its copy of `a`; the context
    gets exactly the four saved keys (after the existing ones) and keeps `a`. -/
example : (runPyStep 30 exSt exBlock).2.ctx =
      exSt.ctx ++ [("r", .tok .ctx "a"), ("g", .tok .ctx "a"), ("f", .ref 2), ("k", .ref 3)] ∧
    (runPyStep 30 exSt exBlock).2.saved =
      [("r", .tok .ctx "a"), ("g", .tok .ctx "a"), ("f", .ref 2), ("k", .ref 3)] ∧
    blockSaveKeys exBlock = ["r", "g", "f", "k"] ∧
    seqItems (runPyStep 30 exSt exBlock).2.heap (.ref 1) = some [.cst 7, .tok .ctx "a"] := by
  decide +kernel

/-- `exec_keys_kept`: no context key is ever removed or moved by a py block: the old key list is a
    prefix of the new one (`del a` in the block deletes the block's copy only). -/
theorem exec_keys_kept (fuel : Nat) (st : St) (b : List Stmt) :
    Env.keys st.ctx <+: Env.keys (runPyStep fuel st b).2.ctx := by
  obtain ⟨log, _, h2, _⟩ := exec_frame fuel st b
  rw [h2]; exact Env.keys_update_prefix _ _

example : (runPyStep 30 exSt [.del "a", .assign "T" (.const 0)]).2.ctx = exSt.ctx := by decide +kernel

/-- `exec_only_saved_keys_change`: a key the block does not name in a `save(...)` reads after the
    block exactly as before it — not added, not removed, not rebound. -/
theorem exec_only_saved_keys_change (fuel : Nat) (st : St) (b : List Stmt) (k : String)
    (hk : k ∉ blockSaveKeys b) : (runPyStep fuel st b).2.ctx.get? k = st.ctx.get? k := by
  obtain ⟨log, _, h2, h3, _⟩ := exec_frame fuel st b
  rw [h2]; exact Env.get?_update_of_not_mem _ _ _ (fun h => hk (h3 k h))

example : "x" ∉ blockSaveKeys exBlock ∧ "math" ∉ blockSaveKeys exBlock ∧ "C" ∉ blockSaveKeys exBlock ∧
    "__builtins__" ∉ blockSaveKeys exBlock ∧ "save" ∉ blockSaveKeys exBlock ∧ "a" ∉ blockSaveKeys exBlock := by
  decide +kernel

/-- `exec_bindings_old_or_saved`: every binding of the context after the block is a binding it had
    before or a pair that a `save(...)` call of the block passed. -/
theorem exec_bindings_old_or_saved (fuel : Nat) (st : St) (b : List Stmt) (k : String) (v : V)
    (h : (runPyStep fuel st b).2.ctx.get? k = some v) :
    st.ctx.get? k = some v ∨
      ∃ log : Env, (runPyStep fuel st b).2.saved = st.saved ++ log ∧ (k, v) ∈ log := by
  obtain ⟨log, h1, h2, _⟩ := exec_frame fuel st b
  rw [h2] at h
  rcases Env.get?_update_cases _ _ _ _ h with h3 | h3
  · exact Or.inl h3
  · exact Or.inr ⟨log, h1, h3⟩

example : (runPyStep 30 exSt exBlock).2.ctx.get? "f" = some (.ref 2) ∧ exSt.ctx.get? "f" = Option.none := by
  decide +kernel

/-- `exec_no_save_no_change`: a block without a `save(...)` statement leaves the context exactly as
    it was. -/
theorem exec_no_save_no_change (fuel : Nat) (st : St) (b : List Stmt) (hb : blockSaveKeys b = []) :
    (runPyStep fuel st b).2.ctx = st.ctx := by
  obtain ⟨log, _, h2, h3, _⟩ := exec_frame fuel st b
  have : log = [] := by
    cases log with
    | nil => rfl
    | cons p rest => exact absurd (h3 p.1 (by simp [Env.keys])) (by simp [hb])
  rw [h2, this]; rfl

example : blockSaveKeys (exBlock.take 6 ++ [.del "a"]) = [] ∧
    (runPyStep 30 exSt (exBlock.take 6 ++ [.del "a"])).2.heap.length = 7 := by decide +kernel

/-- `save_passes_namespace_bindings`: what a successful `save('n1', …)` passes: the context becomes
    the old one updated with a dict whose every entry `(k, v)` has `k` among the names and `v` the
    object `k` is bound to in the block's namespace at that moment. -/
theorem save_passes_namespace_bindings (fuel : Nat) (sc : Scope) (st st' : St) (names : List String)
    (h : execStmt .exec fuel sc (.save names []) st = (.ok (), st')) :
    ∃ d : Env, st' = doSave st d ∧
      ∀ k v, d.get? k = some v → k ∈ names ∧ st.ns.get? k = some v := by
  simp only [execStmt, evalKws] at h
  split at h
  · cases h
  · split at h
    · cases h
    · split at h
      · cases h
      · rename_i d hd
        simp only [Env.update_nil, Prod.mk.injEq, true_and] at h
        refine ⟨d, h.symm, ?_⟩
        intro k v hkv
        constructor
        · have : k ∈ Env.keys d := by
            apply Classical.byContradiction
            intro hn
            rw [(Env.get?_eq_none_iff d k).2 hn] at hkv
            cases hkv
          rcases saveNames_keys _ _ _ _ hd k this with h2 | h2
          · simp [Env.keys] at h2
          · exact h2
        · rcases saveNames_values _ _ _ _ hd k v hkv with h2 | h2
          · simp [Env.get?] at h2
          · exact h2

example : (execStmt .exec 5 { kind := .module, chain := [], explicit := [] } (.save ["a", "T"] [])
    { exSt with ns := pyStepNs exSt.ctx }).2.saved = [("a", .tok .ctx "a"), ("T", .ref 0)] := by
  decide +kernel

/-! ### 4. pyimport names live beside the context, never in it -/

/-- `imports_beside_context`: `pyimport` changes the imports mapping and nothing else (the context
    in particular); and afterwards a `!py` read of ANY name `x` resolves, in this order, to: the
    own dict of the new namespace object (which at the start of an evaluation holds `__builtins__`
    and nothing else); the context's binding; the newly imported binding (the last one for `x`); an
    earlier import; the builtins; else NameError. -/
theorem imports_beside_context (fuel : Nat) (st : St) (bindings : Env) (x : String) :
    (runPyImport st bindings).ctx = st.ctx ∧
    (runPyImport st bindings).bi = st.bi ∧
    (runPyImport st bindings).hidden = st.hidden ∧
    (runPyImport st bindings).heap = st.heap ∧
    (runPyImport st bindings).saved = st.saved ∧
    (runEval false (fuel + 1) (runPyImport st bindings) (.name x)).1 =
      optRes (orElse (ownInit.get? x) (orElse (st.ctx.get? x) (orElse (Env.get? bindings.reverse x)
        (orElse (st.imps.get? x) (st.bi.get? x))))) := by
  refine ⟨rfl, rfl, rfl, rfl, rfl, ?_⟩
  rw [runEval_name]
  simp only [Bool.false_eq_true, if_false, loadName_evalFixed, loadGlobal_evalFixed, runPyImport,
    Env.get?_update, orElse_assoc]

example : (runEval false 1 (runPyImport exSt [("os", .tok .mod "os"), ("abs", .tok .imp "abs")])
      (.name "abs")).1 = .ok (.tok .imp "abs") ∧
    (runEval false 1 (runPyImport exSt [("os", .tok .mod "os")]) (.name "abs")).1 = .ok (.tok .bi "abs") :=
  ⟨rfl, rfl⟩

/-- The same read from inside a lambda: the same layers in the same order (one namespace object for
    globals and locals). -/
theorem imports_beside_context_nested (fuel : Nat) (st : St) (bindings : Env) (x : String) :
    (runEval false (fuel + 4) (runPyImport st bindings) (.call (.lam [] (.name x)) [])).1 =
      optRes (orElse (ownInit.get? x) (orElse (st.ctx.get? x) (orElse (Env.get? bindings.reverse x)
        (orElse (st.imps.get? x) (st.bi.get? x))))) := by
  simp only [runEval, Bool.false_eq_true, if_false]
  rw [lambda_reads_global _ _ _ _ _ rfl (Nat.le_refl _)]
  simp only [loadGlobal_evalFixed, runPyImport, Env.get?_update, orElse_assoc]

example : (runEval false 4 (runPyImport exSt [("os", .tok .mod "os")]) (.call (.lam [] (.name "os")) [])).1 =
    .ok (.tok .mod "os") := rfl

/-- `import_visible`: a name bound by pyimport and not a context key resolves to the imported
    object — at top level and inside a lambda. (`__builtins__` is not importable over: the new
    namespace object's own entry stands first.) -/
theorem import_visible (fuel : Nat) (st : St) (bindings : Env) (x : String) (v : V)
    (hx : x ≠ "__builtins__")
    (hc : st.ctx.get? x = Option.none) (hb : Env.get? bindings.reverse x = some v) :
    (runEval false (fuel + 1) (runPyImport st bindings) (.name x)).1 = .ok v ∧
    (runEval false (fuel + 4) (runPyImport st bindings) (.call (.lam [] (.name x)) [])).1 = .ok v := by
  constructor
  · rw [(imports_beside_context fuel st bindings x).2.2.2.2.2, ownInit_get?_of_ne x hx, hc, hb]; rfl
  · rw [imports_beside_context_nested, ownInit_get?_of_ne x hx, hc, hb]; rfl

example : exSt.ctx.get? "os" = Option.none ∧
    Env.get? [("os", V.tok .mod "os"), ("abs", .tok .imp "abs")].reverse "os" = some (.tok .mod "os") := by
  decide +kernel

/-- `context_shadows_import`: a name that is both a context key and a pyimport name reads as the
    context's value (the import never replaces it) — at top level and inside a lambda. -/
theorem context_shadows_import (fuel : Nat) (st : St) (bindings : Env) (x : String) (v : V)
    (hx : x ≠ "__builtins__") (hc : st.ctx.get? x = some v) :
    (runEval false (fuel + 1) (runPyImport st bindings) (.name x)).1 = .ok v ∧
    (runEval false (fuel + 4) (runPyImport st bindings) (.call (.lam [] (.name x)) [])).1 = .ok v := by
  constructor
  · rw [(imports_beside_context fuel st bindings x).2.2.2.2.2, ownInit_get?_of_ne x hx, hc]; rfl
  · rw [imports_beside_context_nested, ownInit_get?_of_ne x hx, hc]; rfl

example : (runEval false 4 (runPyImport exSt [("len", .tok .imp "len")]) (.call (.lam [] (.name "len")) [])).1 =
    .ok (.tok .ctx "len") := rfl

/-- `builtins_last`: a name that neither the context nor any pyimport binds falls through to the
    builtins, at top level and inside a lambda alike (`__builtins__` itself is answered by the
    namespace object's own entry, in both). -/
theorem builtins_last (fuel : Nat) (st : St) (bindings : Env) (x : String)
    (hc : st.ctx.get? x = Option.none) (hb : Env.get? bindings.reverse x = Option.none)
    (hi : st.imps.get? x = Option.none) :
    (runEval false (fuel + 1) (runPyImport st bindings) (.name x)).1 =
      optRes (orElse (ownInit.get? x) (st.bi.get? x)) ∧
    (runEval false (fuel + 4) (runPyImport st bindings) (.call (.lam [] (.name x)) [])).1 =
      optRes (orElse (ownInit.get? x) (st.bi.get? x)) := by
  constructor
  · rw [(imports_beside_context fuel st bindings x).2.2.2.2.2, hc, hb, hi]; rfl
  · rw [imports_beside_context_nested, hc, hb, hi]; rfl

example : (runEval false 4 (runPyImport exSt [("os", .tok .mod "os")]) (.call (.lam [] (.name "abs")) [])).1 =
      .ok (.tok .bi "abs") ∧
    (runEval false 1 exSt (.name "__builtins__")).1 = .ok builtinsTok ∧
    (runEval false 4 exSt (.call (.lam [] (.name "__builtins__")) [])).1 = .ok builtinsTok ∧
    (runEval false 4 exSt (.call (.lam [] (.name "nope")) [])).1 = .err .nameError :=
  ⟨rfl, rfl, rfl, rfl⟩

/-- `rehydrate_invisible`: a Context that went through `__getstate__`/`__setstate__` (pickle round
    trip, `copy.deepcopy`, `copy.copy`) keeps context, imports, builtins, heap; and a pyimport made
    AFTER the rehydration is read by `!py` exactly as on the original object, at top level and
    inside a lambda (the rebuilt namespace object chains the same two mappings). -/
theorem rehydrate_invisible (fuel : Nat) (st : St) (bindings : Env) (x : String) :
    (runRehydrate st).ctx = st.ctx ∧ (runRehydrate st).imps = st.imps ∧
    (runRehydrate st).bi = st.bi ∧ (runRehydrate st).heap = st.heap ∧
    (runRehydrate st).saved = st.saved ∧
    (runEval false (fuel + 1) (runPyImport (runRehydrate st) bindings) (.name x)).1 =
      (runEval false (fuel + 1) (runPyImport st bindings) (.name x)).1 ∧
    (runEval false (fuel + 4) (runPyImport (runRehydrate st) bindings) (.call (.lam [] (.name x)) [])).1 =
      (runEval false (fuel + 4) (runPyImport st bindings) (.call (.lam [] (.name x)) [])).1 := by
  refine ⟨rfl, rfl, rfl, rfl, rfl, ?_, ?_⟩
  · rw [(imports_beside_context fuel _ bindings x).2.2.2.2.2,
      (imports_beside_context fuel st bindings x).2.2.2.2.2]; rfl
  · rw [imports_beside_context_nested, imports_beside_context_nested]; rfl

example : (runEval false 1 (runPyImport (runRehydrate exSt) [("os", .tok .mod "os")]) (.name "os")).1 =
    .ok (.tok .mod "os") ∧
    (runEval false 1 (runClearAll (runPyImport (runRehydrate exSt) [("os", .tok .mod "os")])) (.name "os")).1 =
    .err .nameError ∧
    (runEval false 1 (runClearAll exSt) (.name "math")).1 = .err .nameError := ⟨rfl, rfl, rfl⟩

/-- `eval_ignores_namespace_object`: for EVERY expression, fuel and state, `get_eval_string` as it is
    now neither reads nor writes the raw dict slot of the per-Context `_pystring_namespace` object:
    the result is the same whatever that slot holds, and so is the final state (with the slot as it
    was put). Whatever an older evaluation (or an older pypyr) left in that object cannot show up in a
    read. -/
theorem eval_ignores_namespace_object (fuel : Nat) (st : St) (e : Expr) (h : Env) :
    runEval false fuel { st with hidden := h } e =
      ((runEval false fuel st e).1, { (runEval false fuel st e).2 with hidden := h }) := by
  have key := (eval_hidden h fuel).1
    { kind := .module, chain := [], explicit := e.compWalrus, base := st.heap.length } e
    { st with scratch := ownInit }
  simp only [runEval, Bool.false_eq_true, if_false]
  change (match evalExpr .evalFixed fuel _ e (St.withHidden h { st with scratch := ownInit }) with
    | (r, st1) => (r, { st1 with scratch := [] })) = _
  rw [key]
  rfl

/-- a stale `y` in the per-Context object (what the code before 81f45d6 left behind) is not readable -/
example : (runEval false 3 { exSt with hidden := exSt.hidden ++ [("y", .cst 2)] } (.name "y")).1 = .err .nameError ∧
    (runEval false 4 { exSt with hidden := exSt.hidden ++ [("y", .cst 2)] } (.call (.lam [] (.name "y")) [])).1 =
      .err .nameError := ⟨rfl, rfl⟩

/-- `rehydrate_invisible_everywhere`: a Context that went through `__getstate__`/`__setstate__`
    evaluates EVERY `!py` expression to the same result, with the same effect on the heap, as the
    original object would have (strengthens `rehydrate_invisible` from name reads to all expressions). -/
theorem rehydrate_invisible_everywhere (fuel : Nat) (st : St) (e : Expr) :
    (runEval false fuel (runRehydrate st) e).1 = (runEval false fuel st e).1 ∧
    (runEval false fuel (runRehydrate st) e).2 = runRehydrate (runEval false fuel st e).2 := by
  have h := eval_ignores_namespace_object fuel st e ownInit
  simp only [runRehydrate]
  rw [h]
  exact ⟨rfl, rfl⟩

example : (runEval false 30 (runRehydrate exSt) exExpr).1 = (runEval false 30 exSt exExpr).1 := by
  decide +kernel

/-! ### 5. context keys are variables in every scope -/

/-- `eval_one_namespace`: under the arrangement now, in EVERY scope (`sc`: module level, inside any
    nesting of lambdas / generator expressions / inlined comprehensions — any frame chain, any heap)
    a read of a name `x` that no enclosing local scope declares (`chainLoad` misses, or finds `x`
    declared `global`) resolves through the same layers in the same order: what the SAME expression
    bound so far (own dict of the throw-away namespace; `__builtins__` at the start), the context,
    the imports, the builtins — plain Python's rule for a global variable. `hkind`: the scope is not
    directly a class body (those exist only in py blocks). -/
theorem eval_one_namespace (sc : Scope) (st : St) (x : String)
    (hchain : chainLoad st.heap x sc.chain = .miss ∨ chainLoad st.heap x sc.chain = .declGlobal)
    (hkind : ∀ r, sc.kind ≠ .cls r) :
    load .evalFixed sc st x =
      optRes (orElse (st.scratch.get? x) (orElse (st.ctx.get? x)
        (orElse (st.imps.get? x) (st.bi.get? x)))) := by
  rw [← loadGlobal_evalFixed]
  rcases hchain with h | h
  · cases hk : sc.kind with
    | module =>
      rw [load_of_miss_module _ _ _ _ h hk, loadName_evalFixed]
      split <;> rfl
    | func => rw [load_of_miss_func _ _ _ _ h hk]
    | cls r => exact absurd hk (hkind r)
  · rw [load_of_declGlobal _ _ _ _ h]

example : load .evalFixed { kind := .func, chain := [], explicit := [] }
      { exSt with scratch := [("a", .cst 5)] } "a" = .ok (.cst 5) ∧
    load .evalFixed { kind := .module, chain := [], explicit := [] } exSt "a" = .ok (.tok .ctx "a") :=
  ⟨rfl, rfl⟩

/-- `eval_reads_context_everywhere`: under the `!py` arrangement now (`old = false`) and the one
    before 62901c4 (`old = true`), in EVERY scope, a read of a context key `x` yields the context's
    value, provided no enclosing local scope declares `x`. Imports and builtins of the same name do
    not matter. Side conditions: `hkind` — the scope is not directly a class body; `hown` — the
    SAME expression has not itself bound `x` with an assignment expression earlier in this
    evaluation (then `own_binding_shadows_everywhere` applies: plain Python's shadowing). At the
    start of an evaluation the own dict is `{__builtins__}`, so `hown` holds for every other name. -/
theorem eval_reads_context_everywhere (old : Bool) (sc : Scope) (st : St) (x : String) (v : V)
    (hchain : chainLoad st.heap x sc.chain = .miss ∨ chainLoad st.heap x sc.chain = .declGlobal)
    (hkind : ∀ r, sc.kind ≠ .cls r)
    (hown : old = false → st.scratch.get? x = Option.none)
    (hctx : st.ctx.get? x = some v) :
    load (if old then .evalOld else .evalFixed) sc st x = .ok v := by
  cases old with
  | false =>
    simp only [Bool.false_eq_true, if_false]
    rw [eval_one_namespace sc st x hchain hkind, hown rfl, hctx]; rfl
  | true =>
    simp only [if_true]
    have hg : loadGlobal .evalOld st x = some v := by
      simp [loadGlobal, globalsGetItem, hctx, orElse]
    rcases hchain with h | h
    · cases hk : sc.kind with
      | module =>
        rw [load_of_miss_module _ _ _ _ h hk]
        split
        · rw [hg]; rfl
        · simp [loadName, localsGetItem, hctx, orElse, optRes]
      | func => rw [load_of_miss_func _ _ _ _ h hk, hg]; rfl
      | cls r => exact absurd hk (hkind r)
    · rw [load_of_declGlobal _ _ _ _ h, hg]; rfl

/-- `own_binding_shadows_everywhere`: what an assignment expression of the SAME `!py` expression
    bound (at top level or inside a comprehension: both go to the own dict of the throw-away
    namespace, see `walrus_binds_own_dict`) is what every later read of that name in this evaluation
    yields, in EVERY scope — in front of a context key, an import, a builtin of the same name. That
    is plain Python's rule for `(n := …)` on a global; the context itself keeps its binding
    (`eval_frame`). -/
theorem own_binding_shadows_everywhere (sc : Scope) (st : St) (x : String) (w : V)
    (hchain : chainLoad st.heap x sc.chain = .miss ∨ chainLoad st.heap x sc.chain = .declGlobal)
    (hkind : ∀ r, sc.kind ≠ .cls r)
    (hown : st.scratch.get? x = some w) :
    load .evalFixed sc st x = .ok w := by
  rw [eval_one_namespace sc st x hchain hkind, hown]; rfl

/-- `walrus_binds_own_dict`: an assignment expression whose target no enclosing FUNCTION scope
    owns (module level, or inside comprehensions at module level — `chainStore` skips comprehension
    frames; or a `global` declaration) binds in the own dict of the throw-away namespace, replaces
    an earlier such binding, and touches nothing else. -/
theorem walrus_binds_own_dict (sc : Scope) (st : St) (x : String) (v : V)
    (hchain : chainStore st.heap x sc.chain = .default ∨ chainStore st.heap x sc.chain = .global)
    (hkind : ∀ r, sc.kind ≠ .cls r) :
    store .evalFixed sc st x v = { st with scratch := st.scratch.set x v } ∧
    (store .evalFixed sc st x v).scratch.get? x = some v ∧
    (store .evalFixed sc st x v).ctx = st.ctx := by
  have h : store .evalFixed sc st x v = { st with scratch := st.scratch.set x v } := by
    unfold PyNs.store
    rcases hchain with h | h
    · rw [h]
      cases hk : sc.kind with
      | module => simp only []; split <;> rfl
      | func => rfl
      | cls r => exact absurd hk (hkind r)
    · rw [h]; rfl
  rw [h]
  exact ⟨rfl, Env.get?_set_same _ _ _, rfl⟩

/-- `n` is a context key: `[n for i in T if (n := i)]` reads back what it bound (1, 2), not the
    context's `n`; `([(n := i) for i in T], n, (lambda: n)())` sees the last binding at top level
    and inside the lambda; the context's `n` is untouched, and the next evaluation reads it again. -/
example :
    let st : St := { exSt with ctx := exSt.ctx ++ [("n", .tok .ctx "n")] }
    let e1 : Expr := .comp false (.name "n") [("i", .name "T", [.walrus "n" (.name "i")])]
    let e2 : Expr := .tuple [.comp false (.walrus "n" (.name "i")) [("i", .name "T", [])], .name "n",
                             .call (.lam [] (.name "n")) []]
    seqItems (runEval false 30 st e1).2.heap (.ref 3) = some [.cst 1, .cst 2] ∧
    (runEval false 30 st e2).1 = .ok (.ref 6) ∧
    (seqItems (runEval false 30 st e2).2.heap (.ref 6)).map (·.drop 1) = some [.cst 2, .cst 2] ∧
    (runEval false 30 st e2).2.ctx = st.ctx ∧
    (runEval false 30 (runEval false 30 st e2).2 (.name "n")).1 = .ok (.tok .ctx "n") := by
  refine ⟨by decide +kernel, by decide +kernel, by decide +kernel, by decide +kernel, by decide +kernel⟩

/-- Non-vacuity on run-time scopes: the read of `a` happens three scopes deep —
    `(lambda p: [*( (lambda: (i, j, a, len))() for i in T for j in T )])(a)` — and, with a shadowing
    parameter, does NOT see the context: `(lambda a: a)(len)`. -/
example : seqItems (runEval false 40 exSt (.call (.lam ["p"] (.comp true (.call (.lam [] (.tuple [.name "i", .name "j", .name "a", .name "len"])) [])
      [("i", .name "T", []), ("j", .name "T", [])])) [.name "a"])).2.heap (.ref 7) =
      some [.cst 1, .cst 1, .tok .ctx "a", .tok .ctx "len"] ∧
    (runEval false 40 exSt (.call (.lam ["a"] (.name "a")) [.name "len"])).1 = .ok (.tok .ctx "len") :=
  ⟨by decide +kernel, rfl⟩

/-- the hypotheses of the theorem on a scope with two live frames (a function frame declaring `p`
    and a comprehension frame declaring `i`) -/
example :
    let st : St := { exSt with heap := exSt.heap ++
      [.frame { declared := ["p"], globals := [], isComp := false, vars := [("p", .cst 0)] },
       .frame { declared := ["i"], globals := [], isComp := true, vars := [] }] }
    chainLoad st.heap "a" [3, 2] = .miss ∧ chainLoad st.heap "p" [3, 2] = .val (.cst 0) ∧
    load .evalFixed { kind := .func, chain := [3, 2], explicit := [] } st "a" = .ok (.tok .ctx "a") :=
  ⟨by decide +kernel, by decide +kernel, rfl⟩

/-- `exec_reads_context_everywhere`: the py step's namespace starts as a copy of the context (plus
    `__builtins__`, `save`), so every context key other than those two names reads as the context's
    value in EVERY scope of the block (module level, function bodies, lambdas, comprehensions, class
    bodies) as long as the block's own namespace still binds it to that value (module-level
    assignments of the block rebind the COPY — that is the local shadowing of this arrangement), no
    enclosing local scope declares it, and — directly in a class body — the class namespace does not
    bind it. -/
theorem exec_reads_context_everywhere (sc : Scope) (st : St) (x : String) (v : V)
    (hchain : chainLoad st.heap x sc.chain = .miss ∨ chainLoad st.heap x sc.chain = .declGlobal)
    (hcls : ∀ r, sc.kind = .cls r → clsGet st.heap r x = Option.none)
    (hns : st.ns.get? x = some v) :
    load .exec sc st x = .ok v := by
  rcases hchain with h | h
  · cases hk : sc.kind with
    | module =>
      rw [load_of_miss_module _ _ _ _ h hk]
      split <;> simp [loadGlobal, loadName, localsGetItem, globalsGetItem, hns, orElse, optRes]
    | func =>
      rw [load_of_miss_func _ _ _ _ h hk]
      simp [loadGlobal, globalsGetItem, hns, orElse, optRes]
    | cls r =>
      rw [load_of_miss_cls _ _ _ _ r h hk, hcls r hk]
      simp [globalsRaw, hns, orElse, optRes]
  · rw [load_of_declGlobal _ _ _ _ h]
    simp [loadGlobal, globalsGetItem, hns, orElse, optRes]

/-- `py_step_namespace_is_context_copy`: the namespace a py block starts with binds every context
    key (other than the two injected names, which hide context keys of those names — ADR 0001) to
    the very object the context holds. -/
theorem py_step_namespace_is_context_copy (ctx : Env) (x : String)
    (h1 : x ≠ "__builtins__") (h2 : x ≠ "save") :
    (pyStepNs ctx).get? x = ctx.get? x ∧
    (pyStepNs ctx).get? "save" = some saveTok ∧
    (pyStepNs ctx).get? "__builtins__" = some builtinsTok :=
  ⟨pyStepNs_get? ctx x h1 h2, pyStepNs_save ctx, pyStepNs_builtins ctx⟩

/-- in the example block `f`'s body and the lambda inside it read context key `a`; the class body
    reads `len` (context, not builtin) -/
example : (runPyStep 30 exSt exBlock).2.saved.get? "r" = some (.tok .ctx "a") ∧
    clsGet (runPyStep 30 exSt exBlock).2.heap 3 "a" = some (.tok .ctx "len") := by
  decide +kernel

/-! ### 6. in-place mutation of a context value stays visible -/

/-- `inplace_visible`: the context stores a REFERENCE; appending to the list cell behind it changes
    the heap cell, not the context: afterwards the same key holds the same reference and the cell
    has the new item at the end. -/
theorem inplace_visible (st : St) (k : String) (r : Nat) (xs : List V) (w : V)
    (hk : st.ctx.get? k = some (.ref r)) (hr : st.heap[r]? = some (.list xs)) :
    (doAppend st (.ref r) w).ctx = st.ctx ∧
    (doAppend st (.ref r) w).ctx.get? k = some (.ref r) ∧
    (doAppend st (.ref r) w).heap[r]? = some (.list (xs ++ [w])) ∧
    seqItems (doAppend st (.ref r) w).heap (.ref r) = some (xs ++ [w]) := by
  have hlt : r < st.heap.length := by
    rcases Nat.lt_or_ge r st.heap.length with h | h
    · exact h
    · rw [List.getElem?_eq_none h] at hr; cases hr
  have h3 : (doAppend st (.ref r) w).heap[r]? = some (.list (xs ++ [w])) := by
    simp only [doAppend, hr, St.heapSet]
    exact List.getElem?_set_self hlt
  refine ⟨?_, ?_, h3, ?_⟩
  · simp [doAppend, hr, St.heapSet]
  · simp [doAppend, hr, St.heapSet, hk]
  · simp only [seqItems, h3]

example : exSt.ctx.get? "L" = some (.ref 1) ∧ exSt.heap[1]? = some (.list [.cst 7]) := ⟨rfl, rfl⟩

/-- `inplace_visible_py_step`: the py step hands the block a SHALLOW copy of the context
    (`context.copy()`): the statement `k.append(n)` on a context key holding a list returns with the
    context untouched, and the list behind the context's reference longer by `n` — the whole final
    state, for every starting state. -/
theorem inplace_visible_py_step (fuel : Nat) (st : St) (k : String) (r : Nat) (xs : List V) (n : Nat)
    (h1 : k ≠ "__builtins__") (h2 : k ≠ "save")
    (hk : st.ctx.get? k = some (.ref r)) (hr : st.heap[r]? = some (.list xs)) :
    runPyStep (fuel + 2) st [.expr (.append (.name k) (.const n))] =
      (.ok (), { st with heap := st.heap.set r (.list (xs ++ [.cst n])), ns := [] }) := by
  simp [runPyStep, execBlock, execStmt, evalExpr, load, chainLoad, blockExplicit, Stmt.explicit,
    Expr.compWalrus, loadName, localsGetItem, pyStepNs_get? _ _ h1 h2, hk, orElse, optRes,
    appendable, hr, doAppend, St.heapSet]

example : seqItems (runPyStep 2 exSt [.expr (.append (.name "L") (.const 9))]).2.heap (.ref 1) =
    some [.cst 7, .cst 9] := by decide +kernel

/-- `inplace_visible_eval`: the same through a `!py` expression: `k.append(n)` mutates the object
    the context holds; the context itself is as before. -/
theorem inplace_visible_eval (fuel : Nat) (st : St) (k : String) (r : Nat) (xs : List V) (n : Nat)
    (h1 : k ≠ "__builtins__")
    (hk : st.ctx.get? k = some (.ref r)) (hr : st.heap[r]? = some (.list xs)) :
    runEval false (fuel + 2) st (.append (.name k) (.const n)) =
      (.ok .none, { st with heap := st.heap.set r (.list (xs ++ [.cst n])), scratch := [] }) := by
  simp [runEval, evalExpr, load, chainLoad, Expr.compWalrus, loadName, localsGetItem, hk, orElse,
    optRes, appendable, hr, doAppend, St.heapSet, ownInit_get?_of_ne k h1]

example : seqItems (runEval false 2 exSt (.append (.name "L") (.const 9))).2.heap (.ref 1) =
    some [.cst 7, .cst 9] := by decide +kernel

/-- `heap_not_rolled_back`: whatever a block does to heap cells is what the step returns — the step
    drops its namespace dict and nothing else; together with `exec_frame` (unsaved keys keep their
    references) every in-place mutation made by ANY block is visible through the context afterwards. -/
theorem heap_not_rolled_back (fuel : Nat) (st : St) (b : List Stmt) :
    (runPyStep fuel st b).2.heap =
      (execBlock .exec fuel { kind := .module, chain := [], explicit := blockExplicit b, base := st.heap.length } b
        { st with ns := pyStepNs st.ctx }).2.heap := rfl

example : (runPyStep 30 exSt exBlock).2.ctx.get? "L" = some (.ref 1) ∧
    seqItems (runPyStep 30 exSt exBlock).2.heap (.ref 1) = some [.cst 7, .tok .ctx "a"] := by
  decide +kernel

end Pypyr.C14
