/-
  C05 — foreach and while iterate exactly as declared and nest while > foreach > step.

  Model: `PypyrModel/Flow/Layers.lean` (`foreachItems`/`foreachLoop`/`foreachOrConditional` =
  `Step.foreach_loop`/`run_foreach_or_conditional`; `whileIter`/`whileLoop` =
  `poll.while_until_true(..)(WhileDecorator.exec_iteration)`/`WhileDecorator.while_loop`;
  `runStepWith` = `Step.run_step`). Every theorem is for arbitrary inner bodies (whatever the
  layers below and the step module do), arbitrary frames, states, item lists of any length,
  any iteration bound, any fuel — proved by induction on the list / the number of iterations.
  Helper definitions (`itemOut`, `foreachFold`, `ForeachAllOk`, `iterOut`, `whileOut`, `whilePre`,
  `stopEval`, `whileAfter`, `stepCore`, …) are in Props/Lemmas/C05_Loops.lean, C04_Cond.lean;
  `WhileReaches` (iteration `k+n` is actually executed) in C05_Reach.lean; the logging body
  `logIW` / `iwEvent` of the nested closed form in C05_Nested.lean.
-/
import Props.Lemmas.C05_Loops
import Props.Lemmas.C05_Reach
import Props.Lemmas.C05_Nested

namespace Pypyr.C05
open Pypyr Pypyr.Flow Pypyr.C04

/-! ## foreach -/

/-- **Once per item, in order, `i` bound to the item.** If every iteration completes normally,
    the loop is the left fold of the iteration over the items: iteration for item `x` is the
    inner layer run with `for_counter = x` on the previous iteration's state with `i := x`
    (`itemOut`), and the loop completes normally. Any list length, including 0. -/
theorem foreach_once_per_item_in_order (fr : Frame) (inner : Frame → Body) (items : List Val) (s : St)
    (hok : ForeachAllOk fr inner items s) :
    foreachItems fr inner items s = (foreachFold fr inner items s, .ok) :=
  foreachItems_allOk fr inner items s hok

/-- the same under the blanket hypothesis "the inner layer never fails". -/
theorem foreach_once_per_item_in_order' (fr : Frame) (inner : Frame → Body) (items : List Val) (s : St)
    (hok : ∀ fr' s', (inner fr' s').2 = .ok) :
    foreachItems fr inner items s = (foreachFold fr inner items s, .ok) :=
  foreachItems_allOk fr inner items s (ForeachAllOk_of_forall fr inner hok items s)

/-- the fold, spelled out: `i` is set to the item (overriding whatever the previous iteration left
    there) and the frame's `for_counter` is the item. -/
theorem foreach_iteration_binds_i (fr : Frame) (inner : Frame → Body) (x : Val) (rest : List Val) (s : St) :
    foreachFold fr inner (x :: rest) s =
      foreachFold fr inner rest (inner { fr with forI := some x } { s with ctx := Ctx.set s.ctx "i" x }).1 ∧
    Ctx.get? ({ s with ctx := Ctx.set s.ctx "i" x } : St).ctx "i" = some x :=
  ⟨rfl, ctx_get_set_self _ _ _⟩

/-- the event a logging body emits: the `i` it saw in the context and the `for_counter` it was given. -/
def itemEvent (i fc : Option Val) : Event :=
  { tag := "item", i := i, w := fc, r := none, nerr := 0, pipe := "", depth := 0, keys := [] }

/-- a body that logs what it sees and then does anything whatsoever (`g`) to the context. -/
def logThen (g : Ctx → Ctx) : Frame → Body := fun fr s =>
  ({ s with ctx := g s.ctx, trace := s.trace ++ [itemEvent (Ctx.get? s.ctx "i") fr.forI] }, .ok)

/-- Observable form: the log of a logging body is exactly one event per item, in the order of the
    list, each showing `i` = `for_counter` = that item — whatever else the body does to the context
    (including overwriting or deleting `i`). -/
theorem foreach_visits_in_order (g : Ctx → Ctx) (fr : Frame) (items : List Val) (s : St) :
    (foreachItems fr (logThen g) items s).2 = .ok ∧
    (foreachItems fr (logThen g) items s).1.trace = s.trace ++ items.map (fun x => itemEvent (some x) (some x)) := by
  induction items generalizing s with
  | nil => simp [foreachItems]
  | cons x rest ih =>
    have h2 : (itemOut fr (logThen g) x s).2 = .ok := rfl
    have h3 : (itemOut fr (logThen g) x s).1.trace = s.trace ++ [itemEvent (some x) (some x)] := by
      simp only [itemOut, logThen, setI_i]
      rfl
    rw [foreachItems_cons_of_ok _ _ _ _ _ h2]
    obtain ⟨e1, e2⟩ := ih (itemOut fr (logThen g) x s).1
    refine ⟨e1, ?_⟩
    rw [e2, h3]
    simp [List.append_assoc]

/-- **First non-normal outcome ends the loop**: with `items = pre ++ x :: post`, all of `pre`
    completing normally and the iteration for `x` ending in `r ≠ ok` (an error that was not
    swallowed, or a control-of-flow instruction), the loop ends right there with `r` and the
    state of that moment: nothing of `post` runs. -/
theorem foreach_first_nonok_ends (fr : Frame) (inner : Frame → Body) (pre post : List Val) (x : Val)
    (s s1 : St) (r : Res)
    (hpre : ForeachAllOk fr inner pre s)
    (hx : itemOut fr inner x (foreachFold fr inner pre s) = (s1, r)) (hr : r ≠ .ok) :
    foreachItems fr inner (pre ++ x :: post) s = (s1, r) := by
  rw [foreachItems_append fr inner _ pre s hpre,
      foreachItems_cons_of_nonok fr inner x post _ (by rw [hx]; exact hr), hx]

/-- **The iterable is evaluated once**, against the state in which the loop is entered; the loop
    then runs over that fixed list of items. (The items are a function of the entry state only:
    the inner body does not occur on the right of `hf`/`hi`.) -/
theorem foreach_iterable_evaluated_once (raw : Val) (fr : Frame) (inner : Frame → Body) (s : St)
    (v : Val) (items : List Val) (hf : fmtV s raw = .ok v) (hi : iterItems v = .ok items) :
    foreachLoop raw fr inner s = foreachItems fr inner items s := by
  unfold foreachLoop; rw [hf]; simp only [hi]

/-- an iterable that cannot be formatted, or whose value is not iterable, fails the step before
    any iteration. -/
theorem foreach_bad_iterable (raw : Val) (fr : Frame) (inner : Frame → Body) (s : St) :
    (∀ x, fmtV s raw = .error x → foreachLoop raw fr inner s = raiseExc s x) ∧
    (∀ v x, fmtV s raw = .ok v → iterItems v = .error x → foreachLoop raw fr inner s = raiseExc s x) := by
  constructor
  · intro x hf; unfold foreachLoop; rw [hf]
  · intro v x hf hi; unfold foreachLoop; rw [hf]; simp only [hi]

/-- Observable form: changes the body makes to the very keys the iterable expression refers to
    (any context transformation `g` at all) do not change which items are visited. -/
theorem foreach_items_fixed_at_entry (g : Ctx → Ctx) (raw : Val) (fr : Frame) (s : St)
    (v : Val) (items : List Val) (hf : fmtV s raw = .ok v) (hi : iterItems v = .ok items) :
    (foreachLoop raw fr (logThen g) s).2 = .ok ∧
    (foreachLoop raw fr (logThen g) s).1.trace = s.trace ++ items.map (fun x => itemEvent (some x) (some x)) := by
  rw [foreach_iterable_evaluated_once raw fr _ s v items hf hi]
  exact foreach_visits_in_order g fr items s

/-- what the kinds of iterable yield: sequence elements in order, dict *keys* in insertion order,
    the characters of a string. -/
theorem foreach_items_of (xs : List Val) (kvs : List (Val × Val)) (t : String) :
    iterItems (.list xs) = .ok xs ∧ iterItems (.tuple xs) = .ok xs ∧ iterItems (.set xs) = .ok xs ∧
    iterItems (.dict kvs) = .ok (kvs.map (·.1)) ∧
    iterItems (.str t) = .ok (t.toList.map fun c => .str (String.singleton c)) :=
  ⟨rfl, rfl, rfl, rfl, rfl⟩

/-- **A falsy raw `foreach` means "no foreach"** (`if self.foreach_items:` tests the *raw* value):
    an empty literal list/tuple/dict/string, `None`, `0`, `false` — the step then runs exactly once
    as if it had no `foreach`, with the frame it was given and without binding `i`; a truthy raw
    value makes it the loop — even when it evaluates to an empty iterable (zero iterations). -/
theorem foreach_falsy_raw_means_not_declared (d : StepDef) (fr : Frame) (inner : Frame → Body) :
    (d.foreach = none → foreachOrConditional d fr inner = inner fr) ∧
    (∀ raw, d.foreach = some raw → raw.truthy = false → foreachOrConditional d fr inner = inner fr) ∧
    (∀ raw, d.foreach = some raw → raw.truthy = true →
      foreachOrConditional d fr inner = foreachLoop raw fr inner) := by
  refine ⟨fun h => ?_, fun raw h ht => ?_, fun raw h ht => ?_⟩
  · unfold foreachOrConditional; rw [h]
  · unfold foreachOrConditional; rw [h]; simp [ht]
  · unfold foreachOrConditional; rw [h]; simp [ht]

/-! ## while -/

/-- **`stop` is evaluated after the body, on the state the body left** — one iteration of the
    loop, as an equation: set `whileCounter := k`, run the inner layer with `while_counter = k`;
    anything but normal completion ends the loop with that outcome; on normal completion in state
    `s1`, `whileAfter … s1` evaluates `stop` on `s1` (not on the entry state) and decides. -/
theorem while_stop_postexec (cfg : WhileCfg) (fr : Frame) (inner : Frame → Body) (max : Option Nat)
    (sleep : Num) (eom : Bool) (fuel k : Nat) (s : St) :
    whileIter cfg fr inner max sleep eom (fuel + 1) k s =
      (match inner { fr with whileC := some k } { s with ctx := Ctx.set s.ctx "whileCounter" (.int k) } with
       | (s1, .ok) =>
         (match stopEval cfg s1 with
          | .error x => raiseExc s1 x
          | .ok true => (s1, .ok)
          | .ok false =>
            if whileBounded max then
              if k < max.getD 0 then
                (if sleep.n < 0 then raiseNew s1 "ValueError" "sleep length must be non-negative"
                 else whileIter cfg fr inner max sleep eom fuel (k + 1)
                        { s1 with sleeps := s1.sleeps ++ [numToVal sleep] })
              else if eom then raiseNew s1 "pypyr.errors.LoopMaxExhaustedError" "~while loop reached max"
              else (s1, .ok)
            else
              (if sleep.n < 0 then raiseNew s1 "ValueError" "sleep length must be non-negative"
               else whileIter cfg fr inner max sleep eom fuel (k + 1)
                      { s1 with sleeps := s1.sleeps ++ [numToVal sleep] }))
       | other => other) :=
  whileIter_succ cfg fr inner max sleep eom fuel k s

/-- **A negative `sleep`** (`time.sleep` raises ValueError for it): the loop ends with that ValueError
    where its first sleep would take place - after the first iteration that completed normally, did
    not stop the loop and was not the last one; nothing is slept, no further iteration runs. (The
    error leaves `while_loop`, outside run/skip/swallow: it is neither recorded nor swallowed.) -/
theorem while_negative_sleep (cfg : WhileCfg) (fr : Frame) (inner : Frame → Body) (max : Option Nat)
    (sleep : Num) (eom : Bool) (fuel k : Nat) (s s1 : St) (hneg : sleep.n < 0)
    (hi : iterOut fr inner k s = (s1, .ok)) (hstop : stopEval cfg s1 = .ok false)
    (hb : whileBounded max = true → k < max.getD 0) :
    whileIter cfg fr inner max sleep eom (fuel + 1) k s =
      raiseNew s1 "ValueError" "sleep length must be non-negative" := by
  rw [whileIter_succ_of_ok _ _ _ _ _ _ _ _ _ (by rw [hi]), hi]
  exact whileAfter_negative_sleep cfg fr inner max sleep eom fuel k s1 hstop hb hneg

/-- … so a body that makes `stop` true ends the loop after that very iteration, whatever `stop`
    was on entry; and a `stop` that is true on entry does not prevent the first iteration. -/
theorem while_stop_uses_post_state (cfg : WhileCfg) (fr : Frame) (inner : Frame → Body) (max : Option Nat)
    (sleep : Num) (eom : Bool) (fuel k : Nat) (s s1 : St)
    (hi : iterOut fr inner k s = (s1, .ok)) (hstop : stopEval cfg s1 = .ok true) :
    whileIter cfg fr inner max sleep eom (fuel + 1) k s = (s1, .ok) := by
  rw [whileIter_succ_of_ok _ _ _ _ _ _ _ _ _ (by rw [hi]), hi]
  exact whileAfter_stop_true cfg fr inner max sleep eom fuel k s1 hstop

/-- **Iterations are numbered `k, k+1, …`** (`while_loop` starts at `k = 1`): the `i`-th iteration
    after the start is the inner layer run with `while_counter = k+i` on a context whose
    `whileCounter` is `k+i`; it is entered from the state the previous iteration left plus exactly
    one sleep (none before the first). -/
theorem while_counter_sequence (fr : Frame) (inner : Frame → Body) (sleep : Num) (i k : Nat) (s : St) :
    whileOut fr inner sleep i k s =
      inner { fr with whileC := some ((k + i : Nat) : Int) } (setW (k + i) (whilePre fr inner sleep i k s)) ∧
    Ctx.get? (setW (k + i) (whilePre fr inner sleep i k s)).ctx "whileCounter" = some (.int ((k + i : Nat) : Int)) ∧
    whilePre fr inner sleep 0 k s = s ∧
    whilePre fr inner sleep (i + 1) k s = addSleep sleep (whileOut fr inner sleep i k s).1 :=
  ⟨whileOut_eq fr inner sleep i k s, setW_counter _ _, rfl, whilePre_succ fr inner sleep i k s⟩

/-- **Ends after the first iteration whose post-execution `stop` is true**: if iterations
    `k .. k+n` complete normally, `stop` is false after the first `n` of them and true after the
    last, and the bound (if any) is not below `k+n`, the loop performs exactly these `n+1`
    iterations and completes normally in the state the last one left. Holds for `max = none`
    (unbounded: runs until the first true `stop`) and for any bound. -/
theorem while_ends_at_first_true_stop (cfg : WhileCfg) (fr : Frame) (inner : Frame → Body) (max : Option Nat)
    (sleep : Num) (eom : Bool) (hnn : 0 ≤ sleep.n) (n k : Nat) (s : St) (fuel : Nat) (hfuel : n < fuel)
    (hok : ∀ i, i ≤ n → (whileOut fr inner sleep i k s).2 = .ok)
    (hfalse : ∀ i, i < n → stopEval cfg (whileOut fr inner sleep i k s).1 = .ok false)
    (htrue : stopEval cfg (whileOut fr inner sleep n k s).1 = .ok true)
    (hbound : whileBounded max = true → k + n ≤ max.getD 0) :
    whileIter cfg fr inner max sleep eom fuel k s = ((whileOut fr inner sleep n k s).1, .ok) :=
  whileIter_first_stop cfg fr inner max sleep eom hnn n k s fuel hfuel hok hfalse htrue hbound

/-- **… or once `max` iterations have run**: `stop` false after each of the iterations `1 .. m`
    ⇒ exactly `m` iterations, then the loop-exhausted error iff `errorOnMax`, else normal
    completion. -/
theorem while_ends_at_max (cfg : WhileCfg) (fr : Frame) (inner : Frame → Body) (m : Nat) (hm : 1 ≤ m)
    (sleep : Num) (eom : Bool) (hnn : 0 ≤ sleep.n) (s : St) (fuel : Nat) (hfuel : m ≤ fuel)
    (hok : ∀ i, i < m → (whileOut fr inner sleep i 1 s).2 = .ok)
    (hfalse : ∀ i, i < m → stopEval cfg (whileOut fr inner sleep i 1 s).1 = .ok false) :
    whileIter cfg fr inner (some m) sleep eom fuel 1 s =
      (if eom then raiseNew (whileOut fr inner sleep (m - 1) 1 s).1
                     "pypyr.errors.LoopMaxExhaustedError" "~while loop reached max"
       else ((whileOut fr inner sleep (m - 1) 1 s).1, .ok)) := by
  have hb : whileBounded (some m) = true := by simp [whileBounded]; omega
  exact whileIter_exhausted cfg fr inner (some m) sleep eom hb hnn (m - 1) 1 s fuel (by omega)
    (by simp; omega) (fun i hi => hok i (by omega)) (fun i hi => hfalse i (by omega))

/-- **The count, in closed form, from hypotheses about the EXECUTED iterations only**
    (`max = m ≥ 1`): assume that every iteration the loop actually reaches (`WhileReaches … i 1 s`:
    all earlier ones completed normally with a false post-execution `stop`) completes normally and
    that its `stop` then evaluates — nothing is assumed about iterations after the one at which the
    loop stops, which never happen. Then the loop performs `j+1` iterations where `j+1` is the
    number of the first iteration with a true post-execution `stop`, or `m` if there is none; it
    raises the loop-exhausted error exactly when `errorOnMax` is set and `stop` never became true,
    and completes normally otherwise. -/
theorem while_count' (cfg : WhileCfg) (fr : Frame) (inner : Frame → Body) (m : Nat) (hm : 1 ≤ m)
    (sleep : Num) (eom : Bool) (hnn : 0 ≤ sleep.n) (s : St) (fuel : Nat) (hfuel : m ≤ fuel)
    (hok : ∀ i, i < m → WhileReaches cfg fr inner sleep i 1 s → (whileOut fr inner sleep i 1 s).2 = .ok)
    (hst : ∀ i, i < m → WhileReaches cfg fr inner sleep i 1 s → (whileOut fr inner sleep i 1 s).2 = .ok →
      ∃ b, stopEval cfg (whileOut fr inner sleep i 1 s).1 = .ok b) :
    (∃ j, j < m ∧ WhileReaches cfg fr inner sleep j 1 s ∧ (whileOut fr inner sleep j 1 s).2 = .ok ∧
        stopEval cfg (whileOut fr inner sleep j 1 s).1 = .ok true ∧
        whileIter cfg fr inner (some m) sleep eom fuel 1 s = ((whileOut fr inner sleep j 1 s).1, .ok)) ∨
    (WhileReaches cfg fr inner sleep m 1 s ∧
        whileIter cfg fr inner (some m) sleep eom fuel 1 s =
          (if eom then raiseNew (whileOut fr inner sleep (m - 1) 1 s).1
                         "pypyr.errors.LoopMaxExhaustedError" "~while loop reached max"
           else ((whileOut fr inner sleep (m - 1) 1 s).1, .ok))) := by
  have hb : whileBounded (some m) = true := by simp [whileBounded]; omega
  rcases whileIter_bounded_outcome' cfg fr inner (some m) sleep eom hb hnn (m - 1) 1 s fuel (by omega)
      (by simp; omega) (fun i hi hr => hok i (by omega) hr)
      (fun i hi hr => hst i (by omega) hr (hok i (by omega) hr)) with
    ⟨j, hj, h0, h1, h2, h3⟩ | ⟨h1, h2⟩
  · exact .inl ⟨j, by omega, h0, h1, h2, h3⟩
  · have e : m - 1 + 1 = m := by omega
    rw [e] at h1
    exact .inr ⟨h1, h2⟩

/-- The same with the number of executed iterations given: if iterations `1 .. j+1` (`j < m`)
    complete normally and `stop` is false after each of the first `j` — nothing at all is assumed
    about later iterations — then: `stop` true after iteration `j+1` ⇒ the loop ends there,
    normally; `j+1 = m` and `stop` false ⇒ the loop ends there, with the loop-exhausted error iff
    `errorOnMax`; iteration `j+1` not completing normally ⇒ the loop ends with its outcome; `stop`
    failing to evaluate ⇒ the loop ends with that error. -/
theorem while_runs_exactly (cfg : WhileCfg) (fr : Frame) (inner : Frame → Body) (m : Nat) (hm : 1 ≤ m)
    (sleep : Num) (eom : Bool) (hnn : 0 ≤ sleep.n) (s : St) (fuel : Nat) (hfuel : m ≤ fuel)
    (j : Nat) (hj : j < m) (hr : WhileReaches cfg fr inner sleep j 1 s) :
    ((whileOut fr inner sleep j 1 s).2 = .ok → stopEval cfg (whileOut fr inner sleep j 1 s).1 = .ok true →
      whileIter cfg fr inner (some m) sleep eom fuel 1 s = ((whileOut fr inner sleep j 1 s).1, .ok)) ∧
    ((whileOut fr inner sleep j 1 s).2 = .ok → stopEval cfg (whileOut fr inner sleep j 1 s).1 = .ok false →
      j = m - 1 →
      whileIter cfg fr inner (some m) sleep eom fuel 1 s =
        (if eom then raiseNew (whileOut fr inner sleep j 1 s).1
                       "pypyr.errors.LoopMaxExhaustedError" "~while loop reached max"
         else ((whileOut fr inner sleep j 1 s).1, .ok))) ∧
    ((whileOut fr inner sleep j 1 s).2 ≠ .ok →
      whileIter cfg fr inner (some m) sleep eom fuel 1 s = whileOut fr inner sleep j 1 s) ∧
    (∀ x, (whileOut fr inner sleep j 1 s).2 = .ok → stopEval cfg (whileOut fr inner sleep j 1 s).1 = .error x →
      whileIter cfg fr inner (some m) sleep eom fuel 1 s = raiseExc (whileOut fr inner sleep j 1 s).1 x) := by
  have hb : whileBounded (some m) = true := by simp [whileBounded]; omega
  have hbound : whileBounded (some m) = true → 1 + j ≤ (some m).getD 0 := fun _ => by simp; omega
  refine ⟨fun hok htrue => ?_, fun hok hfalse hjm => ?_, fun hbad => ?_, fun x hok hx => ?_⟩
  · exact whileIter_first_stop cfg fr inner (some m) sleep eom hnn j 1 s fuel (by omega)
      (fun i hi => by
        by_cases hlt : i < j
        · exact (hr i hlt).1
        · have : i = j := by omega
          subst this; exact hok)
      (fun i hi => (hr i hi).2) htrue hbound
  · exact whileIter_exhausted cfg fr inner (some m) sleep eom hb hnn j 1 s fuel (by omega)
      (by simp; omega)
      (fun i hi => by
        by_cases hlt : i < j
        · exact (hr i hlt).1
        · have : i = j := by omega
          subst this; exact hok)
      (fun i hi => by
        by_cases hlt : i < j
        · exact (hr i hlt).2
        · have : i = j := by omega
          subst this; exact hfalse)
  · exact whileIter_first_nonok cfg fr inner (some m) sleep eom hnn j 1 s fuel (by omega) hr hbad hbound
  · exact whileIter_stop_error cfg fr inner (some m) sleep eom hnn j 1 s fuel (by omega) hr hok x hx hbound

/-- the former statement (hypotheses for all `i < m`, also for iterations that are never
    executed): a corollary of `while_count'`. -/
theorem while_count (cfg : WhileCfg) (fr : Frame) (inner : Frame → Body) (m : Nat) (hm : 1 ≤ m)
    (sleep : Num) (eom : Bool) (hnn : 0 ≤ sleep.n) (s : St) (fuel : Nat) (hfuel : m ≤ fuel)
    (hok : ∀ i, i < m → (whileOut fr inner sleep i 1 s).2 = .ok)
    (hst : ∀ i, i < m → ∃ b, stopEval cfg (whileOut fr inner sleep i 1 s).1 = .ok b) :
    (∃ j, j < m ∧ (∀ i, i < j → stopEval cfg (whileOut fr inner sleep i 1 s).1 = .ok false) ∧
        stopEval cfg (whileOut fr inner sleep j 1 s).1 = .ok true ∧
        whileIter cfg fr inner (some m) sleep eom fuel 1 s = ((whileOut fr inner sleep j 1 s).1, .ok)) ∨
    ((∀ i, i < m → stopEval cfg (whileOut fr inner sleep i 1 s).1 = .ok false) ∧
        whileIter cfg fr inner (some m) sleep eom fuel 1 s =
          (if eom then raiseNew (whileOut fr inner sleep (m - 1) 1 s).1
                         "pypyr.errors.LoopMaxExhaustedError" "~while loop reached max"
           else ((whileOut fr inner sleep (m - 1) 1 s).1, .ok))) := by
  rcases while_count' cfg fr inner m hm sleep eom hnn s fuel hfuel (fun i hi _ => hok i hi)
      (fun i hi _ _ => hst i hi) with ⟨j, hj, h0, _, h2, h3⟩ | ⟨h1, h2⟩
  · exact .inl ⟨j, hj, fun i hi => (h0 i hi).2, h2, h3⟩
  · exact .inr ⟨fun i hi => (h1 i hi).2, h2⟩

/-- **Loop-exhausted error iff `errorOnMax` ∧ `stop` never true within `max`** — and normal
    completion in every other case; hypotheses about the executed iterations only, as in
    `while_count'`. ("`stop` false after each of the iterations `1 .. m`" on the right entails that
    all `m` of them were executed.) -/
theorem while_exhausted_iff' (cfg : WhileCfg) (fr : Frame) (inner : Frame → Body) (m : Nat) (hm : 1 ≤ m)
    (sleep : Num) (eom : Bool) (hnn : 0 ≤ sleep.n) (s : St) (fuel : Nat) (hfuel : m ≤ fuel)
    (hok : ∀ i, i < m → WhileReaches cfg fr inner sleep i 1 s → (whileOut fr inner sleep i 1 s).2 = .ok)
    (hst : ∀ i, i < m → WhileReaches cfg fr inner sleep i 1 s → (whileOut fr inner sleep i 1 s).2 = .ok →
      ∃ b, stopEval cfg (whileOut fr inner sleep i 1 s).1 = .ok b) :
    ((whileIter cfg fr inner (some m) sleep eom fuel 1 s).2 =
        .err ⟨(whileOut fr inner sleep (m - 1) 1 s).1.nextExc, "pypyr.errors.LoopMaxExhaustedError",
              "~while loop reached max"⟩ false ↔
      (eom = true ∧ ∀ i, i < m → stopEval cfg (whileOut fr inner sleep i 1 s).1 = .ok false)) ∧
    (¬ (eom = true ∧ ∀ i, i < m → stopEval cfg (whileOut fr inner sleep i 1 s).1 = .ok false) →
      (whileIter cfg fr inner (some m) sleep eom fuel 1 s).2 = .ok) := by
  rcases while_count' cfg fr inner m hm sleep eom hnn s fuel hfuel hok hst with ⟨j, hj, _, _, h2, h3⟩ | ⟨h1, h2⟩
  · have hnot : ¬ (eom = true ∧ ∀ i, i < m → stopEval cfg (whileOut fr inner sleep i 1 s).1 = .ok false) := by
      intro ⟨_, hall⟩
      have := hall j hj
      rw [h2] at this
      cases this
    rw [h3]
    exact ⟨⟨fun h => (by cases h), fun h => absurd h hnot⟩, fun _ => rfl⟩
  · have h1' : ∀ i, i < m → stopEval cfg (whileOut fr inner sleep i 1 s).1 = .ok false := fun i hi => (h1 i hi).2
    rw [h2]
    cases eom with
    | true => exact ⟨⟨fun _ => ⟨rfl, h1'⟩, fun _ => rfl⟩, fun h => absurd ⟨rfl, h1'⟩ h⟩
    | false => exact ⟨⟨fun h => (by cases h), fun h => (by cases h.1)⟩, fun _ => rfl⟩

/-- the former statement (hypotheses for all `i < m`): a corollary of `while_exhausted_iff'`. -/
theorem while_exhausted_iff (cfg : WhileCfg) (fr : Frame) (inner : Frame → Body) (m : Nat) (hm : 1 ≤ m)
    (sleep : Num) (eom : Bool) (hnn : 0 ≤ sleep.n) (s : St) (fuel : Nat) (hfuel : m ≤ fuel)
    (hok : ∀ i, i < m → (whileOut fr inner sleep i 1 s).2 = .ok)
    (hst : ∀ i, i < m → ∃ b, stopEval cfg (whileOut fr inner sleep i 1 s).1 = .ok b) :
    ((whileIter cfg fr inner (some m) sleep eom fuel 1 s).2 =
        .err ⟨(whileOut fr inner sleep (m - 1) 1 s).1.nextExc, "pypyr.errors.LoopMaxExhaustedError",
              "~while loop reached max"⟩ false ↔
      (eom = true ∧ ∀ i, i < m → stopEval cfg (whileOut fr inner sleep i 1 s).1 = .ok false)) ∧
    (¬ (eom = true ∧ ∀ i, i < m → stopEval cfg (whileOut fr inner sleep i 1 s).1 = .ok false) →
      (whileIter cfg fr inner (some m) sleep eom fuel 1 s).2 = .ok) :=
  while_exhausted_iff' cfg fr inner m hm sleep eom hnn s fuel hfuel (fun i hi _ => hok i hi)
    (fun i hi _ _ => hst i hi)

/-- a body that fails in while-iteration 3 and logs its counter in every other one. -/
def failAt3 : Frame → Body := fun fr s =>
  if fr.whileC = some 3 then raiseNew s "ValueError" "boom"
  else ({ s with trace := s.trace ++ [itemEvent (Ctx.get? s.ctx "whileCounter") none] }, .ok)

/-- `while: {max: 5, stop: !py whileCounter == 2}` -/
def stopAt2 : WhileCfg :=
  { max := some (.int 5), stop := some (.py (.binop .eq (.name "whileCounter") (.const (.int 2)))) }

/-- The hypotheses of `while_count'` / `while_exhausted_iff'` hold for a loop whose body would fail
    in iteration 3 but whose `stop` becomes true after iteration 2 — while the all-`i` hypothesis of
    the former `while_count` is false for it (iteration 3, were it to happen, does not complete).
    The loop performs iterations 1 and 2 and completes normally, `errorOnMax` notwithstanding. -/
example :
    (∀ i, i < 5 → WhileReaches stopAt2 {} failAt3 ⟨0, 0, true⟩ i 1 {} →
      (whileOut {} failAt3 ⟨0, 0, true⟩ i 1 {}).2 = .ok) ∧
    (∀ i, i < 5 → WhileReaches stopAt2 {} failAt3 ⟨0, 0, true⟩ i 1 {} →
      (whileOut {} failAt3 ⟨0, 0, true⟩ i 1 {}).2 = .ok →
      ∃ b, stopEval stopAt2 (whileOut {} failAt3 ⟨0, 0, true⟩ i 1 {}).1 = .ok b) ∧
    ¬ (∀ i, i < 5 → (whileOut {} failAt3 ⟨0, 0, true⟩ i 1 {}).2 = .ok) ∧
    whileIter stopAt2 {} failAt3 (some 5) ⟨0, 0, true⟩ true 5 1 {} =
      ((whileOut {} failAt3 ⟨0, 0, true⟩ 1 1 {}).1, .ok) ∧
    (whileOut {} failAt3 ⟨0, 0, true⟩ 1 1 {}).1.trace.map (·.i) = [some (.int 1), some (.int 2)] := by
  have ok0 : (whileOut {} failAt3 ⟨0, 0, true⟩ 0 1 {}).2 = .ok := by decide +kernel
  have ok1 : (whileOut {} failAt3 ⟨0, 0, true⟩ 1 1 {}).2 = .ok := by decide +kernel
  have st0 : stopEval stopAt2 (whileOut {} failAt3 ⟨0, 0, true⟩ 0 1 {}).1 = .ok false := by decide +kernel
  have st1 : stopEval stopAt2 (whileOut {} failAt3 ⟨0, 0, true⟩ 1 1 {}).1 = .ok true := by decide +kernel
  have bad2 : (whileOut {} failAt3 ⟨0, 0, true⟩ 2 1 {}).2 ≠ .ok := by decide +kernel
  -- iterations 3, 4, 5 are not reached: `stop` was true after iteration 2
  have unreached : ∀ i, 2 ≤ i → ¬ WhileReaches stopAt2 {} failAt3 ⟨0, 0, true⟩ i 1 {} := by
    intro i hi hr
    have := (hr 1 (by omega)).2
    rw [st1] at this
    cases this
  have hr1 : WhileReaches stopAt2 {} failAt3 ⟨0, 0, true⟩ 1 1 {} := by
    intro i hi
    have : i = 0 := by omega
    subst this; exact ⟨ok0, st0⟩
  refine ⟨?_, ?_, fun h => bad2 (h 2 (by omega)), ?_, by decide +kernel⟩
  · intro i _ hr
    match i, hr with
    | 0, _ => exact ok0
    | 1, _ => exact ok1
    | i + 2, hr => exact absurd hr (unreached _ (by omega))
  · intro i _ hr _
    match i, hr with
    | 0, _ => exact ⟨_, st0⟩
    | 1, _ => exact ⟨_, st1⟩
    | i + 2, hr => exact absurd hr (unreached _ (by omega))
  · exact (while_runs_exactly stopAt2 {} failAt3 5 (by omega) ⟨0, 0, true⟩ true (by decide) {} 5 (by omega)
      1 (by omega) hr1).1 ok1 st1

/-- **Sleeps only between iterations**: for a body that does not itself sleep, after `i+1`
    iterations exactly `i` sleeps were recorded, all equal to the once-evaluated `sleep` — so a
    loop that performs `n` iterations sleeps `n − 1` times (the exhausted error and the final
    `stop` check add none: the results above are `(whileOut … (n−1) …).1` itself). -/
theorem while_sleeps_between_iterations (fr : Frame) (inner : Frame → Body) (sleep : Num)
    (hs : ∀ fr' s', (inner fr' s').1.sleeps = s'.sleeps) (i k : Nat) (s : St) :
    (whileOut fr inner sleep i k s).1.sleeps = s.sleeps ++ List.replicate i (numToVal sleep) ∧
    (loopExhausted (whileOut fr inner sleep i k s).1).1.sleeps = s.sleeps ++ List.replicate i (numToVal sleep) :=
  ⟨whileOut_sleeps fr inner sleep hs i k s, whileOut_sleeps fr inner sleep hs i k s⟩

/-- `while_loop` itself: `whileCounter := 0`; `errorOnMax`, `sleep` and `max` are each evaluated
    **once**, up front, against that state; **no iteration at all iff the formatted `max < 1`**
    (the result then does not depend on the inner layer and is `whileCounter = 0`, normal
    completion); otherwise the iterations start at number 1 with the bound `max`. -/
theorem while_loop_entry (cfg : WhileCfg) (fr : Frame) (inner : Frame → Body) (fuel : Nat) (s : St)
    (mraw : Val) (eom : Bool) (sleep : Num) (mi : Int)
    (hmax : cfg.max = some mraw)
    (heom : fmtB { s with ctx := Ctx.set s.ctx "whileCounter" (.int 0) } cfg.errorOnMax = .ok eom)
    (hsleep : fmtFloat { s with ctx := Ctx.set s.ctx "whileCounter" (.int 0) } cfg.sleep = .ok sleep)
    (hmi : fmtInt { s with ctx := Ctx.set s.ctx "whileCounter" (.int 0) } mraw = .ok mi) :
    (mi < 1 → whileLoop cfg fr inner fuel s = ({ s with ctx := Ctx.set s.ctx "whileCounter" (.int 0) }, .ok)) ∧
    (1 ≤ mi → whileLoop cfg fr inner fuel s =
      whileIter cfg fr inner (some mi.toNat) sleep eom fuel 1
        { s with ctx := Ctx.set s.ctx "whileCounter" (.int 0) }) := by
  constructor
  · intro h
    unfold whileLoop
    simp only [hmax, heom, hsleep, hmi, Option.isNone_some, Bool.and_false, Bool.false_eq_true, if_false, h, if_true]
  · intro h
    have h' : ¬ mi < 1 := by omega
    unfold whileLoop
    simp only [hmax, heom, hsleep, hmi, Option.isNone_some, Bool.and_false, Bool.false_eq_true, if_false, h']

/-- without `max`: unbounded, from iteration 1, until the first true `stop`
    (`while_ends_at_first_true_stop` with `max = none`). -/
theorem while_loop_entry_unbounded (cfg : WhileCfg) (fr : Frame) (inner : Frame → Body) (fuel : Nat) (s : St)
    (st : Val) (eom : Bool) (sleep : Num)
    (hmax : cfg.max = none) (hstop : cfg.stop = some st)
    (heom : fmtB { s with ctx := Ctx.set s.ctx "whileCounter" (.int 0) } cfg.errorOnMax = .ok eom)
    (hsleep : fmtFloat { s with ctx := Ctx.set s.ctx "whileCounter" (.int 0) } cfg.sleep = .ok sleep) :
    whileLoop cfg fr inner fuel s =
      whileIter cfg fr inner none sleep eom fuel 1 { s with ctx := Ctx.set s.ctx "whileCounter" (.int 0) } := by
  unfold whileLoop
  simp only [hmax, hstop, heom, hsleep, Option.isNone_some, Bool.false_and, Bool.false_eq_true, if_false]

/-- a `while` with neither `max` nor `stop` is a definition error, raised before any iteration. -/
theorem while_needs_max_or_stop (cfg : WhileCfg) (fr : Frame) (inner : Frame → Body) (fuel : Nat) (s : St)
    (hmax : cfg.max = none) (hstop : cfg.stop = none) :
    whileLoop cfg fr inner fuel s =
      raiseNew { s with ctx := Ctx.set s.ctx "whileCounter" (.int 0) }
        "pypyr.errors.PipelineDefinitionError" "~the while decorator must have either max or stop" := by
  unfold whileLoop
  simp only [hmax, hstop, Option.isNone_none, Bool.and_self, if_true]

/-! ## nesting: while > foreach > run/skip/swallow > retry > body -/

/-- **The nesting order, as an equation**: with all of `while`, `foreach`, `retry` declared, the
    decorator stack of `run_step` (everything between setting and unsetting the `in` arguments —
    `C04.in_visible`) is literally the composition
    `while ∘ foreach ∘ run/skip/swallow ∘ retry ∘ invoke`. -/
theorem nesting_order (d : StepDef) (body : Body) (callee : CofCfg → Body) (fuel : Nat)
    (wc : WhileCfg) (raw : Val) (rc : RetryCfg)
    (hw : d.while_ = some wc) (hf : d.foreach = some raw) (ht : raw.truthy = true) (hr : d.retry = some rc) :
    stepCore d body callee fuel =
      whileLoop wc { whileC := some 0 }
        (fun fr => foreachLoop raw fr
          (fun fr => runConditional d
            (retryLoop rc { fr with retryC := some 0 }
              (fun fr => invokeStep fr body callee) fuel))) fuel := by
  unfold stepCore foreachLayer foreachOrConditional conditionalLayer retriedLayer
  simp only [hw, hf, ht, hr, if_true]

/-- the general form, every decorator optional: a missing one is simply absent from the
    composition, the order of the others is unchanged. -/
theorem nesting_order_general (d : StepDef) (body : Body) (callee : CofCfg → Body) (fuel : Nat) (s : St) :
    runStepWith d body callee fuel s =
      (let invoke : Frame → Body := fun fr => invokeStep fr body callee
       let retried : Frame → Body := fun fr =>
         match d.retry with
         | some rc => retryLoop rc { fr with retryC := some 0 } invoke fuel
         | none => invoke fr
       let conditional : Frame → Body := fun fr => runConditional d (retried fr)
       let foreachL : Frame → Body := fun fr =>
         match d.foreach with
         | some raw => if raw.truthy then foreachLoop raw fr conditional else conditional fr
         | none => conditional fr
       let whileL : Body :=
         match d.while_ with
         | some wc => whileLoop wc { whileC := some 0 } foreachL fuel
         | none => foreachL {}
       match whileL (setIn d s) with
       | (s1, .ok) => (unsetIn d s1, .ok)
       | other => other) := by
  unfold runStepWith foreachOrConditional
  cases d.while_ <;> rfl

/-- **Every while iteration runs the complete foreach sequence**: in `while > foreach`, iteration
    `k` evaluates the iterable (on the state of that iteration — once per foreach loop, hence once
    per while iteration), runs the inner layer for *all* its items in order, and only then
    evaluates `stop` / sleeps / starts iteration `k+1`. Any item list, any `k`. -/
theorem while_iteration_runs_complete_foreach (cfg : WhileCfg) (fr : Frame) (cond : Frame → Body) (raw : Val)
    (max : Option Nat) (sleep : Num) (eom : Bool) (fuel k : Nat) (s : St) (v : Val) (items : List Val)
    (hf : fmtV (setW k s) raw = .ok v) (hi : iterItems v = .ok items)
    (hall : ForeachAllOk { fr with whileC := some k } cond items (setW k s)) :
    whileIter cfg fr (fun fr' => foreachLoop raw fr' cond) max sleep eom (fuel + 1) k s =
      whileAfter cfg fr (fun fr' => foreachLoop raw fr' cond) max sleep eom fuel k
        (foreachFold { fr with whileC := some k } cond items (setW k s)) := by
  have h1 : iterOut fr (fun fr' => foreachLoop raw fr' cond) k s =
      (foreachFold { fr with whileC := some k } cond items (setW k s), .ok) := by
    show foreachLoop raw { fr with whileC := some k } cond (setW k s) = _
    rw [foreach_iterable_evaluated_once raw _ cond _ v items hf hi]
    exact foreachItems_allOk _ cond items _ hall
  rw [whileIter_succ_of_ok _ _ _ _ _ _ _ _ _ (by rw [h1]), h1]

/-- **The nested trace, in closed form** (`while > foreach > logging body`). The body `logIW tag g`
    logs `(tag, context['i'], context['whileCounter'])` and then transforms the context by an
    arbitrary `g` that does not write `whileCounter` (it may overwrite or delete `i` and anything
    else). With `max = m ≥ 1`, no `stop`, a non-negative `sleep` and the (evaluated) items `xs`, the
    loop appends to the trace exactly

        [ (x, w) | w ← 1..m, x ← xs ]        (`w` outer, `x` inner, in this order)

    i.e. the concatenation over `w = 1, …, m` of `xs.map (event · w)`; it sleeps exactly `m − 1`
    times, each time the once-evaluated `sleep`; and it ends with the loop-exhausted error iff
    `errorOnMax`, normally otherwise. Any `m`, any list (including `[]`), any frame, state and fuel
    `≥ m` (induction on `m` and on `xs`). -/
theorem while_foreach_trace (tag : String) (g : Ctx → Ctx) (hg : KeepsCounter g) (cfg : WhileCfg)
    (hstop : cfg.stop = none) (fr : Frame) (xs : List Val) (m : Nat) (hm : 1 ≤ m) (sleep : Num)
    (hnn : 0 ≤ sleep.n) (eom : Bool) (fuel : Nat) (hfuel : m ≤ fuel) (s : St) :
    (whileIter cfg fr (fun fr' => foreachItems fr' (logIW tag g) xs) (some m) sleep eom fuel 1 s).1.trace =
      s.trace ++ (List.range m).flatMap
        (fun j => xs.map fun x => iwEvent tag (some x) (some (.int ((j + 1 : Nat) : Int)))) ∧
    (whileIter cfg fr (fun fr' => foreachItems fr' (logIW tag g) xs) (some m) sleep eom fuel 1 s).1.sleeps =
      s.sleeps ++ List.replicate (m - 1) (numToVal sleep) ∧
    (whileIter cfg fr (fun fr' => foreachItems fr' (logIW tag g) xs) (some m) sleep eom fuel 1 s).2 =
      (if eom then .err ⟨s.nextExc, "pypyr.errors.LoopMaxExhaustedError", "~while loop reached max"⟩ false
       else .ok) := by
  have hnest := whileOut_nested tag g hg fr xs sleep
  have hst : ∀ s', stopEval cfg s' = .ok false := by intro s'; unfold stopEval; rw [hstop]
  rw [while_ends_at_max cfg fr _ m hm sleep eom hnn s fuel hfuel (fun i _ => (hnest i 1 s).1)
    (fun i _ => hst _)]
  obtain ⟨_, e2, e3, e4⟩ := hnest (m - 1) 1 s
  have em : m - 1 + 1 = m := by omega
  rw [em] at e2
  have esw : sweeps tag xs 1 m = (List.range m).flatMap
      (fun j => xs.map fun x => iwEvent tag (some x) (some (.int ((j + 1 : Nat) : Int)))) := by
    unfold sweeps sweep
    have : (fun j => xs.map fun x => iwEvent tag (some x) (some (.int ((1 + j : Nat) : Int)))) =
        (fun j => xs.map fun x => iwEvent tag (some x) (some (.int ((j + 1 : Nat) : Int)))) := by
      funext j; rw [Nat.add_comm]
    rw [this]
  rw [esw] at e2
  cases eom with
  | false => exact ⟨e2, e3, rfl⟩
  | true =>
    simp only [if_true, raiseNew]
    exact ⟨e2, e3, by rw [e4]⟩

/-- the same with the `foreach` given raw (`foreachLoop`): the iterable is evaluated once per entry
    into the foreach loop, i.e. once per while iteration, on the state of that moment; if it
    evaluates to the items `xs` every time (e.g. a literal list of literals, or an expression over
    keys the body leaves alone), the trace is the same closed form. -/
theorem while_foreach_trace_raw (tag : String) (g : Ctx → Ctx) (hg : KeepsCounter g) (cfg : WhileCfg)
    (hstop : cfg.stop = none) (fr : Frame) (raw v : Val) (xs : List Val)
    (hraw : ∀ s', fmtV s' raw = .ok v) (hitems : iterItems v = .ok xs)
    (m : Nat) (hm : 1 ≤ m) (sleep : Num)
    (hnn : 0 ≤ sleep.n) (eom : Bool) (fuel : Nat) (hfuel : m ≤ fuel) (s : St) :
    (whileIter cfg fr (fun fr' => foreachLoop raw fr' (logIW tag g)) (some m) sleep eom fuel 1 s).1.trace =
      s.trace ++ (List.range m).flatMap
        (fun j => xs.map fun x => iwEvent tag (some x) (some (.int ((j + 1 : Nat) : Int)))) ∧
    (whileIter cfg fr (fun fr' => foreachLoop raw fr' (logIW tag g)) (some m) sleep eom fuel 1 s).1.sleeps =
      s.sleeps ++ List.replicate (m - 1) (numToVal sleep) ∧
    (whileIter cfg fr (fun fr' => foreachLoop raw fr' (logIW tag g)) (some m) sleep eom fuel 1 s).2 =
      (if eom then .err ⟨s.nextExc, "pypyr.errors.LoopMaxExhaustedError", "~while loop reached max"⟩ false
       else .ok) := by
  have e : (fun fr' => foreachLoop raw fr' (logIW tag g)) = (fun fr' => foreachItems fr' (logIW tag g) xs) := by
    funext fr' s'
    exact foreach_iterable_evaluated_once raw fr' _ s' v xs (hraw s') hitems
  rw [e]
  exact while_foreach_trace tag g hg cfg hstop fr xs m hm sleep hnn eom fuel hfuel s

/-- a context transformation that deletes `i` and counts in `n` — it keeps `whileCounter`. -/
def dropI : Ctx → Ctx := fun c => Ctx.set (Ctx.erase c "i") "n" (.int 7)

theorem dropI_keepsCounter : KeepsCounter dropI := by
  intro c
  unfold dropI
  rw [ctx_get_set_ne _ _ _ _ (by decide), ctx_get_erase_ne _ _ _ (by decide)]

/-- the hypotheses of `while_foreach_trace(_raw)` hold on a concrete loop (3 while iterations over
    2 items, a body that deletes `i`, sleep 2.0, `errorOnMax`), and the closed form computes to the
    six events `(x,1) (y,1) (x,2) (y,2) (x,3) (y,3)` and two sleeps. -/
example :
    let r := whileIter { max := some (.int 3) } {} (fun fr' => foreachLoop (.list [.str "x", .str "y"]) fr' (logIW "t" dropI))
      (some 3) ⟨2, 0, true⟩ true 3 1 {}
    r.1.trace.map (fun ev => (ev.i, ev.w)) =
      [(some (.str "x"), some (.int 1)), (some (.str "y"), some (.int 1)),
       (some (.str "x"), some (.int 2)), (some (.str "y"), some (.int 2)),
       (some (.str "x"), some (.int 3)), (some (.str "y"), some (.int 3))] ∧
    r.1.sleeps = [.flt 2 0, .flt 2 0] ∧
    r.2 = .err ⟨0, "pypyr.errors.LoopMaxExhaustedError", "~while loop reached max"⟩ false := by
  have hraw : ∀ s' : St, fmtV s' (.list [.str "x", .str "y"]) = .ok (.list [.str "x", .str "y"]) := by
    intro s'
    have hp1 : parsePieces "x" = .ok [.lit "x"] := by decide +kernel
    have hp2 : parsePieces "y" = .ok [.lit "y"] := by decide +kernel
    simp only [fmtV, fmtVal, FMT_FUEL, fmtIter, fmtKeepType, mapE, hp1, hp2]
    rfl
  obtain ⟨h1, h2, h3⟩ := while_foreach_trace_raw "t" dropI dropI_keepsCounter { max := some (.int 3) } rfl {}
    (.list [.str "x", .str "y"]) (.list [.str "x", .str "y"]) [.str "x", .str "y"] hraw rfl
    3 (by omega) ⟨2, 0, true⟩ (by decide) true 3 (by omega) {}
  refine ⟨?_, ?_, ?_⟩
  · rw [h1]; decide +kernel
  · rw [h2]; decide +kernel
  · rw [h3]; rfl

/-- **An error that is not swallowed ends all enclosing loops of the step.** Layer by layer: an
    `.err` coming out of the conditional layer for item `x` ends the foreach at once; an `.err`
    coming out of the foreach (or whatever the inner layer is) ends the while at once — no further
    item, no `stop` evaluation, no sleep, no further iteration. -/
theorem unswallowed_error_ends_all_loops (fr : Frame) (inner : Frame → Body) (s s1 : St) (e : ExcV) (h : Bool) :
    (∀ x rest, inner { fr with forI := some x } { s with ctx := Ctx.set s.ctx "i" x } = (s1, .err e h) →
      foreachItems fr inner (x :: rest) s = (s1, .err e h)) ∧
    (∀ (cfg : WhileCfg) (max : Option Nat) (sleep : Num) (eom : Bool) (fuel k : Nat),
      inner { fr with whileC := some k } { s with ctx := Ctx.set s.ctx "whileCounter" (.int k) } = (s1, .err e h) →
      whileIter cfg fr inner max sleep eom (fuel + 1) k s = (s1, .err e h)) :=
  ⟨fun x rest hi => foreachItems_cons_nonok fr inner x rest s s1 _ hi (by simp),
   fun cfg max sleep eom fuel k hi => whileIter_nonok cfg fr inner max sleep eom fuel k s s1 _ hi (by simp)⟩

/-- … combined, through both loops and out of the step: in `while > foreach > conditional`, an
    error leaving the conditional layer at item `x` of while-iteration `k` (the items before it in
    that iteration having completed) is the outcome of the whole while loop, in the state of that
    moment. -/
theorem unswallowed_error_ends_while_and_foreach (cfg : WhileCfg) (fr : Frame) (cond : Frame → Body) (raw : Val)
    (max : Option Nat) (sleep : Num) (eom : Bool) (fuel k : Nat) (s s1 : St) (v : Val)
    (pre post : List Val) (x : Val) (e : ExcV) (h : Bool)
    (hf : fmtV (setW k s) raw = .ok v) (hi : iterItems v = .ok (pre ++ x :: post))
    (hpre : ForeachAllOk { fr with whileC := some k } cond pre (setW k s))
    (hx : itemOut { fr with whileC := some k } cond x
            (foreachFold { fr with whileC := some k } cond pre (setW k s)) = (s1, .err e h)) :
    whileIter cfg fr (fun fr' => foreachLoop raw fr' cond) max sleep eom (fuel + 1) k s = (s1, .err e h) := by
  have h1 : iterOut fr (fun fr' => foreachLoop raw fr' cond) k s = (s1, .err e h) := by
    show foreachLoop raw { fr with whileC := some k } cond (setW k s) = _
    rw [foreach_iterable_evaluated_once raw _ cond _ v _ hf hi]
    exact foreach_first_nonok_ends _ cond pre post x _ s1 _ hpre hx (by simp)
  rw [whileIter_succ_of_nonok _ _ _ _ _ _ _ _ _ (by rw [h1]; simp), h1]

/-- and the step hands that error on unchanged (the `in` arguments stay, `C04.in_kept_on_non_ok`). -/
theorem unswallowed_error_leaves_step (d : StepDef) (body : Body) (callee : CofCfg → Body) (fuel : Nat)
    (s s1 : St) (e : ExcV) (h : Bool) (hc : stepCore d body callee fuel (setIn d s) = (s1, .err e h)) :
    runStepWith d body callee fuel s = (s1, .err e h) := by
  rw [runStepWith_eq, hc]

/-! ## non-vacuity -/

/-- step 1: `while (max 5, stop: whileCounter == 2, sleep 3) > foreach [x, y]`; step 2: a while
    with `max 2`, `errorOnMax`, and a *falsy* raw foreach `()`. -/
def demoProg : Program := ⟨[{ name := "main", groups := [
  ("steps", .steps [
    { name := some "vprobe",
      inArgs := some [("p", .dict [(.str "tag", .str "a")])],
      foreach := some (.list [.str "x", .str "y"]),
      while_ := some { max := some (.int 5),
                       stop := some (.py (.binop .eq (.name "whileCounter") (.const (.int 2)))),
                       sleep := .int 3 } },
    { name := some "vprobe",
      inArgs := some [("p", .dict [(.str "tag", .str "b")])],
      foreach := some (.tuple []),
      while_ := some { max := some (.int 2), errorOnMax := .bool true } }])] }]⟩

/-- step 1 performs while-iterations 1 and 2 (stop true after the 2nd), each running the complete
    foreach `x, y`, sleeping 3.0 once in between; step 2 runs its body once per iteration (no
    foreach), twice, sleeps 0.0 once, and raises the loop-exhausted error. -/
example :
    let r := runRoot 50 demoProg { name := "main" } {}
    r.2 = .err ⟨0, "pypyr.errors.LoopMaxExhaustedError", "~while loop reached max"⟩ false ∧
    r.1.trace.map (fun ev => (ev.tag, ev.w, ev.i)) =
      [("a", some (.int 1), some (.str "x")), ("a", some (.int 1), some (.str "y")),
       ("a", some (.int 2), some (.str "x")), ("a", some (.int 2), some (.str "y")),
       ("b", some (.int 1), some (.str "y")), ("b", some (.int 2), some (.str "y"))] ∧
    r.1.sleeps = [.flt 3 0, .flt 0 0] := by
  decide +kernel

/-- the hypotheses of `foreach_items_fixed_at_entry` on a body that empties the very list it is
    iterating over. -/
example :
    let s : St := { ctx := [("xs", .list [.int 1, .int 2, .int 3])] }
    fmtV s (.str "{xs}") = .ok (.list [.int 1, .int 2, .int 3]) ∧
    (foreachLoop (.str "{xs}") {} (logThen fun c => Ctx.set c "xs" (.list [])) s).1.trace.map (·.i) =
      [some (.int 1), some (.int 2), some (.int 3)] := by
  decide +kernel


/-! ## WHEN the arguments of `while` are evaluated -/

/-- the iterations read the decorator's configuration only for `stop` (`max`, `sleep`, `errorOnMax` reach
    them as the values computed up front): two configurations with the same `stop` iterate identically -/
theorem whileIter_reads_only_stop (cfg cfg' : WhileCfg) (hstop : cfg.stop = cfg'.stop) (fr : Frame) (inner : Frame → Body)
    (max : Option Nat) (sleep : Num) (eom : Bool) (fuel k : Nat) (s : St) :
    whileIter cfg fr inner max sleep eom fuel k s = whileIter cfg' fr inner max sleep eom fuel k s := by
  induction fuel generalizing k s with
  | zero => rfl
  | succ n ih =>
    unfold whileIter
    simp only [hstop, ih]

/-- **`errorOnMax` is what it evaluates to when the loop STARTS.** If the expression gives `eom` on the
    state in which `while_loop` is entered (`whileCounter := 0`), the whole loop - every iteration, the
    decision about the loop-exhausted error at its end - is the loop with the LITERAL `errorOnMax: eom`
    declared: for every inner body whatsoever, so whatever the body does afterwards to the keys the
    expression was computed from (flip them, delete them), and however the loop ends. -/
theorem while_errorOnMax_is_its_value_at_loop_start (cfg : WhileCfg) (fr : Frame) (inner : Frame → Body) (fuel : Nat)
    (s : St) (eom : Bool)
    (heom : fmtB { s with ctx := Ctx.set s.ctx "whileCounter" (.int 0) } cfg.errorOnMax = .ok eom) :
    whileLoop cfg fr inner fuel s = whileLoop { cfg with errorOnMax := .bool eom } fr inner fuel s := by
  have hlit : fmtB { s with ctx := Ctx.set s.ctx "whileCounter" (.int 0) } (.bool eom) = .ok eom := by
    cases eom <;> rfl
  unfold whileLoop
  simp only [heom, hlit]
  split
  · rfl
  · split
    · rfl
    · split
      · exact whileIter_reads_only_stop cfg { cfg with errorOnMax := .bool eom } rfl fr inner _ _ _ _ _ _
      · split
        · rfl
        · split
          · rfl
          · exact whileIter_reads_only_stop cfg { cfg with errorOnMax := .bool eom } rfl fr inner _ _ _ _ _ _

/-- **An argument that cannot be resolved when the loop starts: nothing iterates.** `errorOnMax`, then
    `sleep`, then `max` are evaluated on the entry state before the first iteration; the first one that
    fails is the loop's result - the same for EVERY inner body (it never runs), whether or not `stop`
    would have become true, whether or not the body would have created the missing key. -/
theorem while_unresolvable_argument_no_iteration (cfg : WhileCfg) (fr : Frame) (inner inner' : Frame → Body)
    (fuel : Nat) (s : St) (x : Exc) (hdecl : (cfg.stop.isNone && cfg.max.isNone) = false) :
    let s0 : St := { s with ctx := Ctx.set s.ctx "whileCounter" (.int 0) }
    (fmtB s0 cfg.errorOnMax = .error x → whileLoop cfg fr inner fuel s = raiseExc s0 x) ∧
    (∀ eom, fmtB s0 cfg.errorOnMax = .ok eom → fmtFloat s0 cfg.sleep = .error x →
        whileLoop cfg fr inner fuel s = raiseExc s0 x) ∧
    (∀ eom sl m, fmtB s0 cfg.errorOnMax = .ok eom → fmtFloat s0 cfg.sleep = .ok sl → cfg.max = some m →
        fmtInt s0 m = .error x → whileLoop cfg fr inner fuel s = raiseExc s0 x) ∧
    ((∃ y, fmtB s0 cfg.errorOnMax = .error y ∨ fmtFloat s0 cfg.sleep = .error y ∨
        (∃ m, cfg.max = some m ∧ fmtInt s0 m = .error y)) →
      whileLoop cfg fr inner fuel s = whileLoop cfg fr inner' fuel s) := by
  intro s0
  refine ⟨?_, ?_, ?_, ?_⟩
  · intro h
    unfold whileLoop
    simp only [hdecl, Bool.false_eq_true, if_false]
    simp only [s0] at h
    simp only [h]
    rfl
  · intro eom h1 h2
    unfold whileLoop
    simp only [hdecl, Bool.false_eq_true, if_false]
    simp only [s0] at h1 h2
    simp only [h1, h2]
    rfl
  · intro eom sl m h1 h2 hm h3
    unfold whileLoop
    simp only [hdecl, Bool.false_eq_true, if_false]
    simp only [s0] at h1 h2 h3
    simp only [h1, h2, hm, h3]
    rfl
  · rintro ⟨y, h⟩
    unfold whileLoop
    simp only [hdecl, Bool.false_eq_true, if_false]
    simp only [s0] at h
    rcases h with h | h | ⟨m, hm, h⟩
    · simp only [h]
    · cases h1 : fmtB { s with ctx := Ctx.set s.ctx "whileCounter" (.int 0) } cfg.errorOnMax with
      | error z => rfl
      | ok eom => simp only [h]
    · cases h1 : fmtB { s with ctx := Ctx.set s.ctx "whileCounter" (.int 0) } cfg.errorOnMax with
      | error z => rfl
      | ok eom =>
        cases h2 : fmtFloat { s with ctx := Ctx.set s.ctx "whileCounter" (.int 0) } cfg.sleep with
        | error z => rfl
        | ok sl => simp only [hm, h]

/-- a logging body that flips / creates the key `strict` the `errorOnMax` expression reads -/
def flipStrict (v : Val) : Frame → Body := fun fr s =>
  ({ s with ctx := Ctx.set s.ctx "strict" v, trace := s.trace ++ [itemEvent (Ctx.get? s.ctx "whileCounter") fr.forI] }, .ok)

/-- hypotheses satisfiable, conclusions on concrete loops: `errorOnMax: '{strict}'` declared false at loop
    start, the body sets `strict` to true: two iterations, NO error; declared true, the body sets it to
    false: the error; `strict` missing at loop start: KeyNotInContextError and no iteration, although the
    body would have created it and `stop` would have ended the loop. -/
example :
    let cfg : WhileCfg := { max := some (.int 2), errorOnMax := .str "{strict}" }
    let s (v : Val) : St := { ctx := [("strict", v)] }
    fmtB { s (.bool false) with ctx := Ctx.set (s (.bool false)).ctx "whileCounter" (.int 0) } cfg.errorOnMax = .ok false ∧
    (whileLoop cfg {} (flipStrict (.bool true)) 10 (s (.bool false))).2 = .ok ∧
    (whileLoop cfg {} (flipStrict (.bool true)) 10 (s (.bool false))).1.trace.length = 2 ∧
    (whileLoop cfg {} (flipStrict (.bool false)) 10 (s (.bool true))).2 =
      .err ⟨0, "pypyr.errors.LoopMaxExhaustedError", "~while loop reached max"⟩ false ∧
    (let r := whileLoop { cfg with stop := some (.bool true) } {} (flipStrict (.bool true)) 10 {}
     r.1.trace = [] ∧ (match r.2 with | .err e _ => e.name == "pypyr.errors.KeyNotInContextError" | _ => false) = true) := by
  decide +kernel

end Pypyr.C05
