/-
  C15 — in-place file rewrites are all-or-nothing.

  Model: `PypyrModel/FsRewrite.lean` — directory state, the operation list of one `in_to_out` call
  (`inplaceOps`: sameFile, openRead, mkTemp, fmt/write …, close, replace), the interpreter `exec`
  with the `except` clauses of the code as it is now, the loop `runJobs` of `files_in_to_out`.
  `exec … = (outcome, trace)`; the trace has one entry per executed operation: its label (with `!`
  when it raised) and the directory after it. A plain label `"replace"` therefore means: the rename
  succeeded.

  Every theorem below quantifies over EVERY body (any number of fmt/write operations, any chunks),
  EVERY start index and EVERY fault plan `Nat → Fault` (any number of raise/kill faults at any
  operation indices) unless it says otherwise; the proofs are by induction over the operation list
  (`Props/Lemmas/C15_Exec.lean`) and over the job list (`Props/Lemmas/C15_Multi.lean`).
-/
import Props.Lemmas.C15_Monitor
import Props.Lemmas.C15_Links
import Props.Lemmas.C15_Stays
import Props.Lemmas.C15_Mixed
import Generated.FsMove

namespace Pypyr.C15
open Pypyr.FsRewrite

/- `WF fs0 src dst tmp body` (Props/Lemmas/C15_Exec.lean): the hypotheses of one well-formed in-place
   rewrite — the source exists in `fs0`, the name the temp file will get is not in the directory
   (NamedTemporaryFile picks an unused name), the body consists of fmt/write operations; `dst`, the
   entry `os.replace` lands on, is `src` itself or (in path = a symlink) an entry that is not a regular
   file of the directory. `early`: ObjectRewriter (source closed before the temp file is made) vs
   StreamRewriter (source closed between the close of the temp file and the rename).
   `JobsWF fs0 J` (Props/Lemmas/C15_Multi.lean): the same for every job of a list, plus
   "no out, or out equal to in". -/

private def fsEx : Fs := [("a.txt", "AA"), ("b.txt", "BB")]
private def bodyEx : List Op := streamBody 1 ["X", "Y"]

private theorem wfEx : WF fsEx "a.txt" "a.txt" "tmp#0" bodyEx where
  srcExists := by decide +kernel
  tmpFresh := by decide +kernel
  bodyOps := by decide +kernel
  dstOk := Or.inl rfl
  dstNeTmp := by decide

/-- The operation list of the example (StreamRewriter, two lines): indices 0 sameFile, 1 openRead, 2 mkTemp,
    3 fmt, 4 write X, 5 fmt, 6 write Y, 7 close, 8 closeIn, 9 replace. -/
example : inplaceOps false "a.txt" "a.txt" "tmp#0" bodyEx =
    [.sameFile, .openRead "a.txt", .mkTemp "tmp#0", .fmt 1, .write 1 "X", .fmt 2, .write 2 "Y", .close, .closeIn,
     .replace "a.txt"] := by decide +kernel

/-! ### One file -/

/-- **src_always_whole.** At every prefix of the operation list, under every fault plan (Exceptions,
    BaseExceptions, kills, in any number), the source path holds the complete original bytes — unless
    the entry is the one produced by a successful `replace`, in which case the entry the in path names
    holds the complete new content (the concatenation of all chunks). -/
theorem src_always_whole {fs0 : Fs} {src dst tmp orig : String} {body : List Op} (early : Bool)
    (wf : WF fs0 src dst tmp body) (ho : fs0.get? src = some orig) (cfg : Cfg) (plan : Plan) (i : Nat) :
    ∀ ev ∈ (exec cfg plan i { fs := fs0 } (inplaceOps early src dst tmp body)).2,
      ev.2.get? src = some orig ∨ (ev.1 = "replace" ∧ ev.2.get? dst = some (newContent body)) := by
  intro ev hm
  have P := exec_inplace (dst := dst) (cfg := cfg) (plan := plan) early body wf.bodyOps wf.tmpFresh wf.srcExists i
  rcases P.shape ev hm with hab | ⟨hl, hc⟩
  · left
    rcases hab with h | ⟨c, h⟩
    · rw [h, ho]
    · rw [h, Fs.get?_append_other wf.ne, ho]
  · right
    exact ⟨hl, by rw [hc]; exact Fs.get?_set_self⟩

example : ∃ ev ∈ (exec {} (Plan.single 7 .kill) 0 { fs := fsEx } (inplaceOps false "a.txt" "a.txt" "tmp#0" bodyEx)).2,
    ev.2.get? "a.txt" = some "AA" ∧ ev.2.get? "tmp#0" = some "XY" :=
  ⟨("write", [("a.txt", "AA"), ("b.txt", "BB"), ("tmp#0", "XY")]), by decide +kernel, by decide +kernel⟩

/-- **raise_leaves_no_temp** (the code as it is now: `Cfg` = `{}`, clean-up handlers `except BaseException:`,
    the close of the source file inside the `try`). A rewrite that ends by raising — an Exception or a
    BaseException (KeyboardInterrupt, SystemExit, GeneratorExit), at whatever operation (formatting, a write,
    the close of the temp file, the close of the source file, the rename), after however many writes —
    leaves exactly the original directory, provided the clean-up itself did not fail (no `removeTemp!`
    event: `remove_temp_file`'s own `os.remove` did not raise). What remains when it did:
    `cleanup_failure_leaves_temp`. -/
theorem raise_leaves_no_temp {fs0 : Fs} {src dst tmp : String} {body : List Op} (early : Bool)
    (wf : WF fs0 src dst tmp body) (plan : Plan) (i j : Nat)
    (hr : (exec {} plan i { fs := fs0 } (inplaceOps early src dst tmp body)).1 = .raised j)
    (hrm : ∀ ev ∈ (exec {} plan i { fs := fs0 } (inplaceOps early src dst tmp body)).2, ev.1 ≠ "removeTemp!") :
    final fs0 (exec {} plan i { fs := fs0 } (inplaceOps early src dst tmp body)).2 = fs0 :=
  (exec_inplace (dst := dst) (cfg := {}) (plan := plan) early body wf.bodyOps wf.tmpFresh wf.srcExists i).raised
    j hr rfl rfl rfl hrm

/-- **raise_leaves_no_temp_of_plan.** The same with the hypothesis on the fault plan: a failed clean-up
    takes two adjacent faults (the operation, then the `os.remove`); a plan without two adjacent
    raising faults — any number of Exceptions, BaseExceptions and kills otherwise — never leaves a temp file
    behind when the rewrite raises. -/
theorem raise_leaves_no_temp_of_plan {fs0 : Fs} {src dst tmp : String} {body : List Op} (early : Bool)
    (wf : WF fs0 src dst tmp body) (plan : Plan) (hplan : ∀ k, ¬ TwoFaults plan k) (i j : Nat)
    (hr : (exec {} plan i { fs := fs0 } (inplaceOps early src dst tmp body)).1 = .raised j) :
    final fs0 (exec {} plan i { fs := fs0 } (inplaceOps early src dst tmp body)).2 = fs0 := by
  have P := exec_inplace (dst := dst) (cfg := {}) (plan := plan) early body wf.bodyOps wf.tmpFresh wf.srcExists i
  apply raise_leaves_no_temp early wf plan i j hr
  intro ev hm he
  obtain ⟨k, hk⟩ := P.rmNeeds2 ev hm he
  exact hplan k hk

/-- For every single-fault plan "operation `p` raises" — an Exception (`k = .raise`) or a BaseException
    (`k = .raiseBase`), `p` any operation including the close of the source file: the run ends `ok` (p beyond
    the list) or `raised`, never with anything but the original directory in the latter case. -/
theorem raise_leaves_no_temp_single {fs0 : Fs} {src dst tmp : String} {body : List Op} (early : Bool)
    (wf : WF fs0 src dst tmp body) (p j : Nat) (k : Fault)
    (hr : (exec {} (Plan.single p k) 0 { fs := fs0 } (inplaceOps early src dst tmp body)).1 = .raised j) :
    final fs0 (exec {} (Plan.single p k) 0 { fs := fs0 } (inplaceOps early src dst tmp body)).2 = fs0 := by
  apply raise_leaves_no_temp_of_plan early wf _ _ 0 j hr
  intro q ⟨h1, h2⟩
  simp only [Plan.single] at h1 h2
  by_cases hq : q = p
  · subst hq
    simp at h2
  · simp [hq] at h1

example : (exec {} (Plan.single 5 .raise) 0 { fs := fsEx } (inplaceOps false "a.txt" "a.txt" "tmp#0" bodyEx)).1 = .raised 5 := by
  decide +kernel

/-- KeyboardInterrupt while the second line is formatted; the close of the source file fails; the rename is
    interrupted: the run ends raised and nothing is left behind. -/
example :
    (exec {} (Plan.single 5 .raiseBase) 0 { fs := fsEx } (inplaceOps false "a.txt" "a.txt" "tmp#0" bodyEx)).1 = .raised 5 ∧
    final fsEx (exec {} (Plan.single 5 .raiseBase) 0 { fs := fsEx }
      (inplaceOps false "a.txt" "a.txt" "tmp#0" bodyEx)).2 = fsEx ∧
    final fsEx (exec {} (Plan.single 8 .raise) 0 { fs := fsEx }
      (inplaceOps false "a.txt" "a.txt" "tmp#0" bodyEx)).2 = fsEx ∧
    final fsEx (exec {} (Plan.single 9 .raiseBase) 0 { fs := fsEx }
      (inplaceOps false "a.txt" "a.txt" "tmp#0" bodyEx)).2 = fsEx := by
  decide +kernel

/-- **raise_leaves_temp_or_nothing.** HOWEVER a rewrite comes to raise — whatever the `except` arrangement
    (`cfg`: the code now, or any of the earlier ones), an Exception or a BaseException, a clean-up that works or
    fails; any number of faults — the directory afterwards is the original one, or the original one plus the
    temp entry: the source holds its original bytes, no other entry changed, nothing is missing. -/
theorem raise_leaves_temp_or_nothing {fs0 : Fs} {src dst tmp orig : String} {body : List Op} (early : Bool)
    (wf : WF fs0 src dst tmp body) (ho : fs0.get? src = some orig) (cfg : Cfg) (plan : Plan) (i j : Nat)
    (hr : (exec cfg plan i { fs := fs0 } (inplaceOps early src dst tmp body)).1 = .raised j) :
    let fin := final fs0 (exec cfg plan i { fs := fs0 } (inplaceOps early src dst tmp body)).2
    (fin = fs0 ∨ ∃ c, fin = fs0 ++ [(tmp, c)]) ∧ fin.get? src = some orig := by
  have P := exec_inplace (dst := dst) (cfg := cfg) (plan := plan) early body wf.bodyOps wf.tmpFresh wf.srcExists i
  have h := P.raisedAB j hr
  simp only []
  refine ⟨h, ?_⟩
  rcases h with h | ⟨c, h⟩
  · rw [h, ho]
  · rw [h, Fs.get?_append_other wf.ne, ho]

/-- **cleanup_failure_leaves_temp.** What remains when the clean-up fails too: the rewrite raised and
    `remove_temp_file`'s `os.remove` raised as well (event `removeTemp!`: an Exception there is logged and
    swallowed and the original error propagates; a BaseException there propagates instead): the temp entry
    STAYS, the source holds its original bytes. (The only way a raising rewrite leaves anything behind:
    `raise_leaves_no_temp`.) -/
theorem cleanup_failure_leaves_temp {fs0 : Fs} {src dst tmp orig : String} {body : List Op} (early : Bool)
    (wf : WF fs0 src dst tmp body) (ho : fs0.get? src = some orig) (cfg : Cfg) (plan : Plan) (i j : Nat)
    (hr : (exec cfg plan i { fs := fs0 } (inplaceOps early src dst tmp body)).1 = .raised j)
    (hrm : ∃ ev ∈ (exec cfg plan i { fs := fs0 } (inplaceOps early src dst tmp body)).2, ev.1 = "removeTemp!") :
    let fin := final fs0 (exec cfg plan i { fs := fs0 } (inplaceOps early src dst tmp body)).2
    (∃ c, fin = fs0 ++ [(tmp, c)]) ∧ fin.get? src = some orig := by
  obtain ⟨c, hc⟩ := exec_inplace_stays (dst := dst) (cfg := cfg) (plan := plan) early body wf.bodyOps wf.tmpFresh
    wf.srcExists i j hr hrm
  simp only []
  exact ⟨⟨c, hc⟩, by rw [hc, Fs.get?_append_other wf.ne, ho]⟩

/-- rename fails and then the clean-up's `os.remove` fails too (OSError: swallowed; KeyboardInterrupt: it is
    what propagates): the complete temp file stays. -/
example : (exec {} (Plan.double 9 .raise 10 .raise) 0 { fs := fsEx } (inplaceOps false "a.txt" "a.txt" "tmp#0" bodyEx)).1
      = .raised 9 ∧
    final fsEx (exec {} (Plan.double 9 .raise 10 .raise) 0 { fs := fsEx }
      (inplaceOps false "a.txt" "a.txt" "tmp#0" bodyEx)).2 = fsEx ++ [("tmp#0", "XY")] ∧
    (exec {} (Plan.double 9 .raise 10 .raiseBase) 0 { fs := fsEx }
      (inplaceOps false "a.txt" "a.txt" "tmp#0" bodyEx)).1 = .raised 10 ∧
    final fsEx (exec {} (Plan.double 9 .raise 10 .raiseBase) 0 { fs := fsEx }
      (inplaceOps false "a.txt" "a.txt" "tmp#0" bodyEx)).2 = fsEx ++ [("tmp#0", "XY")] ∧
    (∃ ev ∈ (exec {} (Plan.double 9 .raise 10 .raise) 0 { fs := fsEx }
      (inplaceOps false "a.txt" "a.txt" "tmp#0" bodyEx)).2, ev.1 = "removeTemp!") := by
  refine ⟨by decide +kernel, by decide +kernel, by decide +kernel, by decide +kernel, ?_⟩
  exact ⟨("removeTemp!", fsEx ++ [("tmp#0", "XY")]), by decide +kernel, rfl⟩

/-- **base_exception_temp_stays_pre_fix** (defect repaired by 66bb5ed). With the OLD clean-up handlers
    (`except Exception:` in both `in_to_out`s and in `move_temp_file`: `cleanupBase = false`) a KeyboardInterrupt
    while the second line is formatted passed them by: the run ended raised and the temp file with the
    first line stayed in the directory while the process lived on; likewise an interrupted rename. The same
    plans against the code as it is now leave the original directory. -/
theorem base_exception_temp_stays_pre_fix :
    (exec { cleanupBase := false } (Plan.single 5 .raiseBase) 0 { fs := fsEx }
      (inplaceOps false "a.txt" "a.txt" "tmp#0" bodyEx)).1 = .raised 5 ∧
    final fsEx (exec { cleanupBase := false } (Plan.single 5 .raiseBase) 0 { fs := fsEx }
      (inplaceOps false "a.txt" "a.txt" "tmp#0" bodyEx)).2 = fsEx ++ [("tmp#0", "X")] ∧
    final fsEx (exec { cleanupBase := false } (Plan.single 9 .raiseBase) 0 { fs := fsEx }
      (inplaceOps false "a.txt" "a.txt" "tmp#0" bodyEx)).2 = fsEx ++ [("tmp#0", "XY")] ∧
    final fsEx (exec {} (Plan.single 5 .raiseBase) 0 { fs := fsEx }
      (inplaceOps false "a.txt" "a.txt" "tmp#0" bodyEx)).2 = fsEx ∧
    final fsEx (exec {} (Plan.single 9 .raiseBase) 0 { fs := fsEx }
      (inplaceOps false "a.txt" "a.txt" "tmp#0" bodyEx)).2 = fsEx := by
  decide +kernel

/-- **closeIn_failure_leaves_temp_pre_fix** (defect repaired by 66bb5ed). StreamRewriter closes the source
    file between the close of the temp file and `move_temp_file`; before the fix that close was outside
    every `try` (`closeInTry = false`): if it raised, the complete temp file stayed and the source was not
    replaced. Now it is inside the `try`: the temp file is removed. ObjectRewriter closes the source before
    the temp file exists: a failure there leaves the directory untouched under either arrangement. -/
theorem closeIn_failure_leaves_temp_pre_fix :
    (exec { closeInTry := false } (Plan.single 8 .raise) 0 { fs := fsEx }
      (inplaceOps false "a.txt" "a.txt" "tmp#0" bodyEx)).1 = .raised 8 ∧
    final fsEx (exec { closeInTry := false } (Plan.single 8 .raise) 0 { fs := fsEx }
      (inplaceOps false "a.txt" "a.txt" "tmp#0" bodyEx)).2 = fsEx ++ [("tmp#0", "XY")] ∧
    final fsEx (exec {} (Plan.single 8 .raise) 0 { fs := fsEx }
      (inplaceOps false "a.txt" "a.txt" "tmp#0" bodyEx)).2 = fsEx ∧
    (exec { closeInTry := false } (Plan.single 2 .raise) 0 { fs := fsEx }
      (inplaceOps true "a.txt" "a.txt" "tmp#0" (objectBody ["X", "Y"]))).2
      = [("sameFile", fsEx), ("openRead", fsEx), ("closeIn!", fsEx)] := by
  decide +kernel

/-- **success_same_entries.** A rewrite that ends `ok` leaves the directory with exactly the entries
    it had (the in path not being a symlink: `dst = src`), the source holding the complete new content
    and nothing else changed. -/
theorem success_same_entries {fs0 : Fs} {src dst tmp : String} {body : List Op} (early : Bool)
    (wf : WF fs0 src dst tmp body) (cfg : Cfg) (plan : Plan) (i : Nat)
    (hok : (exec cfg plan i { fs := fs0 } (inplaceOps early src dst tmp body)).1 = .ok) :
    let fin := final fs0 (exec cfg plan i { fs := fs0 } (inplaceOps early src dst tmp body)).2
    fin = fs0.set dst (newContent body) ∧ (dst = src → fin.names = fs0.names) ∧
      fin.get? dst = some (newContent body) := by
  have P := exec_inplace (dst := dst) (cfg := cfg) (plan := plan) early body wf.bodyOps wf.tmpFresh wf.srcExists i
  have h := P.ok hok
  simp only []
  rw [h]
  exact ⟨rfl, fun hd => by rw [hd]; exact Fs.names_set_of_mem wf.srcExists, Fs.get?_set_self⟩

example : (exec {} Plan.clean 0 { fs := fsEx } (inplaceOps false "a.txt" "a.txt" "tmp#0" bodyEx)).1 = .ok ∧
    final fsEx (exec {} Plan.clean 0 { fs := fsEx } (inplaceOps false "a.txt" "a.txt" "tmp#0" bodyEx)).2
      = [("a.txt", "XY"), ("b.txt", "BB")] := by
  decide +kernel

/-- **kill_leaves_src_whole.** If the process is killed at any operation, the directory is the
    original one, possibly with the temp entry in addition; the source holds its original bytes. -/
theorem kill_leaves_src_whole {fs0 : Fs} {src dst tmp orig : String} {body : List Op} (early : Bool)
    (wf : WF fs0 src dst tmp body) (ho : fs0.get? src = some orig) (cfg : Cfg) (plan : Plan) (i j : Nat)
    (hk : (exec cfg plan i { fs := fs0 } (inplaceOps early src dst tmp body)).1 = .killed j) :
    let fin := final fs0 (exec cfg plan i { fs := fs0 } (inplaceOps early src dst tmp body)).2
    (fin = fs0 ∨ ∃ c, fin = fs0 ++ [(tmp, c)]) ∧ fin.get? src = some orig := by
  have P := exec_inplace (dst := dst) (cfg := cfg) (plan := plan) early body wf.bodyOps wf.tmpFresh wf.srcExists i
  have h := P.killed j hk
  simp only []
  refine ⟨h, ?_⟩
  rcases h with h | ⟨c, h⟩
  · rw [h, ho]
  · rw [h, Fs.get?_append_other wf.ne, ho]

example : (exec {} (Plan.single 8 .kill) 0 { fs := fsEx } (inplaceOps false "a.txt" "a.txt" "tmp#0" bodyEx)).1 = .killed 8 ∧
    final fsEx (exec {} (Plan.single 8 .kill) 0 { fs := fsEx } (inplaceOps false "a.txt" "a.txt" "tmp#0" bodyEx)).2
      = fsEx ++ [("tmp#0", "XY")] := by
  decide +kernel

/-- **unmatched_untouched** (one file). Every path other than the entry the in path names and the temp name
    holds, at every prefix and under every fault plan, exactly what it held before. -/
theorem unmatched_untouched {fs0 : Fs} {src dst tmp : String} {body : List Op} (early : Bool)
    (wf : WF fs0 src dst tmp body) (cfg : Cfg) (plan : Plan) (i : Nat) (p : String)
    (hps : p ≠ dst) (hpt : p ≠ tmp) :
    ∀ ev ∈ (exec cfg plan i { fs := fs0 } (inplaceOps early src dst tmp body)).2, ev.2.get? p = fs0.get? p := by
  intro ev hm
  have P := exec_inplace (dst := dst) (cfg := cfg) (plan := plan) early body wf.bodyOps wf.tmpFresh wf.srcExists i
  rcases P.shape ev hm with hab | ⟨_, hc⟩
  · rcases hab with h | ⟨c, h⟩
    · rw [h]
    · rw [h, Fs.get?_append_other hpt]
  · rw [hc, Fs.get?_set_other hps]

/-- **symlink_in_replaces_link.** The in path's last component is a symlink (`dst` = the link's entry, not a
    regular file of the directory; `src` = its target): `open(in_path)` reads the target, the temp file is
    made next to the link, and `os.replace` replaces the LINK. Under every fault plan and at every prefix:
    the target keeps its original bytes throughout; until the successful `replace` there is no regular file
    at the link's entry (the path still reads the target: the complete original), after it the entry is a
    regular file holding the complete new content (the path reads the complete new content) — so the
    path is all-or-nothing, but it is the link that is rewritten: the target is never edited, and a run
    that ends ok has turned the link into a file (`fs0 ++ [(dst, new)]`). -/
theorem symlink_in_replaces_link {fs0 : Fs} {src dst tmp orig : String} {body : List Op} (early : Bool)
    (wf : WF fs0 src dst tmp body) (ho : fs0.get? src = some orig) (hlink : fs0.get? dst = none)
    (cfg : Cfg) (plan : Plan) (i : Nat) :
    (∀ ev ∈ (exec cfg plan i { fs := fs0 } (inplaceOps early src dst tmp body)).2,
      ev.2.get? src = some orig ∧
      (ev.2.get? dst = none ∨ (ev.1 = "replace" ∧ ev.2 = fs0 ++ [(dst, newContent body)]))) ∧
    ((exec cfg plan i { fs := fs0 } (inplaceOps early src dst tmp body)).1 = .ok →
      final fs0 (exec cfg plan i { fs := fs0 } (inplaceOps early src dst tmp body)).2
        = fs0 ++ [(dst, newContent body)]) := by
  have P := exec_inplace (dst := dst) (cfg := cfg) (plan := plan) early body wf.bodyOps wf.tmpFresh wf.srcExists i
  have hsd : src ≠ dst := by
    intro h; rw [h, hlink] at ho; cases ho
  have hset : fs0.set dst (newContent body) = fs0 ++ [(dst, newContent body)] := Fs.set_fresh hlink
  refine ⟨?_, fun hok => by rw [P.ok hok, hset]⟩
  intro ev hm
  rcases P.shape ev hm with hab | ⟨hl, hc⟩
  · rcases hab with h | ⟨c, h⟩
    · rw [h]; exact ⟨ho, Or.inl hlink⟩
    · rw [h, Fs.get?_append_other wf.ne, Fs.get?_append_other wf.dstNeTmp]; exact ⟨ho, Or.inl hlink⟩
  · rw [hc, hset]
    exact ⟨by rw [Fs.get?_append_other hsd]; exact ho, Or.inr ⟨hl, rfl⟩⟩

/-- ln.txt is a symlink to a.txt (not a regular file: not in the directory state); `in: ln.txt`. -/
private theorem wfLn : WF fsEx "a.txt" "ln.txt" "tmp#0" bodyEx where
  srcExists := by decide +kernel
  tmpFresh := by decide +kernel
  bodyOps := by decide +kernel
  dstOk := Or.inr (by decide +kernel)
  dstNeTmp := by decide

example : final fsEx (exec {} Plan.clean 0 { fs := fsEx } (inplaceOps false "a.txt" "ln.txt" "tmp#0" bodyEx)).2
    = [("a.txt", "AA"), ("b.txt", "BB"), ("ln.txt", "XY")] := by decide +kernel

/-- **out_equal_in_is_inplace.** `in_to_out(in, out)` with `out` naming the same existing file
    performs exactly the operation list of `in_to_out(in)`: the temp-then-replace route (so every
    theorem above applies to it). -/
theorem out_equal_in_is_inplace (fs : Fs) (early : Bool) (src tmp : String) (body : List Op)
    (hs : (fs.get? src).isSome) :
    jobOps fs { src := src, out := some src, tmp := tmp, body := body, early := early }
      = inplaceOps early src src tmp body ∧
    jobOps fs { src := src, out := some src, tmp := tmp, body := body, early := early }
      = jobOps fs { src := src, out := none, tmp := tmp, body := body, early := early } := by
  have h1 := jobOps_inplace fs { src := src, out := some src, tmp := tmp, body := body, early := early } hs (Or.inr rfl)
  have h2 := jobOps_inplace fs { src := src, out := none, tmp := tmp, body := body, early := early } hs (Or.inl rfl)
  exact ⟨h1, h1.trans h2.symm⟩

/-- Why the same-file detection matters (witness): writing straight to the source (the direct
    route with out = in) and failing at the second write leaves a truncated source. -/
theorem direct_route_not_atomic :
    final fsEx (exec {} (Plan.single 6 .raise) 0 { fs := fsEx } (directOps false "a.txt" "a.txt" bodyEx)).2
      = [("a.txt", "X"), ("b.txt", "BB")] := by
  decide +kernel

/-- **temp_leak_pre_fix** (defect F7, repaired by c58f36c). With the OLD `except` structure (no
    clean-up when the write phase raises) the second line failing to format leaves the temp entry
    behind: the directory after the raise is not the original one. -/
theorem temp_leak_pre_fix :
    (exec { cleanupWrite := false } (Plan.single 5 .raise) 0 { fs := fsEx }
        (inplaceOps false "a.txt" "a.txt" "tmp#0" bodyEx)).1 = .raised 5 ∧
    final fsEx (exec { cleanupWrite := false } (Plan.single 5 .raise) 0 { fs := fsEx }
        (inplaceOps false "a.txt" "a.txt" "tmp#0" bodyEx)).2 = fsEx ++ [("tmp#0", "X")] := by
  decide +kernel

/-- …and the same plan against the code as it is now leaves the original directory. -/
example : final fsEx (exec {} (Plan.single 5 .raise) 0 { fs := fsEx } (inplaceOps false "a.txt" "a.txt" "tmp#0" bodyEx)).2
    = fsEx := by
  decide +kernel

/-! ### "out equal to in": every way two paths can name one file

  `Links` (PypyrModel/FsRewrite.lean): a path spelling resolves to a directory entry (`resolve`:
  relative/absolute, `..`, symlinked directory, symlink to the file), an entry names an inode
  (`inoOf`; hard links share one). `isSameFileL` is inode equality of the resolved entries,
  `route` is in-place iff there is no out or out is the same inode, `jobOpsL`/`runJobL` run the
  chosen operation list; on the direct route `open(out,'w')` and every write hit the inode, i.e.
  all entries linked to it. -/

/-- Hypotheses "out names the file in names": both spellings given, `src` is the entry in resolves
    to, the entry out resolves to exists and has the inode of `src` — by whatever path. -/
structure SameFile (l : Links) (fs : Fs) (src o : String) : Prop where
  srcGiven : src ≠ ""
  outGiven : o ≠ ""
  srcCanon : l.resolve src = src
  srcExists : (fs.get? src).isSome
  outExists : (fs.get? (l.resolve o)).isSome
  sameInode : l.sameIno src (l.resolve o) = true

theorem SameFile.isSame {l : Links} {fs : Fs} {src o : String} (h : SameFile l fs src o) :
    isSameFileL l fs src (some o) = true := by
  have h1 : fs.contains src = true := by simpa [Fs.contains] using h.srcExists
  have h2 : fs.contains (l.resolve o) = true := by simpa [Fs.contains] using h.outExists
  simp [isSameFileL, h.srcGiven, h.outGiven, h.srcCanon, h1, h2, h.sameInode]

/-- a.txt and hl.txt are two links to inode 1; `ln.txt`, `./a.txt`, `sub/../a.txt`, `/abs/a.txt`
    are spellings that resolve to a.txt; copy.txt is another file with the same bytes. -/
private def fsL : Fs := [("a.txt", "AA"), ("hl.txt", "AA"), ("copy.txt", "AA"), ("b.txt", "BB")]
private def linksEx : Links :=
  { entry := [("ln.txt", "a.txt"), ("./a.txt", "a.txt"), ("sub/../a.txt", "a.txt"), ("/abs/a.txt", "a.txt"),
              ("lncopy.txt", "copy.txt")],
    ino := [("a.txt", 1), ("hl.txt", 1), ("copy.txt", 2), ("b.txt", 3)] }

private theorem sameEx_hardlink : SameFile linksEx fsL "a.txt" "hl.txt" :=
  ⟨by decide, by decide, by decide +kernel, by decide +kernel, by decide +kernel, by decide +kernel⟩
private theorem sameEx_symlink : SameFile linksEx fsL "a.txt" "ln.txt" :=
  ⟨by decide, by decide, by decide +kernel, by decide +kernel, by decide +kernel, by decide +kernel⟩
private theorem sameEx_dotdot : SameFile linksEx fsL "a.txt" "sub/../a.txt" :=
  ⟨by decide, by decide, by decide +kernel, by decide +kernel, by decide +kernel, by decide +kernel⟩

/-- **route_inplace_iff_same_inode.** With an out given, `in_to_out` takes the temp-then-replace
    route exactly when `is_same_file` holds — inode identity of what the two spellings resolve to —
    and otherwise writes straight to the entry out resolves to (and to every entry linked to it). -/
theorem route_inplace_iff_same_inode (l : Links) (fs : Fs) (j : Job) (o : String)
    (ho : j.out = some o) (hne : o ≠ "") :
    (route l fs j = none ↔ isSameFileL l fs j.src j.out = true) ∧
    (isSameFileL l fs j.src j.out = true → jobOpsL l fs j = inplaceOps j.early j.src j.target j.tmp j.body) ∧
    (isSameFileL l fs j.src j.out = false →
      jobOpsL l fs j = directOps j.early j.src (l.resolve o) j.body (l.peers (l.resolve o))) := by
  refine ⟨?_, ?_, ?_⟩
  · rw [route_none_iff, ho]
    simp [hne]
  · intro h; exact jobOpsL_of_route_none (route_of_same h)
  · intro h; exact jobOpsL_of_route_some (route_of_not_same ho hne h)

/-- **same_inode_routes_inplace.** Whenever out names the inode of in — identical string, relative
    vs absolute, `..`, symlink, symlinked directory, hard link: whatever `resolve`/`inoOf` say — the
    operation list is exactly that of `in_to_out(in)` with no out. -/
theorem same_inode_routes_inplace {l : Links} {fs : Fs} {src o : String} (h : SameFile l fs src o)
    (tmp : String) (body : List Op) (early : Bool := false) :
    jobOpsL l fs { src := src, out := some o, tmp := tmp, body := body, early := early }
      = inplaceOps early src src tmp body ∧
    jobOpsL l fs { src := src, out := some o, tmp := tmp, body := body, early := early }
      = jobOpsL l fs { src := src, out := none, tmp := tmp, body := body, early := early } := by
  have h1 : jobOpsL l fs { src := src, out := some o, tmp := tmp, body := body, early := early }
      = inplaceOps early src src tmp body :=
    jobOpsL_of_route_none (route_of_same h.isSame)
  have h2 : jobOpsL l fs { src := src, out := none, tmp := tmp, body := body, early := early }
      = inplaceOps early src src tmp body :=
    jobOpsL_of_route_none (route_of_noout rfl)
  exact ⟨h1, h1.trans h2.symm⟩

example : jobOpsL linksEx fsL { src := "a.txt", out := some "hl.txt", tmp := "tmp#0", body := bodyEx }
    = inplaceOps false "a.txt" "a.txt" "tmp#0" bodyEx := (same_inode_routes_inplace sameEx_hardlink _ _).1
example : jobOpsL linksEx fsL { src := "a.txt", out := some "ln.txt", tmp := "tmp#0", body := bodyEx }
    = inplaceOps false "a.txt" "a.txt" "tmp#0" bodyEx := (same_inode_routes_inplace sameEx_symlink _ _).1
example : jobOpsL linksEx fsL { src := "a.txt", out := some "sub/../a.txt", tmp := "tmp#0", body := bodyEx }
    = inplaceOps false "a.txt" "a.txt" "tmp#0" bodyEx := (same_inode_routes_inplace sameEx_dotdot _ _).1

/-- **same_file_out_all_or_nothing.** Whenever out names the inode of in — by whatever path — then
    under EVERY fault plan and at EVERY prefix of the run the source entry holds its complete
    original bytes or (only after the successful `replace`) the complete new content; every other
    entry except the temp name — the other hard links of the source included — holds what it held;
    a run that ends by raising — an Exception or a BaseException, the clean-up itself not failed — leaves
    exactly the original directory, ANY run that ends by raising the original directory plus at most the
    temp entry; a killed run leaves the original directory plus at most the temp entry; a run that ends ok
    leaves the same entries with the source new. -/
theorem same_file_out_all_or_nothing {l : Links} {fs0 : Fs} {src o tmp orig : String} {body : List Op}
    (early : Bool)
    (h : SameFile l fs0 src o) (wf : WF fs0 src src tmp body) (horig : fs0.get? src = some orig)
    (cfg : Cfg) (plan : Plan) (i : Nat) :
    let r := runJobL cfg plan i l fs0 { src := src, out := some o, tmp := tmp, body := body, early := early }
    (∀ ev ∈ r.2, ev.2.get? src = some orig ∨ (ev.1 = "replace" ∧ ev.2.get? src = some (newContent body))) ∧
    (∀ p, p ≠ src → p ≠ tmp → ∀ ev ∈ r.2, ev.2.get? p = fs0.get? p) ∧
    (∀ j, r.1 = .raised j → cfg = {} → (∀ ev ∈ r.2, ev.1 ≠ "removeTemp!") → final fs0 r.2 = fs0) ∧
    (∀ j, r.1 = .raised j → final fs0 r.2 = fs0 ∨ ∃ c, final fs0 r.2 = fs0 ++ [(tmp, c)]) ∧
    (∀ j, r.1 = .killed j →
      (final fs0 r.2 = fs0 ∨ ∃ c, final fs0 r.2 = fs0 ++ [(tmp, c)]) ∧ (final fs0 r.2).get? src = some orig) ∧
    (r.1 = .ok → final fs0 r.2 = fs0.set src (newContent body) ∧ (final fs0 r.2).names = fs0.names) := by
  have hops := (same_inode_routes_inplace h tmp body early).1
  simp only [runJobL, hops]
  have P := exec_inplace (dst := src) (cfg := cfg) (plan := plan) early body wf.bodyOps wf.tmpFresh wf.srcExists i
  refine ⟨src_always_whole early wf horig cfg plan i, ?_, ?_, ?_, ?_, ?_⟩
  · intro p hps hpt
    exact unmatched_untouched early wf cfg plan i p hps hpt
  · intro j hr hc hrm
    subst hc
    exact P.raised j hr rfl rfl rfl hrm
  · intro j hr
    exact P.raisedAB j hr
  · intro j hk
    exact kill_leaves_src_whole early wf horig cfg plan i j hk
  · intro hok
    exact ⟨(success_same_entries early wf cfg plan i hok).1, (success_same_entries early wf cfg plan i hok).2.1 rfl⟩

private theorem wfL : WF fsL "a.txt" "a.txt" "tmp#0" bodyEx where
  srcExists := by decide +kernel
  tmpFresh := by decide +kernel
  bodyOps := by decide +kernel
  dstOk := Or.inl rfl
  dstNeTmp := by decide

/-- out = a second hard link of in, the second line fails to format: nothing changed. -/
example : final fsL (runJobL {} (Plan.single 5 .raise) 0 linksEx fsL
    { src := "a.txt", out := some "hl.txt", tmp := "tmp#0", body := bodyEx }).2 = fsL := by
  decide +kernel

/-- **other_file_out_never_touches_in.** If out resolves to an entry whose inode is not the inode of
    in (a different file with equal content, a copy, a file that does not exist yet), then under
    every fault plan and at every prefix every entry that is not a link to out's inode — the source
    first of all (`p := src`) — holds exactly what it held. -/
theorem other_file_out_never_touches_in (l : Links) (fs0 : Fs) (src o tmp : String) (body : List Op)
    (early : Bool)
    (hne : o ≠ "") (hcan : l.resolve src = src) (hb : ∀ op ∈ body, op.isBody = true)
    (hdiff : l.sameIno src (l.resolve o) = false)
    (cfg : Cfg) (plan : Plan) (i : Nat) (p : String) (hp : l.sameIno p (l.resolve o) = false) :
    ∀ ev ∈ (runJobL cfg plan i l fs0 { src := src, out := some o, tmp := tmp, body := body, early := early }).2,
      ev.2.get? p = fs0.get? p := by
  have hns : isSameFileL l fs0 src (some o) = false := by
    simp [isSameFileL, hcan, hdiff]
  have hops := jobOpsL_of_route_some
    (route_of_not_same (j := { src := src, out := some o, tmp := tmp, body := body, early := early }) rfl hne hns)
  simp only [runJobL, hops]
  have hpo : p ≠ l.resolve o := by
    intro he
    rw [he, Links.sameIno_refl] at hp
    cases hp
  have hpp : p ∉ l.peers (l.resolve o) := by
    intro hm
    rw [Links.sameIno_of_mem_peers hm] at hp
    cases hp
  exact exec_direct_frame cfg plan hpo hpp _ (directOps_directTo early src _ body _ hb) i { fs := fs0 }
    ⟨rfl, Or.inl rfl⟩

/-- out = a copy with the same bytes, second write fails: the copy is left half-written (the direct
    route is not claimed to be atomic), the source and its hard link are untouched. -/
example : final fsL (runJobL {} (Plan.single 6 .raise) 0 linksEx fsL
    { src := "a.txt", out := some "lncopy.txt", tmp := "tmp#0", body := bodyEx }).2
      = [("a.txt", "AA"), ("hl.txt", "AA"), ("copy.txt", "X"), ("b.txt", "BB")] := by
  decide +kernel

/-- **path_identity_is_not_enough** (witness: why `is_same_file` must compare inodes, not resolved
    path names). out = a second hard link of in. A path-comparing test says "different file" and the
    code takes the direct route: `open(out,'w')` truncates the inode both names share. If the first
    line then fails to format the source is empty — the original is destroyed; if the second write
    fails the source holds a fragment that is neither the original nor the new content. The route
    the model (and `os.path.samefile`) takes leaves the source intact under the same plans. -/
theorem path_identity_is_not_enough :
    let direct := directOps false "a.txt" "hl.txt" bodyEx (linksEx.peers "hl.txt")
    linksEx.peers "hl.txt" = ["a.txt"] ∧
    (final fsL (exec {} (Plan.single 3 .raise) 0 { fs := fsL } direct).2).get? "a.txt" = some "" ∧
    (final fsL (exec {} (Plan.single 6 .raise) 0 { fs := fsL } direct).2).get? "a.txt" = some "X" ∧
    (final fsL (runJobL {} (Plan.single 3 .raise) 0 linksEx fsL
      { src := "a.txt", out := some "hl.txt", tmp := "tmp#0", body := bodyEx }).2).get? "a.txt" = some "AA" ∧
    (final fsL (runJobL {} (Plan.single 6 .raise) 0 linksEx fsL
      { src := "a.txt", out := some "hl.txt", tmp := "tmp#0", body := bodyEx }).2).get? "a.txt" = some "AA" := by
  decide +kernel

/-! ### Several files: the loop of `files_in_to_out` (single files, lists, globs)

  `get_glob` chains the per-pattern globs WITHOUT de-duplication (`in: ['*.txt', 'a.txt']` yields a.txt
  twice), so a file may be rewritten more than once in one run: the later pass reads the result of the
  earlier one. The theorems below hold for every list of in-place jobs, sources repeated or not. -/

private def jobsEx : List Job :=
  [{ src := "a.txt", tmp := "tmp#0", body := streamBody 1 ["X", "Y"] },
   { src := "b.txt", out := some "b.txt", tmp := "tmp#1", body := objectBody ["Z"], early := true }]

private theorem jobsWfEx : JobsWF fsEx jobsEx where
  srcExists := by decide +kernel
  tmpFresh := by decide +kernel
  bodyOps := by decide +kernel
  inplace := by decide +kernel
  noLink := by decide +kernel

/-- **src_always_whole / unmatched_untouched for a whole run.** At every prefix of a multi-file
    run, under every fault plan, every path that is not a temp name holds what it held originally,
    or it is a matched source holding the complete new content of one of its rewrites. -/
theorem src_always_whole_files {fs0 : Fs} {J : List Job} (wf : JobsWF fs0 J)
    (cfg : Cfg) (plan : Plan) (i : Nat) :
    ∀ ev ∈ (runJobs cfg plan i fs0 J).2, ∀ p, (∀ j ∈ J, p ≠ j.tmp) →
      ev.2.get? p = fs0.get? p ∨ ∃ j ∈ J, p = j.src ∧ ev.2.get? p = some (newContent j.body) := by
  intro ev hm
  have M := runJobs_post cfg plan wf J (fun _ h => h) i fs0 (fun p _ => Or.inl rfl) rfl
  exact M.whole ev hm

/-- **duplicate_source_whole.** `in` matches one file twice (`in: ['*.txt', 'a.txt']`): two in-place jobs
    with the same source; the second pass's "original" is the first pass's result. At every prefix of the
    run, under every fault plan, the source holds its complete original bytes, the complete result of the
    first pass or the complete result of the second — never anything else; a run that ends ok leaves the
    second result. -/
theorem duplicate_source_whole {fs0 : Fs} {j1 j2 : Job} {orig : String} (wf : JobsWF fs0 [j1, j2])
    (hsame : j2.src = j1.src) (ho : fs0.get? j1.src = some orig) (cfg : Cfg) (plan : Plan) (i : Nat) :
    (∀ ev ∈ (runJobs cfg plan i fs0 [j1, j2]).2,
      ev.2.get? j1.src = some orig ∨ ev.2.get? j1.src = some (newContent j1.body) ∨
        ev.2.get? j1.src = some (newContent j2.body)) ∧
    ((runJobs cfg plan i fs0 [j1, j2]).1 = .ok →
      (final fs0 (runJobs cfg plan i fs0 [j1, j2]).2).get? j1.src = some (newContent j2.body)) := by
  have M := runJobs_post cfg plan wf [j1, j2] (fun _ h => h) i fs0 (fun p _ => Or.inl rfl) rfl
  have hne : ∀ j ∈ [j1, j2], j1.src ≠ j.tmp := by
    intro j hj he
    have h1 := wf.srcExists j1 (by simp)
    rw [he, wf.tmpFresh j hj] at h1
    cases h1
  constructor
  · intro ev hm
    rcases M.whole ev hm j1.src hne with h | ⟨j, hj, hs, h⟩
    · left; rw [h, ho]
    · simp only [List.mem_cons, List.mem_nil_iff, or_false] at hj
      rcases hj with rfl | rfl
      · right; left; exact h
      · right; right; exact h
  · intro hok
    have hl : lastJob [j1, j2] j1.src = some j2 := by
      simp [lastJob, hsame]
    exact (M.ok hok).2 j1.src j2 hl

private def fsDup : Fs := [("a.txt", "{k}"), ("b.txt", "BB")]
/-- a.txt matched twice; what the second pass writes is computed from the first pass's result. -/
private def jobsDup : List Job :=
  [{ src := "a.txt", tmp := "tmp#0", body := streamBody 1 ["N1"] },
   { src := "a.txt", tmp := "tmp#1", body := streamBody 1 ["N2"] }]

example : JobsWF fsDup jobsDup where
  srcExists := by decide +kernel
  tmpFresh := by decide +kernel
  bodyOps := by decide +kernel
  inplace := by decide +kernel
  noLink := by decide +kernel

/-- killed while the second pass writes: the source holds the complete result of the FIRST pass. -/
example : (runJobs {} (Plan.single 13 .kill) 0 fsDup jobsDup).1 = .killed 13 ∧
    final fsDup (runJobs {} (Plan.single 13 .kill) 0 fsDup jobsDup).2
      = [("a.txt", "N1"), ("b.txt", "BB"), ("tmp#1", "N2")] := by
  decide +kernel

/-- **unmatched_untouched.** Files not matched by `in` (and not temp names) are byte-identical at
    every prefix of the run, under every fault plan. -/
theorem unmatched_untouched_files {fs0 : Fs} {J : List Job} (wf : JobsWF fs0 J)
    (cfg : Cfg) (plan : Plan) (i : Nat) (p : String)
    (hps : ∀ j ∈ J, p ≠ j.src) (hpt : ∀ j ∈ J, p ≠ j.tmp) :
    ∀ ev ∈ (runJobs cfg plan i fs0 J).2, ev.2.get? p = fs0.get? p := by
  have M := runJobs_post cfg plan wf J (fun _ h => h) i fs0 (fun p _ => Or.inl rfl) rfl
  exact M.frame p hps hpt

/-- **raise_leaves_no_temp** for a run over several files: exactly the original entries remain, whatever
    raised (Exception or BaseException, at whichever operation of whichever file), the clean-up itself not
    failed. -/
theorem raise_leaves_no_temp_files {fs0 : Fs} {J : List Job} (wf : JobsWF fs0 J)
    (plan : Plan) (i j : Nat)
    (hr : (runJobs {} plan i fs0 J).1 = .raised j)
    (hrm : ∀ ev ∈ (runJobs {} plan i fs0 J).2, ev.1 ≠ "removeTemp!") :
    (final fs0 (runJobs {} plan i fs0 J).2).names = fs0.names := by
  have M := runJobs_post {} plan wf J (fun _ h => h) i fs0 (fun p _ => Or.inl rfl) rfl
  exact M.raised j hr rfl rfl rfl hrm

/-- A failed clean-up takes two adjacent raising faults, in a run over several files too. -/
theorem no_failed_cleanup_of_plan {fs0 : Fs} {J : List Job} (wf : JobsWF fs0 J) (cfg : Cfg)
    (plan : Plan) (hplan : ∀ k, ¬ TwoFaults plan k) (i : Nat) :
    ∀ ev ∈ (runJobs cfg plan i fs0 J).2, ev.1 ≠ "removeTemp!" := by
  have M := runJobs_post cfg plan wf J (fun _ h => h) i fs0 (fun p _ => Or.inl rfl) rfl
  intro ev hm he
  obtain ⟨k, hk⟩ := M.rmNeeds2 ev hm he
  exact hplan k hk

/-- **raise_leaves_temp_or_nothing** for a run over several files: however the run came to raise, at most
    one temp entry is extra (and by `src_always_whole_files` every source is whole). -/
theorem raise_leaves_temp_or_nothing_files {fs0 : Fs} {J : List Job} (wf : JobsWF fs0 J)
    (cfg : Cfg) (plan : Plan) (i j : Nat) (hr : (runJobs cfg plan i fs0 J).1 = .raised j) :
    (final fs0 (runJobs cfg plan i fs0 J).2).names = fs0.names ∨
    ∃ jb ∈ J, (final fs0 (runJobs cfg plan i fs0 J).2).names = fs0.names ++ [jb.tmp] := by
  have M := runJobs_post cfg plan wf J (fun _ h => h) i fs0 (fun p _ => Or.inl rfl) rfl
  exact M.raisedNames j hr

/-- **success_same_entries** for a run over several files: same entries, every source holds the new
    content of its LAST rewrite. -/
theorem success_same_entries_files {fs0 : Fs} {J : List Job} (wf : JobsWF fs0 J)
    (cfg : Cfg) (plan : Plan) (i : Nat)
    (hok : (runJobs cfg plan i fs0 J).1 = .ok) :
    (final fs0 (runJobs cfg plan i fs0 J).2).names = fs0.names ∧
    (∀ p j, lastJob J p = some j → (final fs0 (runJobs cfg plan i fs0 J).2).get? p = some (newContent j.body)) ∧
    ((J.map (·.src)).Nodup →
      ∀ j ∈ J, (final fs0 (runJobs cfg plan i fs0 J).2).get? j.src = some (newContent j.body)) := by
  have M := runJobs_post cfg plan wf J (fun _ h => h) i fs0 (fun p _ => Or.inl rfl) rfl
  exact ⟨(M.ok hok).1, (M.ok hok).2, fun hnd j hj => (M.ok hok).2 j.src j (lastJob_of_nodup hnd hj)⟩

/-- **kill_leaves_src_whole** for a run over several files: after a kill at most one `tmp` entry
    is extra (and by `src_always_whole_files` every source is whole). -/
theorem kill_leaves_src_whole_files {fs0 : Fs} {J : List Job} (wf : JobsWF fs0 J)
    (cfg : Cfg) (plan : Plan) (i j : Nat)
    (hk : (runJobs cfg plan i fs0 J).1 = .killed j) :
    (final fs0 (runJobs cfg plan i fs0 J).2).names = fs0.names ∨
    ∃ jb ∈ J, (final fs0 (runJobs cfg plan i fs0 J).2).names = fs0.names ++ [jb.tmp] := by
  have M := runJobs_post cfg plan wf J (fun _ h => h) i fs0 (fun p _ => Or.inl rfl) rfl
  exact M.killed j hk

/-- job 1 (stream, 10 operations 0..9) done; job 2 (object: 10 sameFile, 11 openRead, 12 closeIn, 13 mkTemp,
    14 fmt, 15 write Z, 16 close, 17 replace) killed at its close. -/
example : (runJobs {} (Plan.single 16 .kill) 0 fsEx jobsEx).1 = .killed 16 ∧
    final fsEx (runJobs {} (Plan.single 16 .kill) 0 fsEx jobsEx).2
      = [("a.txt", "XY"), ("b.txt", "BB"), ("tmp#1", "Z")] := by
  decide +kernel

/-- **files_out_alias_is_no_out.** A run over several files in which every out is absent or a
    spelling of the source entry itself (identical string, relative vs absolute, `..`, symlinked
    directory — e.g. out = the directory of the in files — or a symlink to the file) is, under every
    fault plan, event for event the run with no out at all: every theorem of this section applies to
    it. (A hard-linked out is covered per file by `same_file_out_all_or_nothing`; in a multi-file
    run inode ids change as the loop replaces sources, which `runJobsL` tracks.) -/
theorem files_out_alias_is_no_out {fs0 : Fs} {J : List Job} (l : Links)
    (wf : JobsWF fs0 (J.map Job.noOut)) (hpa : ∀ j ∈ J, PathAlias l j)
    (cfg : Cfg) (plan : Plan) (i : Nat) :
    runJobsL cfg plan i l fs0 J = runJobs cfg plan i fs0 (J.map Job.noOut) :=
  runJobsL_eq_runJobs cfg plan J
    (fun j hj => wf.srcExists j.noOut (List.mem_map_of_mem hj))
    (fun j hj => wf.tmpFresh j.noOut (List.mem_map_of_mem hj))
    (fun j hj => wf.bodyOps j.noOut (List.mem_map_of_mem hj))
    (fun j hj => wf.noLink j.noOut (List.mem_map_of_mem hj)) i l fs0 rfl hpa

private def jobsLEx : List Job :=
  [{ src := "a.txt", out := some "ln.txt", tmp := "tmp#0", body := streamBody 1 ["X", "Y"] },
   { src := "b.txt", tmp := "tmp#1", body := objectBody ["Z"], early := true }]

example : ∀ j ∈ jobsLEx, PathAlias linksEx j := by
  intro j hj
  simp only [jobsLEx, List.mem_cons, List.mem_nil_iff, or_false] at hj
  rcases hj with rfl | rfl
  · exact Or.inr ⟨"ln.txt", rfl, by decide +kernel, by decide +kernel, by decide⟩
  · exact Or.inl rfl

/-! ### Mixed runs: some jobs in place, others written to another file

  `in: ['d1/a', 'd2/a'], out: 'd1/'`: for d1/a the out path `d1/a` is the in file itself — an in-place edit —
  while d2/a is written straight onto `d1/a`, the source the first job has just rewritten. -/

/-- **mixed_run_sources_whole.** A run over several files (`runJobsL`: routes decided on inodes, the link
    table threaded through) in which every job is either in place (out absent or a spelling of its own source
    entry) or writes to an entry that is NO job's source and no temp name, in a tree without hard links:
    at every prefix, under every fault plan, every path that is neither a temp name nor the target of a direct
    write holds what it held originally, or it is the source of an in-place job holding that job's complete new
    content. In particular the sources of the in-place jobs are whole at every instant whatever the direct
    writes do to their own targets, and unmatched files are untouched. -/
theorem mixed_run_sources_whole {l : Links} {fs0 : Fs} {J : List Job} (wf : MixedWF l fs0 J)
    (cfg : Cfg) (plan : Plan) (i : Nat) :
    ∀ ev ∈ (runJobsL cfg plan i l fs0 J).2, ∀ p, (∀ j ∈ J, p ≠ j.tmp) → ¬ IsOut l J p →
      ev.2.get? p = fs0.get? p ∨
        ∃ j ∈ J, PathAlias l j ∧ p = j.src ∧ ev.2.get? p = some (newContent j.body) :=
  fun ev hm => runJobsL_wholeM wf cfg plan J (fun _ h => h) i l fs0
    { inj := wf.inj, res := fun _ => rfl, srcs := wf.srcExists, tmps := wf.tmpFresh,
      whole := fun _ _ _ => Or.inl rfl } ev hm

private def fsMix : Fs := [("d1/a", "AA"), ("d2/a", "BB"), ("od/keep", "K")]
/-- `in: ['d1/a', 'd2/a'], out: 'od/'` … -/
private def jobsMixOk : List Job :=
  [{ src := "d1/a", out := some "d1/a", tmp := "d1/tmp#0", body := streamBody 1 ["X", "Y"] },
   { src := "d2/a", out := some "od/a", tmp := "d2/tmp#1", body := streamBody 1 ["P", "Q"] }]
/-- … and `in: ['d1/a', 'd2/a'], out: 'd1/'`. -/
private def jobsMixBad : List Job :=
  [{ src := "d1/a", out := some "d1/a", tmp := "d1/tmp#0", body := streamBody 1 ["X", "Y"] },
   { src := "d2/a", out := some "d1/a", tmp := "d2/tmp#1", body := streamBody 1 ["P", "Q"] }]

example : MixedWF {} fsMix jobsMixOk where
  srcExists := by decide +kernel
  tmpFresh := by decide +kernel
  bodyOps := by decide +kernel
  noLink := by decide +kernel
  srcCanon := by decide +kernel
  inj := by intro p q n h; simp [Links.inoOf] at h
  kind := by
    intro j hj
    simp only [jobsMixOk, List.mem_cons, List.mem_nil_iff, or_false] at hj
    rcases hj with rfl | rfl
    · exact Or.inl (Or.inr ⟨"d1/a", rfl, rfl, rfl, by decide⟩)
    · exact Or.inr ⟨"od/a", rfl, by decide, by decide +kernel, by decide +kernel⟩

/-- **direct_out_onto_source_destroys_it** (witness: the hypothesis of `mixed_run_sources_whole` is needed).
    `in: ['d1/a', 'd2/a'], out: 'd1/'`: job 1 edits d1/a in place (ok: d1/a = "XY"); job 2 then takes the direct
    route onto d1/a (`open(out, 'w')` truncates it). If its second line fails to format, d1/a is left holding
    "P": neither its original bytes, nor its own complete new content, nor job 2's complete output — and the
    run has ended by raising. -/
theorem direct_out_onto_source_destroys_it :
    route {} fsMix jobsMixBad[0] = none ∧
    route {} [("d1/a", "XY"), ("d2/a", "BB"), ("od/keep", "K")] jobsMixBad[1] = some "d1/a" ∧
    (runJobsL {} (Plan.single 15 .raise) 0 {} fsMix jobsMixBad).1 = .raised 15 ∧
    final fsMix (runJobsL {} (Plan.single 15 .raise) 0 {} fsMix jobsMixBad).2
      = [("d1/a", "P"), ("d2/a", "BB"), ("od/keep", "K")] := by
  decide +kernel

/-! ### The `out` option of the step: absent, `None` and `''` all mean "edit in place"

  `planOut` (PypyrModel/FsRewrite.lean) is the `if out_path:` ladder of `files_in_to_out`;
  `runFiles` is the whole call: plan, then the loop with the per-file out the plan yields. -/

/-- **planOut_spec.** The whole option space of `out`: in place exactly for absent/None/'' (a
    truthiness test, not `is not None`); a directory when it ends with the separator or is an existing
    directory; else one file — an error when `in` matched several paths. -/
theorem planOut_spec (out : Option String) (isDir : Bool) (nIn : Nat) :
    (planOut out isDir nIn = .inplace ↔ (out = none ∨ out = some "")) ∧
    (∀ o, out = some o → o ≠ "" → (endsWithSep o = true ∨ isDir = true) →
      planOut out isDir nIn = .intoDir o) ∧
    (∀ o, out = some o → o ≠ "" → endsWithSep o = false → isDir = false →
      planOut out isDir nIn = if nIn > 1 then .tooMany else .toFile o) := by
  refine ⟨?_, ?_, ?_⟩
  · cases out with
    | none => simp [planOut]
    | some o =>
      by_cases he : o = ""
      · simp [planOut, he]
      · simp only [planOut, he, if_false, Option.some.injEq, false_or, reduceCtorEq, iff_false]
        repeat' split
        all_goals simp
  · intro o ho hne hd
    subst ho
    rcases hd with hd | hd
    · simp [planOut, hne, hd]
    · by_cases hs : endsWithSep o = true <;> simp [planOut, hne, hd, hs]
  · intro o ho hne hs hd
    subst ho
    simp [planOut, hne, hs, hd]

/-- **files_out_plan_alias_is_no_out.** Whatever `out` is — absent, None, '', the directory of the in
    files (with or without the trailing separator), a path equal to in — if the per-file out the plan
    yields is absent or a spelling of the source entry itself, the whole `files_in_to_out` call is,
    under every fault plan and event for event, the call with no out: every theorem of the
    multi-file section applies to it. -/
theorem files_out_plan_alias_is_no_out {fs0 : Fs} {J : List Job} (l : Links)
    (out : Option String) (isDir : Bool) (nIn : Nat) (hp : planOut out isDir nIn ≠ .tooMany)
    (wf : JobsWF fs0 (J.map Job.noOut))
    (hpa : ∀ j ∈ J, PathAlias l (j.withOut (planOut out isDir nIn)))
    (cfg : Cfg) (plan : Plan) (i : Nat) :
    runFiles cfg plan i l fs0 out isDir nIn J = runJobs cfg plan i fs0 (J.map Job.noOut) := by
  have key : ∀ p : OutPlan, (∀ j ∈ J, PathAlias l (j.withOut p)) →
      runJobsL cfg plan i l fs0 (J.map (Job.withOut p)) = runJobs cfg plan i fs0 (J.map Job.noOut) := by
    intro p hpa'
    have hmm : (J.map (Job.withOut p)).map Job.noOut = J.map Job.noOut := by
      rw [List.map_map]; rfl
    have := files_out_alias_is_no_out (J := J.map (Job.withOut p)) l (by rw [hmm]; exact wf)
      (by
        intro j hj
        obtain ⟨j0, hj0, rfl⟩ := List.mem_map.mp hj
        exact hpa' j0 hj0) cfg plan i
    rw [this, hmm]
  unfold runFiles
  cases hq : planOut out isDir nIn with
  | tooMany => exact absurd hq hp
  | inplace => exact key .inplace (by rw [hq] at hpa; exact hpa)
  | intoDir d => exact key (.intoDir d) (by rw [hq] at hpa; exact hpa)
  | toFile f => exact key (.toFile f) (by rw [hq] at hpa; exact hpa)

/-- **falsy_out_is_no_out.** `out` absent, `None` or the empty string (e.g. `out: '{outDir}'` with
    `outDir == ''`): the call IS the in-place call, for every list of matched files, every fault plan,
    whatever `Path('')` happens to be (`isDir`) and however many paths `in` matched. In particular
    (`unmatched_untouched_files`) no file of the working directory that merely has the name of an in
    file is ever opened. -/
theorem falsy_out_is_no_out {fs0 : Fs} {J : List Job} (l : Links) (out : Option String)
    (hout : out = none ∨ out = some "") (isDir : Bool) (nIn : Nat)
    (wf : JobsWF fs0 (J.map Job.noOut)) (cfg : Cfg) (plan : Plan) (i : Nat) :
    runFiles cfg plan i l fs0 out isDir nIn J = runJobs cfg plan i fs0 (J.map Job.noOut) := by
  have hq : planOut out isDir nIn = .inplace := ((planOut_spec out isDir nIn).1).mpr hout
  apply files_out_plan_alias_is_no_out l out isDir nIn (by rw [hq]; intro h; cases h) wf
  intro j _
  rw [hq]
  exact Or.inl rfl

/-- conf/a.txt is the in file; cw/ is the working directory and holds an unrelated a.txt;
    `./a.txt` is how `Path('').joinpath('a.txt')` is spelled, and it resolves to cw/a.txt. -/
private def fsCwd : Fs := [("conf/a.txt", "AA"), ("cw/a.txt", "PRODUCTION"), ("b.txt", "BB")]
private def linksCwd : Links :=
  { entry := [("./a.txt", "cw/a.txt")], ino := [("conf/a.txt", 1), ("cw/a.txt", 2), ("b.txt", 3)] }
private def jobsCwd : List Job := [{ src := "conf/a.txt", tmp := "conf/tmp#0", body := bodyEx }]

example : JobsWF fsCwd (jobsCwd.map Job.noOut) where
  srcExists := by decide +kernel
  tmpFresh := by decide +kernel
  bodyOps := by decide +kernel
  inplace := by decide +kernel
  noLink := by decide +kernel

/-- **empty_out_read_as_a_path_hits_bystander** (witness: why the tests must be truthiness tests).
    Were `out: ''` read as the path `Path('')` — the working directory, an existing directory — the
    plan would be "into that directory": conf/a.txt is written straight to `./a.txt`, the unrelated
    file of the same name in the working directory. If the second line then fails to format that
    bystander is left holding the partial output and the source is never edited; a run that ends ok
    overwrites it. As the code is (`planOut (some "")` = in place) the same plans leave the bystander
    alone: failing, the directory is untouched; succeeding, only conf/a.txt changes. -/
theorem empty_out_read_as_a_path_hits_bystander :
    planOut (some "") true 1 = .inplace ∧ planOut (some ".") true 1 = .intoDir "." ∧
    (OutPlan.intoDir ".").outFor "conf/a.txt" = some "./a.txt" ∧
    final fsCwd (runFiles {} (Plan.single 5 .raise) 0 linksCwd fsCwd (some ".") true 1 jobsCwd).2
      = [("conf/a.txt", "AA"), ("cw/a.txt", "X"), ("b.txt", "BB")] ∧
    final fsCwd (runFiles {} Plan.clean 0 linksCwd fsCwd (some ".") true 1 jobsCwd).2
      = [("conf/a.txt", "AA"), ("cw/a.txt", "XY"), ("b.txt", "BB")] ∧
    final fsCwd (runFiles {} (Plan.single 5 .raise) 0 linksCwd fsCwd (some "") true 1 jobsCwd).2 = fsCwd ∧
    final fsCwd (runFiles {} Plan.clean 0 linksCwd fsCwd (some "") true 1 jobsCwd).2
      = [("conf/a.txt", "XY"), ("cw/a.txt", "PRODUCTION"), ("b.txt", "BB")] := by
  decide +kernel

/-- Several in files and one out file: `Error` before anything is opened. -/
example : runFiles {} Plan.clean 0 {} fsEx (some "out.txt") false 2 jobsEx = (.raised 0, []) := by
  decide +kernel

/-! ### The monitor -/

/-- **model_holds_C15.** The monitor `judge` — the statement of C15 as a decidable predicate over
    (directory before, directory after, matched sources with their new contents, how the run ended):
    every source whole; after success every source new; no extra entry after ok/raise and only
    `tmp#` entries extra after a kill; nothing missing; unmatched files identical — is satisfied by
    the model's final directory (the code as it is now) for every list of in-place jobs (sources may repeat)
    and every fault plan — Exceptions, BaseExceptions, kills, failing closes of either file, in any number —
    under which the clean-up itself does not fail (no `removeTemp!` event; by `no_failed_cleanup_of_plan`:
    every plan without two adjacent raising faults). With a failing clean-up: `model_holds_C15_dirty`.
    The correspondence harness evaluates the same `judge` on the IMPLEMENTATION's directories. -/
theorem model_holds_C15 {fs0 : Fs} {J : List Job} (wf : JobsWF fs0 J)
    (hnames : fs0.names.Nodup) (htmp : ∀ j ∈ J, isTempName j.tmp = true)
    (plan : Plan) (i : Nat) (hrm : ∀ ev ∈ (runJobs {} plan i fs0 J).2, ev.1 ≠ "removeTemp!") :
    (judge fs0 (final fs0 (runJobs {} plan i fs0 J).2)
      (J.map fun j => (j.src, newContent j.body)) (runJobs {} plan i fs0 J).1.toEnd).holds = true :=
  judge_model wf hnames htmp plan i hrm

/-- … in particular under every plan without two adjacent raising faults. -/
theorem model_holds_C15_of_plan {fs0 : Fs} {J : List Job} (wf : JobsWF fs0 J)
    (hnames : fs0.names.Nodup) (htmp : ∀ j ∈ J, isTempName j.tmp = true)
    (plan : Plan) (hplan : ∀ k, ¬ TwoFaults plan k) (i : Nat) :
    (judge fs0 (final fs0 (runJobs {} plan i fs0 J).2)
      (J.map fun j => (j.src, newContent j.body)) (runJobs {} plan i fs0 J).1.toEnd).holds = true :=
  model_holds_C15 wf hnames htmp plan i (no_failed_cleanup_of_plan wf {} plan hplan i)

/-- **model_holds_C15_dirty.** Under EVERY fault plan — a clean-up whose `os.remove` fails too included — and
    every `except` arrangement (the code now and the earlier ones), the model's final directory satisfies
    every clause of the monitor except "no temporary file left behind": every source whole, after success
    every source new, nothing missing, unmatched files identical, and the ONLY extra entries are temp files. -/
theorem model_holds_C15_dirty {fs0 : Fs} {J : List Job} (wf : JobsWF fs0 J)
    (hnames : fs0.names.Nodup) (htmp : ∀ j ∈ J, isTempName j.tmp = true)
    (cfg : Cfg) (plan : Plan) (i : Nat) :
    (judge fs0 (final fs0 (runJobs cfg plan i fs0 J).2)
      (J.map fun j => (j.src, newContent j.body)) (runJobs cfg plan i fs0 J).1.toEnd).holdsDirty = true :=
  judge_model_dirty wf hnames htmp cfg plan i

/-- **model_holds_C15_links.** The same for the loop that decides same-file-ness on inodes
    (`runJobsL`, what the driver runs), for every link table under which every out is absent or a
    spelling of its source entry. -/
theorem model_holds_C15_links {fs0 : Fs} {J : List Job} (l : Links)
    (wf : JobsWF fs0 (J.map Job.noOut)) (hpa : ∀ j ∈ J, PathAlias l j)
    (hnames : fs0.names.Nodup) (htmp : ∀ j ∈ J, isTempName j.tmp = true)
    (plan : Plan) (i : Nat) (hrm : ∀ ev ∈ (runJobsL {} plan i l fs0 J).2, ev.1 ≠ "removeTemp!") :
    (judge fs0 (final fs0 (runJobsL {} plan i l fs0 J).2)
      (J.map fun j => (j.src, newContent j.body)) (runJobsL {} plan i l fs0 J).1.toEnd).holds = true ∧
    ∀ (cfg : Cfg) (plan' : Plan), (judge fs0 (final fs0 (runJobsL cfg plan' i l fs0 J).2)
      (J.map fun j => (j.src, newContent j.body)) (runJobsL cfg plan' i l fs0 J).1.toEnd).holdsDirty = true := by
  have htmp' : ∀ j ∈ J.map Job.noOut, isTempName j.tmp = true := by
    intro j hj
    obtain ⟨j0, hj0, rfl⟩ := List.mem_map.mp hj
    exact htmp j0 hj0
  constructor
  · rw [files_out_alias_is_no_out l wf hpa] at hrm ⊢
    have := model_holds_C15 wf hnames htmp' plan i hrm
    rw [List.map_map] at this
    exact this
  · intro cfg plan'
    rw [files_out_alias_is_no_out l wf hpa]
    have := model_holds_C15_dirty wf hnames htmp' cfg plan' i
    rw [List.map_map] at this
    exact this

/-- **model_holds_C15_files.** The monitor holds of the model's final directory for the whole
    `files_in_to_out` call whenever out is absent/None/'' . -/
theorem model_holds_C15_files {fs0 : Fs} {J : List Job} (l : Links) (out : Option String)
    (hout : out = none ∨ out = some "") (isDir : Bool) (nIn : Nat)
    (wf : JobsWF fs0 (J.map Job.noOut))
    (hnames : fs0.names.Nodup) (htmp : ∀ j ∈ J, isTempName j.tmp = true)
    (plan : Plan) (i : Nat)
    (hrm : ∀ ev ∈ (runFiles {} plan i l fs0 out isDir nIn J).2, ev.1 ≠ "removeTemp!") :
    (judge fs0 (final fs0 (runFiles {} plan i l fs0 out isDir nIn J).2)
      (J.map fun j => (j.src, newContent j.body)) (runFiles {} plan i l fs0 out isDir nIn J).1.toEnd).holds
      = true := by
  rw [falsy_out_is_no_out l out hout isDir nIn wf] at hrm ⊢
  have htmp' : ∀ j ∈ J.map Job.noOut, isTempName j.tmp = true := by
    intro j hj
    obtain ⟨j0, hj0, rfl⟩ := List.mem_map.mp hj
    exact htmp j0 hj0
  have := model_holds_C15 wf hnames htmp' plan i hrm
  rw [List.map_map] at this
  exact this

/-- The hypotheses of `model_holds_C15` / `_of_plan` are satisfiable: the two-file example under "a
    KeyboardInterrupt while the second line of the first file is formatted". -/
example : (∀ k, ¬ TwoFaults (Plan.single 5 .raiseBase) k) ∧
    (∀ ev ∈ (runJobs {} (Plan.single 5 .raiseBase) 0 fsEx jobsEx).2, ev.1 ≠ "removeTemp!") ∧
    (runJobs {} (Plan.single 5 .raiseBase) 0 fsEx jobsEx).1 = .raised 5 := by
  refine ⟨?_, by decide +kernel, by decide +kernel⟩
  intro q ⟨h1, h2⟩
  simp only [Plan.single] at h1 h2
  by_cases hq : q = 5
  · subst hq; simp at h2
  · simp [hq] at h1

/-! ### The final move is an atomic replace or a failure

The hypothesis under every theorem above, made explicit: the last step of the in-place route is ONE operation
(`replace dst`) that either takes effect whole or faults without effect. It is a statement about `move_file`,
tied to the tree under test statically (`move_file_is_replace_only`) and dynamically (the rename is made to fail
with every errno class `rename(2)` documents and every one the code tests for; every `os.*` / `shutil.*` / `open`
call made after the refused rename is itself a fault point, kills included; monitor: the source holds the
complete original or the complete new bytes at every observed instant, and a refused rename ends in an error). -/

/-- **replace_is_one_step** — the model's `replace`: when it takes effect the entry `dst` holds the COMPLETE
    content of the temp file and the temp entry is gone, in one step; no intermediate state exists. -/
theorem replace_is_one_step (dst : String) (st st' : St) (h : apply (.replace dst) st = some st') :
    ∃ t c, st.temp = some t ∧ st.fs.get? t = some c ∧ st'.fs = (st.fs.erase t).set dst c := by
  simp only [apply] at h
  split at h
  · cases h
  · rename_i t ht
    split at h
    · cases h
    · rename_i c hc
      exact ⟨t, c, ht, hc, by cases h; rfl⟩

/-- **faulted_operation_is_reported** — whatever operation the environment makes fail (the rename included,
    whatever the reason: the model has ONE failure behaviour for all errno classes), the call does not end `ok`:
    a failed rename is reported as a failure. -/
theorem faulted_operation_is_reported (cfg : Cfg) (plan : Plan) (i : Nat) (st : St) (op : Op) (rest : List Op)
    (h : plan i ≠ .none) : (exec cfg plan i st (op :: rest)).1 ≠ .ok := by
  simp only [exec]
  cases hp : plan i with
  | none => exact absurd hp h
  | kill => simp
  | raise =>
    simp only [handler]
    repeat' split
    all_goals simp
  | raiseBase =>
    simp only [handler]
    repeat' split
    all_goals simp

/-- **failed_rename_leaves_original** — the rename of the example refused (index 9), for any reason: the call
    raises, the directory is the original one (the general statements: `raise_leaves_no_temp`,
    `src_always_whole`). -/
example : (exec {} (Plan.single 9 .raise) 0 { fs := fsEx } (inplaceOps false "a.txt" "a.txt" "tmp#0" bodyEx)).1 = .raised 9 ∧
    final fsEx (exec {} (Plan.single 9 .raise) 0 { fs := fsEx } (inplaceOps false "a.txt" "a.txt" "tmp#0" bodyEx)).2 = fsEx := by
  decide +kernel

/-- **move_file_is_replace_only** — the STATIC TIE (`Generated/FsMove.lean`, written by ast from
    pypyr/utils/filesystem.py of the tree under test on every run): `move_file` calls `os.replace` and nothing
    else (logging aside), `move_temp_file` calls `move_file` and `remove_temp_file`, `remove_temp_file` calls
    `os.remove`; none of them tests an errno or an OSError subclass (one failure behaviour for all errno
    classes); every handler of the first two re-raises. -/
theorem move_file_is_replace_only :
    Pypyr.Generated.FsMove.moveFileCalls = ["os.replace"] ∧
    Pypyr.Generated.FsMove.moveTempFileCalls = ["move_file", "remove_temp_file"] ∧
    Pypyr.Generated.FsMove.removeTempFileCalls = ["os.remove"] ∧
    Pypyr.Generated.FsMove.errnoTests = [] ∧
    Pypyr.Generated.FsMove.handlersReraise = true := by
  decide

/-- The operation list of the counter-model: 0 sameFile, 1 openRead, 2 mkTemp, 3 fmt, 4 write X, 5 fmt, 6 write Y,
    7 close, 8 closeIn, (rename refused) 9 open the SOURCE for writing, 10 write X, 11 write Y, 12 close. -/
example : inplaceFallbackOps false "a.txt" "a.txt" "tmp#0" bodyEx =
    [.sameFile, .openRead "a.txt", .mkTemp "tmp#0", .fmt 1, .write 1 "X", .fmt 2, .write 2 "Y", .close, .closeIn,
     .openWrite "a.txt", .write 1 "X", .write 2 "Y", .close] := by decide +kernel

/-- **copy_fallback_tears_source** — the COUNTER-MODEL (NOT pypyr): a move that, when the rename is refused,
    copies the temp file over the source instead (truncate, stream, close). (1) Even with no further fault
    there is an instant at which the source holds neither the original (`AA`) nor the new content (`XY`): it
    is empty; (2) the process dying during the copy leaves it partial; (3) a write failing during the copy
    (no room on the volume) raises with the original gone. With `replace` as one step none of the three can
    happen (`src_always_whole`, `kill_leaves_src_whole`, `raise_leaves_no_temp`). -/
theorem copy_fallback_tears_source :
    (∃ ev ∈ (exec {} Plan.clean 0 { fs := fsEx } (inplaceFallbackOps false "a.txt" "a.txt" "tmp#0" bodyEx)).2,
        ev.2.get? "a.txt" = some "") ∧
    ((exec {} (Plan.single 11 .kill) 0 { fs := fsEx } (inplaceFallbackOps false "a.txt" "a.txt" "tmp#0" bodyEx)).1 = .killed 11 ∧
      (final fsEx (exec {} (Plan.single 11 .kill) 0 { fs := fsEx }
        (inplaceFallbackOps false "a.txt" "a.txt" "tmp#0" bodyEx)).2).get? "a.txt" = some "X") ∧
    ((exec {} (Plan.single 11 .raise) 0 { fs := fsEx } (inplaceFallbackOps false "a.txt" "a.txt" "tmp#0" bodyEx)).1 = .raised 11 ∧
      (final fsEx (exec {} (Plan.single 11 .raise) 0 { fs := fsEx }
        (inplaceFallbackOps false "a.txt" "a.txt" "tmp#0" bodyEx)).2).get? "a.txt" = some "X") := by
  refine ⟨⟨("openWrite", [("a.txt", ""), ("b.txt", "BB"), ("tmp#0", "XY")]), by decide +kernel, by decide +kernel⟩, ?_, ?_⟩
  · decide +kernel
  · decide +kernel

/-- The monitor is not vacuous: it rejects the pre-fix leftover and a truncated source; the weaker verdict
    tolerates the leftover (and nothing else); a source matched twice may hold either result. -/
example : (judge fsEx (fsEx ++ [("tmp#0", "X")]) [("a.txt", "XY")] .raised).holds = false ∧
    (judge fsEx (fsEx ++ [("tmp#0", "X")]) [("a.txt", "XY")] .raised).holdsDirty = true ∧
    (judge fsEx [("a.txt", "X"), ("b.txt", "BB")] [("a.txt", "XY")] .raised).holds = false ∧
    (judge fsEx [("a.txt", "X"), ("b.txt", "BB")] [("a.txt", "XY")] .raised).holdsDirty = false ∧
    (judge fsEx (fsEx ++ [("other", "X")]) [("a.txt", "XY")] .raised).holdsDirty = false ∧
    (judge fsEx [("a.txt", "XY"), ("b.txt", "B")] [("a.txt", "XY")] .ok).holds = false ∧
    (judge fsEx (fsEx ++ [("tmp#0", "X")]) [("a.txt", "XY")] .killed).holds = true ∧
    (judge fsEx [("a.txt", "N1"), ("b.txt", "BB")] [("a.txt", "N1"), ("a.txt", "N2")] .killed).holds = true ∧
    (judge fsEx [("a.txt", "N1"), ("b.txt", "BB")] [("a.txt", "N1"), ("a.txt", "N2")] .ok).holds = false ∧
    (judge fsEx [("a.txt", "N2"), ("b.txt", "BB")] [("a.txt", "N1"), ("a.txt", "N2")] .ok).holds = true := by
  decide +kernel

/-! ### A fault at ANY call between the close of the temp file and the rename

The code may make further calls on the temp file before `os.replace` (stat / chmod / chown / utime / fsync …; the
harness family `stepfault` reads them off a traced run instead of a list). `extra`: any list of operations that move
no content; one `raise` / BaseException at ANY position of `extra ++ [replace]`, the rename included. -/

/-- An operation that moves no content and may fail (stat / chmod / chown / utime / fsync of the temp file, …). -/
def NoContent (op : Op) : Prop := ∀ st, apply op st = some st

theorem fault_anywhere_before_rename (extra : List Op) (hx : ∀ op ∈ extra, NoContent op) (dst t : String)
    (k : Fault) (hk : k = .raise ∨ k = .raiseBase) :
    ∀ (p i : Nat) (st : St), st.temp = some t → p ≤ extra.length →
      (exec {} (Plan.single (i + p) k) i st (extra ++ [.replace dst])).1 = .raised (i + p) ∧
      ∃ pre, (exec {} (Plan.single (i + p) k) i st (extra ++ [.replace dst])).2
          = pre ++ [("removeTemp", st.fs.erase t)] ∧ ∀ ev ∈ pre, ev.2 = st.fs := by
  induction extra with
  | nil =>
    intro p i st ht hp
    have : p = 0 := by simpa using hp
    subst this
    rcases hk with rfl | rfl <;>
      exact ⟨by simp [exec, Plan.single, handler, ht, Op.isReplace, Op.isCloseIn],
        [((Op.replace dst).label ++ "!", st.fs)],
        by simp [exec, Plan.single, handler, ht, Op.isReplace, Op.isCloseIn], by simp⟩
  | cons op rest ih =>
    intro p i st ht hp
    cases p with
    | zero =>
      rcases hk with rfl | rfl <;>
        exact ⟨by simp [exec, Plan.single, handler, ht],
          [(op.label ++ "!", st.fs)], by simp [exec, Plan.single, handler, ht], by simp⟩
    | succ p =>
      have hne : ¬ (i = i + (p + 1)) := by omega
      have hop : apply op st = some st := hx op (by simp) st
      have ih' := ih (fun o ho => hx o (by simp [ho])) p (i + 1) st ht (by simpa using hp)
      have e : i + 1 + p = i + (p + 1) := by omega
      rw [e] at ih'
      obtain ⟨h1, pre, h2, h3⟩ := ih'
      simp only [List.cons_append, exec, Plan.single, hne, if_false, hop]
      refine ⟨h1, (op.label, st.fs) :: pre, by simp [h2], ?_⟩
      intro ev hev
      rcases List.mem_cons.mp hev with rfl | h
      · rfl
      · exact h3 ev h

/-- … so the directory after the raise is the one before the rewrite's tail minus the temp file: the source and
    every other entry as they were, no temp file. -/
theorem fault_anywhere_before_rename_final (extra : List Op) (hx : ∀ op ∈ extra, NoContent op) (dst t : String)
    (k : Fault) (hk : k = .raise ∨ k = .raiseBase) (p i : Nat) (st : St) (ht : st.temp = some t)
    (hp : p ≤ extra.length) :
    final st.fs (exec {} (Plan.single (i + p) k) i st (extra ++ [.replace dst])).2 = st.fs.erase t := by
  obtain ⟨_, pre, h2, _⟩ := fault_anywhere_before_rename extra hx dst t k hk p i st ht hp
  simp [final, h2]

/-- The hypotheses are satisfiable: stat, chmod, chown in front of the rename (labels of no-content operations),
    the fault at the third of them. -/
example : (exec {} (Plan.single 7 .raise) 5 { fs := [("a.txt", "AA"), ("tmp#0", "XY")], temp := some "tmp#0" }
      ([.sameFile, .close, .fmt 0] ++ [.replace "a.txt"])).1 = .raised 7 ∧
    final [("a.txt", "AA"), ("tmp#0", "XY")]
      (exec {} (Plan.single 7 .raise) 5 { fs := [("a.txt", "AA"), ("tmp#0", "XY")], temp := some "tmp#0" }
        ([.sameFile, .close, .fmt 0] ++ [.replace "a.txt"])).2 = [("a.txt", "AA")] := by
  have hx : ∀ op ∈ [Op.sameFile, .close, .fmt 0], NoContent op := by
    intro op h
    simp at h
    rcases h with rfl | rfl | rfl <;> intro st <;> rfl
  exact ⟨(fault_anywhere_before_rename _ hx "a.txt" "tmp#0" .raise (Or.inl rfl) 2 5 _ rfl (by decide)).1,
    fault_anywhere_before_rename_final _ hx "a.txt" "tmp#0" .raise (Or.inl rfl) 2 5 _ rfl (by decide)⟩

section WholeRunExtra

variable {fs0 : Fs} {src dst tmp : String} {cfg : Cfg} {plan : Plan}

/-- The in-place operation list with further calls `extra` on the temp file between the close(s) and the rename. -/
def inplaceOpsX (early : Bool) (src dst tmp : String) (body extra : List Op) : List Op :=
  headOps early src tmp ++ (body ++ ((if early then [.close] else [.close, .closeIn]) ++ (extra ++ [.replace dst])))

theorem inplaceOpsX_nil (early : Bool) (src dst tmp : String) (body : List Op) :
    inplaceOpsX early src dst tmp body [] = inplaceOps early src dst tmp body := by
  cases early <;> simp [inplaceOpsX, inplaceOps, tailOps]

/-- `extra`, then the rename, from the state in which the temp file holds `acc`: everything `Post` says — for EVERY
    plan (any number of raise / BaseException / kill faults at any of these calls). -/
theorem exec_extra_tail (extra : List Op) (hx : ∀ op ∈ extra, NoContent op) (h0 : fs0.get? tmp = none) (acc : String) :
    ∀ i, Post fs0 dst tmp acc cfg plan (wst fs0 tmp acc).fs
      (exec cfg plan i (wst fs0 tmp acc) (extra ++ [.replace dst])) := by
  induction extra with
  | nil => intro i; exact exec_replace i acc h0
  | cons op rest ih =>
    intro i
    exact exec_idop _ _ i acc h0 (hx op List.mem_cons_self _)
      (ih (fun o ho => hx o (List.mem_cons_of_mem _ ho)) (i + 1))

/-- The write phase in front of ANY tail that satisfies `Post` from the write-phase state. -/
theorem exec_body_tail (T : List Op) (body : List Op) (hb : ∀ op ∈ body, op.isBody = true)
    (h0 : fs0.get? tmp = none)
    (hT : ∀ i acc, Post fs0 dst tmp acc cfg plan (wst fs0 tmp acc).fs (exec cfg plan i (wst fs0 tmp acc) T)) :
    ∀ (i : Nat) (acc : String),
      Post fs0 dst tmp (acc ++ newContent body) cfg plan (wst fs0 tmp acc).fs
        (exec cfg plan i (wst fs0 tmp acc) (body ++ T)) := by
  induction body with
  | nil =>
    intro i acc
    simpa [newContent] using hT i acc
  | cons op rest ih =>
    intro i acc
    have hAB : AB fs0 tmp (wst fs0 tmp acc).fs := Or.inr ⟨acc, rfl⟩
    have hrest : ∀ op ∈ rest, op.isBody = true := fun o ho => hb o (List.mem_cons_of_mem _ ho)
    have hop := hb op List.mem_cons_self
    rw [List.cons_append]
    cases op with
    | fmt n =>
      simp only [newContent]
      exact exec_idop _ _ i acc h0 rfl (ih hrest (i + 1) acc)
    | write n c =>
      rw [exec]
      cases hp : plan i with
      | kill => exact Post.kill i hAB
      | raise => exact handler_temp i _ _ acc (Or.inl hp) h0 rfl rfl
      | raiseBase => exact base_temp i _ acc hp h0
      | none =>
        have hg : (fs0 ++ [(tmp, acc)]).get? tmp = some acc := Fs.get?_append_self h0
        have hs : (fs0 ++ [(tmp, acc)]).set tmp (acc ++ c) = fs0 ++ [(tmp, acc ++ c)] :=
          Fs.set_append_self h0
        simp only [apply, wst, hg, hs, newContent]
        have := ih hrest (i + 1) (acc ++ c)
        rw [String.append_assoc] at this
        exact Post.cons this (Or.inl (Or.inr ⟨acc ++ c, rfl⟩)) (Op.label_ne_rm (.write n c))
    | sameFile => simp [Op.isBody] at hop
    | openRead _ => simp [Op.isBody] at hop
    | closeIn => simp [Op.isBody] at hop
    | mkTemp _ => simp [Op.isBody] at hop
    | openWrite _ _ => simp [Op.isBody] at hop
    | close => simp [Op.isBody] at hop
    | replace _ => simp [Op.isBody] at hop

/-- The whole in-place rewrite with ANY further no-content calls on the temp file in front of the rename, under EVERY
    fault plan: all of `Post` — at every instant the directory is the original one, the original one plus the temp
    file, or (after the rename) the new one; a raise whose clean-up did not itself fail leaves exactly the original
    directory; a kill leaves the original directory or that plus the temp file. -/
theorem exec_inplaceX (early : Bool) (body extra : List Op) (hx : ∀ op ∈ extra, NoContent op)
    (wf : WF fs0 src dst tmp body) (i : Nat) :
    Post fs0 dst tmp (newContent body) cfg plan fs0
      (exec cfg plan i { fs := fs0 } (inplaceOpsX early src dst tmp body extra)) := by
  have h0 := wf.tmpFresh
  have hc : Fs.contains fs0 src = true := by simpa [Fs.contains] using wf.srcExists
  have hopen : apply (.openRead src) { fs := fs0 } = some { fs := fs0 } := by simp [apply, hc]
  have hA : AB fs0 tmp fs0 := Or.inl rfl
  have hT : ∀ i acc, Post fs0 dst tmp acc cfg plan (wst fs0 tmp acc).fs
      (exec cfg plan i (wst fs0 tmp acc) ((if early then [.close] else [.close, .closeIn]) ++ (extra ++ [.replace dst]))) := by
    intro i acc
    cases early with
    | true => exact exec_idop _ _ i acc h0 rfl (exec_extra_tail extra hx h0 acc (i + 1))
    | false =>
      exact exec_idop _ _ i acc h0 rfl (exec_idop _ _ (i + 1) acc h0 rfl (exec_extra_tail extra hx h0 acc (i + 1 + 1)))
  have hmk : ∀ i, Post fs0 dst tmp (newContent body) cfg plan fs0
      (exec cfg plan i { fs := fs0 } (.mkTemp tmp :: (body ++ ((if early then [.close] else [.close, .closeIn]) ++ (extra ++ [.replace dst]))))) := by
    intro i
    rw [exec]
    cases hp : plan i with
    | kill => exact Post.kill _ hA
    | raise => exact handler_noTemp _ _ { fs := fs0 } (Or.inl hp) rfl rfl
    | raiseBase => exact base_noTemp i _ hp
    | none =>
      simp only [apply, Fs.set_fresh h0]
      refine Post.cons (cur' := fs0 ++ [(tmp, "")]) ?_ (Or.inl (Or.inr ⟨"", rfl⟩)) (Op.label_ne_rm (.mkTemp tmp))
      have := exec_body_tail (dst := dst) (cfg := cfg) (plan := plan) _ body wf.bodyOps h0 hT (i + 1) ""
      simpa [wst] using this
  cases early with
  | true =>
    simp only [inplaceOpsX, headOps, if_true, List.cons_append, List.nil_append]
    exact exec_pre _ _ i rfl (exec_pre _ _ (i + 1) hopen (exec_pre _ _ (i + 1 + 1) rfl (hmk (i + 1 + 1 + 1))))
  | false =>
    simp only [inplaceOpsX, headOps, Bool.false_eq_true, if_false, List.cons_append, List.nil_append]
    exact exec_pre _ _ i rfl (exec_pre _ _ (i + 1) hopen (hmk (i + 1 + 1)))

/-- Headline: whichever calls `extra` the code makes on the temp file before the rename, and whichever of ALL the
    operations fault (EVERY plan): a raise (clean-up itself not failing) leaves exactly the original directory — source
    intact, no temp file —, a kill the original directory or that plus the temp file. -/
theorem fault_anywhere_whole_run (early : Bool) (body extra : List Op) (hx : ∀ op ∈ extra, NoContent op)
    (wf : WF fs0 src dst tmp body) (plan : Plan) (i : Nat) :
    let r := exec {} plan i { fs := fs0 } (inplaceOpsX early src dst tmp body extra)
    (∀ j, r.1 = .raised j → (∀ ev ∈ r.2, ev.1 ≠ "removeTemp!") → final fs0 r.2 = fs0) ∧
    (∀ j, r.1 = .killed j → AB fs0 tmp (final fs0 r.2)) ∧
    (∀ ev ∈ r.2, AB fs0 tmp ev.2 ∨ (ev.1 = "replace" ∧ ev.2 = fs0.set dst (newContent body))) := by
  intro r
  have P := exec_inplaceX (cfg := {}) (plan := plan) early body extra hx wf i
  exact ⟨fun j h hn => P.raised j h rfl rfl rfl hn, P.killed, P.shape⟩

/-- Hypotheses satisfiable, conclusion concrete: stat / chown-like calls (operations 8 and 9) in front of the rename
    (operation 10) of a StreamRewriter run; the second of them raises: error, directory exactly as before. -/
example : (exec {} (Plan.single 9 .raise) 0 { fs := fsEx } (inplaceOpsX false "a.txt" "a.txt" "tmp#0" bodyEx [.sameFile, .fmt 0])).1 = .raised 9 ∧
    final fsEx (exec {} (Plan.single 9 .raise) 0 { fs := fsEx } (inplaceOpsX false "a.txt" "a.txt" "tmp#0" bodyEx [.sameFile, .fmt 0])).2 = fsEx ∧
    (exec {} Plan.clean 0 { fs := fsEx } (inplaceOpsX false "a.txt" "a.txt" "tmp#0" bodyEx [.sameFile, .fmt 0])).1 = .ok := by
  decide +kernel

example := fault_anywhere_whole_run (fs0 := fsEx) false bodyEx [.sameFile, .fmt 0]
  (by intro op h; simp at h; rcases h with rfl | rfl <;> intro st <;> rfl) wfEx (Plan.single 9 .raise) 0

end WholeRunExtra

end Pypyr.C15
