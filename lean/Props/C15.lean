/-
  C15 — in-place file rewrites are all-or-nothing.

  Model: `PypyrModel/FsRewrite.lean` — directory state, the operation list of one `in_to_out` call
  (`inplaceOps`: sameFile, openRead, mkTemp, fmt/write …, close, replace), the interpreter `exec`
  with the `except` clauses of the code as it is now, the loop `runJobs` of `files_in_to_out`.
  `exec … = (outcome, trace)`; the trace has one entry per executed operation: its label (with `!`
  when it raised) and the directory after it. A plain label `"replace"` therefore means: the rename
  succeeded.

  Every theorem below quantifies over EVERY body (any number of fmt/write operations, any chunks),
  EVERY start index and EVERY fault plan `Nat → Fault` (any number of raise/kill faults at any
  operation indices) unless it says otherwise; the proofs are by induction over the operation list
  (`Props/Lemmas/C15_Exec.lean`) and over the job list (`Props/Lemmas/C15_Multi.lean`).
-/
import Props.Lemmas.C15_Monitor

namespace Pypyr.C15
open Pypyr.FsRewrite

/- `WF fs0 src tmp body` (Props/Lemmas/C15_Exec.lean): the hypotheses of one well-formed in-place
   rewrite — the source exists in `fs0`, the name the temp file will get is not in the directory
   (NamedTemporaryFile picks an unused name), the body consists of fmt/write operations.
   `JobsWF fs0 J` (Props/Lemmas/C15_Multi.lean): the same for every job of a list, plus
   "no out, or out equal to in". -/

private def fsEx : Fs := [("a.txt", "AA"), ("b.txt", "BB")]
private def bodyEx : List Op := streamBody 1 ["X", "Y"]

private theorem wfEx : WF fsEx "a.txt" "tmp#0" bodyEx where
  srcExists := by decide +kernel
  tmpFresh := by decide +kernel
  bodyOps := by decide +kernel

/-! ### One file -/

/-- **src_always_whole.** At every prefix of the operation list, under every fault plan, the source
    path holds the complete original bytes — unless the entry is the one produced by a successful
    `replace`, in which case it holds the complete new content (the concatenation of all chunks). -/
theorem src_always_whole {fs0 : Fs} {src tmp orig : String} {body : List Op}
    (wf : WF fs0 src tmp body) (ho : fs0.get? src = some orig) (cfg : Cfg) (plan : Plan) (i : Nat) :
    ∀ ev ∈ (exec cfg plan i { fs := fs0 } (inplaceOps src tmp body)).2,
      ev.2.get? src = some orig ∨ (ev.1 = "replace" ∧ ev.2.get? src = some (newContent body)) := by
  intro ev hm
  have P := exec_inplace (cfg := cfg) (plan := plan) body wf.bodyOps wf.tmpFresh wf.srcExists i
  rcases P.shape ev hm with hab | ⟨hl, hc⟩
  · left
    rcases hab with h | ⟨c, h⟩
    · rw [h, ho]
    · rw [h, Fs.get?_append_other wf.ne, ho]
  · right
    exact ⟨hl, by rw [hc]; exact Fs.get?_set_self⟩

example : ∃ ev ∈ (exec {} (Plan.single 7 .kill) 0 { fs := fsEx } (inplaceOps "a.txt" "tmp#0" bodyEx)).2,
    ev.2.get? "a.txt" = some "AA" ∧ ev.2.get? "tmp#0" = some "XY" :=
  ⟨("write", [("a.txt", "AA"), ("b.txt", "BB"), ("tmp#0", "XY")]), by decide +kernel, by decide +kernel⟩

/-- **raise_leaves_no_temp** (the code as it is now, `cleanupWrite = true`). A rewrite that ends by
    raising — at whatever operation, after however many writes — leaves exactly the original
    directory, provided the clean-up's own `os.remove` was not made to fail as well. -/
theorem raise_leaves_no_temp {fs0 : Fs} {src tmp : String} {body : List Op}
    (wf : WF fs0 src tmp body) (plan : Plan) (i j : Nat)
    (hr : (exec {} plan i { fs := fs0 } (inplaceOps src tmp body)).1 = .raised j)
    (hclean : plan (j + 1) ≠ .raise) :
    final fs0 (exec {} plan i { fs := fs0 } (inplaceOps src tmp body)).2 = fs0 :=
  (exec_inplace (cfg := {}) (plan := plan) body wf.bodyOps wf.tmpFresh wf.srcExists i).raised j hr rfl hclean

/-- The same for every single-fault plan "operation `p` raises": the run ends `ok` (p beyond the
    list) or `raised`, never with anything but the original directory in the latter case. -/
theorem raise_leaves_no_temp_single {fs0 : Fs} {src tmp : String} {body : List Op}
    (wf : WF fs0 src tmp body) (p j : Nat)
    (hr : (exec {} (Plan.single p .raise) 0 { fs := fs0 } (inplaceOps src tmp body)).1 = .raised j) :
    final fs0 (exec {} (Plan.single p .raise) 0 { fs := fs0 } (inplaceOps src tmp body)).2 = fs0 := by
  have P := exec_inplace (cfg := {}) (plan := Plan.single p .raise) body wf.bodyOps wf.tmpFresh wf.srcExists 0
  have hj := P.raisedAt j hr
  have hjp : j = p := by
    simp only [Plan.single] at hj
    by_cases h : j = p
    · exact h
    · simp [h] at hj
  apply raise_leaves_no_temp wf _ 0 j hr
  simp [Plan.single, hjp]

example : (exec {} (Plan.single 5 .raise) 0 { fs := fsEx } (inplaceOps "a.txt" "tmp#0" bodyEx)).1 = .raised 5 := by
  decide +kernel

/-- **success_same_entries.** A rewrite that ends `ok` leaves the directory with exactly the entries
    it had, the source holding the complete new content and nothing else changed. -/
theorem success_same_entries {fs0 : Fs} {src tmp : String} {body : List Op}
    (wf : WF fs0 src tmp body) (cfg : Cfg) (plan : Plan) (i : Nat)
    (hok : (exec cfg plan i { fs := fs0 } (inplaceOps src tmp body)).1 = .ok) :
    let fin := final fs0 (exec cfg plan i { fs := fs0 } (inplaceOps src tmp body)).2
    fin = fs0.set src (newContent body) ∧ fin.names = fs0.names ∧
      fin.get? src = some (newContent body) := by
  have P := exec_inplace (cfg := cfg) (plan := plan) body wf.bodyOps wf.tmpFresh wf.srcExists i
  have h := P.ok hok
  simp only []
  rw [h]
  exact ⟨rfl, Fs.names_set_of_mem wf.srcExists, Fs.get?_set_self⟩

example : (exec {} Plan.clean 0 { fs := fsEx } (inplaceOps "a.txt" "tmp#0" bodyEx)).1 = .ok ∧
    final fsEx (exec {} Plan.clean 0 { fs := fsEx } (inplaceOps "a.txt" "tmp#0" bodyEx)).2
      = [("a.txt", "XY"), ("b.txt", "BB")] := by
  decide +kernel

/-- **kill_leaves_src_whole.** If the process is killed at any operation, the directory is the
    original one, possibly with the temp entry in addition; the source holds its original bytes. -/
theorem kill_leaves_src_whole {fs0 : Fs} {src tmp orig : String} {body : List Op}
    (wf : WF fs0 src tmp body) (ho : fs0.get? src = some orig) (cfg : Cfg) (plan : Plan) (i j : Nat)
    (hk : (exec cfg plan i { fs := fs0 } (inplaceOps src tmp body)).1 = .killed j) :
    let fin := final fs0 (exec cfg plan i { fs := fs0 } (inplaceOps src tmp body)).2
    (fin = fs0 ∨ ∃ c, fin = fs0 ++ [(tmp, c)]) ∧ fin.get? src = some orig := by
  have P := exec_inplace (cfg := cfg) (plan := plan) body wf.bodyOps wf.tmpFresh wf.srcExists i
  have h := P.killed j hk
  simp only []
  refine ⟨h, ?_⟩
  rcases h with h | ⟨c, h⟩
  · rw [h, ho]
  · rw [h, Fs.get?_append_other wf.ne, ho]

example : (exec {} (Plan.single 8 .kill) 0 { fs := fsEx } (inplaceOps "a.txt" "tmp#0" bodyEx)).1 = .killed 8 ∧
    final fsEx (exec {} (Plan.single 8 .kill) 0 { fs := fsEx } (inplaceOps "a.txt" "tmp#0" bodyEx)).2
      = fsEx ++ [("tmp#0", "XY")] := by
  decide +kernel

/-- **unmatched_untouched** (one file). Every path other than the source and the temp name holds,
    at every prefix and under every fault plan, exactly what it held before. -/
theorem unmatched_untouched {fs0 : Fs} {src tmp : String} {body : List Op}
    (wf : WF fs0 src tmp body) (cfg : Cfg) (plan : Plan) (i : Nat) (p : String)
    (hps : p ≠ src) (hpt : p ≠ tmp) :
    ∀ ev ∈ (exec cfg plan i { fs := fs0 } (inplaceOps src tmp body)).2, ev.2.get? p = fs0.get? p := by
  intro ev hm
  have P := exec_inplace (cfg := cfg) (plan := plan) body wf.bodyOps wf.tmpFresh wf.srcExists i
  rcases P.shape ev hm with hab | ⟨_, hc⟩
  · rcases hab with h | ⟨c, h⟩
    · rw [h]
    · rw [h, Fs.get?_append_other hpt]
  · rw [hc, Fs.get?_set_other hps]

/-- **out_equal_in_is_inplace.** `in_to_out(in, out)` with `out` naming the same existing file
    performs exactly the operation list of `in_to_out(in)`: the temp-then-replace route (so every
    theorem above applies to it). -/
theorem out_equal_in_is_inplace (fs : Fs) (src tmp : String) (body : List Op)
    (hs : (fs.get? src).isSome) :
    jobOps fs { src := src, out := some src, tmp := tmp, body := body } = inplaceOps src tmp body ∧
    jobOps fs { src := src, out := some src, tmp := tmp, body := body }
      = jobOps fs { src := src, out := none, tmp := tmp, body := body } := by
  have h1 := jobOps_inplace fs { src := src, out := some src, tmp := tmp, body := body } hs (Or.inr rfl)
  have h2 := jobOps_inplace fs { src := src, out := none, tmp := tmp, body := body } hs (Or.inl rfl)
  exact ⟨h1, h1.trans h2.symm⟩

/-- Why the same-file detection matters (witness): writing straight to the source (the direct
    route with out = in) and failing at the second write leaves a truncated source. -/
theorem direct_route_not_atomic :
    final fsEx (exec {} (Plan.single 6 .raise) 0 { fs := fsEx } (directOps "a.txt" "a.txt" bodyEx)).2
      = [("a.txt", "X"), ("b.txt", "BB")] := by
  decide +kernel

/-- **temp_leak_pre_fix** (defect F7, repaired by c58f36c). With the OLD `except` structure (no
    clean-up when the write phase raises) the second line failing to format leaves the temp entry
    behind: the directory after the raise is not the original one. -/
theorem temp_leak_pre_fix :
    (exec { cleanupWrite := false } (Plan.single 5 .raise) 0 { fs := fsEx }
        (inplaceOps "a.txt" "tmp#0" bodyEx)).1 = .raised 5 ∧
    final fsEx (exec { cleanupWrite := false } (Plan.single 5 .raise) 0 { fs := fsEx }
        (inplaceOps "a.txt" "tmp#0" bodyEx)).2 = fsEx ++ [("tmp#0", "X")] := by
  decide +kernel

/-- …and the same plan against the code as it is now leaves the original directory. -/
example : final fsEx (exec {} (Plan.single 5 .raise) 0 { fs := fsEx } (inplaceOps "a.txt" "tmp#0" bodyEx)).2
    = fsEx := by
  decide +kernel

/-! ### Several files: the loop of `files_in_to_out` (single files, lists, globs) -/

private def jobsEx : List Job :=
  [{ src := "a.txt", tmp := "tmp#0", body := streamBody 1 ["X", "Y"] },
   { src := "b.txt", out := some "b.txt", tmp := "tmp#1", body := objectBody ["Z"] }]

private theorem jobsWfEx : JobsWF fsEx jobsEx where
  srcExists := by decide +kernel
  tmpFresh := by decide +kernel
  bodyOps := by decide +kernel
  inplace := by decide +kernel

/-- **src_always_whole / unmatched_untouched for a whole run.** At every prefix of a multi-file
    run, under every fault plan, every path that is not a temp name holds what it held originally,
    or it is a matched source holding its complete new content. -/
theorem src_always_whole_files {fs0 : Fs} {J : List Job} (wf : JobsWF fs0 J)
    (hnd : (J.map (·.src)).Nodup) (cfg : Cfg) (plan : Plan) (i : Nat) :
    ∀ ev ∈ (runJobs cfg plan i fs0 J).2, ∀ p, (∀ j ∈ J, p ≠ j.tmp) →
      ev.2.get? p = fs0.get? p ∨ ∃ j ∈ J, p = j.src ∧ ev.2.get? p = some (newContent j.body) := by
  intro ev hm
  have M := runJobs_post cfg plan wf J (fun _ h => h) hnd i fs0 (fun p _ => Or.inl rfl) rfl
  exact M.whole ev hm

/-- **unmatched_untouched.** Files not matched by `in` (and not temp names) are byte-identical at
    every prefix of the run, under every fault plan. -/
theorem unmatched_untouched_files {fs0 : Fs} {J : List Job} (wf : JobsWF fs0 J)
    (hnd : (J.map (·.src)).Nodup) (cfg : Cfg) (plan : Plan) (i : Nat) (p : String)
    (hps : ∀ j ∈ J, p ≠ j.src) (hpt : ∀ j ∈ J, p ≠ j.tmp) :
    ∀ ev ∈ (runJobs cfg plan i fs0 J).2, ev.2.get? p = fs0.get? p := by
  have M := runJobs_post cfg plan wf J (fun _ h => h) hnd i fs0 (fun p _ => Or.inl rfl) rfl
  exact M.frame p hps hpt

/-- **raise_leaves_no_temp** for a run over several files: exactly the original entries remain. -/
theorem raise_leaves_no_temp_files {fs0 : Fs} {J : List Job} (wf : JobsWF fs0 J)
    (hnd : (J.map (·.src)).Nodup) (plan : Plan) (i j : Nat)
    (hr : (runJobs {} plan i fs0 J).1 = .raised j) (hclean : plan (j + 1) ≠ .raise) :
    (final fs0 (runJobs {} plan i fs0 J).2).names = fs0.names := by
  have M := runJobs_post {} plan wf J (fun _ h => h) hnd i fs0 (fun p _ => Or.inl rfl) rfl
  exact M.raised j hr rfl hclean

/-- **success_same_entries** for a run over several files: same entries, every source new. -/
theorem success_same_entries_files {fs0 : Fs} {J : List Job} (wf : JobsWF fs0 J)
    (hnd : (J.map (·.src)).Nodup) (cfg : Cfg) (plan : Plan) (i : Nat)
    (hok : (runJobs cfg plan i fs0 J).1 = .ok) :
    (final fs0 (runJobs cfg plan i fs0 J).2).names = fs0.names ∧
    ∀ j ∈ J, (final fs0 (runJobs cfg plan i fs0 J).2).get? j.src = some (newContent j.body) := by
  have M := runJobs_post cfg plan wf J (fun _ h => h) hnd i fs0 (fun p _ => Or.inl rfl) rfl
  exact M.ok hok

/-- **kill_leaves_src_whole** for a run over several files: after a kill at most one `tmp` entry
    is extra (and by `src_always_whole_files` every source is whole). -/
theorem kill_leaves_src_whole_files {fs0 : Fs} {J : List Job} (wf : JobsWF fs0 J)
    (hnd : (J.map (·.src)).Nodup) (cfg : Cfg) (plan : Plan) (i j : Nat)
    (hk : (runJobs cfg plan i fs0 J).1 = .killed j) :
    (final fs0 (runJobs cfg plan i fs0 J).2).names = fs0.names ∨
    ∃ jb ∈ J, (final fs0 (runJobs cfg plan i fs0 J).2).names = fs0.names ++ [jb.tmp] := by
  have M := runJobs_post cfg plan wf J (fun _ h => h) hnd i fs0 (fun p _ => Or.inl rfl) rfl
  exact M.killed j hk

example : (runJobs {} (Plan.single 14 .kill) 0 fsEx jobsEx).1 = .killed 14 ∧
    final fsEx (runJobs {} (Plan.single 14 .kill) 0 fsEx jobsEx).2
      = [("a.txt", "XY"), ("b.txt", "BB"), ("tmp#1", "Z")] := by
  decide +kernel

/-! ### The monitor -/

/-- **model_holds_C15.** The monitor `judge` — the statement of C15 as a decidable predicate over
    (directory before, directory after, matched sources with their new contents, how the run ended):
    every source whole; after success every source new; no extra entry after ok/raise and only
    `tmp#` entries extra after a kill; nothing missing; unmatched files identical — is satisfied by
    the model's final directory for every job list and every fault plan in which a raise is not
    immediately followed by a second raise (i.e. the clean-up's own `os.remove` is not failed too).
    The correspondence harness evaluates the same `judge` on the IMPLEMENTATION's directories. -/
theorem model_holds_C15 {fs0 : Fs} {J : List Job} (wf : JobsWF fs0 J) (hnd : (J.map (·.src)).Nodup)
    (hnames : fs0.names.Nodup) (htmp : ∀ j ∈ J, isTempName j.tmp = true)
    (plan : Plan) (hplan : ∀ i, plan i = .raise → plan (i + 1) ≠ .raise) (i : Nat) :
    (judge fs0 (final fs0 (runJobs {} plan i fs0 J).2)
      (J.map fun j => (j.src, newContent j.body)) (runJobs {} plan i fs0 J).1.toEnd).holds = true :=
  judge_model wf hnd hnames htmp plan hplan i

/-- The monitor is not vacuous: it rejects the pre-fix leftover and a truncated source. -/
example : (judge fsEx (fsEx ++ [("tmp#0", "X")]) [("a.txt", "XY")] .raised).holds = false ∧
    (judge fsEx [("a.txt", "X"), ("b.txt", "BB")] [("a.txt", "XY")] .raised).holds = false ∧
    (judge fsEx [("a.txt", "XY"), ("b.txt", "B")] [("a.txt", "XY")] .ok).holds = false ∧
    (judge fsEx (fsEx ++ [("tmp#0", "X")]) [("a.txt", "XY")] .killed).holds = true := by
  decide +kernel

end Pypyr.C15
