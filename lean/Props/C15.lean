/-
  C15 — in-place file rewrites are all-or-nothing.

  Model: `PypyrModel/FsRewrite.lean` — directory state, the operation list of one `in_to_out` call
  (`inplaceOps`: sameFile, openRead, mkTemp, fmt/write …, close, replace), the interpreter `exec`
  with the `except` clauses of the code as it is now, the loop `runJobs` of `files_in_to_out`.
  `exec … = (outcome, trace)`; the trace has one entry per executed operation: its label (with `!`
  when it raised) and the directory after it. A plain label `"replace"` therefore means: the rename
  succeeded.

  Every theorem below quantifies over EVERY body (any number of fmt/write operations, any chunks),
  EVERY start index and EVERY fault plan `Nat → Fault` (any number of raise/kill faults at any
  operation indices) unless it says otherwise; the proofs are by induction over the operation list
  (`Props/Lemmas/C15_Exec.lean`) and over the job list (`Props/Lemmas/C15_Multi.lean`).
-/
import Props.Lemmas.C15_Monitor
import Props.Lemmas.C15_Links

namespace Pypyr.C15
open Pypyr.FsRewrite

/- `WF fs0 src tmp body` (Props/Lemmas/C15_Exec.lean): the hypotheses of one well-formed in-place
   rewrite — the source exists in `fs0`, the name the temp file will get is not in the directory
   (NamedTemporaryFile picks an unused name), the body consists of fmt/write operations.
   `JobsWF fs0 J` (Props/Lemmas/C15_Multi.lean): the same for every job of a list, plus
   "no out, or out equal to in". -/

private def fsEx : Fs := [("a.txt", "AA"), ("b.txt", "BB")]
private def bodyEx : List Op := streamBody 1 ["X", "Y"]

private theorem wfEx : WF fsEx "a.txt" "tmp#0" bodyEx where
  srcExists := by decide +kernel
  tmpFresh := by decide +kernel
  bodyOps := by decide +kernel

/-! ### One file -/

/-- **src_always_whole.** At every prefix of the operation list, under every fault plan, the source
    path holds the complete original bytes — unless the entry is the one produced by a successful
    `replace`, in which case it holds the complete new content (the concatenation of all chunks). -/
theorem src_always_whole {fs0 : Fs} {src tmp orig : String} {body : List Op}
    (wf : WF fs0 src tmp body) (ho : fs0.get? src = some orig) (cfg : Cfg) (plan : Plan) (i : Nat) :
    ∀ ev ∈ (exec cfg plan i { fs := fs0 } (inplaceOps src tmp body)).2,
      ev.2.get? src = some orig ∨ (ev.1 = "replace" ∧ ev.2.get? src = some (newContent body)) := by
  intro ev hm
  have P := exec_inplace (cfg := cfg) (plan := plan) body wf.bodyOps wf.tmpFresh wf.srcExists i
  rcases P.shape ev hm with hab | ⟨hl, hc⟩
  · left
    rcases hab with h | ⟨c, h⟩
    · rw [h, ho]
    · rw [h, Fs.get?_append_other wf.ne, ho]
  · right
    exact ⟨hl, by rw [hc]; exact Fs.get?_set_self⟩

example : ∃ ev ∈ (exec {} (Plan.single 7 .kill) 0 { fs := fsEx } (inplaceOps "a.txt" "tmp#0" bodyEx)).2,
    ev.2.get? "a.txt" = some "AA" ∧ ev.2.get? "tmp#0" = some "XY" :=
  ⟨("write", [("a.txt", "AA"), ("b.txt", "BB"), ("tmp#0", "XY")]), by decide +kernel, by decide +kernel⟩

/-- **raise_leaves_no_temp** (the code as it is now, `cleanupWrite = true`). A rewrite that ends by
    raising — at whatever operation, after however many writes — leaves exactly the original
    directory, provided the clean-up's own `os.remove` was not made to fail as well. -/
theorem raise_leaves_no_temp {fs0 : Fs} {src tmp : String} {body : List Op}
    (wf : WF fs0 src tmp body) (plan : Plan) (i j : Nat)
    (hr : (exec {} plan i { fs := fs0 } (inplaceOps src tmp body)).1 = .raised j)
    (hclean : plan (j + 1) ≠ .raise) :
    final fs0 (exec {} plan i { fs := fs0 } (inplaceOps src tmp body)).2 = fs0 :=
  (exec_inplace (cfg := {}) (plan := plan) body wf.bodyOps wf.tmpFresh wf.srcExists i).raised j hr rfl hclean

/-- The same for every single-fault plan "operation `p` raises": the run ends `ok` (p beyond the
    list) or `raised`, never with anything but the original directory in the latter case. -/
theorem raise_leaves_no_temp_single {fs0 : Fs} {src tmp : String} {body : List Op}
    (wf : WF fs0 src tmp body) (p j : Nat)
    (hr : (exec {} (Plan.single p .raise) 0 { fs := fs0 } (inplaceOps src tmp body)).1 = .raised j) :
    final fs0 (exec {} (Plan.single p .raise) 0 { fs := fs0 } (inplaceOps src tmp body)).2 = fs0 := by
  have P := exec_inplace (cfg := {}) (plan := Plan.single p .raise) body wf.bodyOps wf.tmpFresh wf.srcExists 0
  have hj := P.raisedAt j hr
  have hjp : j = p := by
    simp only [Plan.single] at hj
    by_cases h : j = p
    · exact h
    · simp [h] at hj
  apply raise_leaves_no_temp wf _ 0 j hr
  simp [Plan.single, hjp]

example : (exec {} (Plan.single 5 .raise) 0 { fs := fsEx } (inplaceOps "a.txt" "tmp#0" bodyEx)).1 = .raised 5 := by
  decide +kernel

/-- **success_same_entries.** A rewrite that ends `ok` leaves the directory with exactly the entries
    it had, the source holding the complete new content and nothing else changed. -/
theorem success_same_entries {fs0 : Fs} {src tmp : String} {body : List Op}
    (wf : WF fs0 src tmp body) (cfg : Cfg) (plan : Plan) (i : Nat)
    (hok : (exec cfg plan i { fs := fs0 } (inplaceOps src tmp body)).1 = .ok) :
    let fin := final fs0 (exec cfg plan i { fs := fs0 } (inplaceOps src tmp body)).2
    fin = fs0.set src (newContent body) ∧ fin.names = fs0.names ∧
      fin.get? src = some (newContent body) := by
  have P := exec_inplace (cfg := cfg) (plan := plan) body wf.bodyOps wf.tmpFresh wf.srcExists i
  have h := P.ok hok
  simp only []
  rw [h]
  exact ⟨rfl, Fs.names_set_of_mem wf.srcExists, Fs.get?_set_self⟩

example : (exec {} Plan.clean 0 { fs := fsEx } (inplaceOps "a.txt" "tmp#0" bodyEx)).1 = .ok ∧
    final fsEx (exec {} Plan.clean 0 { fs := fsEx } (inplaceOps "a.txt" "tmp#0" bodyEx)).2
      = [("a.txt", "XY"), ("b.txt", "BB")] := by
  decide +kernel

/-- **kill_leaves_src_whole.** If the process is killed at any operation, the directory is the
    original one, possibly with the temp entry in addition; the source holds its original bytes. -/
theorem kill_leaves_src_whole {fs0 : Fs} {src tmp orig : String} {body : List Op}
    (wf : WF fs0 src tmp body) (ho : fs0.get? src = some orig) (cfg : Cfg) (plan : Plan) (i j : Nat)
    (hk : (exec cfg plan i { fs := fs0 } (inplaceOps src tmp body)).1 = .killed j) :
    let fin := final fs0 (exec cfg plan i { fs := fs0 } (inplaceOps src tmp body)).2
    (fin = fs0 ∨ ∃ c, fin = fs0 ++ [(tmp, c)]) ∧ fin.get? src = some orig := by
  have P := exec_inplace (cfg := cfg) (plan := plan) body wf.bodyOps wf.tmpFresh wf.srcExists i
  have h := P.killed j hk
  simp only []
  refine ⟨h, ?_⟩
  rcases h with h | ⟨c, h⟩
  · rw [h, ho]
  · rw [h, Fs.get?_append_other wf.ne, ho]

example : (exec {} (Plan.single 8 .kill) 0 { fs := fsEx } (inplaceOps "a.txt" "tmp#0" bodyEx)).1 = .killed 8 ∧
    final fsEx (exec {} (Plan.single 8 .kill) 0 { fs := fsEx } (inplaceOps "a.txt" "tmp#0" bodyEx)).2
      = fsEx ++ [("tmp#0", "XY")] := by
  decide +kernel

/-- **unmatched_untouched** (one file). Every path other than the source and the temp name holds,
    at every prefix and under every fault plan, exactly what it held before. -/
theorem unmatched_untouched {fs0 : Fs} {src tmp : String} {body : List Op}
    (wf : WF fs0 src tmp body) (cfg : Cfg) (plan : Plan) (i : Nat) (p : String)
    (hps : p ≠ src) (hpt : p ≠ tmp) :
    ∀ ev ∈ (exec cfg plan i { fs := fs0 } (inplaceOps src tmp body)).2, ev.2.get? p = fs0.get? p := by
  intro ev hm
  have P := exec_inplace (cfg := cfg) (plan := plan) body wf.bodyOps wf.tmpFresh wf.srcExists i
  rcases P.shape ev hm with hab | ⟨_, hc⟩
  · rcases hab with h | ⟨c, h⟩
    · rw [h]
    · rw [h, Fs.get?_append_other hpt]
  · rw [hc, Fs.get?_set_other hps]

/-- **out_equal_in_is_inplace.** `in_to_out(in, out)` with `out` naming the same existing file
    performs exactly the operation list of `in_to_out(in)`: the temp-then-replace route (so every
    theorem above applies to it). -/
theorem out_equal_in_is_inplace (fs : Fs) (src tmp : String) (body : List Op)
    (hs : (fs.get? src).isSome) :
    jobOps fs { src := src, out := some src, tmp := tmp, body := body } = inplaceOps src tmp body ∧
    jobOps fs { src := src, out := some src, tmp := tmp, body := body }
      = jobOps fs { src := src, out := none, tmp := tmp, body := body } := by
  have h1 := jobOps_inplace fs { src := src, out := some src, tmp := tmp, body := body } hs (Or.inr rfl)
  have h2 := jobOps_inplace fs { src := src, out := none, tmp := tmp, body := body } hs (Or.inl rfl)
  exact ⟨h1, h1.trans h2.symm⟩

/-- Why the same-file detection matters (witness): writing straight to the source (the direct
    route with out = in) and failing at the second write leaves a truncated source. -/
theorem direct_route_not_atomic :
    final fsEx (exec {} (Plan.single 6 .raise) 0 { fs := fsEx } (directOps "a.txt" "a.txt" bodyEx)).2
      = [("a.txt", "X"), ("b.txt", "BB")] := by
  decide +kernel

/-- **temp_leak_pre_fix** (defect F7, repaired by c58f36c). With the OLD `except` structure (no
    clean-up when the write phase raises) the second line failing to format leaves the temp entry
    behind: the directory after the raise is not the original one. -/
theorem temp_leak_pre_fix :
    (exec { cleanupWrite := false } (Plan.single 5 .raise) 0 { fs := fsEx }
        (inplaceOps "a.txt" "tmp#0" bodyEx)).1 = .raised 5 ∧
    final fsEx (exec { cleanupWrite := false } (Plan.single 5 .raise) 0 { fs := fsEx }
        (inplaceOps "a.txt" "tmp#0" bodyEx)).2 = fsEx ++ [("tmp#0", "X")] := by
  decide +kernel

/-- …and the same plan against the code as it is now leaves the original directory. -/
example : final fsEx (exec {} (Plan.single 5 .raise) 0 { fs := fsEx } (inplaceOps "a.txt" "tmp#0" bodyEx)).2
    = fsEx := by
  decide +kernel

/-! ### "out equal to in": every way two paths can name one file

  `Links` (PypyrModel/FsRewrite.lean): a path spelling resolves to a directory entry (`resolve`:
  relative/absolute, `..`, symlinked directory, symlink to the file), an entry names an inode
  (`inoOf`; hard links share one). `isSameFileL` is inode equality of the resolved entries,
  `route` is in-place iff there is no out or out is the same inode, `jobOpsL`/`runJobL` run the
  chosen operation list; on the direct route `open(out,'w')` and every write hit the inode, i.e.
  all entries linked to it. -/

/-- Hypotheses "out names the file in names": both spellings given, `src` is the entry in resolves
    to, the entry out resolves to exists and has the inode of `src` — by whatever path. -/
structure SameFile (l : Links) (fs : Fs) (src o : String) : Prop where
  srcGiven : src ≠ ""
  outGiven : o ≠ ""
  srcCanon : l.resolve src = src
  srcExists : (fs.get? src).isSome
  outExists : (fs.get? (l.resolve o)).isSome
  sameInode : l.sameIno src (l.resolve o) = true

theorem SameFile.isSame {l : Links} {fs : Fs} {src o : String} (h : SameFile l fs src o) :
    isSameFileL l fs src (some o) = true := by
  have h1 : fs.contains src = true := by simpa [Fs.contains] using h.srcExists
  have h2 : fs.contains (l.resolve o) = true := by simpa [Fs.contains] using h.outExists
  simp [isSameFileL, h.srcGiven, h.outGiven, h.srcCanon, h1, h2, h.sameInode]

/-- a.txt and hl.txt are two links to inode 1; `ln.txt`, `./a.txt`, `sub/../a.txt`, `/abs/a.txt`
    are spellings that resolve to a.txt; copy.txt is another file with the same bytes. -/
private def fsL : Fs := [("a.txt", "AA"), ("hl.txt", "AA"), ("copy.txt", "AA"), ("b.txt", "BB")]
private def linksEx : Links :=
  { entry := [("ln.txt", "a.txt"), ("./a.txt", "a.txt"), ("sub/../a.txt", "a.txt"), ("/abs/a.txt", "a.txt"),
              ("lncopy.txt", "copy.txt")],
    ino := [("a.txt", 1), ("hl.txt", 1), ("copy.txt", 2), ("b.txt", 3)] }

private theorem sameEx_hardlink : SameFile linksEx fsL "a.txt" "hl.txt" :=
  ⟨by decide, by decide, by decide +kernel, by decide +kernel, by decide +kernel, by decide +kernel⟩
private theorem sameEx_symlink : SameFile linksEx fsL "a.txt" "ln.txt" :=
  ⟨by decide, by decide, by decide +kernel, by decide +kernel, by decide +kernel, by decide +kernel⟩
private theorem sameEx_dotdot : SameFile linksEx fsL "a.txt" "sub/../a.txt" :=
  ⟨by decide, by decide, by decide +kernel, by decide +kernel, by decide +kernel, by decide +kernel⟩

/-- **route_inplace_iff_same_inode.** With an out given, `in_to_out` takes the temp-then-replace
    route exactly when `is_same_file` holds — inode identity of what the two spellings resolve to —
    and otherwise writes straight to the entry out resolves to (and to every entry linked to it). -/
theorem route_inplace_iff_same_inode (l : Links) (fs : Fs) (j : Job) (o : String)
    (ho : j.out = some o) (hne : o ≠ "") :
    (route l fs j = none ↔ isSameFileL l fs j.src j.out = true) ∧
    (isSameFileL l fs j.src j.out = true → jobOpsL l fs j = inplaceOps j.src j.tmp j.body) ∧
    (isSameFileL l fs j.src j.out = false →
      jobOpsL l fs j = directOps j.src (l.resolve o) j.body (l.peers (l.resolve o))) := by
  refine ⟨?_, ?_, ?_⟩
  · rw [route_none_iff, ho]
    simp [hne]
  · intro h; exact jobOpsL_of_route_none (route_of_same h)
  · intro h; exact jobOpsL_of_route_some (route_of_not_same ho hne h)

/-- **same_inode_routes_inplace.** Whenever out names the inode of in — identical string, relative
    vs absolute, `..`, symlink, symlinked directory, hard link: whatever `resolve`/`inoOf` say — the
    operation list is exactly that of `in_to_out(in)` with no out. -/
theorem same_inode_routes_inplace {l : Links} {fs : Fs} {src o : String} (h : SameFile l fs src o)
    (tmp : String) (body : List Op) :
    jobOpsL l fs { src := src, out := some o, tmp := tmp, body := body } = inplaceOps src tmp body ∧
    jobOpsL l fs { src := src, out := some o, tmp := tmp, body := body }
      = jobOpsL l fs { src := src, out := none, tmp := tmp, body := body } := by
  have h1 : jobOpsL l fs { src := src, out := some o, tmp := tmp, body := body } = inplaceOps src tmp body :=
    jobOpsL_of_route_none (route_of_same h.isSame)
  have h2 : jobOpsL l fs { src := src, out := none, tmp := tmp, body := body } = inplaceOps src tmp body :=
    jobOpsL_of_route_none (route_of_noout rfl)
  exact ⟨h1, h1.trans h2.symm⟩

example : jobOpsL linksEx fsL { src := "a.txt", out := some "hl.txt", tmp := "tmp#0", body := bodyEx }
    = inplaceOps "a.txt" "tmp#0" bodyEx := (same_inode_routes_inplace sameEx_hardlink _ _).1
example : jobOpsL linksEx fsL { src := "a.txt", out := some "ln.txt", tmp := "tmp#0", body := bodyEx }
    = inplaceOps "a.txt" "tmp#0" bodyEx := (same_inode_routes_inplace sameEx_symlink _ _).1
example : jobOpsL linksEx fsL { src := "a.txt", out := some "sub/../a.txt", tmp := "tmp#0", body := bodyEx }
    = inplaceOps "a.txt" "tmp#0" bodyEx := (same_inode_routes_inplace sameEx_dotdot _ _).1

/-- **same_file_out_all_or_nothing.** Whenever out names the inode of in — by whatever path — then
    under EVERY fault plan and at EVERY prefix of the run the source entry holds its complete
    original bytes or (only after the successful `replace`) the complete new content; every other
    entry except the temp name — the other hard links of the source included — holds what it held;
    a run that ends by raising (clean-up not failed too) leaves exactly the original directory; a
    killed run leaves the original directory plus at most the temp entry; a run that ends ok leaves
    the same entries with the source new. -/
theorem same_file_out_all_or_nothing {l : Links} {fs0 : Fs} {src o tmp orig : String} {body : List Op}
    (h : SameFile l fs0 src o) (wf : WF fs0 src tmp body) (horig : fs0.get? src = some orig)
    (cfg : Cfg) (plan : Plan) (i : Nat) :
    let r := runJobL cfg plan i l fs0 { src := src, out := some o, tmp := tmp, body := body }
    (∀ ev ∈ r.2, ev.2.get? src = some orig ∨ (ev.1 = "replace" ∧ ev.2.get? src = some (newContent body))) ∧
    (∀ p, p ≠ src → p ≠ tmp → ∀ ev ∈ r.2, ev.2.get? p = fs0.get? p) ∧
    (∀ j, r.1 = .raised j → cfg.cleanupWrite = true → plan (j + 1) ≠ .raise → final fs0 r.2 = fs0) ∧
    (∀ j, r.1 = .killed j →
      (final fs0 r.2 = fs0 ∨ ∃ c, final fs0 r.2 = fs0 ++ [(tmp, c)]) ∧ (final fs0 r.2).get? src = some orig) ∧
    (r.1 = .ok → final fs0 r.2 = fs0.set src (newContent body) ∧ (final fs0 r.2).names = fs0.names) := by
  have hops := (same_inode_routes_inplace h tmp body).1
  simp only [runJobL, hops]
  have P := exec_inplace (cfg := cfg) (plan := plan) body wf.bodyOps wf.tmpFresh wf.srcExists i
  refine ⟨src_always_whole wf horig cfg plan i, ?_, ?_, ?_, ?_⟩
  · intro p hps hpt
    exact unmatched_untouched wf cfg plan i p hps hpt
  · intro j hr hc hp
    exact P.raised j hr hc hp
  · intro j hk
    exact kill_leaves_src_whole wf horig cfg plan i j hk
  · intro hok
    exact ⟨(success_same_entries wf cfg plan i hok).1, (success_same_entries wf cfg plan i hok).2.1⟩

private theorem wfL : WF fsL "a.txt" "tmp#0" bodyEx where
  srcExists := by decide +kernel
  tmpFresh := by decide +kernel
  bodyOps := by decide +kernel

/-- out = a second hard link of in, the second line fails to format: nothing changed. -/
example : final fsL (runJobL {} (Plan.single 5 .raise) 0 linksEx fsL
    { src := "a.txt", out := some "hl.txt", tmp := "tmp#0", body := bodyEx }).2 = fsL := by
  decide +kernel

/-- **other_file_out_never_touches_in.** If out resolves to an entry whose inode is not the inode of
    in (a different file with equal content, a copy, a file that does not exist yet), then under
    every fault plan and at every prefix every entry that is not a link to out's inode — the source
    first of all (`p := src`) — holds exactly what it held. -/
theorem other_file_out_never_touches_in (l : Links) (fs0 : Fs) (src o tmp : String) (body : List Op)
    (hne : o ≠ "") (hcan : l.resolve src = src) (hb : ∀ op ∈ body, op.isBody = true)
    (hdiff : l.sameIno src (l.resolve o) = false)
    (cfg : Cfg) (plan : Plan) (i : Nat) (p : String) (hp : l.sameIno p (l.resolve o) = false) :
    ∀ ev ∈ (runJobL cfg plan i l fs0 { src := src, out := some o, tmp := tmp, body := body }).2,
      ev.2.get? p = fs0.get? p := by
  have hns : isSameFileL l fs0 src (some o) = false := by
    simp [isSameFileL, hcan, hdiff]
  have hops := jobOpsL_of_route_some
    (route_of_not_same (j := { src := src, out := some o, tmp := tmp, body := body }) rfl hne hns)
  simp only [runJobL, hops]
  have hpo : p ≠ l.resolve o := by
    intro he
    rw [he, Links.sameIno_refl] at hp
    cases hp
  have hpp : p ∉ l.peers (l.resolve o) := by
    intro hm
    rw [Links.sameIno_of_mem_peers hm] at hp
    cases hp
  exact exec_direct_frame cfg plan hpo hpp _ (directOps_directTo src _ body _ hb) i { fs := fs0 }
    ⟨rfl, Or.inl rfl⟩

/-- out = a copy with the same bytes, second write fails: the copy is left half-written (the direct
    route is not claimed to be atomic), the source and its hard link are untouched. -/
example : final fsL (runJobL {} (Plan.single 6 .raise) 0 linksEx fsL
    { src := "a.txt", out := some "lncopy.txt", tmp := "tmp#0", body := bodyEx }).2
      = [("a.txt", "AA"), ("hl.txt", "AA"), ("copy.txt", "X"), ("b.txt", "BB")] := by
  decide +kernel

/-- **path_identity_is_not_enough** (witness: why `is_same_file` must compare inodes, not resolved
    path names). out = a second hard link of in. A path-comparing test says "different file" and the
    code takes the direct route: `open(out,'w')` truncates the inode both names share. If the first
    line then fails to format the source is empty — the original is destroyed; if the second write
    fails the source holds a fragment that is neither the original nor the new content. The route
    the model (and `os.path.samefile`) takes leaves the source intact under the same plans. -/
theorem path_identity_is_not_enough :
    let direct := directOps "a.txt" "hl.txt" bodyEx (linksEx.peers "hl.txt")
    linksEx.peers "hl.txt" = ["a.txt"] ∧
    (final fsL (exec {} (Plan.single 3 .raise) 0 { fs := fsL } direct).2).get? "a.txt" = some "" ∧
    (final fsL (exec {} (Plan.single 6 .raise) 0 { fs := fsL } direct).2).get? "a.txt" = some "X" ∧
    (final fsL (runJobL {} (Plan.single 3 .raise) 0 linksEx fsL
      { src := "a.txt", out := some "hl.txt", tmp := "tmp#0", body := bodyEx }).2).get? "a.txt" = some "AA" ∧
    (final fsL (runJobL {} (Plan.single 6 .raise) 0 linksEx fsL
      { src := "a.txt", out := some "hl.txt", tmp := "tmp#0", body := bodyEx }).2).get? "a.txt" = some "AA" := by
  decide +kernel

/-! ### Several files: the loop of `files_in_to_out` (single files, lists, globs) -/

private def jobsEx : List Job :=
  [{ src := "a.txt", tmp := "tmp#0", body := streamBody 1 ["X", "Y"] },
   { src := "b.txt", out := some "b.txt", tmp := "tmp#1", body := objectBody ["Z"] }]

private theorem jobsWfEx : JobsWF fsEx jobsEx where
  srcExists := by decide +kernel
  tmpFresh := by decide +kernel
  bodyOps := by decide +kernel
  inplace := by decide +kernel

/-- **src_always_whole / unmatched_untouched for a whole run.** At every prefix of a multi-file
    run, under every fault plan, every path that is not a temp name holds what it held originally,
    or it is a matched source holding its complete new content. -/
theorem src_always_whole_files {fs0 : Fs} {J : List Job} (wf : JobsWF fs0 J)
    (hnd : (J.map (·.src)).Nodup) (cfg : Cfg) (plan : Plan) (i : Nat) :
    ∀ ev ∈ (runJobs cfg plan i fs0 J).2, ∀ p, (∀ j ∈ J, p ≠ j.tmp) →
      ev.2.get? p = fs0.get? p ∨ ∃ j ∈ J, p = j.src ∧ ev.2.get? p = some (newContent j.body) := by
  intro ev hm
  have M := runJobs_post cfg plan wf J (fun _ h => h) hnd i fs0 (fun p _ => Or.inl rfl) rfl
  exact M.whole ev hm

/-- **unmatched_untouched.** Files not matched by `in` (and not temp names) are byte-identical at
    every prefix of the run, under every fault plan. -/
theorem unmatched_untouched_files {fs0 : Fs} {J : List Job} (wf : JobsWF fs0 J)
    (hnd : (J.map (·.src)).Nodup) (cfg : Cfg) (plan : Plan) (i : Nat) (p : String)
    (hps : ∀ j ∈ J, p ≠ j.src) (hpt : ∀ j ∈ J, p ≠ j.tmp) :
    ∀ ev ∈ (runJobs cfg plan i fs0 J).2, ev.2.get? p = fs0.get? p := by
  have M := runJobs_post cfg plan wf J (fun _ h => h) hnd i fs0 (fun p _ => Or.inl rfl) rfl
  exact M.frame p hps hpt

/-- **raise_leaves_no_temp** for a run over several files: exactly the original entries remain. -/
theorem raise_leaves_no_temp_files {fs0 : Fs} {J : List Job} (wf : JobsWF fs0 J)
    (hnd : (J.map (·.src)).Nodup) (plan : Plan) (i j : Nat)
    (hr : (runJobs {} plan i fs0 J).1 = .raised j) (hclean : plan (j + 1) ≠ .raise) :
    (final fs0 (runJobs {} plan i fs0 J).2).names = fs0.names := by
  have M := runJobs_post {} plan wf J (fun _ h => h) hnd i fs0 (fun p _ => Or.inl rfl) rfl
  exact M.raised j hr rfl hclean

/-- **success_same_entries** for a run over several files: same entries, every source new. -/
theorem success_same_entries_files {fs0 : Fs} {J : List Job} (wf : JobsWF fs0 J)
    (hnd : (J.map (·.src)).Nodup) (cfg : Cfg) (plan : Plan) (i : Nat)
    (hok : (runJobs cfg plan i fs0 J).1 = .ok) :
    (final fs0 (runJobs cfg plan i fs0 J).2).names = fs0.names ∧
    ∀ j ∈ J, (final fs0 (runJobs cfg plan i fs0 J).2).get? j.src = some (newContent j.body) := by
  have M := runJobs_post cfg plan wf J (fun _ h => h) hnd i fs0 (fun p _ => Or.inl rfl) rfl
  exact M.ok hok

/-- **kill_leaves_src_whole** for a run over several files: after a kill at most one `tmp` entry
    is extra (and by `src_always_whole_files` every source is whole). -/
theorem kill_leaves_src_whole_files {fs0 : Fs} {J : List Job} (wf : JobsWF fs0 J)
    (hnd : (J.map (·.src)).Nodup) (cfg : Cfg) (plan : Plan) (i j : Nat)
    (hk : (runJobs cfg plan i fs0 J).1 = .killed j) :
    (final fs0 (runJobs cfg plan i fs0 J).2).names = fs0.names ∨
    ∃ jb ∈ J, (final fs0 (runJobs cfg plan i fs0 J).2).names = fs0.names ++ [jb.tmp] := by
  have M := runJobs_post cfg plan wf J (fun _ h => h) hnd i fs0 (fun p _ => Or.inl rfl) rfl
  exact M.killed j hk

example : (runJobs {} (Plan.single 14 .kill) 0 fsEx jobsEx).1 = .killed 14 ∧
    final fsEx (runJobs {} (Plan.single 14 .kill) 0 fsEx jobsEx).2
      = [("a.txt", "XY"), ("b.txt", "BB"), ("tmp#1", "Z")] := by
  decide +kernel

/-- **files_out_alias_is_no_out.** A run over several files in which every out is absent or a
    spelling of the source entry itself (identical string, relative vs absolute, `..`, symlinked
    directory — e.g. out = the directory of the in files — or a symlink to the file) is, under every
    fault plan, event for event the run with no out at all: every theorem of this section applies to
    it. (A hard-linked out is covered per file by `same_file_out_all_or_nothing`; in a multi-file
    run inode ids change as the loop replaces sources, which `runJobsL` tracks.) -/
theorem files_out_alias_is_no_out {fs0 : Fs} {J : List Job} (l : Links)
    (wf : JobsWF fs0 (J.map Job.noOut)) (hpa : ∀ j ∈ J, PathAlias l j)
    (cfg : Cfg) (plan : Plan) (i : Nat) :
    runJobsL cfg plan i l fs0 J = runJobs cfg plan i fs0 (J.map Job.noOut) :=
  runJobsL_eq_runJobs cfg plan J
    (fun j hj => wf.srcExists j.noOut (List.mem_map_of_mem hj))
    (fun j hj => wf.tmpFresh j.noOut (List.mem_map_of_mem hj))
    (fun j hj => wf.bodyOps j.noOut (List.mem_map_of_mem hj)) i l fs0 rfl hpa

private def jobsLEx : List Job :=
  [{ src := "a.txt", out := some "ln.txt", tmp := "tmp#0", body := streamBody 1 ["X", "Y"] },
   { src := "b.txt", tmp := "tmp#1", body := objectBody ["Z"] }]

example : ∀ j ∈ jobsLEx, PathAlias linksEx j := by
  intro j hj
  simp only [jobsLEx, List.mem_cons, List.mem_nil_iff, or_false] at hj
  rcases hj with rfl | rfl
  · exact Or.inr ⟨"ln.txt", rfl, by decide +kernel, by decide +kernel, by decide⟩
  · exact Or.inl rfl

/-! ### The `out` option of the step: absent, `None` and `''` all mean "edit in place"

  `planOut` (PypyrModel/FsRewrite.lean) is the `if out_path:` ladder of `files_in_to_out`;
  `runFiles` is the whole call: plan, then the loop with the per-file out the plan yields. -/

/-- **planOut_spec.** The whole option space of `out`: in place exactly for absent/None/'' (a
    truthiness test, not `is not None`); a directory when it ends with the separator or is an existing
    directory; else one file — an error when `in` matched several paths. -/
theorem planOut_spec (out : Option String) (isDir : Bool) (nIn : Nat) :
    (planOut out isDir nIn = .inplace ↔ (out = none ∨ out = some "")) ∧
    (∀ o, out = some o → o ≠ "" → (endsWithSep o = true ∨ isDir = true) →
      planOut out isDir nIn = .intoDir o) ∧
    (∀ o, out = some o → o ≠ "" → endsWithSep o = false → isDir = false →
      planOut out isDir nIn = if nIn > 1 then .tooMany else .toFile o) := by
  refine ⟨?_, ?_, ?_⟩
  · cases out with
    | none => simp [planOut]
    | some o =>
      by_cases he : o = ""
      · simp [planOut, he]
      · simp only [planOut, he, if_false, Option.some.injEq, false_or, reduceCtorEq, iff_false]
        repeat' split
        all_goals simp
  · intro o ho hne hd
    subst ho
    rcases hd with hd | hd
    · simp [planOut, hne, hd]
    · by_cases hs : endsWithSep o = true <;> simp [planOut, hne, hd, hs]
  · intro o ho hne hs hd
    subst ho
    simp [planOut, hne, hs, hd]

/-- **files_out_plan_alias_is_no_out.** Whatever `out` is — absent, None, '', the directory of the in
    files (with or without the trailing separator), a path equal to in — if the per-file out the plan
    yields is absent or a spelling of the source entry itself, the whole `files_in_to_out` call is,
    under every fault plan and event for event, the call with no out: every theorem of the
    multi-file section applies to it. -/
theorem files_out_plan_alias_is_no_out {fs0 : Fs} {J : List Job} (l : Links)
    (out : Option String) (isDir : Bool) (nIn : Nat) (hp : planOut out isDir nIn ≠ .tooMany)
    (wf : JobsWF fs0 (J.map Job.noOut))
    (hpa : ∀ j ∈ J, PathAlias l (j.withOut (planOut out isDir nIn)))
    (cfg : Cfg) (plan : Plan) (i : Nat) :
    runFiles cfg plan i l fs0 out isDir nIn J = runJobs cfg plan i fs0 (J.map Job.noOut) := by
  have key : ∀ p : OutPlan, (∀ j ∈ J, PathAlias l (j.withOut p)) →
      runJobsL cfg plan i l fs0 (J.map (Job.withOut p)) = runJobs cfg plan i fs0 (J.map Job.noOut) := by
    intro p hpa'
    have hmm : (J.map (Job.withOut p)).map Job.noOut = J.map Job.noOut := by
      rw [List.map_map]; rfl
    have := files_out_alias_is_no_out (J := J.map (Job.withOut p)) l (by rw [hmm]; exact wf)
      (by
        intro j hj
        obtain ⟨j0, hj0, rfl⟩ := List.mem_map.mp hj
        exact hpa' j0 hj0) cfg plan i
    rw [this, hmm]
  unfold runFiles
  cases hq : planOut out isDir nIn with
  | tooMany => exact absurd hq hp
  | inplace => exact key .inplace (by rw [hq] at hpa; exact hpa)
  | intoDir d => exact key (.intoDir d) (by rw [hq] at hpa; exact hpa)
  | toFile f => exact key (.toFile f) (by rw [hq] at hpa; exact hpa)

/-- **falsy_out_is_no_out.** `out` absent, `None` or the empty string (e.g. `out: '{outDir}'` with
    `outDir == ''`): the call IS the in-place call, for every list of matched files, every fault plan,
    whatever `Path('')` happens to be (`isDir`) and however many paths `in` matched. In particular
    (`unmatched_untouched_files`) no file of the working directory that merely has the name of an in
    file is ever opened. -/
theorem falsy_out_is_no_out {fs0 : Fs} {J : List Job} (l : Links) (out : Option String)
    (hout : out = none ∨ out = some "") (isDir : Bool) (nIn : Nat)
    (wf : JobsWF fs0 (J.map Job.noOut)) (cfg : Cfg) (plan : Plan) (i : Nat) :
    runFiles cfg plan i l fs0 out isDir nIn J = runJobs cfg plan i fs0 (J.map Job.noOut) := by
  have hq : planOut out isDir nIn = .inplace := ((planOut_spec out isDir nIn).1).mpr hout
  apply files_out_plan_alias_is_no_out l out isDir nIn (by rw [hq]; intro h; cases h) wf
  intro j _
  rw [hq]
  exact Or.inl rfl

/-- conf/a.txt is the in file; cw/ is the working directory and holds an unrelated a.txt;
    `./a.txt` is how `Path('').joinpath('a.txt')` is spelled, and it resolves to cw/a.txt. -/
private def fsCwd : Fs := [("conf/a.txt", "AA"), ("cw/a.txt", "PRODUCTION"), ("b.txt", "BB")]
private def linksCwd : Links :=
  { entry := [("./a.txt", "cw/a.txt")], ino := [("conf/a.txt", 1), ("cw/a.txt", 2), ("b.txt", 3)] }
private def jobsCwd : List Job := [{ src := "conf/a.txt", tmp := "conf/tmp#0", body := bodyEx }]

example : JobsWF fsCwd (jobsCwd.map Job.noOut) where
  srcExists := by decide +kernel
  tmpFresh := by decide +kernel
  bodyOps := by decide +kernel
  inplace := by decide +kernel

/-- **empty_out_read_as_a_path_hits_bystander** (witness: why the tests must be truthiness tests).
    Were `out: ''` read as the path `Path('')` — the working directory, an existing directory — the
    plan would be "into that directory": conf/a.txt is written straight to `./a.txt`, the unrelated
    file of the same name in the working directory. If the second line then fails to format that
    bystander is left holding the partial output and the source is never edited; a run that ends ok
    overwrites it. As the code is (`planOut (some "")` = in place) the same plans leave the bystander
    alone: failing, the directory is untouched; succeeding, only conf/a.txt changes. -/
theorem empty_out_read_as_a_path_hits_bystander :
    planOut (some "") true 1 = .inplace ∧ planOut (some ".") true 1 = .intoDir "." ∧
    (OutPlan.intoDir ".").outFor "conf/a.txt" = some "./a.txt" ∧
    final fsCwd (runFiles {} (Plan.single 5 .raise) 0 linksCwd fsCwd (some ".") true 1 jobsCwd).2
      = [("conf/a.txt", "AA"), ("cw/a.txt", "X"), ("b.txt", "BB")] ∧
    final fsCwd (runFiles {} Plan.clean 0 linksCwd fsCwd (some ".") true 1 jobsCwd).2
      = [("conf/a.txt", "AA"), ("cw/a.txt", "XY"), ("b.txt", "BB")] ∧
    final fsCwd (runFiles {} (Plan.single 5 .raise) 0 linksCwd fsCwd (some "") true 1 jobsCwd).2 = fsCwd ∧
    final fsCwd (runFiles {} Plan.clean 0 linksCwd fsCwd (some "") true 1 jobsCwd).2
      = [("conf/a.txt", "XY"), ("cw/a.txt", "PRODUCTION"), ("b.txt", "BB")] := by
  decide +kernel

/-- Several in files and one out file: `Error` before anything is opened. -/
example : runFiles {} Plan.clean 0 {} fsEx (some "out.txt") false 2 jobsEx = (.raised 0, []) := by
  decide +kernel

/-! ### The monitor -/

/-- **model_holds_C15.** The monitor `judge` — the statement of C15 as a decidable predicate over
    (directory before, directory after, matched sources with their new contents, how the run ended):
    every source whole; after success every source new; no extra entry after ok/raise and only
    `tmp#` entries extra after a kill; nothing missing; unmatched files identical — is satisfied by
    the model's final directory for every job list and every fault plan in which a raise is not
    immediately followed by a second raise (i.e. the clean-up's own `os.remove` is not failed too).
    The correspondence harness evaluates the same `judge` on the IMPLEMENTATION's directories. -/
theorem model_holds_C15 {fs0 : Fs} {J : List Job} (wf : JobsWF fs0 J) (hnd : (J.map (·.src)).Nodup)
    (hnames : fs0.names.Nodup) (htmp : ∀ j ∈ J, isTempName j.tmp = true)
    (plan : Plan) (hplan : ∀ i, plan i = .raise → plan (i + 1) ≠ .raise) (i : Nat) :
    (judge fs0 (final fs0 (runJobs {} plan i fs0 J).2)
      (J.map fun j => (j.src, newContent j.body)) (runJobs {} plan i fs0 J).1.toEnd).holds = true :=
  judge_model wf hnd hnames htmp plan hplan i

/-- **model_holds_C15_links.** The same for the loop that decides same-file-ness on inodes
    (`runJobsL`, what the driver runs), for every link table under which every out is absent or a
    spelling of its source entry. -/
theorem model_holds_C15_links {fs0 : Fs} {J : List Job} (l : Links)
    (wf : JobsWF fs0 (J.map Job.noOut)) (hpa : ∀ j ∈ J, PathAlias l j)
    (hnd : (J.map (·.src)).Nodup) (hnames : fs0.names.Nodup) (htmp : ∀ j ∈ J, isTempName j.tmp = true)
    (plan : Plan) (hplan : ∀ i, plan i = .raise → plan (i + 1) ≠ .raise) (i : Nat) :
    (judge fs0 (final fs0 (runJobsL {} plan i l fs0 J).2)
      (J.map fun j => (j.src, newContent j.body)) (runJobsL {} plan i l fs0 J).1.toEnd).holds = true := by
  rw [files_out_alias_is_no_out l wf hpa]
  have hnd' : ((J.map Job.noOut).map (·.src)).Nodup := by
    rw [List.map_map]; exact hnd
  have htmp' : ∀ j ∈ J.map Job.noOut, isTempName j.tmp = true := by
    intro j hj
    obtain ⟨j0, hj0, rfl⟩ := List.mem_map.mp hj
    exact htmp j0 hj0
  have := model_holds_C15 wf hnd' hnames htmp' plan hplan i
  rw [List.map_map] at this
  exact this

/-- **model_holds_C15_files.** The monitor holds of the model's final directory for the whole
    `files_in_to_out` call whenever out is absent/None/'' . -/
theorem model_holds_C15_files {fs0 : Fs} {J : List Job} (l : Links) (out : Option String)
    (hout : out = none ∨ out = some "") (isDir : Bool) (nIn : Nat)
    (wf : JobsWF fs0 (J.map Job.noOut))
    (hnd : (J.map (·.src)).Nodup) (hnames : fs0.names.Nodup) (htmp : ∀ j ∈ J, isTempName j.tmp = true)
    (plan : Plan) (hplan : ∀ i, plan i = .raise → plan (i + 1) ≠ .raise) (i : Nat) :
    (judge fs0 (final fs0 (runFiles {} plan i l fs0 out isDir nIn J).2)
      (J.map fun j => (j.src, newContent j.body)) (runFiles {} plan i l fs0 out isDir nIn J).1.toEnd).holds
      = true := by
  rw [falsy_out_is_no_out l out hout isDir nIn wf]
  have hnd' : ((J.map Job.noOut).map (·.src)).Nodup := by
    rw [List.map_map]; exact hnd
  have htmp' : ∀ j ∈ J.map Job.noOut, isTempName j.tmp = true := by
    intro j hj
    obtain ⟨j0, hj0, rfl⟩ := List.mem_map.mp hj
    exact htmp j0 hj0
  have := model_holds_C15 wf hnd' hnames htmp' plan hplan i
  rw [List.map_map] at this
  exact this

/-- The monitor is not vacuous: it rejects the pre-fix leftover and a truncated source. -/
example : (judge fsEx (fsEx ++ [("tmp#0", "X")]) [("a.txt", "XY")] .raised).holds = false ∧
    (judge fsEx [("a.txt", "X"), ("b.txt", "BB")] [("a.txt", "XY")] .raised).holds = false ∧
    (judge fsEx [("a.txt", "XY"), ("b.txt", "B")] [("a.txt", "XY")] .ok).holds = false ∧
    (judge fsEx (fsEx ++ [("tmp#0", "X")]) [("a.txt", "XY")] .killed).holds = true := by
  decide +kernel

end Pypyr.C15
