import PypyrModel.FsRewrite
namespace Pypyr.C15
theorem placeholder : True := trivial
end Pypyr.C15
