/-
  Agreement between the data extracted from the source on every run
  (`Generated/Ladders.lean`, `Generated/Tables.lean`, written by harness/extract.py from the
  AST of the code under test) and what the hand-written models assume.

  * `routing_agrees` / `subclassing_agrees` / `finally_flags_agree`: for the `try` statements of the nine
    functions that route control-of-flow signals, the handler selected for every known exception class
    (and what it does), the subclass relation among those classes and the presence of `finally` are the
    ones the flow model transliterates (DESIGN.md appendix A). Semantic, not literal: a re-spelling of a
    ladder that routes every class the same way does not break them.
  * `route_*`: the routing each ladder gives to each kind of exception, computed from the
    extracted ladders and hierarchy, is the routing the model functions implement
    (`invokeStep`, `runConditional`, `retryIter`, `runStepGroup`, `runFailureGroup`, `runGroups`,
    `pypeBody`, `runPipeline`, `runRoot`).
  * `tables_agree`: back-off names, default group names (the truthy-string rule is tied by translation:
    `Props/Translated_C04.lean`).

  A source edit that changes a ladder or a table breaks these obligations even when no
  generated input reaches the changed clause.
-/
import Generated.Ladders
import Generated.Tables
import PypyrModel.Fmt
import PypyrModel.Backoff
import PypyrModel.Flow.Runner

namespace Pypyr.Agreement
open Pypyr.Generated

def expectedHierarchy : List (String × List String) := [
  ("Error", ["Exception"]),
  ("ConfigError", ["Error"]),
  ("ContextError", ["Error"]),
  ("HandledError", ["Error"]),
  ("KeyInContextHasNoValueError", ["ContextError"]),
  ("KeyNotInContextError", ["ContextError", "KeyError"]),
  ("LoopMaxExhaustedError", ["Error"]),
  ("MultiError", ["Error"]),
  ("PipelineDefinitionError", ["Error"]),
  ("PipelineNotFoundError", ["Error"]),
  ("PlugInError", ["Error"]),
  ("PyModuleNotFoundError", ["Error", "ModuleNotFoundError"]),
  ("SubprocessError", ["Error"]),
  ("Stop", ["Error"]),
  ("StopPipeline", ["Stop"]),
  ("StopStepGroup", ["Stop"]),
  ("ControlOfFlowInstruction", ["Error"]),
  ("Call", ["ControlOfFlowInstruction"]),
  ("Jump", ["ControlOfFlowInstruction"])
]

def expectedLadders : List (String × List (List String × HAction) × Bool) := [
  ("Step.invoke_step#0", [(["Call"], .conditional)], false),
  ("Step.invoke_step#1", [(["ControlOfFlowInstruction", "Stop"], .reraise), (["Exception"], .raiseFrom "HandledError")], true),
  ("Step.run_conditional_decorators#0", [(["ControlOfFlowInstruction", "Stop"], .reraise), (["Exception"], .conditional)], false),
  ("RetryDecorator.exec_iteration#0", [(["ControlOfFlowInstruction", "Stop"], .reraise), (["Exception"], .conditional)], false),
  ("StepsRunner.run_step_group#0", [(["Jump"], .swallow), (["StopStepGroup"], .conditional)], false),
  ("StepsRunner.run_failure_step_group#0", [(["Stop"], .reraise), (["Exception"], .swallow)], false),
  ("StepsRunner.run_step_groups#0", [(["ControlOfFlowInstruction", "Stop"], .reraise), (["Exception"], .conditional)], false),
  ("StepsRunner.run_step_groups#1", [(["StopStepGroup"], .swallow)], false),
  ("pype.run_step#0", [(["ControlOfFlowInstruction", "Stop"], .reraise), (["Exception"], .conditional)], false),
  ("Pipeline._run_pipeline#0", [(["Exception"], .conditional)], false),
  ("Pipeline._run_pipeline#1", [(["StopStepGroup"], .swallow), (["StopPipeline"], .ret)], false),
  ("Pipeline._run_pipeline#2", [(["StopPipeline"], .swallow)], false),
  ("Pipeline.run#0", [(["Stop"], .swallow)], false)
]

/-! The agreement obligations are SEMANTIC: what matters is which handler each ladder selects for each
    exception class and what that handler does, not how the `except` clauses are spelled. (Splitting
    `except (A, B): raise` into two clauses, re-ordering disjoint clauses or adding a new error class
    changes `Generated.ladders` / `Generated.hierarchy` but none of the statements below.) The literal
    equalities `Generated.hierarchy = expectedHierarchy` and `Generated.ladders = expectedLadders` are kept
    as `example`s further down only while they hold. -/

/-- `issubclass(c, b)` over the extracted hierarchy (classes not listed derive from `Exception`). -/
def isSub (h : List (String × List String)) : Nat → String → String → Bool
  | 0, c, b => c == b
  | fuel + 1, c, b =>
    c == b ||
    (match h.find? (·.1 == c) with
     | some (_, bases) => bases.any fun x => isSub h fuel x b
     | none => c != "Exception" && c != "BaseException" && isSub h fuel "Exception" b)

abbrev Ladders := List (String × List (List String × HAction) × Bool)

/-- the handler a ladder selects for an exception of class `c`: the first clause naming a superclass. -/
def routeIn (L : Ladders) (H : List (String × List String)) (site c : String) : Option HAction :=
  match L.find? (·.1 == site) with
  | some (_, hs, _) => (hs.find? fun (cs, _) => cs.any fun b => isSub H 6 c b).map (·.2)
  | none => none

/-- routing as read from the source under test -/
def route (site c : String) : Option HAction := routeIn Generated.ladders Generated.hierarchy site c

/-- the `try` statements the flow model transliterates -/
def sites : List String := expectedLadders.map (·.1)

/-- every class of pypyr.errors the model knows, and representatives of everything else -/
def knownClasses : List String :=
  expectedHierarchy.map (·.1) ++ ["Exception", "ValueError", "KeyError", "TypeError", "ModuleNotFoundError",
                                  "RuntimeError", "SomeOtherError"]

/-- **routing_agrees.** For every modelled `try` statement and every known exception class, the handler
    the SOURCE's ladder selects (first clause naming a superclass, over the SOURCE's class hierarchy) and
    what it does with the exception are those of the ladder the model transliterates. -/
theorem routing_agrees :
    ∀ site ∈ sites, ∀ c ∈ knownClasses,
      routeIn Generated.ladders Generated.hierarchy site c = routeIn expectedLadders expectedHierarchy site c := by
  decide +kernel

/-- the subclass relation among the known classes is the one the model assumes -/
theorem subclassing_agrees :
    ∀ c ∈ knownClasses, ∀ b ∈ knownClasses,
      isSub Generated.hierarchy 6 c b = isSub expectedHierarchy 6 c b := by
  decide +kernel

/-- which of the modelled `try` statements carry a `finally` -/
theorem finally_flags_agree :
    sites.map (fun s => (Generated.ladders.find? (·.1 == s)).map (·.2.2)) =
    sites.map (fun s => (expectedLadders.find? (·.1 == s)).map (·.2.2)) := by
  decide +kernel

/-! The routing the model implements, clause by clause (`none` = not caught: propagates). -/

-- invoke_step, inner try around the called groups: instructions re-raised, errors wrapped (invokeStep)
theorem route_invoke :
    route "Step.invoke_step#1" "Stop" = some .reraise ∧
    route "Step.invoke_step#1" "StopPipeline" = some .reraise ∧
    route "Step.invoke_step#1" "StopStepGroup" = some .reraise ∧
    route "Step.invoke_step#1" "Jump" = some .reraise ∧
    route "Step.invoke_step#1" "Call" = some .reraise ∧
    route "Step.invoke_step#1" "ValueError" = some (.raiseFrom "HandledError") ∧
    route "Step.invoke_step#1" "KeyNotInContextError" = some (.raiseFrom "HandledError") ∧
    route "Step.invoke_step#0" "Call" = some .conditional ∧
    route "Step.invoke_step#0" "Jump" = none ∧ route "Step.invoke_step#0" "Stop" = none ∧
    route "Step.invoke_step#0" "ValueError" = none := by decide +kernel

-- run_conditional_decorators and retry's exec_iteration: instructions re-raised before `except Exception`
-- (runConditional, retryIter); HandledError is an ordinary Exception there
theorem route_conditional_retry :
    (∀ site ∈ ["Step.run_conditional_decorators#0", "RetryDecorator.exec_iteration#0",
               "StepsRunner.run_step_groups#0", "pype.run_step#0"],
      route site "Stop" = some .reraise ∧ route site "StopPipeline" = some .reraise ∧
      route site "StopStepGroup" = some .reraise ∧ route site "Jump" = some .reraise ∧
      route site "Call" = some .reraise ∧
      route site "HandledError" = some .conditional ∧ route site "ValueError" = some .conditional ∧
      route site "LoopMaxExhaustedError" = some .conditional) := by decide +kernel

-- run_step_group: Jump handled there, StopStepGroup conditionally (raise_stop), everything else propagates
theorem route_step_group :
    route "StepsRunner.run_step_group#0" "Jump" = some .swallow ∧
    route "StepsRunner.run_step_group#0" "StopStepGroup" = some .conditional ∧
    route "StepsRunner.run_step_group#0" "Stop" = none ∧
    route "StepsRunner.run_step_group#0" "StopPipeline" = none ∧
    route "StepsRunner.run_step_group#0" "Call" = none ∧
    route "StepsRunner.run_step_group#0" "ValueError" = none := by decide +kernel

-- run_failure_step_group: Stop family re-raised, every other exception swallowed (runFailureGroup);
-- run_step_groups' inner try: only StopStepGroup turns the failure into a quiet end (runGroups)
theorem route_failure_handler :
    route "StepsRunner.run_failure_step_group#0" "Stop" = some .reraise ∧
    route "StepsRunner.run_failure_step_group#0" "StopPipeline" = some .reraise ∧
    route "StepsRunner.run_failure_step_group#0" "StopStepGroup" = some .reraise ∧
    route "StepsRunner.run_failure_step_group#0" "ValueError" = some .swallow ∧
    route "StepsRunner.run_failure_step_group#0" "Jump" = some .swallow ∧
    route "StepsRunner.run_step_groups#1" "StopStepGroup" = some .swallow ∧
    route "StepsRunner.run_step_groups#1" "Stop" = none ∧
    route "StepsRunner.run_step_groups#1" "StopPipeline" = none := by decide +kernel

-- _run_pipeline and Pipeline.run (runPipeline, runRoot)
theorem route_pipeline :
    route "Pipeline._run_pipeline#1" "StopStepGroup" = some .swallow ∧
    route "Pipeline._run_pipeline#1" "StopPipeline" = some .ret ∧
    route "Pipeline._run_pipeline#1" "Stop" = none ∧
    route "Pipeline._run_pipeline#2" "StopPipeline" = some .swallow ∧
    route "Pipeline._run_pipeline#2" "Stop" = none ∧
    route "Pipeline._run_pipeline#2" "StopStepGroup" = none ∧
    route "Pipeline._run_pipeline#2" "ValueError" = none ∧
    route "Pipeline.run#0" "Stop" = some .swallow ∧
    route "Pipeline.run#0" "StopPipeline" = some .swallow ∧
    route "Pipeline.run#0" "StopStepGroup" = some .swallow ∧
    route "Pipeline.run#0" "ValueError" = none := by decide +kernel

/-- literal tables the models hard-code -/
theorem tables_agree :
    Generated.builtinBackoffs.all (fun n => (Pypyr.BackoffKind.ofName? n).isSome) = true ∧
    Generated.builtinBackoffs.length = 6 ∧
    Generated.defaultGroup = "steps" ∧ Generated.defaultSuccessGroup = "on_success" ∧
    Generated.defaultFailureGroup = "on_failure" ∧ Generated.defaultBackoff = "fixed" := by
  decide +kernel

/- The truthy-string rule of `cast_str_to_bool` is no longer tied through an extracted literal table: the
   function itself is translated from the source on every run and proved equal to `castStrToBool` for every
   string (`Props/Translated_C04.lean`, `translated_cast_str_to_bool_eq_model`). -/

/-- and the model's defaulting rule uses exactly those names -/
theorem default_groups_agree :
    Pypyr.Flow.effectiveGroups { name := "x" } =
      ([Generated.defaultGroup], some Generated.defaultSuccessGroup, some Generated.defaultFailureGroup) := by
  decide +kernel

end Pypyr.Agreement
