/-
  C07 — runErrors records every step failure exactly once and accurately.

  Model: `PypyrModel/Flow/Layers.lean` (`saveError` = `Step.save_error`, `runConditional` =
  `Step.run_conditional_decorators` — the only caller of `save_error` —, `retryIter`/`retryLoop`,
  `invokeStep` with the `HandledError` marking, the loops) and `PypyrModel/Flow/Runner.lean`.
  In `Res.err e handled`, `handled = true` means "wrapped in `HandledError`": the error came out
  of the groups of a call step and was already recorded where it was raised.

  The layer theorems are for arbitrary step definitions, inner bodies, states, fuel, iteration
  counts and item lists; the global theorem is for every program satisfying the decidable
  condition `progOk` (below), every fuel, every state.
  Helper lemmas: Props/Lemmas/C07_Save.lean, C07_Layers.lean, C07_Global.lean, C07_GlobalRun.lean.
-/
import Props.Lemmas.C07_GlobalRun
import Props.Lemmas.C07_Escapes
import Props.Lemmas.C07_Nodup

namespace Pypyr.C07
open Pypyr Pypyr.Flow Pypyr.C04

/-! ## the entry -/

/-- **What `save_error` records.** When it succeeds, the new `runErrors` is the old list (the
    empty list when the key was absent) with exactly **one** entry appended at the **end**; the
    entry's eight fields are: `name` = the error's canonical name, `description` = its message,
    `customError` = the step's `onError` formatted against the context at that moment,
    `line`/`col` = the step's position in the pipeline yaml (`None` for a step without position),
    `step` = the step name, `exception` = the exception object itself, `swallowed` = the flag it
    was given. Every other context key, and everything outside the context, is unchanged. -/
theorem saveError_entry (d : StepDef) (s s' : St) (e : ExcV) (sw : Bool)
    (h : saveError d s e sw = (s', .ok)) :
    ∃ ce, customError d s = .ok ce ∧
      Ctx.get? s'.ctx "runErrors" = some (.list (runErrorsOf s ++ [.dict [
        (.str "name", .str e.name), (.str "description", .str e.msg), (.str "customError", ce),
        (.str "line", match d.line with | some n => .int n | none => .none),
        (.str "col", match d.col with | some n => .int n | none => .none),
        (.str "step", match d.name with | some n => .str n | none => .none),
        (.str "exception", .obj e.id), (.str "swallowed", .bool sw)]])) ∧
      (∀ k, k ≠ "runErrors" → Ctx.get? s'.ctx k = Ctx.get? s.ctx k) ∧
      s' = { s with ctx := s'.ctx } := by
  obtain ⟨ce, hc, hs⟩ := saveError_ok d s s' e sw h
  refine ⟨ce, hc, ?_, ?_, ?_⟩
  · rw [hs]; exact ctx_get_set_self _ _ _
  · intro k hk; rw [hs]; exact ctx_get_set_ne _ _ _ _ (fun e => hk e.symm)
  · rw [hs]

/-- the `customError` field: `{}` when the step has no `onError` or a falsy one, otherwise the
    `onError` value formatted at that moment. -/
theorem customError_spec (d : StepDef) (s : St) :
    (d.onError = none → customError d s = .ok (.dict [])) ∧
    (∀ oe, d.onError = some oe → oe.truthy = false → customError d s = .ok (.dict [])) ∧
    (∀ oe, d.onError = some oe → oe.truthy = true → customError d s = fmtV s oe) := by
  refine ⟨fun h => ?_, fun oe h ht => ?_, fun oe h ht => ?_⟩
  · simp [customError, h]
  · simp [customError, h, ht]
  · simp [customError, h, ht]

/-- reading the fields back. -/
theorem entry_fields (d : StepDef) (e : ExcV) (sw : Bool) (ce : Val) :
    ∃ kvs, entry d e sw ce = .dict kvs ∧ kvs.length = 8 ∧
      dictGet? kvs (.str "name") = some (.str e.name) ∧
      dictGet? kvs (.str "description") = some (.str e.msg) ∧
      dictGet? kvs (.str "customError") = some ce ∧
      dictGet? kvs (.str "line") = some (optNatVal d.line) ∧
      dictGet? kvs (.str "col") = some (optNatVal d.col) ∧
      dictGet? kvs (.str "step") = some (optStrVal d.name) ∧
      dictGet? kvs (.str "exception") = some (.obj e.id) ∧
      dictGet? kvs (.str "swallowed") = some (.bool sw) :=
  ⟨_, rfl, rfl, by simp [dictGet?], by simp [dictGet?], by simp [dictGet?], by simp [dictGet?],
    by simp [dictGet?], by simp [dictGet?], by simp [dictGet?], by simp [dictGet?]⟩

/-- **`line`/`col` are the step's own position, wherever in the file it stands**: a step mapping the
    yaml parser recorded at (0-based) `(l, c)` is reported at line `l + 1`, column `c + 1` - in
    particular a step on the very first line of the file (`l = 0`: a flow-style / JSON pipeline) is
    reported at line `1`, not as "no position"; only a step without a recorded position (a bare string
    step, a step built in code) has `None`. -/
theorem entry_position (d : StepDef) :
    (∀ l c, d.lc = some (l, c) →
      optNatVal d.line = .int ((l : Int) + 1) ∧ optNatVal d.col = .int ((c : Int) + 1)) ∧
    (d.lc = none → optNatVal d.line = .none ∧ optNatVal d.col = .none) := by
  refine ⟨fun l c h => ?_, fun h => ?_⟩
  · simp [StepDef.line, StepDef.col, h, optNatVal]
  · simp [StepDef.line, StepDef.col, h, optNatVal]

example : optNatVal ({ name := some "vprobe", lc := some (0, 9) } : StepDef).line = .int 1 ∧
    optNatVal ({ name := some "vprobe", lc := some (0, 9) } : StepDef).col = .int 10 := by decide

/-- `save_error` succeeds whenever `onError` can be formatted and `runErrors` is absent or a list. -/
theorem saveError_succeeds_when (d : StepDef) (s : St) (e : ExcV) (sw : Bool) (ce : Val)
    (hc : customError d s = .ok ce)
    (hl : Ctx.get? s.ctx "runErrors" = none ∨ ∃ xs, Ctx.get? s.ctx "runErrors" = some (.list xs)) :
    ∃ s', saveError d s e sw = (s', .ok) :=
  ⟨_, saveError_succeeds d s e sw ce hc hl⟩

/-! ## exactly one entry per escaped error, none otherwise -/

/-- **An error that escapes the body (after the retries) is recorded exactly once**, whether
    then swallowed or not: the inner layer (retry loop or bare invoke) returns `.err e false` in
    state `s1`; `swallow` evaluates to `sw` on `s1`; recording succeeds. Then `runErrors` grows by
    exactly the one entry for `e` — at the end, with `exception` = the object `e`, `swallowed = sw`
    — and the layer completes normally iff `sw`, else re-raises `e`. -/
theorem conditional_records_exactly_one (d : StepDef) (inner : Body) (s s1 s2 : St) (e : ExcV) (sw : Bool)
    (hrun : fmtB s d.run = .ok true) (hskip : fmtB s d.skip = .ok false)
    (hi : inner s = (s1, .err e false))
    (hsw : fmtB s1 d.swallow = .ok sw) (hsave : saveError d (logEscape d s1 e false) e sw = (s2, .ok)) :
    runConditional d inner s = (s2, if sw then .ok else .err e false) ∧
    ∃ ce, customError d s1 = .ok ce ∧
      runErrorsOf s2 = runErrorsOf s1 ++ [entry d e sw ce] ∧
      (runErrorsOf s2).length = (runErrorsOf s1).length + 1 ∧
      (∀ k, k ≠ "runErrors" → Ctx.get? s2.ctx k = Ctx.get? s1.ctx k) ∧
      s2.escapes = s1.escapes ++ [⟨d, e, s1.ctx⟩] := by
  constructor
  · rw [runConditional_eq, hrun]; simp only [hskip]
    rw [hi]; simp only [swallowWrap, fmtB_logEscape, hsw, hsave, Bool.false_eq_true, if_false]
    cases sw <;> rfl
  · obtain ⟨ce, hc, hs2⟩ := saveError_ok d _ s2 e sw hsave
    rw [customError_logEscape] at hc
    have hre : runErrorsOf s2 = runErrorsOf s1 ++ [entry d e sw ce] := by
      rw [hs2, runErrorsOf_set, runErrorsOf_logEscape]
    refine ⟨ce, hc, hre, by rw [hre]; simp, ?_, ?_⟩
    · intro k hk; rw [hs2]
      simp only [logEscape_ctx]
      exact ctx_get_set_ne _ _ _ _ (fun e => hk e.symm)
    · rw [hs2]; rfl

/-- **An error that already came through a call step is not recorded a second time**: for
    `.err e true` the layer calls `save_error` not at all — the state is exactly the inner
    layer's (the ghost log included: no event) — and then swallows or re-raises the original error as usual. -/
theorem conditional_does_not_rerecord_handled (d : StepDef) (inner : Body) (s s1 : St) (e : ExcV) (sw : Bool)
    (hrun : fmtB s d.run = .ok true) (hskip : fmtB s d.skip = .ok false)
    (hi : inner s = (s1, .err e true)) (hsw : fmtB s1 d.swallow = .ok sw) :
    runConditional d inner s = (s1, if sw then .ok else .err e false) := by
  have hl : logEscape d s1 e true = s1 := by simp [logEscape]
  rw [runConditional_eq, hrun]; simp only [hskip]
  rw [hi]; simp only [swallowWrap, hl, hsw, if_true]
  cases sw <;> rfl

/-- **Executions that do not raise, and control-of-flow instructions, add nothing**: for every
    outcome other than an error the layer's final state is the inner layer's final state. And a
    step that does not run at all (`run` false / `skip` true) leaves the state untouched. -/
theorem conditional_records_nothing_without_error (d : StepDef) (inner : Body) (s s1 : St) (r : Res)
    (hi : inner s = (s1, r)) (hr : r.isErr = false) :
    (fmtB s d.run = .ok true → fmtB s d.skip = .ok false → runConditional d inner s = (s1, r)) ∧
    (fmtB s d.run = .ok false → runConditional d inner s = (s, .ok)) ∧
    (fmtB s d.run = .ok true → fmtB s d.skip = .ok true → runConditional d inner s = (s, .ok)) :=
  ⟨fun hrun hskip => runConditional_nonerr d inner s s1 r hrun hskip hi hr,
   fun hrun => runConditional_run_false d inner s hrun,
   fun hrun hskip => runConditional_skip_true d inner s hrun hskip⟩

/-- whatever happens, one pass through the layer adds **at most one** entry, and only by
    appending: the `runErrors` list afterwards is the list the inner layer left, or that list
    plus one entry. (Covers also the cases outside the hypotheses above: `swallow` or `onError`
    that cannot be formatted, a `runErrors` that is not a list.) -/
theorem conditional_adds_at_most_one (d : StepDef) (inner : Body) (s : St) :
    runErrorsOf (runConditional d inner s).1 = runErrorsOf s ∨
    runErrorsOf (runConditional d inner s).1 = runErrorsOf (inner s).1 ∨
    ∃ ent, runErrorsOf (runConditional d inner s).1 = runErrorsOf (inner s).1 ++ [ent] := by
  rw [runConditional_eq]
  split
  · left; rfl
  · left; rfl
  · split
    · left; rfl
    · left; rfl
    · right
      generalize inner s = p
      obtain ⟨s1, r⟩ := p
      unfold swallowWrap
      cases r with
      | err e handled =>
        simp only []
        have hl := runErrorsOf_logEscape d s1 e handled
        generalize logEscape d s1 e handled = s1' at hl
        rw [← hl]
        split
        · left; rfl
        · rename_i sw _
          by_cases hh : handled = true
          · left; simp only [hh, if_true]; split <;> rfl
          · simp only [hh]
            have key : runErrorsOf (saveError d s1' e sw).1 = runErrorsOf s1' ∨
                ∃ ent, runErrorsOf (saveError d s1' e sw).1 = runErrorsOf s1' ++ [ent] := by
              rcases saveError_ctx d s1' e sw with h | ⟨ent, h⟩
              · left; exact runErrorsOf_congr s1' _ (by rw [h])
              · right; refine ⟨ent, ?_⟩
                unfold runErrorsOf; rw [h, ctx_get_set_self]; rfl
            generalize saveError d s1' e sw = q at key
            obtain ⟨s2, r2⟩ := q
            cases r2 <;> simp only [Bool.false_eq_true, if_false] <;> first
              | exact key
              | (split <;> exact key)
      | _ => left; rfl

/-! ## retry records nothing -/

/-- **The retry loop itself never touches `runErrors`** (the only context key it writes is
    `retryCounter`): for attempts that leave `runErrors` unchanged, the whole loop — any number of
    failed and re-tried attempts, any back-off, any `stopOn`/`retryOn` — leaves it unchanged.
    So attempts that a later attempt recovers from add nothing; what escapes the loop is recorded
    by the conditional layer above it (once: `conditional_records_exactly_one`). -/
theorem retry_records_nothing (cfg : RetryCfg) (fr : Frame) (inner : Frame → Body)
    (hi : ∀ fr' s', Ctx.get? (inner fr' s').1.ctx "runErrors" = Ctx.get? s'.ctx "runErrors") :
    (∀ (max : Option Int) (fuel k : Nat) (bo : BackoffState) (s : St),
      Ctx.get? (retryIter cfg fr inner max fuel k bo s).1.ctx "runErrors" = Ctx.get? s.ctx "runErrors") ∧
    (∀ (fuel : Nat) (s : St),
      Ctx.get? (retryLoop cfg fr inner fuel s).1.ctx "runErrors" = Ctx.get? s.ctx "runErrors") :=
  ⟨fun max fuel k bo s => retryIter_keeps sameRE cfg fr inner max (fun fr' s' => hi fr' s') fuel k bo s,
   fun fuel s => retryLoop_keeps sameRE cfg fr inner fuel (fun fr' s' => hi fr' s') s⟩

/-- in particular: a failed attempt followed by a successful one. -/
theorem recovered_attempt_adds_nothing (cfg : RetryCfg) (fr : Frame) (inner : Frame → Body)
    (hi : ∀ fr' s', Ctx.get? (inner fr' s').1.ctx "runErrors" = Ctx.get? s'.ctx "runErrors")
    (max : Option Int) (fuel k : Nat) (bo : BackoffState) (s : St) :
    runErrorsOf (retryIter cfg fr inner max fuel k bo s).1 = runErrorsOf s :=
  runErrorsOf_congr s _ ((retry_records_nothing cfg fr inner hi).1 max fuel k bo s)

/-- the loops do not record either (`foreach`, `while`: same statement). -/
theorem loops_record_nothing (fr : Frame) (inner : Frame → Body)
    (hi : ∀ fr' s', Ctx.get? (inner fr' s').1.ctx "runErrors" = Ctx.get? s'.ctx "runErrors") :
    (∀ (items : List Val) (s : St),
      Ctx.get? (foreachItems fr inner items s).1.ctx "runErrors" = Ctx.get? s.ctx "runErrors") ∧
    (∀ (cfg : WhileCfg) (max : Option Nat) (sleep : Num) (eom : Bool) (fuel k : Nat) (s : St),
      Ctx.get? (whileIter cfg fr inner max sleep eom fuel k s).1.ctx "runErrors" = Ctx.get? s.ctx "runErrors") :=
  ⟨fun items s => foreachItems_keeps sameRE fr inner (fun fr' s' => hi fr' s') items s,
   fun cfg max sleep eom fuel k s => whileIter_keeps sameRE cfg fr inner max sleep eom (fun fr' s' => hi fr' s') fuel k s⟩

/-! ## errors from called groups -/

/-- **`invoke_step` marks an error from called groups as handled**: whatever error the groups
    of a call step end with (fresh or itself already handled) leaves the calling step's
    `invoke_step` as `.err e true`; the counters are written back, which does not touch
    `runErrors`. -/
theorem invoke_marks_handled (fr : Frame) (body : Body) (callee : CofCfg → Body) (s s1 s2 : St)
    (c : CofCfg) (e : ExcV) (h : Bool)
    (hb : body s = (s1, .call c)) (hc : callee c s1 = (s2, .err e h)) (hco : c.original.truthy = true) :
    invokeStep fr body callee s = (resetCounters fr c s2, .err e true) ∧
    (c.key ≠ "runErrors" →
      Ctx.get? (resetCounters fr c s2).ctx "runErrors" = Ctx.get? s2.ctx "runErrors") := by
  refine ⟨?_, fun hk => rel_resetCounters sameRE fr c s2 (by simpa using hk)⟩
  rw [invokeStep_call fr body callee s s1 s2 c _ hb hc hco]

/-- … unless the raw configuration under the instruction's key is falsy (`call: ''`, `call: []`): then the
    `assert` in the `finally` of `invoke_step` fails and its AssertionError - a fresh exception object,
    NOT marked as handled - replaces whatever the called groups ended with. It is an error escaping this
    step's body, so this step records it (once: `conditional_records_exactly_one`); `runErrors` itself is
    not touched by `invoke_step`. -/
theorem invoke_falsy_config_raises_unmarked (fr : Frame) (body : Body) (callee : CofCfg → Body) (s s1 s2 : St)
    (c : CofCfg) (r : Res)
    (hb : body s = (s1, .call c)) (hc : callee c s1 = (s2, r)) (hco : c.original.truthy = false)
    (hf : r ≠ .outOfFuel) :
    (invokeStep fr body callee s).2 = .err ⟨s2.nextExc, "AssertionError", ""⟩ false ∧
    (invokeStep fr body callee s).1.ctx = (resetLoopCounters fr s2).ctx ∧
    Ctx.get? (invokeStep fr body callee s).1.ctx "runErrors" = Ctx.get? s2.ctx "runErrors" := by
  have h1 := invokeStep_call_assert fr body callee s s1 s2 c r hb hc hco hf
  refine ⟨by rw [h1]; rfl, by rw [h1]; rfl, ?_⟩
  rw [h1]
  exact rel_resetLoopCounters sameRE fr s2

/-- an error raised by the step module itself is *not* marked: it will be recorded by this step. -/
theorem invoke_own_error_unmarked (fr : Frame) (body : Body) (callee : CofCfg → Body) (s s1 : St)
    (e : ExcV) (h : Bool) (hb : body s = (s1, .err e h)) :
    invokeStep fr body callee s = (s1, .err e h) :=
  invokeStep_noncall fr body callee s s1 _ hb (by intro c hc; cases hc)

/-- hence: **an error that propagates outwards through an enclosing call step is not recorded
    again by that step** — a call step (no retry) whose called groups fail with `e` ends with the
    `runErrors` the called groups left, whether it swallows `e` or not. -/
theorem called_error_not_recorded_again (d : StepDef) (fr : Frame) (body : Body) (callee : CofCfg → Body)
    (s s1 s2 : St) (c : CofCfg) (e : ExcV) (h sw : Bool)
    (hrun : fmtB s d.run = .ok true) (hskip : fmtB s d.skip = .ok false)
    (hb : body s = (s1, .call c)) (hc : callee c s1 = (s2, .err e h)) (hk : c.key ≠ "runErrors")
    (hco : c.original.truthy = true)
    (hsw : fmtB (resetCounters fr c s2) d.swallow = .ok sw) :
    runConditional d (invokeStep fr body callee) s =
      (resetCounters fr c s2, if sw then .ok else .err e false) ∧
    runErrorsOf (runConditional d (invokeStep fr body callee) s).1 = runErrorsOf s2 := by
  have h1 := invoke_marks_handled fr body callee s s1 s2 c e h hb hc hco
  have h2 := conditional_does_not_rerecord_handled d _ s _ e sw hrun hskip h1.1 hsw
  refine ⟨h2, ?_⟩
  rw [h2]
  exact runErrorsOf_congr s2 _ (h1.2 hk)

/-! ## append only, hence chronological -/

/-- **`runErrors` is append-only through every layer**: if under the inner bodies the old list
    always stays a prefix of the new one, the same holds for the retry loop, the conditional layer
    (which appends), foreach, while and `invoke_step` (given the same for the called groups) —
    so entries are never removed, reordered or altered, and later failures come after earlier ones. -/
theorem runErrors_append_only (fr : Frame) (inner : Frame → Body) (hi : ∀ fr', Keeps PrefixRE (inner fr')) :
    (∀ cfg max fuel k bo, Keeps PrefixRE (retryIter cfg fr inner max fuel k bo)) ∧
    (∀ cfg fuel, Keeps PrefixRE (retryLoop cfg fr inner fuel)) ∧
    (∀ d, Keeps PrefixRE (runConditional d (inner fr))) ∧
    (∀ items, Keeps PrefixRE (foreachItems fr inner items)) ∧
    (∀ raw, Keeps PrefixRE (foreachLoop raw fr inner)) ∧
    (∀ cfg max sleep eom fuel k, Keeps PrefixRE (whileIter cfg fr inner max sleep eom fuel k)) ∧
    (∀ cfg fuel, Keeps PrefixRE (whileLoop cfg fr inner fuel)) :=
  ⟨fun cfg max fuel k bo => retryIter_keeps prefixRE cfg fr inner max hi fuel k bo,
   fun cfg fuel => retryLoop_keeps prefixRE cfg fr inner fuel hi,
   fun d => runConditional_keeps prefixRE d _ (fun s e sw _ => record_prefix d s e sw)
     (fun s e _ _ => log_prefix d s e) (hi fr),
   fun items => foreachItems_keeps prefixRE fr inner hi items,
   fun raw => foreachLoop_keeps prefixRE raw fr inner hi,
   fun cfg max sleep eom fuel k => whileIter_keeps prefixRE cfg fr inner max sleep eom hi fuel k,
   fun cfg fuel => whileLoop_keeps prefixRE cfg fr inner fuel hi⟩

/-- `invoke_step`: given the same for the module body and the called groups
    (`C02.resetCounters_keeps_runErrors`: writing the counters back keeps `runErrors`). -/
theorem runErrors_append_only_invoke (fr : Frame) (body : Body) (callee : CofCfg → Body)
    (hb : Keeps PrefixRE body) (hc : ∀ c, Keeps PrefixRE (callee c))
    (hkey : ∀ s s1 c, body s = (s1, .call c) → c.key ≠ "runErrors") :
    Keeps PrefixRE (invokeStep fr body callee) :=
  invokeStep_keeps prefixRE fr body callee hb hc (fun s s1 c h => by simpa using hkey s s1 c h)

/-- the whole decorated step, any decorator combination (`in` must not name `runErrors`). -/
theorem runErrors_append_only_step (d : StepDef) (body : Body) (callee : CofCfg → Body) (fuel : Nat)
    (hin : "runErrors" ∉ inKeys d)
    (hb : Keeps PrefixRE body) (hc : ∀ c, Keeps PrefixRE (callee c))
    (hkey : ∀ s s1 c, body s = (s1, .call c) → c.key ≠ "runErrors") :
    Keeps PrefixRE (runStepWith d body callee fuel) :=
  runStepWith_keeps prefixRE d body callee fuel (fun s e sw _ => record_prefix d s e sw)
    (fun s e _ _ => log_prefix d s e) hb hc
    (fun s s1 c h => by simpa using hkey s s1 c h)
    (fun s => prefixRE.same _ _ (fun k hk => by
      simp only [List.mem_cons, List.not_mem_nil, or_false] at hk
      subst hk
      rw [setIn_eq]; exact ctx_get_update_notin _ _ _ hin) (by rw [setIn_eq]))
    (fun s => prefixRE.same _ _ (fun k hk => by
      simp only [List.mem_cons, List.not_mem_nil, or_false] at hk
      subst hk
      rw [unsetIn_eq]; exact ctx_get_eraseAll_notin _ _ _ hin) (by rw [unsetIn_eq]))

/-! ## the global statement -/

/-- **Over the whole interpreter the `runErrors` list of the shared context only ever grows by
    appending.** For every program satisfying the decidable condition `progOk` —

    * every step is the probe, `stop`, `stoppipeline`, `stopstepgroup`, `call`, `jump`, `switch`,
      or a step whose module cannot be loaded (so: no `set`, `contextclear`, `contextclearall`,
      `pype` steps, which can write arbitrary keys);
    * no step's `in` binds `runErrors`, and every `in` binding of the probe's configuration key
      `p` to a mapping is a configuration that does not `set`/`del` `runErrors` or `p` and does
      not `clearAll` (`probeCfgSafe`);
    * no pipeline declares a context parser —

    every function of the mutually recursive runner, at every fuel, from every state whose `p`
    (if any) is harmless (`SafeP`), ends in a state whose `runErrors` list has the old list as a
    prefix (and whose `p` is harmless again): `Good s s'`. By mutual induction on the fuel. -/
theorem runErrors_grows_only_by_appending (prog : Program) (hp : progOk prog = true) (fuel : Nat) :
    (∀ pipe d, stepOk d = true → Keeps Good (runStep fuel prog pipe d)) ∧
    (∀ pipe ds, (∀ d, d ∈ ds → stepOk d = true) → Keeps Good (runSteps fuel prog pipe ds)) ∧
    (∀ pipe g rs, Keeps Good (runStepGroup fuel prog pipe g rs)) ∧
    (∀ pipe gs, Keeps Good (runGroupList fuel prog pipe gs)) ∧
    (∀ pipe g, Keeps Good (runFailureGroup fuel prog pipe g)) ∧
    (∀ pipe gs su fa, Keeps Good (runGroups fuel prog pipe gs su fa)) ∧
    (∀ pi, Keeps Good (runPipeline fuel prog pi)) :=
  allGood prog hp fuel

/-- for a whole run: whatever `runErrors` held at the start is still there, in order, at the
    front of the final list. -/
theorem run_appends_only (prog : Program) (hp : progOk prog = true) (fuel : Nat) (pi : PipeInst) (s : St)
    (hs : Ctx.get? s.ctx "p" = none) :
    runErrorsOf s <+: runErrorsOf (runRoot fuel prog pi s).1 := by
  have hsafe : SafeP s := fun cfg hc => by rw [hs] at hc; cases hc
  have h := (allGood prog hp fuel).2.2.2.2.2.2 pi s hsafe
  rw [runRoot_eq]
  generalize runPipeline fuel prog pi s = p at h
  obtain ⟨s1, r⟩ := p
  cases r <;> exact h.2

/-! ## exactly once, for a whole run: `runErrors` = the escapes

The interpreter model keeps a ghost log `St.escapes` (never read by the model): `run_conditional_decorators`
appends one record (step, exception object, context of that moment) each time the inner layer - the retry
loop or the bare `invoke_step` - comes back with an error that is not marked as already handled: precisely
the event "an error escaped this step's body after its retries were exhausted". -/

/-- what `entry?` is: a pure function of the logged event - the record of `saveError_entry` with
    `swallowed` / `customError` = the step's `swallow` / `onError` formatted in the context of the event;
    nothing when one of them does not format (its formatting error propagates instead of an entry). -/
theorem entry?_spec (x : Escape) :
    (∀ sw ce, fmtB { ctx := x.ctx } x.step.swallow = .ok sw → customError x.step { ctx := x.ctx } = .ok ce →
      entry? x = some (entry x.step x.exc sw ce)) ∧
    (∀ e, fmtB { ctx := x.ctx } x.step.swallow = .error e → entry? x = none) ∧
    (∀ e, customError x.step { ctx := x.ctx } = .error e → entry? x = none) := by
  refine ⟨fun sw ce h1 h2 => ?_, fun e h => ?_, fun e h => ?_⟩
  · unfold entry?; rw [h1, h2]
  · unfold entry?; rw [h]
  · unfold entry?; rw [h]; split <;> simp_all

/-- **Every escape exactly one entry, nothing else any, in chronological order - over a whole run.** For every
    program satisfying `progOk` (no step can write `runErrors` behind the interpreter's back), every fuel,
    every pipeline instance, from every state whose `runErrors` is absent or a list (`REok`) and that holds no
    probe configuration: the `runErrors` list at the end of `Pipeline.run` is the list at the start followed
    by the entries (`entry?`) of the escapes logged during the run, in the order in which they were logged.
    So an error that escapes a step's body is recorded once (never twice: an error travelling on through
    enclosing call steps is not an escape of those steps - it is marked handled), one that is recovered by a
    retry, a control-of-flow instruction, a normal completion never is, and nothing is ever removed,
    reordered or altered. -/
theorem runErrors_are_the_escapes (prog : Program) (hp : progOk prog = true) (fuel : Nat) (pi : PipeInst) (s : St)
    (hs : Ctx.get? s.ctx "p" = none) (hr : REok s) :
    ∃ new, (runRoot fuel prog pi s).1.escapes = s.escapes ++ new ∧
      runErrorsOf (runRoot fuel prog pi s).1 = runErrorsOf s ++ new.filterMap entry? ∧
      REok (runRoot fuel prog pi s).1 := by
  have hsafe : SafeP s := fun cfg hc => by rw [hs] at hc; cases hc
  have h := (allAcc prog hp fuel).2.2.2.2.2.2 pi s hsafe hr
  rw [runRoot_eq]
  generalize runPipeline fuel prog pi s = p at h
  obtain ⟨s1, r⟩ := p
  obtain ⟨_, hr1, new, h1, h2⟩ := h
  cases r <;> exact ⟨new, h1, h2, hr1⟩

/-- … for a run started on a context without `runErrors`: as many entries as escapes whose `swallow` and
    `onError` format; never more entries than escapes. -/
theorem runErrors_count (prog : Program) (hp : progOk prog = true) (fuel : Nat) (pi : PipeInst) (s : St)
    (hs : Ctx.get? s.ctx "p" = none) (hr : Ctx.get? s.ctx "runErrors" = none) (he : s.escapes = []) :
    runErrorsOf (runRoot fuel prog pi s).1 = (runRoot fuel prog pi s).1.escapes.filterMap entry? ∧
    (runErrorsOf (runRoot fuel prog pi s).1).length ≤ (runRoot fuel prog pi s).1.escapes.length := by
  obtain ⟨new, h1, h2, _⟩ := runErrors_are_the_escapes prog hp fuel pi s hs (.inl hr)
  have h0 : runErrorsOf s = [] := by unfold runErrorsOf; rw [hr]; rfl
  rw [h1, h2, h0, he]
  simp only [List.nil_append]
  exact ⟨trivial, List.length_filterMap_le _ _⟩

/-- the same for every function of the runner (steps, step-groups, `run_step_groups`, pipelines), at every fuel:
    `Acc a b` = "from `a` to `b`, `runErrors` grew by exactly the entries of the escapes logged meanwhile". -/
theorem runErrors_are_the_escapes_everywhere (prog : Program) (hp : progOk prog = true) (fuel : Nat) :
    (∀ pipe d, stepOk d = true → Keeps Acc (runStep fuel prog pipe d)) ∧
    (∀ pipe ds, (∀ d, d ∈ ds → stepOk d = true) → Keeps Acc (runSteps fuel prog pipe ds)) ∧
    (∀ pipe g rs, Keeps Acc (runStepGroup fuel prog pipe g rs)) ∧
    (∀ pipe gs, Keeps Acc (runGroupList fuel prog pipe gs)) ∧
    (∀ pipe g, Keeps Acc (runFailureGroup fuel prog pipe g)) ∧
    (∀ pipe gs su fa, Keeps Acc (runGroups fuel prog pipe gs su fa)) ∧
    (∀ pi, Keeps Acc (runPipeline fuel prog pi)) :=
  allAcc prog hp fuel

/-! ## no exception object is recorded twice -/

/-- **The ids of the logged escapes increase strictly** - so they are pairwise distinct: no exception object
    escapes two steps' bodies "as an unrecorded error". `K`: every logged exception exists (`id < nextExc`) and the
    ids increase strictly in log order. For every `progOk` program (no pype step: the error that leaves a child
    pipeline IS recorded a second time by the parent's pype step, in pypyr as in the model - DESIGN section 6), every
    fuel, every pipeline instance, every start state with a well-formed log (an empty one, for instance).
    Why: an exception gets its id when it is raised; between the raise and the `except` clause of the step that
    records it nothing else is recorded (`InOk`: what the layers below the recording clause end with is newer than
    everything in the log); an error that comes back out of called groups is marked as handled. -/
theorem escape_ids_strictly_increase (prog : Program) (hp : progOk prog = true) (fuel : Nat) (pi : PipeInst) (s : St)
    (hk : K s) :
    K (runRoot fuel prog pi s).1 ∧ ((runRoot fuel prog pi s).1.escapes.map (·.exc.id)).Nodup := by
  have h := (allUp prog hp fuel).2.2.2.2.2.2 pi s hk
  have h' : K (runRoot fuel prog pi s).1 := by
    rw [runRoot_eq]
    generalize runPipeline fuel prog pi s = p at h
    obtain ⟨s1, r⟩ := p
    cases r <;> exact h
  exact ⟨h', K_nodup _ h'⟩

/-- … the same at every function of the runner, at every fuel -/
theorem escape_ids_strictly_increase_everywhere (prog : Program) (hp : progOk prog = true) (fuel : Nat) :
    (∀ pipe d, stepOk d = true → UpOk (runStep fuel prog pipe d)) ∧
    (∀ pipe ds, (∀ d, d ∈ ds → stepOk d = true) → UpOk (runSteps fuel prog pipe ds)) ∧
    (∀ pipe g rs, UpOk (runStepGroup fuel prog pipe g rs)) ∧
    (∀ pipe gs, UpOk (runGroupList fuel prog pipe gs)) ∧
    (∀ pipe g, UpOk (runFailureGroup fuel prog pipe g)) ∧
    (∀ pipe gs su fa, UpOk (runGroups fuel prog pipe gs su fa)) ∧
    (∀ pi, UpOk (runPipeline fuel prog pi)) :=
  allUp prog hp fuel

/-- **… hence no exception object appears twice in `runErrors`.** A run started without `runErrors` and with an
    empty log: every entry of the final `runErrors` names an exception object (`exception`), and no two entries
    name the same one. (With `runErrors_are_the_escapes`: the entries are the logged escapes, one each.) -/
theorem no_exception_recorded_twice (prog : Program) (hp : progOk prog = true) (fuel : Nat) (pi : PipeInst) (s : St)
    (hs : Ctx.get? s.ctx "p" = none) (hr : Ctx.get? s.ctx "runErrors" = none) (he : s.escapes = []) :
    (∀ v ∈ runErrorsOf (runRoot fuel prog pi s).1, ∃ i, excIdOf v = some i) ∧
    ((runErrorsOf (runRoot fuel prog pi s).1).filterMap excIdOf).Nodup := by
  have hk : K s := by
    refine ⟨fun x hx => ?_, ?_⟩
    · rw [he] at hx; cases hx
    · rw [he]; exact List.Pairwise.nil
  have h1 := (runErrors_count prog hp fuel pi s hs hr he).1
  have h2 := (escape_ids_strictly_increase prog hp fuel pi s hk).2
  rw [h1]
  refine ⟨?_, recorded_ids_nodup _ h2⟩
  intro v hv
  rw [List.mem_filterMap] at hv
  obtain ⟨x, _, hxv⟩ := hv
  exact ⟨x.exc.id, excIdOf_entry? x v hxv⟩

/-! ## non-vacuity -/

/-- (1) a step that fails twice and is recovered by its third attempt; (2) a failing step with
    `swallow` and a formatted `onError`; (3) a call step with `swallow` whose called group fails;
    (4) a witness that the pipeline went on. -/
def demoProg : Program := ⟨[{ name := "main", groups := [
  ("steps", .steps [
    { name := some "vprobe",
      inArgs := some [("p", .dict [(.str "tag", .str "r"), (.str "fails", .list [.str "ValueError", .str "ValueError"])])],
      retry := some { max := some (.int 3) }, lc := some (1, 4) },
    { name := some "vprobe",
      inArgs := some [("who", .str "me"),
                      ("p", .dict [(.str "tag", .str "s"), (.str "failRest", .str "KeyError"), (.str "msg", .str "first")])],
      swallow := .bool true, onError := some (.dict [(.str "by", .str "{who}")]), lc := some (8, 4) },
    { name := some "pypyr.steps.call", inArgs := some [("call", .str "sg")], swallow := .bool true,
      lc := some (14, 4) },
    { name := some "vprobe", inArgs := some [("p", .dict [(.str "tag", .str "end")])] }]),
  ("sg", .steps [
    { name := some "vprobe",
      inArgs := some [("p", .dict [(.str "tag", .str "c"), (.str "failRest", .str "TypeError"), (.str "msg", .str "second")])],
      lc := some (20, 6) }])] }]⟩

/-- the program satisfies the hypothesis of the global theorem. -/
example : progOk demoProg = true := by decide +kernel

/-- exactly two entries, in chronological order: the recovered attempts (exception objects 0, 1)
    left none; the swallowed failure (object 2) is recorded with its position, the formatted
    `onError` and `swallowed = true` (its `description` is `str(KeyError('first'))`, which Python quotes:
    `'first'` with the quotes); the failure in the called group (object 3) is recorded once,
    by the step that raised it (`swallowed = false`, line 21), and **not** again by the call step
    it propagated through (line 15), although that step swallowed it. -/
example :
    let r := runRoot 50 demoProg { name := "main" } {}
    r.2 = .ok ∧
    r.1.trace.map (fun ev => (ev.tag, ev.nerr)) = [("r", 0), ("r", 0), ("r", 0), ("s", 0), ("c", 1), ("end", 2)] ∧
    Ctx.get? r.1.ctx "runErrors" = some (.list [
      .dict [(.str "name", .str "KeyError"), (.str "description", .str "'first'"),
             (.str "customError", .dict [(.str "by", .str "me")]),
             (.str "line", .int 9), (.str "col", .int 5), (.str "step", .str "vprobe"),
             (.str "exception", .obj 2), (.str "swallowed", .bool true)],
      .dict [(.str "name", .str "TypeError"), (.str "description", .str "second"),
             (.str "customError", .dict []),
             (.str "line", .int 21), (.str "col", .int 7), (.str "step", .str "vprobe"),
             (.str "exception", .obj 3), (.str "swallowed", .bool false)]]) := by
  decide +kernel

/-- the ghost log of that run: two escapes - the swallowed KeyError of step `s` (object 2) and the TypeError of
    the called group's step `c` (object 3); the recovered attempts (objects 0, 1) and the call step the TypeError
    travelled through logged nothing; and `runErrors` is exactly the `entry?` image of the log. -/
example :
    let r := runRoot 50 demoProg { name := "main" } {}
    r.1.escapes.map (fun x => (x.exc.id, x.exc.name, x.step.line)) =
      [(2, "KeyError", some 9), (3, "TypeError", some 21)] ∧
    Ctx.get? r.1.ctx "runErrors" = some (.list (r.1.escapes.filterMap entry?)) := by
  decide +kernel

/-- `no_exception_recorded_twice` on the demo: the start state has a well-formed (empty) log; the two entries name
    the exception objects 2 and 3. -/
example :
    K ({} : St) ∧
    (runErrorsOf (runRoot 50 demoProg { name := "main" } {}).1).filterMap excIdOf = [2, 3] :=
  ⟨⟨fun _ h => (by cases h), List.Pairwise.nil⟩, by decide +kernel⟩

end Pypyr.C07
