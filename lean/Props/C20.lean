/-
  C20 — Configuration precedence and merge.

  "Effective configuration is the defaults overlaid by every config file found, in increasing
  precedence: common directories (last-listed lowest), the user config file, the [tool.pypyr]
  table of ./pyproject.toml, then the local pypyr-config.yaml; $PYPYR_CONFIG_GLOBAL, when set,
  replaces the common and user files and must exist. For each scalar setting the
  highest-precedence file that sets it wins, vars and shortcuts are the key-wise union with the
  same precedence, an unknown setting or a non-mapping file is rejected with a config error, and
  $PYPYR_SKIP_INIT skips all file look-ups."

  Model: `PypyrModel/Config.lean` (`initSt`, `applyFileSt`, `applyAll`, `lookOrder`).
  Declarative reading used in the statements (`Props/Lemmas/C20_Merge.lean`):
  `settingOf p k` — what file payload `p` says about setting `k`; `highest k ps` — the value in
  the LAST payload of `ps` that sets `k` (`highest_spec` says exactly that); `highestDict d key`
  likewise for an entry of `vars`/`shortcuts`; `payloadsOf fs looks` — the payload at each
  look-up (an absent file counts as no settings).

  Every theorem is for ALL environments, file sets and assignments (induction over the list of
  look-ups); none is an enumeration. The tie to the source is (a) the correspondence harness
  `harness/props/c20.py` (fresh subprocess per configuration) and (b) `config_props_agree` /
  `init_shape_agrees` below: tables extracted from the source by `harness/extract_c20.py`.
-/
import PypyrModel.Config
import Generated.ConfigProps
import Props.Lemmas.C20_Merge
import Props.Lemmas.C20_Errors

namespace Pypyr.C20
open Pypyr Pypyr.Config

/-! ### Example data -/

/-- Two common dirs, a user dir; nothing else set. -/
def exEnv : Env :=
  { vars := [("XDG_CONFIG_DIRS", "/S/c1:/S/c2"), ("XDG_CONFIG_HOME", "/S/xh")], home := "/S/home" }

def exEnvGlobal : Env := { exEnv with vars := ("PYPYR_CONFIG_GLOBAL", "/S/g.yaml") :: exEnv.vars }
def exEnvSkip : Env := { exEnv with vars := ("PYPYR_SKIP_INIT", "TRUE") :: exEnv.vars }

/-- c2 (lowest), c1, pyproject and local all say something about `json_indent` and `vars`. -/
def exFiles : Files :=
  [("/S/c1/pypyr/config.yaml", .mapping [("json_indent", .int 4), ("vars", .dict [(.str "a", .int 1)])]),
   ("/S/c2/pypyr/config.yaml", .mapping [("json_indent", .int 5), ("default_group", .str "g2"),
                                         ("vars", .dict [(.str "a", .int 2), (.str "b", .int 3)])]),
   ("pyproject.toml", .mapping [("vars", .dict [(.str "c", .int 9)])]),
   ("pypyr-config.yaml", .mapping [("json_ascii", .bool true)])]

/-! ### 1. Where `init` looks, and in which order -/

/-- **init_order.** Past the skip test, the `handle_path` calls are: the common files
    last-listed first then the user file — or, when `$PYPYR_CONFIG_GLOBAL` is set (non-empty),
    that single file instead, with `raise_not_found=True` — then `./pyproject.toml` read through
    the `[tool.pypyr]` loader, then the local yaml file (`$PYPYR_CONFIG_LOCAL` or
    `pypyr-config.yaml`). -/
theorem init_order (e : Env) (hs : e.skip = false) (hp : e.platformFails = false) :
    initOrder e =
      (match e.globalPath? with
       | some g => [{ path := pathStr g, loader := .yaml, mustExist := true }]
       | none => (commonConfigPaths e).reverse.map (fun p => { path := p, loader := .yaml, mustExist := false })
                   ++ [{ path := userConfigPath e, loader := .yaml, mustExist := false }])
      ++ [{ path := "pyproject.toml", loader := .pyproject, mustExist := false },
          { path := pathStr (e.getD "PYPYR_CONFIG_LOCAL" "pypyr-config.yaml"), loader := .yaml, mustExist := false }] := by
  simp only [initOrder_unfold e hs hp, lookOrder, xdgLooks, localLooks]
  cases e.globalPath? <;> rfl

example : (initOrder exEnv).map (·.path) =
    ["/S/c2/pypyr/config.yaml", "/S/c1/pypyr/config.yaml", "/S/xh/pypyr/config.yaml",
     "pyproject.toml", "pypyr-config.yaml"] := by decide +kernel

example : (initOrder exEnvGlobal).map (fun l => (l.path, l.mustExist)) =
    [("/S/g.yaml", true), ("pyproject.toml", false), ("pypyr-config.yaml", false)] := by decide +kernel

/-- **common directories: last-listed lowest.** If directory `a` is listed before `b` in
    `$XDG_CONFIG_DIRS`, `b`'s file is consulted (hence overridden) before `a`'s, and both before
    the user file, `pyproject.toml` and the local file. -/
theorem common_last_listed_lowest (e : Env) (hs : e.skip = false) (hp : e.platformFails = false)
    (hg : e.globalPath? = none)
    (pre mid post : List String) (a b : String)
    (h : commonConfigPaths e = pre ++ a :: mid ++ b :: post) :
    (initOrder e).map (·.path) =
      post.reverse ++ b :: mid.reverse ++ a :: pre.reverse ++
        [userConfigPath e, "pyproject.toml", pathStr (e.getD "PYPYR_CONFIG_LOCAL" "pypyr-config.yaml")] := by
  rw [init_order e hs hp, hg]
  simp [h, List.map_reverse, Function.comp_def]

example : commonConfigPaths exEnv = [] ++ "/S/c1/pypyr/config.yaml" :: [] ++ "/S/c2/pypyr/config.yaml" :: [] := by
  decide +kernel

/-- **`$PYPYR_CONFIG_GLOBAL` replaces the common and user files**: no path derived from
    `$XDG_CONFIG_DIRS` / `$XDG_CONFIG_HOME` is consulted (whatever those are), only the named
    file, `pyproject.toml` and the local file. -/
theorem global_replaces_common_and_user (e : Env) (hs : e.skip = false) (g : String)
    (hg : e.globalPath? = some g) :
    (initOrder e).map (·.path) =
      [pathStr g, "pyproject.toml", pathStr (e.getD "PYPYR_CONFIG_LOCAL" "pypyr-config.yaml")] := by
  rw [init_order e hs (platformFails_of_global e g hg), hg]; rfl

example : exEnvGlobal.globalPath? = some "/S/g.yaml" ∧ exEnvGlobal.skip = false := by decide +kernel

/-- **…and must exist**: if the named file cannot be opened, `init` raises the config error
    "Could not open config file" before anything else is looked at; the config is untouched. -/
theorem global_must_exist (e : Env) (fs : Files) (hs : e.skip = false) (g : String)
    (hg : e.globalPath? = some g) (hmiss : fs.opens (pathStr g) = false) :
    initSt e fs = (defaults e, some (.notFound (pathStr g)))
      ∧ (CfgErr.notFound (pathStr g)).isConfigError = true
      ∧ consulted fs (defaults e) (initOrder e) = [pathStr g] := by
  have hp := platformFails_of_global e g hg
  refine ⟨?_, rfl, ?_⟩
  · rw [initSt_eq, initOn_unfold _ e fs hs hp]
    simp only [lookOrder, hg]
    exact runLooks_missing fs (defaults e) _ _ rfl hmiss
  · rw [initOrder_unfold e hs hp]
    simp only [lookOrder, hg, List.cons_append, List.nil_append, consulted]
    rw [handlePath_missing fs (defaults e) _ rfl hmiss]

example : (initSt exEnvGlobal exFiles).2 = some (.notFound "/S/g.yaml") := by decide +kernel

/-- An *empty* `$PYPYR_CONFIG_GLOBAL` counts as unset (`if env_config_path_str:`). -/
theorem global_empty_is_unset (e : Env) (h : e.get? "PYPYR_CONFIG_GLOBAL" = some "") :
    e.globalPath? = none := by
  simp [Env.globalPath?, h]

/-- The `handle_path` calls actually made are a prefix of `initOrder` (all of it when nothing
    raises): `init` never looks anywhere else and never skips ahead. -/
theorem consulted_is_prefix (e : Env) (fs : Files) :
    consulted fs (defaults e) (initOrder e) <+: (initOrder e).map (·.path) :=
  consulted_prefix fs (defaults e) (initOrder e)

theorem consulted_all_when_ok (e : Env) (fs : Files) (st' : ConfigState) (hs : e.skip = false)
    (h : initSt e fs = (st', none)) :
    consulted fs (defaults e) (initOrder e) = (initOrder e).map (·.path) := by
  obtain ⟨hp, h⟩ := initOn_ok hs (by rw [← initSt_eq]; exact h)
  rw [initOrder_unfold e hs hp]
  exact consulted_all_of_ok fs (defaults e) st' (lookOrder e) h

/-- **`init` is the fold of `handle_path` over the ordered look-ups**, starting from the
    defaults, an absent file contributing nothing (provided a `$PYPYR_CONFIG_GLOBAL` file
    exists — otherwise `global_must_exist`). -/
theorem init_is_fold (e : Env) (fs : Files) (hs : e.skip = false) (hp : e.platformFails = false)
    (hex : ∀ g, e.globalPath? = some g → fs.opens (pathStr g) = true) :
    initSt e fs = applyAll (defaults e) (payloadsOf fs (initOrder e)) := by
  rw [initSt_eq, initOn_unfold _ e fs hs hp, initOrder_unfold e hs hp]
  apply runLooks_eq_applyAll
  intro l hl hm
  simp only [lookOrder, xdgLooks, localLooks] at hl
  cases hgp : e.globalPath? with
  | some g =>
    rw [hgp] at hl
    simp only [List.mem_append, List.mem_cons, List.not_mem_nil, or_false] at hl
    rcases hl with h | h | h
    · subst h; exact hex g hgp
    · subst h; simp at hm
    · subst h; simp at hm
  | none =>
    rw [hgp] at hl
    simp only [List.mem_append, List.mem_map, List.mem_cons, List.not_mem_nil, or_false] at hl
    rcases hl with (⟨p, _, h⟩ | h) | h | h <;> subst h <;> simp at hm

/-! ### 2. Scalars: the highest-precedence file that sets it wins -/

/-- `highest k ps = some v` says exactly: some file of the list sets `k` to `v` and no file
    after it (= of higher precedence) sets `k` at all. -/
theorem highest_spec (k : String) (ps : List Payload) (v : Val) :
    highest k ps = some v ↔
      ∃ lower p higher, ps = lower ++ p :: higher ∧ settingOf p k = some v ∧
        ∀ q ∈ higher, settingOf q k = none := by
  rw [highest_eq_lastSome]; exact lastSome_eq_some _ ps v

theorem highest_none (k : String) (ps : List Payload) :
    highest k ps = none ↔ ∀ p ∈ ps, settingOf p k = none := by
  rw [highest_eq_lastSome]; exact lastSome_eq_none _ ps

/-- **scalar_highest_wins (any start state, any list of files).** After a successful sequence
    of `handle_path` calls, every scalar setting has the value given by the LAST file of the
    sequence that sets it; if none does, it keeps its previous value. -/
theorem scalar_highest_wins_list (st st' : ConfigState) (ps : List (String × Payload))
    (h : applyAll st ps = (st', none)) (k : String) (d : Val) (hd : st.scalar? k = some d) :
    st'.scalar? k = some ((highest k (ps.map (·.2))).getD d) := by
  rw [applyAll_ok_scalar h k, hd]; rfl

/-- **scalar_highest_wins (`init`).** For every environment, every set of files and every
    scalar setting `k`: if `init` succeeds, the effective value of `k` is the value in the
    highest-precedence file (in `initOrder`) that sets `k`, else the default. -/
theorem scalar_highest_wins (e : Env) (fs : Files) (st' : ConfigState) (hs : e.skip = false)
    (h : initSt e fs = (st', none)) (k : String) (hk : k ∈ scalarProps) :
    ∃ d, defaultOf e k = some d ∧
      st'.scalar? k = some ((highest k ((payloadsOf fs (initOrder e)).map (·.2))).getD d) := by
  obtain ⟨hnd, hsome⟩ := scalarProps_have_default k hk
  obtain ⟨src, hsrc⟩ := Option.isSome_iff_exists.mp hsome
  have hdef : defaultOf e k = some (evalDefault e src) := by simp [defaultOf, hsrc]
  refine ⟨evalDefault e src, hdef, ?_⟩
  obtain ⟨hp, h⟩ := initOn_ok hs (by rw [← initSt_eq]; exact h)
  have hall := runLooks_ok_applyAll h
  rw [initOrder_unfold e hs hp]
  apply scalar_highest_wins_list _ _ _ hall
  rw [defaults_scalar, hnd, hdef]; rfl

-- four files, three of them set json_indent: c1 (higher than c2) wins; default_group only in c2;
-- json_ascii only in local; pipelines_subdir nowhere → default.
example : (initSt exEnv exFiles).2 = none ∧
    (initSt exEnv exFiles).1.scalar? "json_indent" = some (.int 4) ∧
    (initSt exEnv exFiles).1.scalar? "default_group" = some (.str "g2") ∧
    (initSt exEnv exFiles).1.scalar? "json_ascii" = some (.bool true) ∧
    (initSt exEnv exFiles).1.scalar? "pipelines_subdir" = some (.str "pipelines") ∧
    highest "json_indent" ((payloadsOf exFiles (initOrder exEnv)).map (·.2)) = some (.int 4) := by
  decide +kernel

/-! ### 3. `vars` / `shortcuts`: key-wise union with the same precedence -/

theorem highestDict_spec (d : String) (key : Val) (ps : List Payload) (v : Val) :
    highestDict d key ps = some v ↔
      ∃ lower p higher, ps = lower ++ p :: higher ∧ dictSettingOf p d key = some v ∧
        ∀ q ∈ higher, dictSettingOf q d key = none := by
  rw [highestDict_eq_lastSome]; exact lastSome_eq_some _ ps v

/-- **dict_union_precedence (any start state, any list of files).** After a successful sequence
    of `handle_path` calls, looking `key` up in dict setting `name` gives the entry of the LAST
    file whose `name` mapping contains `key`; if none does, the entry it had before. -/
theorem dict_union_precedence_list (st st' : ConfigState) (ps : List (String × Payload))
    (h : applyAll st ps = (st', none)) (name : String) (d0 : Dict) (h0 : st.dict? name = some d0) :
    ∃ d', st'.dict? name = some d' ∧
      ∀ key, dictGet? d' key = (highestDict name key (ps.map (·.2))).or (dictGet? d0 key) :=
  applyAll_ok_dict h name d0 h0

/-- **dict_union_precedence (`init`).** For `vars` and `shortcuts`, every environment, every
    set of files: if `init` succeeds, `lookup key effective` is `lookup key` in the
    highest-precedence file (in `initOrder`) whose mapping contains `key`, and absent when no file
    has it (the default dicts are empty) — i.e. the key-wise union, higher precedence winning. -/
theorem dict_union_precedence (e : Env) (fs : Files) (st' : ConfigState) (hs : e.skip = false)
    (h : initSt e fs = (st', none)) (name : String) (hn : name ∈ dictProps) :
    ∃ d', st'.dict? name = some d' ∧
      ∀ key, dictGet? d' key = highestDict name key ((payloadsOf fs (initOrder e)).map (·.2)) := by
  obtain ⟨hp, h⟩ := initOn_ok hs (by rw [← initSt_eq]; exact h)
  have hall := runLooks_ok_applyAll h
  obtain ⟨d', hd', hkeys⟩ := applyAll_ok_dict hall name [] (defaults_dict e name hn)
  refine ⟨d', hd', fun key => ?_⟩
  rw [initOrder_unfold e hs hp]
  rw [hkeys key]
  simp [dictGet?]

/-- The same with `dictGet?` (first binding) on the file side: equal because the mappings of a
    parsed file have unique keys. -/
theorem dict_union_precedence' (e : Env) (fs : Files) (st' : ConfigState) (hs : e.skip = false)
    (h : initSt e fs = (st', none)) (name : String) (hn : name ∈ dictProps)
    (hwf : ∀ p ∈ (payloadsOf fs (initOrder e)).map (·.2), DictsNodup p) :
    ∃ d', st'.dict? name = some d' ∧
      ∀ key, dictGet? d' key = highestDict' name key ((payloadsOf fs (initOrder e)).map (·.2)) := by
  obtain ⟨d', hd', hk⟩ := dict_union_precedence e fs st' hs h name hn
  exact ⟨d', hd', fun key => by rw [hk key, highestDict_eq' name key _ hwf]⟩

-- vars: a from c1 (beats c2's), b from c2, c from pyproject; nothing else.
example : (initSt exEnv exFiles).1.dict? "vars" =
      some [(.str "a", .int 1), (.str "b", .int 3), (.str "c", .int 9)] ∧
    highestDict "vars" (.str "a") ((payloadsOf exFiles (initOrder exEnv)).map (·.2)) = some (.int 1) ∧
    highestDict "vars" (.str "zz") ((payloadsOf exFiles (initOrder exEnv)).map (·.2)) = none := by
  decide +kernel

/-- A scalar is *overwritten*, never merged — also when its value is a dict (`log_config`). -/
example : (applyAll (defaults exEnv)
      [("lo", .mapping [("log_config", .dict [(.str "a", .int 1)])]),
       ("hi", .mapping [("log_config", .dict [(.str "b", .int 2)])])]).1.scalar? "log_config"
    = some (.dict [(.str "b", .int 2)]) := by decide +kernel

/-! ### 4. Unknown setting: rejected before anything is applied -/

/-- **unknown_rejected_atomically.** A file with at least one key outside
    `all_writable_props` raises the config error "Unexpected config props" naming exactly those
    keys, and the config object is left exactly as it was before this file — the valid settings
    of the same file are not applied, nor is the path recorded. -/
theorem unknown_rejected_atomically (st : ConfigState) (path : String) (kvs : Ctx)
    (h : unknownKeys kvs ≠ []) :
    applyFileSt st path (.mapping kvs) = (st, some (.unknownProps (unknownKeys kvs)))
      ∧ (CfgErr.unknownProps (unknownKeys kvs)).isConfigError = true := by
  refine ⟨?_, rfl⟩
  have hne : kvs.isEmpty = false := by
    cases kvs with
    | nil => simp [unknownKeys] at h
    | cons _ _ => rfl
  have hu : (unknownKeys kvs).isEmpty = false := by
    cases hk : unknownKeys kvs with
    | nil => exact absurd hk h
    | cons _ _ => rfl
  simp [applyFileSt, applyFileStOrd, hne, updateOrd, hu]

/-- A key is unknown exactly when it is not one of the 17 writable props. -/
theorem unknownKeys_ne_nil_iff (kvs : Ctx) :
    unknownKeys kvs ≠ [] ↔ ∃ k ∈ kvs.map (·.1), k ∉ allWritableProps := by
  simp [unknownKeys, List.filter_eq_nil_iff]

/-- In a sequence: the files before the offending one are applied, the offending one and
    everything after it (whatever precedence) are not, and the error is what `init` raises. -/
theorem unknown_rejected_in_sequence (st st1 : ConfigState) (lower higher : List (String × Payload))
    (path : String) (kvs : Ctx) (hlow : applyAll st lower = (st1, none)) (h : unknownKeys kvs ≠ []) :
    applyAll st (lower ++ (path, .mapping kvs) :: higher) = (st1, some (.unknownProps (unknownKeys kvs))) :=
  applyAll_append_reject hlow (unknown_rejected_atomically st1 path kvs h).1

example : applyFileSt (defaults exEnv) "f" (.mapping [("json_indent", .int 77), ("jsonIndent", .int 4)])
    = (defaults exEnv, some (.unknownProps ["jsonIndent"])) := by decide +kernel

-- unknown key in the LOWEST file, valid settings in a higher one: still an error, nothing applied
example : initSt exEnv [("/S/c2/pypyr/config.yaml", .mapping [("bogus", .int 1)]),
                        ("pypyr-config.yaml", .mapping [("json_indent", .int 6)])]
    = (defaults exEnv, some (.unknownProps ["bogus"])) := by decide +kernel

/-! ### 4b. The set of accepted keys is EXACTLY the writable property set

  Keys of a file are strings in the model (`Ctx`). A key that is not a `str` in Python (YAML allows `1:`, `true:`,
  `null:`, `1.5:`) reaches the model as the string `<non-str {repr}>` (`key_str` in harness/props/c20.py): a name that
  is not in `allWritableProps` (`nonstr_key_never_writable`), so such a key is an unknown setting like any other - what the
  code does too (`keys - Config.all_writable_props` is a set difference on hash/equality, and no non-`str` object equals one
  of the 17 names). The names of OTHER attributes of the `Config` object (`skip_init`, `cwd`, `platform`, `pyproject_toml`,
  `init`, `update`, `_skip_init`, `__class__` ...) are not in the set either: being an attribute is not being a setting. -/

/-- which keys `unknownKeys` names: the keys of the file outside the writable set, no other -/
theorem unknownKeys_mem (kvs : Ctx) (k : String) :
    k ∈ unknownKeys kvs ↔ k ∈ kvs.map (·.1) ∧ k ∉ allWritableProps := by
  simp [unknownKeys]

/-- **key_outside_writable_rejected_atomically.** For every state of the object, every key list, every value and
    either iteration order of the sets (`updateOrd rev`): if SOME key of the mapping is outside
    `Config.all_writable_props` - whatever else the name may denote - then `Config.update` returns the object
    UNCHANGED (none of the valid settings next to it applied) and raises the ConfigError `Unexpected config props`
    naming exactly the keys outside the set. -/
theorem key_outside_writable_rejected_atomically (rev : Bool) (st : ConfigState) (kvs : Ctx)
    (h : ∃ k ∈ kvs.map (·.1), k ∉ allWritableProps) :
    updateOrd rev st kvs = (st, some (.unknownProps (unknownKeys kvs))) ∧
    (∀ k, k ∈ unknownKeys kvs ↔ k ∈ kvs.map (·.1) ∧ k ∉ allWritableProps) ∧
    (CfgErr.unknownProps (unknownKeys kvs)).isConfigError = true := by
  have hne := (unknownKeys_ne_nil_iff kvs).2 h
  refine ⟨?_, unknownKeys_mem kvs, rfl⟩
  have hu : (unknownKeys kvs).isEmpty = false := by
    cases hk : unknownKeys kvs with
    | nil => exact absurd hk hne
    | cons _ _ => rfl
  simp [updateOrd, hu]

example : (∃ k ∈ ([("json_indent", Val.int 4), ("skip_init", .bool true), ("cwd", .str "/x"), ("__class__", .int 1)] : Ctx).map (·.1),
      k ∉ allWritableProps) ∧
    updateOrd true (defaults exEnv) [("json_indent", .int 4), ("skip_init", .bool true), ("cwd", .str "/x"), ("__class__", .int 1)]
      = (defaults exEnv, some (.unknownProps ["skip_init", "cwd", "__class__"])) := by
  refine ⟨⟨"skip_init", by decide +kernel, by decide +kernel⟩, by decide +kernel⟩

/-- **update_accepts_iff_all_keys_writable.** For all states, key lists, values and both set orders: `Config.update`
    raises no "Unexpected config props" error iff EVERY key of the mapping is one of the writable props. (What it may
    still raise then is `dict.update`'s own TypeError / ValueError for a refused `vars` / `shortcuts` value:
    `update_raises_in_either_order`.) -/
theorem update_accepts_iff_all_keys_writable (rev : Bool) (st : ConfigState) (kvs : Ctx) :
    (∀ ks, (updateOrd rev st kvs).2 ≠ some (.unknownProps ks)) ↔ ∀ k ∈ kvs.map (·.1), k ∈ allWritableProps := by
  constructor
  · intro hno k hk
    apply Classical.byContradiction
    intro hout
    have := (key_outside_writable_rejected_atomically rev st kvs ⟨k, hk, hout⟩).1
    exact hno _ (by rw [this])
  · intro hall ks hks
    have hnil : unknownKeys kvs = [] := by
      apply Classical.byContradiction
      intro hne
      obtain ⟨k, hk, hout⟩ := (unknownKeys_ne_nil_iff kvs).1 hne
      exact hout (hall k hk)
    have h : updateOrd rev st kvs = ((updateOrd rev st kvs).1, some (.unknownProps ks)) := Prod.ext rfl hks
    rcases (updateOrd_err_state rev st _ kvs _ h).2.2.2 with ⟨hne, _⟩ | ⟨_, n, exc, he, _⟩
    · exact hne hnil
    · cases he

/-- ... and with every key writable and every dict-prop value a mapping, nothing is raised at all -/
example : (∀ k ∈ ([("json_indent", Val.int 4), ("vars", .dict [(.str "a", .int 1)])] : Ctx).map (·.1), k ∈ allWritableProps) ∧
    (updateOrd false (defaults exEnv) [("json_indent", .int 4), ("vars", .dict [(.str "a", .int 1)])]).2 = none ∧
    ¬ (∀ k ∈ ([("json_indent", Val.int 4), ("platform", .str "linux")] : Ctx).map (·.1), k ∈ allWritableProps) := by
  decide +kernel

/-- **file_with_key_outside_writable_fails_init.** Lifted to `init()`, on any object, under any environment and file
    system: when the look-ups before `l` went through and the file at `l` is a mapping with some key outside the
    writable set, `init()` raises the ConfigError naming those keys and the object is exactly the object after the LOWER
    files only - nothing of the rejected file (its valid settings included), nothing of the files after it. -/
theorem file_with_key_outside_writable_fails_init (st st1 : ConfigState) (e : Env) (fs : Files)
    (lower higher : List Look) (l : Look) (kvs : Ctx)
    (hs : e.skip = false) (hp : e.platformFails = false)
    (hsplit : lookOrder e = lower ++ l :: higher)
    (hlow : runLooks fs st lower = (st1, none))
    (hfile : fs.get? l.path = some (.mapping kvs))
    (h : ∃ k ∈ kvs.map (·.1), k ∉ allWritableProps) :
    initOn st e fs = (st1, some (.unknownProps (unknownKeys kvs))) ∧
    (CfgErr.unknownProps (unknownKeys kvs)).isConfigError = true := by
  refine ⟨?_, rfl⟩
  rw [initOn_unfold st e fs hs hp, hsplit]
  apply runLooks_append_reject hlow
  simp only [handlePath, load, hfile]
  exact (unknown_rejected_atomically st1 l.path kvs ((unknownKeys_ne_nil_iff kvs).2 h)).1

-- `skip_init: true` next to a valid setting in the user file, a valid lower file, a valid local file: ConfigError, the
-- lower file's setting stays, neither `json_indent: 4` of the rejected file nor the local file is applied
example :
    initSt exEnv [("/S/c2/pypyr/config.yaml", .mapping [("log_notify_format", .str "LOW")]),
                  ("/S/xh/pypyr/config.yaml", .mapping [("json_indent", .int 4), ("skip_init", .bool true)]),
                  ("pypyr-config.yaml", .mapping [("json_indent", .int 6)])] =
      ({ defaults exEnv with
          scalars := overwriteScalars (defaults exEnv).scalars [("log_notify_format", .str "LOW")],
          loaded := ["/S/c2/pypyr/config.yaml"] },
       some (.unknownProps ["skip_init"])) := by
  decide +kernel

/-- no writable prop starts with `<`: the image `<non-str …>` of a non-`str` key is never a writable name -/
theorem nonstr_key_never_writable (r : String) : ("<non-str " ++ r ++ ">") ∉ allWritableProps := by
  intro hmem
  have h1 : ∀ k ∈ allWritableProps, k.toList.head? ≠ some '<' := by decide +kernel
  apply h1 _ hmem
  simp [String.toList_append]

/-! ### 5. Non-mapping file: rejected (falsy ones too) -/

/-- **non_mapping_rejected.** A file whose top level is not a mapping — truthy (`[1]`, `5`,
    `'x'`) or falsy (`[]`, `0`, `''`, `false`) — raises the config error "should be a mapping"
    and leaves the config untouched. -/
theorem non_mapping_rejected (st : ConfigState) (path : String) (truthy : Bool) :
    applyFileSt st path (.nonMapping truthy) = (st, some (.notMapping path))
      ∧ (CfgErr.notMapping path).isConfigError = true := ⟨rfl, rfl⟩

theorem non_mapping_rejected_in_sequence (st st1 : ConfigState) (lower higher : List (String × Payload))
    (path : String) (truthy : Bool) (hlow : applyAll st lower = (st1, none)) :
    applyAll st (lower ++ (path, .nonMapping truthy) :: higher) = (st1, some (.notMapping path)) :=
  applyAll_append_reject hlow (non_mapping_rejected st1 path truthy).1

example : (initSt exEnv (("/S/xh/pypyr/config.yaml", .nonMapping false) :: exFiles)).2
    = some (.notMapping "/S/xh/pypyr/config.yaml") := by decide +kernel

/-- **falsy_non_mapping_accepted_pre_fix.** The rule as it was before the repair (`if payload:`
    ahead of the Mapping test) silently accepted a falsy non-mapping such as `[]`: no error, no
    change — the defect F8 that `non_mapping_rejected` excludes for the current code. -/
theorem falsy_non_mapping_accepted_pre_fix (st : ConfigState) (path : String) :
    applyFileStPreFix st path (.nonMapping false) = (st, none) := rfl

/-- The old and the current rule differ on nothing else (among what a loader can RETURN: a parse
    error or the AttributeError of a non-table `tool` is raised by the loader, before either rule). -/
theorem pre_fix_differs_only_there (st : ConfigState) (path : String) (p : Payload)
    (h : p ≠ .nonMapping false) (hr : ∀ exc, p ≠ .parseError exc) (ht : p ≠ .toolNotTable) :
    applyFileStPreFix st path p = applyFileSt st path p := by
  cases p with
  | none => rfl
  | unreadable kd => rfl
  | parseError exc => exact absurd rfl (hr exc)
  | toolNotTable => exact absurd rfl ht
  | nonMapping t =>
    cases t with
    | false => exact absurd rfl h
    | true => rfl
  | mapping kvs =>
    cases kvs with
    | nil => rfl
    | cons a as => simp [applyFileStPreFix, applyFileSt, applyFileStOrd, Payload.truthy, update]

example : applyFileStPreFix (defaults exEnv) "pypyr-config.yaml" (.nonMapping false) = (defaults exEnv, none)
    ∧ (applyFileSt (defaults exEnv) "pypyr-config.yaml" (.nonMapping false)).2
        = some (.notMapping "pypyr-config.yaml") := by decide +kernel

/-! ### 6. Empty / absent file: no settings -/

/-- **empty_file_is_no_settings.** An empty document (`None`), an absent file and an empty
    mapping `{}` change nothing and raise nothing… -/
theorem empty_file_is_no_settings (st : ConfigState) (path : String) :
    applyFileSt st path .none = (st, none) ∧ applyFileSt st path (.mapping []) = (st, none) := ⟨rfl, rfl⟩

/-- …so such a file can be dropped from any position of any sequence without changing the result. -/
theorem empty_file_is_no_settings_in_sequence (st : ConfigState) (lower higher : List (String × Payload))
    (path : String) :
    applyAll st (lower ++ (path, .none) :: higher) = applyAll st (lower ++ higher) :=
  applyAll_skip_none st lower higher path

/-- An absent optional file is the same as an empty one. -/
theorem absent_file_is_empty_file (fs : Files) (st : ConfigState) (l : Look) (hm : l.mustExist = false)
    (ha : fs.get? l.path = none) : handlePath fs st l = applyFileSt st l.path .none := by
  simp [handlePath, load, ha, hm]

example : initSt exEnv (("/S/xh/pypyr/config.yaml", .none) :: exFiles) = initSt exEnv exFiles := by
  decide +kernel

/-! ### 7. `$PYPYR_SKIP_INIT` -/

/-- **skip_init_skips_all.** When `$PYPYR_SKIP_INIT` is 'true'/'1'/'1.0' in any case, `init`
    looks nothing up — whatever files exist, well-formed or not, `$PYPYR_CONFIG_GLOBAL` missing or
    not — raises nothing, and the configuration is the defaults (with `skip_init` set). -/
theorem skip_init_skips_all (e : Env) (fs : Files) (hs : e.skip = true) :
    initSt e fs = ({ defaults e with skipInit := true }, none) ∧ initOrder e = []
      ∧ consulted fs (defaults e) (initOrder e) = [] := by
  simp [initSt, initOrder, hs, consulted]

example : exEnvSkip.skip = true ∧
    initSt exEnvSkip (("pypyr-config.yaml", .nonMapping true) :: exFiles)
      = ({ defaults exEnvSkip with skipInit := true }, none) := by decide +kernel

/-- Which spellings skip: exactly the strings whose lower-case is `true`, `1` or `1.0`; unset
    means `'0'`. -/
theorem skip_iff (e : Env) :
    e.skip = castStrToBool ((e.get? "PYPYR_SKIP_INIT").getD "0") := rfl

example : ({ vars := [("PYPYR_SKIP_INIT", "yes")] } : Env).skip = false ∧ ({} : Env).skip = false := by
  decide +kernel

/-! ### 7b. Every `init()` obeys the environment of the moment it runs

  The object on which `init` is called persists (the module singleton is built when `pypyr.config`
  is imported; a program can build further `Config()`s), and the environment can change between
  import, construction and each call. `initOn st e fs` is `init()` on the object `st` under the
  environment `e` *of the call*; `runOps` plays a whole history. Nothing below has a hypothesis
  about how `st` came to be. -/

/-- `Config(); init()` in one unchanged environment is the special case. -/
theorem initSt_eq_initOn (e : Env) (fs : Files) : initSt e fs = initOn (defaults e) e fs := rfl

/-- **skip at call time.** If `$PYPYR_SKIP_INIT` is truthy *when `init` runs*, then — on any
    object, built under any environment, after any earlier calls, whatever files exist — `init`
    raises nothing, makes no `handle_path` call, and leaves every setting and the list of loaded
    paths exactly as they were (only `skip_init` becomes true). -/
theorem init_skip_at_call_time (st : ConfigState) (e : Env) (fs : Files) (hs : e.skip = true) :
    initOn st e fs = ({ st with skipInit := true }, none) ∧
    consulted fs st (initOrder e) = [] ∧
    (initOn st e fs).1.scalars = st.scalars ∧ (initOn st e fs).1.dicts = st.dicts ∧
    (initOn st e fs).1.loaded = st.loaded := by
  simp [initOn, initOrder, hs, consulted]

/-- **no skip at call time.** If it is not truthy when `init` runs, then — even on an object built
    while it *was* set, or on which an earlier `init` skipped — the look-ups are those of the
    *current* environment, in `init_order`'s order, merged into the object as it is. -/
theorem init_looks_at_call_time (st : ConfigState) (e : Env) (fs : Files) (hs : e.skip = false)
    (hp : e.platformFails = false) :
    initOn st e fs = runLooks fs st (lookOrder e) ∧
    consulted fs st (initOrder e) <+: (initOrder e).map (·.path) ∧
    (∀ st', initOn st e fs = (st', none) →
      consulted fs st (initOrder e) = (initOrder e).map (·.path)) := by
  refine ⟨initOn_unfold st e fs hs hp, consulted_prefix fs st (initOrder e), ?_⟩
  intro st' h
  rw [initOn_unfold st e fs hs hp] at h
  rw [initOrder_unfold e hs hp]
  exact consulted_all_of_ok fs st st' (lookOrder e) h

/-- **scalar_highest_wins, on any object.** After a successful `init` under `e`, every scalar has
    the value of the highest-precedence file — in the order given by the environment *of the call* —
    that sets it, else the value the object had before the call. -/
theorem init_on_scalar_highest_wins (st st' : ConfigState) (e : Env) (fs : Files) (hs : e.skip = false)
    (h : initOn st e fs = (st', none)) (k : String) (d : Val) (hd : st.scalar? k = some d) :
    st'.scalar? k = some ((highest k ((payloadsOf fs (initOrder e)).map (·.2))).getD d) := by
  obtain ⟨hp, h⟩ := initOn_ok hs h
  rw [initOrder_unfold e hs hp]
  exact scalar_highest_wins_list st st' _ (runLooks_ok_applyAll h) k d hd

/-- **dict_union_precedence, on any object.** … and `vars` / `shortcuts` are the key-wise union of
    what the object held with the files, files winning in the same precedence. -/
theorem init_on_dict_union_precedence (st st' : ConfigState) (e : Env) (fs : Files) (hs : e.skip = false)
    (h : initOn st e fs = (st', none)) (name : String) (d0 : Dict) (h0 : st.dict? name = some d0) :
    ∃ d', st'.dict? name = some d' ∧
      ∀ key, dictGet? d' key =
        (highestDict name key ((payloadsOf fs (initOrder e)).map (·.2))).or (dictGet? d0 key) := by
  obtain ⟨hp, h⟩ := initOn_ok hs h
  rw [initOrder_unfold e hs hp]
  exact dict_union_precedence_list st st' _ (runLooks_ok_applyAll h) name d0 h0

theorem runOps_length (fs : Files) (objs : Objs) (ops : List Op) : (runOps fs objs ops).length = ops.length := by
  induction ops generalizing objs with
  | nil => rfl
  | cons op ops ih => simp [runOps, ih]

theorem runOps_append (fs : Files) (objs : Objs) (pre post : List Op) :
    runOps fs objs (pre ++ post) = runOps fs objs pre ++ runOps fs (objsAfter fs objs pre) post := by
  induction pre generalizing objs with
  | nil => rfl
  | cons op pre ih => simp [runOps, objsAfter, ih]

/-- **In any history** (any number of objects, constructions, earlier `init`s, environment changes):
    what an `init()` step shows is `initOn` of the object as the history left it and of the
    environment *that step runs under* — nothing else of the history matters. -/
theorem history_init_obeys_env_of_its_moment (fs : Files) (objs : Objs) (pre post : List Op)
    (o : Nat) (e : Env) (st : ConfigState) (hst : objGet? (objsAfter fs objs pre) o = some st) :
    (runOps fs objs (pre ++ Op.init o e :: post))[pre.length]? =
      some ⟨o, some (initOn st e fs).1, (initOn st e fs).2, consulted fs st (initOrder e)⟩ := by
  rw [runOps_append]
  have hlen : (runOps fs objs pre).length = pre.length := runOps_length fs objs pre
  rw [List.getElem?_append_right (by omega), hlen]
  simp [runOps, stepOp, hst]

/-- … so with `$PYPYR_SKIP_INIT` truthy at that step, that step looks nothing up and changes no
    setting — e.g. on the singleton built at import, before the variable was set. -/
theorem history_skip_at_its_moment (fs : Files) (objs : Objs) (pre post : List Op)
    (o : Nat) (e : Env) (st : ConfigState) (hst : objGet? (objsAfter fs objs pre) o = some st)
    (hs : e.skip = true) :
    (runOps fs objs (pre ++ Op.init o e :: post))[pre.length]? =
      some ⟨o, some { st with skipInit := true }, none, []⟩ := by
  rw [history_init_obeys_env_of_its_moment fs objs pre post o e st hst]
  obtain ⟨h1, h2, _⟩ := init_skip_at_call_time st e fs hs
  rw [h1, h2]

-- import without the variable (singleton 0 built), THEN set it, THEN init(): nothing is looked up;
-- and the reverse: built while it was set, unset before init(): every file is merged.
example :
    (runOps exFiles [] [.construct 0 exEnv, .init 0 exEnvSkip]).map (fun o => (o.err, o.consulted))
      = [(none, []), (none, [])] ∧
    ((runOps exFiles [] [.construct 0 exEnv, .init 0 exEnvSkip])[1]?.bind (·.state)).map
        (fun st => (st.scalar? "json_indent", st.loaded, st.skipInit)) = some (some (.int 2), [], true) ∧
    ((runOps exFiles [] [.construct 0 exEnvSkip, .init 0 exEnv])[1]?.bind (·.state)).map
        (fun st => (st.scalar? "json_indent", st.loaded.length, st.skipInit)) = some (some (.int 4), 4, false) ∧
    ((runOps exFiles [] [.construct 0 exEnvSkip, .init 0 exEnv])[1]?.map (·.consulted))
      = some ["/S/c2/pypyr/config.yaml", "/S/c1/pypyr/config.yaml", "/S/xh/pypyr/config.yaml",
              "pyproject.toml", "pypyr-config.yaml"] := by
  decide +kernel

-- `$PYPYR_CONFIG_GLOBAL` set after construction and before init(): it replaces common + user.
example :
    ((runOps (("/S/g.yaml", .mapping [("json_indent", .int 9)]) :: exFiles) []
        [.construct 0 exEnv, .construct 1 exEnv, .init 1 exEnvGlobal, .init 0 exEnv]).map (·.consulted))
      = [[], [], ["/S/g.yaml", "pyproject.toml", "pypyr-config.yaml"],
         ["/S/c2/pypyr/config.yaml", "/S/c1/pypyr/config.yaml", "/S/xh/pypyr/config.yaml",
          "pyproject.toml", "pypyr-config.yaml"]] := by
  decide +kernel

/-! ### 8. Which rejections are config errors -/

/-- The errors for a missing `$PYPYR_CONFIG_GLOBAL`, a non-mapping file and an unknown setting —
    the rejections the property names — are `ConfigError`s; every other exception the model can
    produce is one of: `dict.update` refusing the value of `vars` / `shortcuts`, the parser's own
    error, the AttributeError of a non-table `tool`, the OSError of the Android finder. -/
theorem rejections_are_config_errors (err : CfgErr) :
    err.isConfigError = true ∨ (∃ d exc, err = .dictUpdate d exc) ∨ (∃ p exc, err = .parse p exc) ∨
      err = .toolNotTable ∨ err = .androidDir := by
  cases err
  · exact Or.inl rfl
  · exact Or.inl rfl
  · exact Or.inl rfl
  · exact Or.inr (Or.inl ⟨_, _, rfl⟩)
  · exact Or.inr (Or.inr (Or.inl ⟨_, _, rfl⟩))
  · exact Or.inr (Or.inr (Or.inr (Or.inl rfl)))
  · exact Or.inr (Or.inr (Or.inr (Or.inr rfl)))

/-! ### 10. The platform: `get_platform_dir_finder`

  Judged domain: `Xdg` / `MacOs` / `Windows` (`e.isAndroid = false`). The Android branch is
  modelled only so that "this environment selects it" is part of the model and of the tie. -/

def exEnvAndroid : Env :=
  { exEnv with vars := ("ANDROID_DATA", "/data") :: ("ANDROID_ROOT", "/system") :: exEnv.vars }

/-- **android_test_comes_first.** Whatever `sys.platform` is: with `$ANDROID_DATA == '/data'` and
    `$ANDROID_ROOT == '/system'` the `Android` finder is used — and its constructor raises when no
    app folder is found; with any other values the finder is the one of `sys.platform`. -/
theorem android_test_comes_first (e : Env) :
    (e.isAndroid = true → platformOf e = match e.androidDir with
        | some d => .ok (.android d)
        | none => .error .androidDir) ∧
    (e.isAndroid = false → platformOf e = .ok (.xdg e.platform)) := by
  constructor
  · intro h
    cases hd : e.androidDir <;> simp [platformOf, h, hd]
  · intro h
    simp [platformOf, h]

theorem isAndroid_iff (e : Env) :
    e.isAndroid = true ↔ e.get? "ANDROID_DATA" = some "/data" ∧ e.get? "ANDROID_ROOT" = some "/system" := by
  simp [Env.isAndroid]

/-- **android_env_escapes_init.** `$ANDROID_DATA == '/data'` and `$ANDROID_ROOT == '/system'` are how
    pypyr decides it runs ON Android: an environment that sets them declares the platform to be
    Android, and the Android branch is OUTSIDE the domain the property is judged on (the harness
    gives no verdict there, it only checks model == implementation). What the code does there, for the
    record: with no `$PYPYR_CONFIG_GLOBAL`, no skip and no app folder to be found, `init()` raises
    `OSError` — not a `ConfigError` — before any file is looked at, whatever files exist, and
    leaves the object untouched. -/
theorem android_env_escapes_init (st : ConfigState) (e : Env) (fs : Files) (hs : e.skip = false)
    (hg : e.globalPath? = none) (ha : e.isAndroid = true) (hd : e.androidDir = none) :
    initOn st e fs = (st, some .androidDir) ∧ CfgErr.androidDir.isConfigError = false ∧
    CfgErr.androidDir.name = "OSError" ∧ consulted fs st (initOrder e) = [] := by
  have hp : e.platformFails = true := by simp [Env.platformFails, hg, platformOf, ha, hd]
  refine ⟨by simp [initOn, hs, hp], rfl, rfl, by simp [initOrder, hs, hp, consulted]⟩

/-- … `$PYPYR_CONFIG_GLOBAL` (the platform is never asked) and `$PYPYR_SKIP_INIT` avoid it. -/
theorem android_env_harmless_with_global_or_skip (e : Env) :
    (∀ g, e.globalPath? = some g → e.platformFails = false) ∧
    (e.skip = true → ∀ st fs, (initOn st e fs).2 = none) := by
  refine ⟨fun g hg => platformFails_of_global e g hg, fun hs st fs => by simp [initOn, hs]⟩

-- every file valid, a plain Linux `sys.platform`: OSError, nothing applied
example : exEnvAndroid.platform = .posix ∧ exEnvAndroid.skip = false ∧
    initSt exEnvAndroid exFiles = (defaults exEnvAndroid, some .androidDir) ∧
    (initSt { exEnvAndroid with vars := ("PYPYR_CONFIG_GLOBAL", "pypyr-config.yaml") :: exEnvAndroid.vars } exFiles).2 = none := by
  decide +kernel

/-- with an app folder the Android finder names ONE file, as the common and as the user file: it is
    handled twice (harmless: `file_listed_twice_*` below). -/
theorem android_paths (e : Env) (d : String) (hs : e.skip = false) (hg : e.globalPath? = none)
    (ha : e.isAndroid = true) (hd : e.androidDir = some d) :
    (initOrder e).map (·.path) =
      [androidCfg d, androidCfg d, "pyproject.toml", pathStr (e.getD "PYPYR_CONFIG_LOCAL" "pypyr-config.yaml")] := by
  have hpo : platformOf e = .ok (.android d) := by simp [platformOf, ha, hd]
  have hp : e.platformFails = false := by simp [Env.platformFails, hpo]
  rw [initOrder_unfold e hs hp]
  simp [lookOrder, hg, xdgLooks, localLooks, commonConfigPaths, userConfigPath, hpo]

/-- Windows: `;` separates `$XDG_CONFIG_DIRS`, the default common directory is `$ALLUSERSPROFILE`
    (`C:/ProgramData` when unset); macOS: `/Library/Application Support`. -/
example :
    commonConfigPaths { vars := [("XDG_CONFIG_DIRS", "/S/c1;/S/c:2")], platform := .windows } =
      ["/S/c1/pypyr/config.yaml", "/S/c:2/pypyr/config.yaml"] ∧
    commonConfigPaths { vars := [("XDG_CONFIG_DIRS", "/S/c1;/S/c:2")], platform := .posix } =
      ["/S/c1;/S/c/pypyr/config.yaml", "2/pypyr/config.yaml"] ∧
    commonConfigPaths { vars := [("ALLUSERSPROFILE", "/S/all")], platform := .windows } = ["/S/all/pypyr/config.yaml"] ∧
    commonConfigPaths { vars := [], platform := .windows } = ["C:/ProgramData/pypyr/config.yaml"] ∧
    commonConfigPaths { vars := [("ALLUSERSPROFILE", "/S/all")], platform := .macos } =
      ["/Library/Application Support/pypyr/config.yaml"] := by decide +kernel

/-! ### 11. "rejected with a config error": exactly which exceptions are `ConfigError`s -/

/-- **every_init_error_is_ConfigError ↔ …** Whatever `init()` raises, on any object, in any
    environment: it is a `ConfigError` IF AND ONLY IF it is one of the three rejections the property
    names — the `$PYPYR_CONFIG_GLOBAL` file cannot be opened (absent, or there but unreadable: a
    directory, …), a consulted file's top level is not a mapping, a consulted file has an unknown
    setting. Everything else `init()` can raise (`rejections_are_config_errors`) is not: a file that
    does not PARSE (bad YAML / TOML syntax, duplicate key, undecodable bytes — the parser's own
    exception), `tool = 1` in `pyproject.toml` (AttributeError), a `vars` / `shortcuts` value that
    `dict.update` refuses (TypeError / ValueError), the Android finder (OSError). -/
theorem every_init_error_is_ConfigError (st st' : ConfigState) (e : Env) (fs : Files) (err : CfgErr)
    (h : initOn st e fs = (st', some err)) :
    err.isConfigError = true ↔
      ∃ l ∈ lookOrder e,
        (l.mustExist = true ∧ fs.opens l.path = false ∧ err = .notFound l.path) ∨
        (∃ t, fs.get? l.path = some (.nonMapping t) ∧ err = .notMapping l.path) ∨
        (∃ kvs, fs.get? l.path = some (.mapping kvs) ∧ unknownKeys kvs ≠ [] ∧
          err = .unknownProps (unknownKeys kvs)) := by
  constructor
  · intro hc
    unfold initOn at h
    by_cases hs : e.skip = true
    · simp [hs] at h
    · by_cases hp : e.platformFails = true
      · simp only [hs, Bool.false_eq_true, if_false, hp, if_true, Prod.mk.injEq, Option.some.injEq] at h
        rw [← h.2] at hc
        cases hc
      · simp only [hs, Bool.false_eq_true, if_false, hp] at h
        obtain ⟨lower, l, higher, st1, hsplit, _, hl⟩ := runLooks_err_split h
        refine ⟨l, by rw [hsplit]; simp, ?_⟩
        exact (handlePath_err fs st1 st' l err hl).1.mp hc
  · rintro ⟨l, _, ⟨_, _, he⟩ | ⟨t, _, he⟩ | ⟨kvs, _, _, he⟩⟩ <;> subst he <;> rfl

/-- the per-file form: `handle_path` on a file raises a `ConfigError` exactly when the file is a
    non-mapping or a mapping with an unknown key (in either iteration order of the dict props) — a
    property of the file alone, not of the object or of the files before it. -/
theorem file_error_is_config_error_iff (rev : Bool) (st st' : ConfigState) (path : String) (p : Payload)
    (err : CfgErr) (h : applyFileStOrd rev st path p = (st', some err)) :
    err.isConfigError = true ↔
      (∃ t, p = .nonMapping t ∧ err = .notMapping path) ∨
      (∃ kvs, p = .mapping kvs ∧ unknownKeys kvs ≠ [] ∧ err = .unknownProps (unknownKeys kvs)) :=
  (applyFileStOrd_err rev st st' path p err h).1

-- the non-ConfigErrors, one witness each
example :
    (initSt exEnv (("/S/xh/pypyr/config.yaml", .parseError "ScannerError") :: exFiles)).2
      = some (.parse "/S/xh/pypyr/config.yaml" "ScannerError") ∧
    (CfgErr.parse "/S/xh/pypyr/config.yaml" "ScannerError").isConfigError = false ∧
    (initSt exEnv [("pyproject.toml", .toolNotTable)]).2 = some .toolNotTable ∧
    CfgErr.toolNotTable.name = "AttributeError" ∧
    (initSt exEnv [("pypyr-config.yaml", .mapping [("vars", .str "ab")])]).2 = some (.dictUpdate "vars" "ValueError") ∧
    (initSt exEnv [("pypyr-config.yaml", .mapping [("vars", .none)])]).2 = some (.dictUpdate "vars" "TypeError") := by
  decide +kernel

-- an unreadable optional file is an absent file; an unreadable `$PYPYR_CONFIG_GLOBAL` "could not be opened"
example :
    initSt exEnv (("/S/xh/pypyr/config.yaml", .unreadable "isDirectory") :: exFiles) = initSt exEnv exFiles ∧
    (initSt exEnvGlobal (("/S/g.yaml", .unreadable "isDirectory") :: exFiles)).2 = some (.notFound "/S/g.yaml") := by
  decide +kernel

/-! ### 12. Rejection is per file: what a failed `init()` leaves behind -/

/-- **failed_init_leaves_lower_applied.** When `init()` raises at the look-up `l`, every file
    before `l` (lower precedence) HAS been applied and stays applied: the object's scalars and loaded
    paths are exactly those after the lower files (each scalar: the value of the highest of the LOWER
    files that sets it, else what the object had), `l` and everything after it contributed nothing to
    them; after a `ConfigError` the whole object is exactly the object after the lower files. The
    object is half-configured, not reset. -/
theorem failed_init_leaves_lower_applied (st st' : ConfigState) (e : Env) (fs : Files) (err : CfgErr)
    (hs : e.skip = false) (hp : e.platformFails = false) (h : initOn st e fs = (st', some err)) :
    ∃ lower l higher st1, lookOrder e = lower ++ l :: higher ∧ runLooks fs st lower = (st1, none) ∧
      st'.scalars = st1.scalars ∧ st'.loaded = st1.loaded ∧ (err.isConfigError = true → st' = st1) ∧
      st'.loaded = st.loaded ++ loadedOf fs lower ∧
      ∀ k d, st.scalar? k = some d →
        st'.scalar? k = some ((highest k ((payloadsOf fs lower).map (·.2))).getD d) := by
  rw [initOn_unfold st e fs hs hp] at h
  obtain ⟨lower, l, higher, st1, hsplit, hlow, hl⟩ := runLooks_err_split h
  obtain ⟨_, hst, hsc, hld⟩ := handlePath_err fs st1 st' l err hl
  refine ⟨lower, l, higher, st1, hsplit, hlow, hsc, hld, hst, ?_, ?_⟩
  · rw [hld, runLooks_ok_loaded hlow]
  · intro k d hd
    have := scalar_highest_wins_list st st1 _ (runLooks_ok_applyAll hlow) k d hd
    simpa [ConfigState.scalar?, hsc] using this

/-- **half_configured_witness.** The lowest file changes the log format, the local file has an
    unknown key: `init()` raises the ConfigError and the singleton keeps the changed log format (the
    CLI then reports the error with it). -/
theorem half_configured_witness :
    initSt exEnv [("/S/c2/pypyr/config.yaml", .mapping [("log_notify_format", .str "LOW %(message)s")]),
                  ("pypyr-config.yaml", .mapping [("bogus", .int 1), ("json_indent", .int 6)])] =
      ({ defaults exEnv with
          scalars := overwriteScalars (defaults exEnv).scalars [("log_notify_format", .str "LOW %(message)s")],
          loaded := ["/S/c2/pypyr/config.yaml"] },
       some (.unknownProps ["bogus"])) := by
  decide +kernel

/-! ### 13. `vars` / `shortcuts` values that are not mappings; `$PYTHONHASHSEED` -/

/-- `vars: [[a, 1], [b, 2]]` — a list of pairs — is accepted by `dict.update` and merged like the
    mapping `{a: 1, b: 2}`; `vars: "ab"` is a `ValueError`, `vars: [[a, 1], [b]]` a `ValueError`
    AFTER `a` has been set, `vars: [[a, 1], 5]` a `TypeError` after `a` has been set. -/
example :
    (applyFileSt (defaults exEnv) "f" (.mapping [("vars", .list [.list [.str "a", .int 1], .list [.str "b", .int 2]])])).1.dict? "vars"
      = some [(.str "a", .int 1), (.str "b", .int 2)] ∧
    (applyFileSt (defaults exEnv) "f" (.mapping [("vars", .list [.list [.str "a", .int 1], .list [.str "b", .int 2]])])).2 = none ∧
    (applyFileSt (defaults exEnv) "f" (.mapping [("vars", .str "ab")])).2 = some (.dictUpdate "vars" "ValueError") ∧
    applyFileSt (defaults exEnv) "f" (.mapping [("vars", .list [.list [.str "a", .int 1], .list [.str "b"]])])
      = ({ defaults exEnv with dicts := [("shortcuts", []), ("vars", [(.str "a", .int 1)])] }, some (.dictUpdate "vars" "ValueError")) ∧
    (applyFileSt (defaults exEnv) "f" (.mapping [("vars", .list [.list [.str "a", .int 1], .int 5])])).2
      = some (.dictUpdate "vars" "TypeError") := by
  decide +kernel

/-- the declarative reading covers them: a list of pairs says about `vars[key]` what the mapping says. -/
example : dictSettingOf (.mapping [("vars", .list [.list [.str "a", .int 1], .list [.str "a", .int 2]])]) "vars" (.str "a")
    = some (.int 2) := by decide +kernel

/-- **update_order_irrelevant_when_accepted.** If the file gives no dict prop a value `dict.update`
    refuses, the iteration order of `keys & dict_props` (i.e. `$PYTHONHASHSEED`) cannot be observed:
    a whole `init()` is the same in either order. -/
theorem update_order_irrelevant_when_accepted (rev : Bool) (st : ConfigState) (e : Env) (fs : Files)
    (h : NoBadDictProp fs (lookOrder e)) : initOnOrd rev st e fs = initOn st e fs := by
  unfold initOnOrd initOn
  rw [runLooksOrd_agree rev fs (lookOrder e) h st]

theorem initOnOrd_false (st : ConfigState) (e : Env) (fs : Files) : initOnOrd false st e fs = initOn st e fs := by
  unfold initOnOrd initOn
  rw [runLooksOrd_false]

/-- **update_raises_in_either_order.** `Config.update` raises in one order iff it raises in the
    other: iff the file has an unknown key or gives a dict prop of the object a refused value. -/
theorem update_raises_in_either_order (rev : Bool) (st : ConfigState) (kvs : Ctx) :
    (updateOrd rev st kvs).2.isSome =
      (!(unknownKeys kvs).isEmpty || st.dicts.any (fun nd => badDictProp kvs nd.1)) := by
  unfold updateOrd
  simp only
  cases hu : unknownKeys kvs with
  | cons a as => simp
  | nil =>
    simp only [List.isEmpty_nil, Bool.not_true, Bool.false_eq_true, if_false, Bool.false_or]
    have := updateDictsOrd_err_both st.dicts kvs rev
    cases hd : updateDictsOrd rev st.dicts kvs with
    | mk ds e =>
      rw [hd] at this
      cases e <;> simpa using this

/-- **update_error_state_either_order.** In whichever order: an exception out of `Config.update`
    leaves every scalar, the loaded paths and the skip flag untouched; it is the ConfigError for the
    unknown keys (nothing at all touched) or `dict.update`'s own error naming a dict prop with a
    refused value. What the order decides is only WHICH of two refused dict props is named and
    whether the other dict prop has been merged yet. -/
theorem update_error_state_either_order (rev : Bool) (st st' : ConfigState) (kvs : Ctx) (err : CfgErr)
    (h : updateOrd rev st kvs = (st', some err)) :
    st'.scalars = st.scalars ∧ st'.loaded = st.loaded ∧ st'.skipInit = st.skipInit ∧
    ((unknownKeys kvs ≠ [] ∧ err = .unknownProps (unknownKeys kvs) ∧ st' = st) ∨
     (unknownKeys kvs = [] ∧ ∃ n exc, err = .dictUpdate n exc ∧ badDictProp kvs n = true)) :=
  updateOrd_err_state rev st st' kvs err h

/-- **hash_order_witness.** `shortcuts: 5` (refused) and `vars: {a: 1}` in one file: iterated
    `shortcuts` first the TypeError comes before `vars` is touched; iterated `vars` first, `a` is in
    `vars` when the TypeError comes. Same exception, different state. -/
theorem hash_order_witness :
    let kvs : Ctx := [("shortcuts", .int 5), ("vars", .dict [(.str "a", .int 1)])]
    (updateOrd false (defaults exEnv) kvs).2 = some (.dictUpdate "shortcuts" "TypeError") ∧
    (updateOrd true (defaults exEnv) kvs).2 = some (.dictUpdate "shortcuts" "TypeError") ∧
    (updateOrd false (defaults exEnv) kvs).1.dict? "vars" = some [] ∧
    (updateOrd true (defaults exEnv) kvs).1.dict? "vars" = some [(.str "a", .int 1)] := by
  decide +kernel

/-! ### 14. `init()` twice; a file listed twice -/

/-- **init_twice.** `init()` again on the same object, same environment, same files: it succeeds
    again (whether it succeeds never depends on what the object holds), every scalar and every entry
    of `vars` / `shortcuts` is what it was after the first call (idempotent), and
    `config_loaded_paths` has every loaded path a second time. -/
theorem init_twice (st st1 : ConfigState) (e : Env) (fs : Files) (hs : e.skip = false)
    (h1 : initOn st e fs = (st1, none)) :
    ∃ st2, initOn st1 e fs = (st2, none) ∧
      (∀ k, st2.scalar? k = st1.scalar? k) ∧
      (∀ name d1, st1.dict? name = some d1 →
        ∃ d2, st2.dict? name = some d2 ∧ ∀ key, dictGet? d2 key = dictGet? d1 key) ∧
      st1.loaded = st.loaded ++ loadedOf fs (lookOrder e) ∧
      st2.loaded = st.loaded ++ loadedOf fs (lookOrder e) ++ loadedOf fs (lookOrder e) := by
  obtain ⟨hp, hr1⟩ := initOn_ok hs h1
  have hnames := (runLooks_ok_names fs (lookOrder e) st st st1 rfl hr1).2
  -- names of the dict props are kept, so the same look-ups succeed from st1
  obtain ⟨⟨st2, hr2⟩, _⟩ := runLooks_ok_names fs (lookOrder e) st st1 st1 hnames hr1
  have h2 : initOn st1 e fs = (st2, none) := by rw [initOn_unfold st1 e fs hs hp]; exact hr2
  have ha1 := runLooks_ok_applyAll hr1
  have ha2 := runLooks_ok_applyAll hr2
  refine ⟨st2, h2, ?_, ?_, runLooks_ok_loaded hr1, ?_⟩
  · intro k
    rw [applyAll_ok_scalar ha2 k, applyAll_ok_scalar ha1 k]
    cases st.scalar? k with
    | none => rfl
    | some d =>
      simp only [Option.map_some]
      cases highest k ((payloadsOf fs (lookOrder e)).map (·.2)) <;> rfl
  · intro name d1 hd1
    obtain ⟨d2, hd2, hk2⟩ := applyAll_ok_dict ha2 name d1 hd1
    refine ⟨d2, hd2, fun key => ?_⟩
    rw [hk2 key]
    -- d1 itself is the overlay of the files on what st had
    cases hd0 : st.dict? name with
    | none =>
      have := applyAll_ok_dict_none ha1 name hd0
      rw [this] at hd1
      cases hd1
    | some d0 =>
      obtain ⟨d1', hd1', hk1⟩ := applyAll_ok_dict ha1 name d0 hd0
      rw [hd1] at hd1'
      cases hd1'
      rw [hk1 key]
      cases highestDict name key ((payloadsOf fs (lookOrder e)).map (·.2)) <;> simp
  · rw [runLooks_ok_loaded hr2, runLooks_ok_loaded hr1]

-- twice on the singleton: same settings, every path twice
example :
    let s1 := (initSt exEnv exFiles).1
    (initOn s1 exEnv exFiles).2 = none ∧
    (initOn s1 exEnv exFiles).1.scalars = s1.scalars ∧ (initOn s1 exEnv exFiles).1.dicts = s1.dicts ∧
    (initOn s1 exEnv exFiles).1.loaded = s1.loaded ++ s1.loaded ∧ s1.loaded.length = 4 := by
  decide +kernel

/-- **file_listed_twice_scalar / _dict.** A file that is looked up twice (`$XDG_CONFIG_DIRS`
    contains `~/.config`, so the user file is also a common file; a directory listed twice; the
    Android finder) is merged twice — which changes nothing: what wins for every scalar and every
    dict entry is what wins with the EARLIER occurrence dropped. (Its path is in
    `config_loaded_paths` twice.) -/
theorem file_listed_twice_scalar (k : String) (pre mid post : List Payload) (x : Payload) :
    highest k (pre ++ x :: mid ++ x :: post) = highest k (pre ++ mid ++ x :: post) := by
  rw [highest_eq_lastSome, highest_eq_lastSome]; exact lastSome_dup _ pre mid post x

theorem file_listed_twice_dict (d : String) (key : Val) (pre mid post : List Payload) (x : Payload) :
    highestDict d key (pre ++ x :: mid ++ x :: post) = highestDict d key (pre ++ mid ++ x :: post) := by
  rw [highestDict_eq_lastSome, highestDict_eq_lastSome]; exact lastSome_dup _ pre mid post x

/-- `$XDG_CONFIG_DIRS=/S/c1:/S/xh` with `$XDG_CONFIG_HOME=/S/xh`: the user file is consulted twice;
    the outcome (every scalar, every entry of `vars`; the insertion order inside `vars` aside) is the one
    with `/S/xh` not listed among the common directories. -/
def exEnvDup : Env := { vars := [("XDG_CONFIG_DIRS", "/S/c1:/S/xh"), ("XDG_CONFIG_HOME", "/S/xh")], home := "/S/home" }
def exEnvNoDup : Env := { vars := [("XDG_CONFIG_DIRS", "/S/c1"), ("XDG_CONFIG_HOME", "/S/xh")], home := "/S/home" }
def exFilesDup : Files :=
  ("/S/xh/pypyr/config.yaml", .mapping [("json_indent", .int 7), ("vars", .dict [(.str "u", .int 1)])]) :: exFiles

example :
    (initOrder exEnvDup).map (·.path) = ["/S/xh/pypyr/config.yaml", "/S/c1/pypyr/config.yaml", "/S/xh/pypyr/config.yaml",
                                    "pyproject.toml", "pypyr-config.yaml"] ∧
    (initSt exEnvDup exFilesDup).1.scalars = (initSt exEnvNoDup exFilesDup).1.scalars ∧
    (((initSt exEnvDup exFilesDup).1.dict? "vars").map fun d => [dictGet? d (.str "u"), dictGet? d (.str "a"), dictGet? d (.str "c"), dictGet? d (.str "z")]) =
      (((initSt exEnvNoDup exFilesDup).1.dict? "vars").map fun d => [dictGet? d (.str "u"), dictGet? d (.str "a"), dictGet? d (.str "c"), dictGet? d (.str "z")]) ∧
    (initSt exEnvDup exFilesDup).1.loaded = "/S/xh/pypyr/config.yaml" :: (initSt exEnvNoDup exFilesDup).1.loaded := by
  decide +kernel

/-! ### 9. Static tie: the tables in the source are the tables of the model -/

/-- **config_props_agree.** `Config.all_writable_props`, `Config.dict_props`, the shape of
    `scalar_props` and the per-attribute defaults of `Config.__init__`, extracted from
    `pypyr/config.py` by `harness/extract_c20.py` on every run, equal the constants the model
    uses. Editing a table in the source breaks this proof obligation. -/
theorem config_props_agree :
    Generated.ConfigProps.allWritableProps = allWritableProps ∧
    Generated.ConfigProps.dictProps = dictProps ∧
    Generated.ConfigProps.scalarPropsExpr = "all_writable_props - dict_props" ∧
    Generated.ConfigProps.defaultsTable = defaultsTable := by decide +kernel

/-- **update_check_agrees.** The unknown-setting test of `Config.update` in the source under test IS membership in the
    extracted property set: the one expression ever assigned to `difference` is `keys - Config.all_writable_props`
    (`unknownKeys`), `keys` is `input.keys()`, the only raise is `if difference: raise ConfigError` BEFORE anything is
    written (`updateOrd`'s first branch), step 2 iterates `keys & Config.dict_props` with `dict.update`, step 3
    `keys & Config.scalar_props` with `setattr` - the whole body, statement by statement, is the one the model was
    written from. Together with `config_props_agree` (the set itself) this ties `unknownKeys` / `updateOrd` to the code;
    any other test (`hasattr(self, k)`, `k.lower()`, only `str` keys ...) breaks this obligation. -/
theorem update_check_agrees :
    Generated.ConfigProps.updateArgs = ["self", "input"] ∧
    Generated.ConfigProps.updateDifference = ["keys - Config.all_writable_props"] ∧
    Generated.ConfigProps.updateRaises = ["if difference: raise pypyr.errors.ConfigError"] ∧
    Generated.ConfigProps.updateBody =
      ["keys = input.keys()",
       "difference = keys - Config.all_writable_props",
       "if difference:\n    raise pypyr.errors.ConfigError(f'Unexpected config props: {difference}')",
       "dicts = keys & Config.dict_props",
       "for k in dicts:\n    getattr(self, k).update(input[k])",
       "scalars = keys & Config.scalar_props",
       "for k in scalars:\n    setattr(self, k, input[k])"] := by decide +kernel

/-- **init_shape_agrees.** The `handle_path` calls of `Config.init` in source order (guard, loop
    direction, path, loader, raise_not_found), the environment variables it reads with their
    defaults *inside `init`* (`initGetenv`) — while `Config.__init__` reads only the three env-derived
    defaults (`ctorGetenv`) and nothing in `pypyr/config.py` reads the environment at import
    (`moduleGetenv`): which variable is read at which moment is part of the tie —, and the XDG / macOS literals of `pypyr.platform` are the ones `lookOrder`,
    `userConfigPath`, `commonConfigPaths` and `commonBaseDefault` are written from; the order of the tests in
    `get_platform_dir_finder` (the `$ANDROID_DATA` / `$ANDROID_ROOT` test FIRST, then `win32`, `darwin`, else
    Xdg), the literals they compare with, what the Android finder raises and where its file is; and the
    `except` clauses: the loaders catch `OSError` and nothing else, `handle_path` / `update` / `init` catch
    nothing — so whatever else a parser or `dict.update` raises leaves `init()` as it is. -/
theorem init_shape_agrees :
    Generated.ConfigProps.initCalls =
      ["if|plain|var|yaml|must",
       "else|reversed:config_common|var|yaml|opt",
       "else|plain|attr:config_user|yaml|opt",
       "top|plain|lit:pyproject.toml|load_pyproject_toml|opt",
       "top|plain|var|yaml|opt"] ∧
    Generated.ConfigProps.initGetenv =
      [("PYPYR_SKIP_INIT", some "0"), ("PYPYR_CONFIG_GLOBAL", none),
       ("PYPYR_CONFIG_LOCAL", some "pypyr-config.yaml")] ∧
    Generated.ConfigProps.ctorGetenv =
      [("PYPYR_CMD_ENCODING", none), ("PYPYR_ENCODING", none), ("PYPYR_NO_CACHE", some "0")] ∧
    Generated.ConfigProps.moduleGetenv = [] ∧
    Generated.ConfigProps.platformArgs = ["pypyr", "config.yaml"] ∧
    appendCfg "" = "/" ++ "pypyr" ++ "/" ++ "config.yaml" ∧
    Generated.ConfigProps.xdgCommonBaseDefault = commonBaseDefault .posix ∧
    Generated.ConfigProps.macCommonBaseDefault = commonBaseDefault .macos ∧
    Generated.ConfigProps.xdgUserGetenv = [("XDG_CONFIG_HOME", some "")] ∧
    Generated.ConfigProps.xdgCommonGetenv = [("XDG_CONFIG_DIRS", some "")] ∧
    Generated.ConfigProps.xdgUserExpand = ["~/.config"] ∧
    Generated.ConfigProps.winCommonGetenv = [("ALLUSERSPROFILE", some (commonBaseDefault .windows))] ∧
    Generated.ConfigProps.finderBranches = ["env:Android", "win32:Windows", "darwin:MacOs", "else:Xdg"] ∧
    Generated.ConfigProps.androidTests = [("ANDROID_DATA", "/data"), ("ANDROID_ROOT", "/system")] ∧
    Generated.ConfigProps.androidRaises = ["OSError:Cannot find path to android app folder"] ∧
    Generated.ConfigProps.androidJoin = ["android_dir.joinpath('shared_prefs', self.app_name, self.config_file_name)"] ∧
    androidCfg "" = "/" ++ "shared_prefs" ++ "/" ++ "pypyr" ++ "/" ++ "config.yaml" ∧
    Generated.ConfigProps.loaderExcepts =
      [("load_yaml", ["OSError"]), ("load_pyproject_toml", ["OSError"]), ("handle_path", []), ("update", []),
       ("init", [])] := by decide +kernel

/-- The model's table is internally consistent: the defaults cover exactly the writable props,
    and `scalar_props` are the 15 non-dict ones. -/
theorem tables_consistent :
    (∀ k ∈ allWritableProps, (tableGet? defaultsTable k).isSome = true) ∧
    (∀ p ∈ defaultsTable, allWritableProps.contains p.1 = true) ∧
    scalarProps.length = 15 ∧ (∀ d ∈ dictProps, allWritableProps.contains d = true) := by
  decide +kernel


/-! ## Relative `$XDG_CONFIG_HOME` / `$XDG_CONFIG_DIRS` values: where the code reads them

Outside the judged domain (see the harness's ASSUMPTIONS): the model mirrors the code as it is. -/

/-- **Any non-blank `$XDG_CONFIG_HOME` is used as given** - absolute or relative to the working
    directory (`cfg/user`): the user file is `<value>/pypyr/config.yaml` and `~/.config` plays no
    part (the only test the code makes is `not path.strip()`). -/
theorem xdg_config_home_used_as_given (e : Env) (v : String) (hand : e.isAndroid = false)
    (hv : e.get? "XDG_CONFIG_HOME" = some v) (hb : isBlank v = false) :
    userConfigPath e = v ++ "/pypyr/config.yaml" := by
  simp [userConfigPath, platformOf, hand, Env.getD, hv, hb, appendCfg]

/-- … and every non-blank entry of `$XDG_CONFIG_DIRS`, in the order listed. -/
theorem xdg_config_dirs_used_as_given (e : Env) (v : String) (hand : e.isAndroid = false)
    (hv : e.get? "XDG_CONFIG_DIRS" = some v) (hb : isBlank v = false) :
    commonConfigPaths e =
      ((splitChar (pathSep e.platform) v).filter (fun p => !isBlank p)).map (· ++ "/pypyr/config.yaml") := by
  simp [commonConfigPaths, platformOf, hand, Env.getD, hv, hb, appendCfg]

example : userConfigPath { vars := [("XDG_CONFIG_HOME", "cfg/user")] } = "cfg/user/pypyr/config.yaml" ∧
    commonConfigPaths { vars := [("XDG_CONFIG_DIRS", "cfg/site:/S/c2")] } =
      ["cfg/site/pypyr/config.yaml", "/S/c2/pypyr/config.yaml"] := by
  decide +kernel

/-! ### 15. Every file's mapping is a function of its text alone (parser state between loads)

    `Files` hands the model "the payload of each file". Sections 2 and 3 say who wins among PAYLOADS. Here the
    payloads are what one pass of a parser with hidden state (`TextLoader`) makes of the TEXTS; under the
    assumption `TextOnly` the winner's value is what the winning file states WHEN LOADED ALONE, whatever the texts
    of the other files are and whatever state an earlier `init()` left the parser in; without the assumption it
    is not (`sticky_parser_breaks_it`): the assumption is what the harness stream `rawyaml` tests. -/

theorem loadSeq_paths {σ τ : Type} (L : TextLoader σ τ) (s : σ) (ts : List (String × τ)) :
    (loadSeq L s ts).1.map (·.1) = ts.map (·.1) := by
  induction ts generalizing s with
  | nil => rfl
  | cons pt rest ih => obtain ⟨p, t⟩ := pt; simp [loadSeq, ih]

/-- **Under `TextOnly` a pass over the files is every file loaded alone**, from whatever parser state it starts. -/
theorem loadSeq_textOnly {σ τ : Type} (L : TextLoader σ τ) (h : L.TextOnly) (s : σ) (ts : List (String × τ)) :
    (loadSeq L s ts).1 = loadAlone L ts := by
  induction ts generalizing s with
  | nil => rfl
  | cons pt rest ih =>
    obtain ⟨p, t⟩ := pt
    simp only [loadSeq, loadAlone, List.map_cons]
    rw [h s t, ih]; rfl

/-- **effective = overlay of `alone (text f)`.** The effective configuration is the overlay of the files loaded
    alone – independent of the parser state the pass starts in (a second `init()`, an earlier `load_yaml`). -/
theorem effective_is_overlay_of_alone {σ τ : Type} (L : TextLoader σ τ) (h : L.TextOnly) (st : ConfigState) (s : σ)
    (ts : List (String × τ)) : effective L st s ts = applyAll st (loadAlone L ts) := by
  unfold effective; rw [loadSeq_textOnly L h]

/-- **scalar: the winning file alone decides.** `(p, t)` is the highest-precedence file that sets `k` (loaded alone
    it states `v`; no higher file, loaded alone, sets `k`): the effective value is `v` – for EVERY choice of the
    lower files' texts, of the other higher files' texts and of the starting parser state. -/
theorem effective_scalar_is_what_winner_states_alone {σ τ : Type} (L : TextLoader σ τ) (h : L.TextOnly)
    (st st' : ConfigState) (s : σ) (lower higher : List (String × τ)) (p : String) (t : τ) (k : String) (v d : Val)
    (hd : st.scalar? k = some d)
    (hv : settingOf (L.alone t) k = some v) (hhi : ∀ q ∈ higher, settingOf (L.alone q.2) k = none)
    (hok : effective L st s (lower ++ (p, t) :: higher) = (st', none)) :
    st'.scalar? k = some v := by
  rw [effective_is_overlay_of_alone L h] at hok
  rw [scalar_highest_wins_list st st' _ hok k d hd]
  have : highest k ((loadAlone L (lower ++ (p, t) :: higher)).map (·.2)) = some v := by
    rw [highest_spec]
    refine ⟨(loadAlone L lower).map (·.2), L.alone t, (loadAlone L higher).map (·.2), ?_, hv, ?_⟩
    · simp [loadAlone]
    · intro q hq
      simp only [loadAlone, List.map_map, List.mem_map, Function.comp] at hq
      obtain ⟨x, hx, rfl⟩ := hq
      exact hhi x hx
  rw [this]; rfl

/-- **Changing lower-precedence texts to anything changes nothing**: two configurations that agree on the winning
    file and in which no higher file sets `k` agree on `k`, whatever their other files say and whatever states
    the two passes start in. -/
theorem effective_scalar_independent_of_other_texts {σ τ : Type} (L : TextLoader σ τ) (h : L.TextOnly)
    (st st1 st2 : ConfigState) (s1 s2 : σ) (lower1 lower2 higher1 higher2 : List (String × τ)) (p : String) (t : τ)
    (k : String) (v d : Val) (hd : st.scalar? k = some d) (hv : settingOf (L.alone t) k = some v)
    (h1 : ∀ q ∈ higher1, settingOf (L.alone q.2) k = none) (h2 : ∀ q ∈ higher2, settingOf (L.alone q.2) k = none)
    (ok1 : effective L st s1 (lower1 ++ (p, t) :: higher1) = (st1, none))
    (ok2 : effective L st s2 (lower2 ++ (p, t) :: higher2) = (st2, none)) :
    st1.scalar? k = st2.scalar? k := by
  rw [effective_scalar_is_what_winner_states_alone L h st st1 s1 lower1 higher1 p t k v d hd hv h1 ok1,
      effective_scalar_is_what_winner_states_alone L h st st2 s2 lower2 higher2 p t k v d hd hv h2 ok2]

/-- **vars / shortcuts: the same key-wise.** -/
theorem effective_dict_is_what_winner_states_alone {σ τ : Type} (L : TextLoader σ τ) (h : L.TextOnly)
    (st st' : ConfigState) (s : σ) (lower higher : List (String × τ)) (p : String) (t : τ) (name : String) (key v : Val)
    (d0 : Dict) (h0 : st.dict? name = some d0)
    (hv : dictSettingOf (L.alone t) name key = some v) (hhi : ∀ q ∈ higher, dictSettingOf (L.alone q.2) name key = none)
    (hok : effective L st s (lower ++ (p, t) :: higher) = (st', none)) :
    ∃ d', st'.dict? name = some d' ∧ dictGet? d' key = some v := by
  rw [effective_is_overlay_of_alone L h] at hok
  obtain ⟨d', hd', hk⟩ := dict_union_precedence_list st st' _ hok name d0 h0
  refine ⟨d', hd', ?_⟩
  have : highestDict name key ((loadAlone L (lower ++ (p, t) :: higher)).map (·.2)) = some v := by
    rw [highestDict_spec]
    refine ⟨(loadAlone L lower).map (·.2), L.alone t, (loadAlone L higher).map (·.2), ?_, hv, ?_⟩
    · simp [loadAlone]
    · intro q hq
      simp only [loadAlone, List.map_map, List.mem_map, Function.comp] at hq
      obtain ⟨x, hx, rfl⟩ := hq
      exact hhi x hx
  rw [hk key, this]; rfl

/-- **Two `init()`s of one process**: under `TextOnly` the second is the overlay of its files loaded alone over what
    the first left – the parser state the first pass ended in does not matter. -/
theorem effectiveTwice_textOnly {σ τ : Type} (L : TextLoader σ τ) (h : L.TextOnly) (st st1 : ConfigState)
    (ts1 ts2 : List (String × τ)) (h1 : applyAll st (loadAlone L ts1) = (st1, none)) :
    effectiveTwice L st ts1 ts2 = applyAll st1 (loadAlone L ts2) := by
  unfold effectiveTwice
  rw [loadSeq_textOnly L h, h1]
  exact effective_is_overlay_of_alone L h st1 _ ts2

/-- **parser_per_load_agrees (static tie).** In the source, the object whose `.load(file)` parses a yaml config file is
    built inside `load_yaml`, once per call (`perCallParser`): nothing of it survives the call. (What the ruamel classes
    keep at class / module level is not visible to this tie: that is what the harness stream `rawyaml` is for.) -/
theorem parser_per_load_agrees :
    Generated.ConfigProps.yamlParserOrigin = ["parser = ruamel.yaml.YAML()"] := by decide

/-- `load_yaml` as it is (a parser per call) satisfies the assumption: the hypotheses are satisfiable. -/
theorem perCallParser_textOnly : perCallParser.TextOnly := fun _ _ => rfl

/-- One parser object kept between loads does not. -/
theorem stickyParser_not_textOnly : ¬ stickyParser.TextOnly := by
  intro h
  have := h .v11 ⟨none, [("default_group", "on")], []⟩
  revert this; decide

/-- the user file starts with `%YAML 1.1` and sets only the date format; the local file (no directive) says
    `default_group: on`, `vars: {mode: 0777, answer: no}` -/
def exTexts : List (String × CfgText) :=
  [("/S/xh/pypyr/config.yaml", ⟨some .v11, [("log_date_format", "%H:%M")], []⟩),
   ("pypyr-config.yaml", ⟨none, [("default_group", "on")], [("mode", "0777"), ("answer", "no")]⟩)]

/-- the same with the directive in the HIGHEST file only, and a second `init()` over the same files -/
def exTextsHigh : List (String × CfgText) :=
  [("/S/xh/pypyr/config.yaml", ⟨none, [("default_group", "on")], [("mode", "0777")]⟩),
   ("pypyr-config.yaml", ⟨some .v11, [("json_indent", "1_000")], []⟩)]

/-- **sticky_parser_breaks_it (the assumption is load-bearing).** With the parser per call the local file's settings
    are what it states alone (`"on"`, 777, `"no"`); with ONE parser object the `%YAML 1.1` of the lower-precedence
    user file re-reads them (True, 511, False) – although each file loaded alone gives the same payloads for both. -/
theorem sticky_parser_breaks_it :
    loadAlone stickyParser exTexts = loadAlone perCallParser exTexts ∧
    (effective perCallParser (defaults exEnv) () exTexts).2 = none ∧
    (effective stickyParser (defaults exEnv) .v12 exTexts).2 = none ∧
    (effective perCallParser (defaults exEnv) () exTexts).1.scalar? "default_group" = some (.str "on") ∧
    (effective stickyParser (defaults exEnv) .v12 exTexts).1.scalar? "default_group" = some (.bool true) ∧
    (effective perCallParser (defaults exEnv) () exTexts).1.dict? "vars" = some [(.str "mode", .int 777), (.str "answer", .str "no")] ∧
    (effective stickyParser (defaults exEnv) .v12 exTexts).1.dict? "vars" = some [(.str "mode", .int 511), (.str "answer", .bool false)] := by
  decide +kernel

/-- The directive in the highest file only: one `init()` is fine even with the sticky parser, the SECOND `init()` of
    the process is not (the lower file is re-read by yaml 1.1) – histories are needed to see it. -/
theorem sticky_parser_leaks_into_next_init :
    (effective stickyParser (defaults exEnv) .v12 exTextsHigh).1.scalar? "default_group" = some (.str "on") ∧
    (effectiveTwice stickyParser (defaults exEnv) exTextsHigh exTextsHigh).1.scalar? "default_group" = some (.bool true) ∧
    (effectiveTwice perCallParser (defaults exEnv) exTextsHigh exTextsHigh).1.scalar? "default_group" = some (.str "on") := by
  decide +kernel

-- the hypotheses of `effective_scalar_is_what_winner_states_alone` are satisfiable (per-call parser, `exTexts`)
example : effective perCallParser (defaults exEnv) () ([exTexts[0]] ++ exTexts[1] :: []) =
      ((effective perCallParser (defaults exEnv) () exTexts).1, none) ∧
    settingOf (perCallParser.alone exTexts[1].2) "default_group" = some (.str "on") ∧
    (defaults exEnv).scalar? "default_group" = some (.str "steps") ∧
    (effective perCallParser (defaults exEnv) () exTexts).1.scalar? "default_group" = some (.str "on") := by
  decide +kernel

end Pypyr.C20
