/-
  C20 — Configuration precedence and merge.

  "Effective configuration is the defaults overlaid by every config file found, in increasing
  precedence: common directories (last-listed lowest), the user config file, the [tool.pypyr]
  table of ./pyproject.toml, then the local pypyr-config.yaml; $PYPYR_CONFIG_GLOBAL, when set,
  replaces the common and user files and must exist. For each scalar setting the
  highest-precedence file that sets it wins, vars and shortcuts are the key-wise union with the
  same precedence, an unknown setting or a non-mapping file is rejected with a config error, and
  $PYPYR_SKIP_INIT skips all file look-ups."

  Model: `PypyrModel/Config.lean` (`initSt`, `applyFileSt`, `applyAll`, `lookOrder`).
  Declarative reading used in the statements (`Props/Lemmas/C20_Merge.lean`):
  `settingOf p k` — what file payload `p` says about setting `k`; `highest k ps` — the value in
  the LAST payload of `ps` that sets `k` (`highest_spec` says exactly that); `highestDict d key`
  likewise for an entry of `vars`/`shortcuts`; `payloadsOf fs looks` — the payload at each
  look-up (an absent file counts as no settings).

  Every theorem is for ALL environments, file sets and assignments (induction over the list of
  look-ups); none is an enumeration. The tie to the source is (a) the correspondence harness
  `harness/props/c20.py` (fresh subprocess per configuration) and (b) `config_props_agree` /
  `init_shape_agrees` below: tables extracted from the source by `harness/extract_c20.py`.
-/
import PypyrModel.Config
import Generated.ConfigProps
import Props.Lemmas.C20_Merge

namespace Pypyr.C20
open Pypyr Pypyr.Config

/-! ### Example data -/

/-- Two common dirs, a user dir; nothing else set. -/
def exEnv : Env :=
  { vars := [("XDG_CONFIG_DIRS", "/S/c1:/S/c2"), ("XDG_CONFIG_HOME", "/S/xh")], home := "/S/home" }

def exEnvGlobal : Env := { exEnv with vars := ("PYPYR_CONFIG_GLOBAL", "/S/g.yaml") :: exEnv.vars }
def exEnvSkip : Env := { exEnv with vars := ("PYPYR_SKIP_INIT", "TRUE") :: exEnv.vars }

/-- c2 (lowest), c1, pyproject and local all say something about `json_indent` and `vars`. -/
def exFiles : Files :=
  [("/S/c1/pypyr/config.yaml", .mapping [("json_indent", .int 4), ("vars", .dict [(.str "a", .int 1)])]),
   ("/S/c2/pypyr/config.yaml", .mapping [("json_indent", .int 5), ("default_group", .str "g2"),
                                         ("vars", .dict [(.str "a", .int 2), (.str "b", .int 3)])]),
   ("pyproject.toml", .mapping [("vars", .dict [(.str "c", .int 9)])]),
   ("pypyr-config.yaml", .mapping [("json_ascii", .bool true)])]

/-! ### 1. Where `init` looks, and in which order -/

/-- **init_order.** Past the skip test, the `handle_path` calls are: the common files
    last-listed first then the user file — or, when `$PYPYR_CONFIG_GLOBAL` is set (non-empty),
    that single file instead, with `raise_not_found=True` — then `./pyproject.toml` read through
    the `[tool.pypyr]` loader, then the local yaml file (`$PYPYR_CONFIG_LOCAL` or
    `pypyr-config.yaml`). -/
theorem init_order (e : Env) (hs : e.skip = false) :
    initOrder e =
      (match e.globalPath? with
       | some g => [{ path := pathStr g, loader := .yaml, mustExist := true }]
       | none => (commonConfigPaths e).reverse.map (fun p => { path := p, loader := .yaml, mustExist := false })
                   ++ [{ path := userConfigPath e, loader := .yaml, mustExist := false }])
      ++ [{ path := "pyproject.toml", loader := .pyproject, mustExist := false },
          { path := pathStr (e.getD "PYPYR_CONFIG_LOCAL" "pypyr-config.yaml"), loader := .yaml, mustExist := false }] := by
  simp only [initOrder, hs, lookOrder, xdgLooks, localLooks]
  cases e.globalPath? <;> rfl

example : (initOrder exEnv).map (·.path) =
    ["/S/c2/pypyr/config.yaml", "/S/c1/pypyr/config.yaml", "/S/xh/pypyr/config.yaml",
     "pyproject.toml", "pypyr-config.yaml"] := by decide +kernel

example : (initOrder exEnvGlobal).map (fun l => (l.path, l.mustExist)) =
    [("/S/g.yaml", true), ("pyproject.toml", false), ("pypyr-config.yaml", false)] := by decide +kernel

/-- **common directories: last-listed lowest.** If directory `a` is listed before `b` in
    `$XDG_CONFIG_DIRS`, `b`'s file is consulted (hence overridden) before `a`'s, and both before
    the user file, `pyproject.toml` and the local file. -/
theorem common_last_listed_lowest (e : Env) (hs : e.skip = false) (hg : e.globalPath? = none)
    (pre mid post : List String) (a b : String)
    (h : commonConfigPaths e = pre ++ a :: mid ++ b :: post) :
    (initOrder e).map (·.path) =
      post.reverse ++ b :: mid.reverse ++ a :: pre.reverse ++
        [userConfigPath e, "pyproject.toml", pathStr (e.getD "PYPYR_CONFIG_LOCAL" "pypyr-config.yaml")] := by
  rw [init_order e hs, hg]
  simp [h, List.map_reverse, Function.comp_def]

example : commonConfigPaths exEnv = [] ++ "/S/c1/pypyr/config.yaml" :: [] ++ "/S/c2/pypyr/config.yaml" :: [] := by
  decide +kernel

/-- **`$PYPYR_CONFIG_GLOBAL` replaces the common and user files**: no path derived from
    `$XDG_CONFIG_DIRS` / `$XDG_CONFIG_HOME` is consulted (whatever those are), only the named
    file, `pyproject.toml` and the local file. -/
theorem global_replaces_common_and_user (e : Env) (hs : e.skip = false) (g : String)
    (hg : e.globalPath? = some g) :
    (initOrder e).map (·.path) =
      [pathStr g, "pyproject.toml", pathStr (e.getD "PYPYR_CONFIG_LOCAL" "pypyr-config.yaml")] := by
  rw [init_order e hs, hg]; rfl

example : exEnvGlobal.globalPath? = some "/S/g.yaml" ∧ exEnvGlobal.skip = false := by decide +kernel

/-- **…and must exist**: if the named file cannot be opened, `init` raises the config error
    "Could not open config file" before anything else is looked at; the config is untouched. -/
theorem global_must_exist (e : Env) (fs : Files) (hs : e.skip = false) (g : String)
    (hg : e.globalPath? = some g) (hmiss : fs.get? (pathStr g) = none) :
    initSt e fs = (defaults e, some (.notFound (pathStr g)))
      ∧ (CfgErr.notFound (pathStr g)).isConfigError = true
      ∧ consulted fs (defaults e) (initOrder e) = [pathStr g] := by
  refine ⟨?_, rfl, ?_⟩
  · simp only [initSt, hs, lookOrder, hg]
    exact runLooks_missing fs (defaults e) _ _ rfl hmiss
  · simp [initOrder, hs, lookOrder, hg, consulted, handlePath, load, hmiss]

example : (initSt exEnvGlobal exFiles).2 = some (.notFound "/S/g.yaml") := by decide +kernel

/-- An *empty* `$PYPYR_CONFIG_GLOBAL` counts as unset (`if env_config_path_str:`). -/
theorem global_empty_is_unset (e : Env) (h : e.get? "PYPYR_CONFIG_GLOBAL" = some "") :
    e.globalPath? = none := by
  simp [Env.globalPath?, h]

/-- The `handle_path` calls actually made are a prefix of `initOrder` (all of it when nothing
    raises): `init` never looks anywhere else and never skips ahead. -/
theorem consulted_is_prefix (e : Env) (fs : Files) :
    consulted fs (defaults e) (initOrder e) <+: (initOrder e).map (·.path) :=
  consulted_prefix fs (defaults e) (initOrder e)

theorem consulted_all_when_ok (e : Env) (fs : Files) (st' : ConfigState) (hs : e.skip = false)
    (h : initSt e fs = (st', none)) :
    consulted fs (defaults e) (initOrder e) = (initOrder e).map (·.path) := by
  simp only [initSt, hs] at h
  simp only [initOrder, hs]
  exact consulted_all_of_ok fs (defaults e) st' (lookOrder e) h

/-- **`init` is the fold of `handle_path` over the ordered look-ups**, starting from the
    defaults, an absent file contributing nothing (provided a `$PYPYR_CONFIG_GLOBAL` file
    exists — otherwise `global_must_exist`). -/
theorem init_is_fold (e : Env) (fs : Files) (hs : e.skip = false)
    (hex : ∀ g, e.globalPath? = some g → (fs.get? (pathStr g)).isSome) :
    initSt e fs = applyAll (defaults e) (payloadsOf fs (initOrder e)) := by
  simp only [initSt, initOrder, hs]
  apply runLooks_eq_applyAll
  intro l hl hm
  simp only [lookOrder, xdgLooks, localLooks] at hl
  cases hgp : e.globalPath? with
  | some g =>
    rw [hgp] at hl
    simp only [List.mem_append, List.mem_cons, List.not_mem_nil, or_false] at hl
    rcases hl with h | h | h
    · subst h; exact hex g hgp
    · subst h; simp at hm
    · subst h; simp at hm
  | none =>
    rw [hgp] at hl
    simp only [List.mem_append, List.mem_map, List.mem_cons, List.not_mem_nil, or_false] at hl
    rcases hl with (⟨p, _, h⟩ | h) | h | h <;> subst h <;> simp at hm

/-! ### 2. Scalars: the highest-precedence file that sets it wins -/

/-- `highest k ps = some v` says exactly: some file of the list sets `k` to `v` and no file
    after it (= of higher precedence) sets `k` at all. -/
theorem highest_spec (k : String) (ps : List Payload) (v : Val) :
    highest k ps = some v ↔
      ∃ lower p higher, ps = lower ++ p :: higher ∧ settingOf p k = some v ∧
        ∀ q ∈ higher, settingOf q k = none := by
  rw [highest_eq_lastSome]; exact lastSome_eq_some _ ps v

theorem highest_none (k : String) (ps : List Payload) :
    highest k ps = none ↔ ∀ p ∈ ps, settingOf p k = none := by
  rw [highest_eq_lastSome]; exact lastSome_eq_none _ ps

/-- **scalar_highest_wins (any start state, any list of files).** After a successful sequence
    of `handle_path` calls, every scalar setting has the value given by the LAST file of the
    sequence that sets it; if none does, it keeps its previous value. -/
theorem scalar_highest_wins_list (st st' : ConfigState) (ps : List (String × Payload))
    (h : applyAll st ps = (st', none)) (k : String) (d : Val) (hd : st.scalar? k = some d) :
    st'.scalar? k = some ((highest k (ps.map (·.2))).getD d) := by
  rw [applyAll_ok_scalar h k, hd]; rfl

/-- **scalar_highest_wins (`init`).** For every environment, every set of files and every
    scalar setting `k`: if `init` succeeds, the effective value of `k` is the value in the
    highest-precedence file (in `initOrder`) that sets `k`, else the default. -/
theorem scalar_highest_wins (e : Env) (fs : Files) (st' : ConfigState) (hs : e.skip = false)
    (h : initSt e fs = (st', none)) (k : String) (hk : k ∈ scalarProps) :
    ∃ d, defaultOf e k = some d ∧
      st'.scalar? k = some ((highest k ((payloadsOf fs (initOrder e)).map (·.2))).getD d) := by
  obtain ⟨hnd, hsome⟩ := scalarProps_have_default k hk
  obtain ⟨src, hsrc⟩ := Option.isSome_iff_exists.mp hsome
  have hdef : defaultOf e k = some (evalDefault e src) := by simp [defaultOf, hsrc]
  refine ⟨evalDefault e src, hdef, ?_⟩
  simp only [initSt, hs] at h
  have hall := runLooks_ok_applyAll h
  simp only [initOrder, hs]
  apply scalar_highest_wins_list _ _ _ hall
  rw [defaults_scalar, hnd, hdef]; rfl

-- four files, three of them set json_indent: c1 (higher than c2) wins; default_group only in c2;
-- json_ascii only in local; pipelines_subdir nowhere → default.
example : (initSt exEnv exFiles).2 = none ∧
    (initSt exEnv exFiles).1.scalar? "json_indent" = some (.int 4) ∧
    (initSt exEnv exFiles).1.scalar? "default_group" = some (.str "g2") ∧
    (initSt exEnv exFiles).1.scalar? "json_ascii" = some (.bool true) ∧
    (initSt exEnv exFiles).1.scalar? "pipelines_subdir" = some (.str "pipelines") ∧
    highest "json_indent" ((payloadsOf exFiles (initOrder exEnv)).map (·.2)) = some (.int 4) := by
  decide +kernel

/-! ### 3. `vars` / `shortcuts`: key-wise union with the same precedence -/

theorem highestDict_spec (d : String) (key : Val) (ps : List Payload) (v : Val) :
    highestDict d key ps = some v ↔
      ∃ lower p higher, ps = lower ++ p :: higher ∧ dictSettingOf p d key = some v ∧
        ∀ q ∈ higher, dictSettingOf q d key = none := by
  rw [highestDict_eq_lastSome]; exact lastSome_eq_some _ ps v

/-- **dict_union_precedence (any start state, any list of files).** After a successful sequence
    of `handle_path` calls, looking `key` up in dict setting `name` gives the entry of the LAST
    file whose `name` mapping contains `key`; if none does, the entry it had before. -/
theorem dict_union_precedence_list (st st' : ConfigState) (ps : List (String × Payload))
    (h : applyAll st ps = (st', none)) (name : String) (d0 : Dict) (h0 : st.dict? name = some d0) :
    ∃ d', st'.dict? name = some d' ∧
      ∀ key, dictGet? d' key = (highestDict name key (ps.map (·.2))).or (dictGet? d0 key) :=
  applyAll_ok_dict h name d0 h0

/-- **dict_union_precedence (`init`).** For `vars` and `shortcuts`, every environment, every
    set of files: if `init` succeeds, `lookup key effective` is `lookup key` in the
    highest-precedence file (in `initOrder`) whose mapping contains `key`, and absent when no file
    has it (the default dicts are empty) — i.e. the key-wise union, higher precedence winning. -/
theorem dict_union_precedence (e : Env) (fs : Files) (st' : ConfigState) (hs : e.skip = false)
    (h : initSt e fs = (st', none)) (name : String) (hn : name ∈ dictProps) :
    ∃ d', st'.dict? name = some d' ∧
      ∀ key, dictGet? d' key = highestDict name key ((payloadsOf fs (initOrder e)).map (·.2)) := by
  simp only [initSt, hs] at h
  have hall := runLooks_ok_applyAll h
  obtain ⟨d', hd', hkeys⟩ := applyAll_ok_dict hall name [] (defaults_dict e name hn)
  refine ⟨d', hd', fun key => ?_⟩
  simp only [initOrder, hs]
  rw [hkeys key]
  simp [dictGet?]

/-- The same with `dictGet?` (first binding) on the file side: equal because the mappings of a
    parsed file have unique keys. -/
theorem dict_union_precedence' (e : Env) (fs : Files) (st' : ConfigState) (hs : e.skip = false)
    (h : initSt e fs = (st', none)) (name : String) (hn : name ∈ dictProps)
    (hwf : ∀ p ∈ (payloadsOf fs (initOrder e)).map (·.2), DictsNodup p) :
    ∃ d', st'.dict? name = some d' ∧
      ∀ key, dictGet? d' key = highestDict' name key ((payloadsOf fs (initOrder e)).map (·.2)) := by
  obtain ⟨d', hd', hk⟩ := dict_union_precedence e fs st' hs h name hn
  exact ⟨d', hd', fun key => by rw [hk key, highestDict_eq' name key _ hwf]⟩

-- vars: a from c1 (beats c2's), b from c2, c from pyproject; nothing else.
example : (initSt exEnv exFiles).1.dict? "vars" =
      some [(.str "a", .int 1), (.str "b", .int 3), (.str "c", .int 9)] ∧
    highestDict "vars" (.str "a") ((payloadsOf exFiles (initOrder exEnv)).map (·.2)) = some (.int 1) ∧
    highestDict "vars" (.str "zz") ((payloadsOf exFiles (initOrder exEnv)).map (·.2)) = none := by
  decide +kernel

/-- A scalar is *overwritten*, never merged — also when its value is a dict (`log_config`). -/
example : (applyAll (defaults exEnv)
      [("lo", .mapping [("log_config", .dict [(.str "a", .int 1)])]),
       ("hi", .mapping [("log_config", .dict [(.str "b", .int 2)])])]).1.scalar? "log_config"
    = some (.dict [(.str "b", .int 2)]) := by decide +kernel

/-! ### 4. Unknown setting: rejected before anything is applied -/

/-- **unknown_rejected_atomically.** A file with at least one key outside
    `all_writable_props` raises the config error "Unexpected config props" naming exactly those
    keys, and the config object is left exactly as it was before this file — the valid settings
    of the same file are not applied, nor is the path recorded. -/
theorem unknown_rejected_atomically (st : ConfigState) (path : String) (kvs : Ctx)
    (h : unknownKeys kvs ≠ []) :
    applyFileSt st path (.mapping kvs) = (st, some (.unknownProps (unknownKeys kvs)))
      ∧ (CfgErr.unknownProps (unknownKeys kvs)).isConfigError = true := by
  refine ⟨?_, rfl⟩
  have hne : kvs.isEmpty = false := by
    cases kvs with
    | nil => simp [unknownKeys] at h
    | cons _ _ => rfl
  have hu : (unknownKeys kvs).isEmpty = false := by
    cases hk : unknownKeys kvs with
    | nil => exact absurd hk h
    | cons _ _ => rfl
  simp [applyFileSt, hne, update, hu]

/-- A key is unknown exactly when it is not one of the 17 writable props. -/
theorem unknownKeys_ne_nil_iff (kvs : Ctx) :
    unknownKeys kvs ≠ [] ↔ ∃ k ∈ kvs.map (·.1), k ∉ allWritableProps := by
  simp [unknownKeys, List.filter_eq_nil_iff]

/-- In a sequence: the files before the offending one are applied, the offending one and
    everything after it (whatever precedence) are not, and the error is what `init` raises. -/
theorem unknown_rejected_in_sequence (st st1 : ConfigState) (lower higher : List (String × Payload))
    (path : String) (kvs : Ctx) (hlow : applyAll st lower = (st1, none)) (h : unknownKeys kvs ≠ []) :
    applyAll st (lower ++ (path, .mapping kvs) :: higher) = (st1, some (.unknownProps (unknownKeys kvs))) :=
  applyAll_append_reject hlow (unknown_rejected_atomically st1 path kvs h).1

example : applyFileSt (defaults exEnv) "f" (.mapping [("json_indent", .int 77), ("jsonIndent", .int 4)])
    = (defaults exEnv, some (.unknownProps ["jsonIndent"])) := by decide +kernel

-- unknown key in the LOWEST file, valid settings in a higher one: still an error, nothing applied
example : initSt exEnv [("/S/c2/pypyr/config.yaml", .mapping [("bogus", .int 1)]),
                        ("pypyr-config.yaml", .mapping [("json_indent", .int 6)])]
    = (defaults exEnv, some (.unknownProps ["bogus"])) := by decide +kernel

/-! ### 5. Non-mapping file: rejected (falsy ones too) -/

/-- **non_mapping_rejected.** A file whose top level is not a mapping — truthy (`[1]`, `5`,
    `'x'`) or falsy (`[]`, `0`, `''`, `false`) — raises the config error "should be a mapping"
    and leaves the config untouched. -/
theorem non_mapping_rejected (st : ConfigState) (path : String) (truthy : Bool) :
    applyFileSt st path (.nonMapping truthy) = (st, some (.notMapping path))
      ∧ (CfgErr.notMapping path).isConfigError = true := ⟨rfl, rfl⟩

theorem non_mapping_rejected_in_sequence (st st1 : ConfigState) (lower higher : List (String × Payload))
    (path : String) (truthy : Bool) (hlow : applyAll st lower = (st1, none)) :
    applyAll st (lower ++ (path, .nonMapping truthy) :: higher) = (st1, some (.notMapping path)) :=
  applyAll_append_reject hlow (non_mapping_rejected st1 path truthy).1

example : (initSt exEnv (("/S/xh/pypyr/config.yaml", .nonMapping false) :: exFiles)).2
    = some (.notMapping "/S/xh/pypyr/config.yaml") := by decide +kernel

/-- **falsy_non_mapping_accepted_pre_fix.** The rule as it was before the repair (`if payload:`
    ahead of the Mapping test) silently accepted a falsy non-mapping such as `[]`: no error, no
    change — the defect F8 that `non_mapping_rejected` excludes for the current code. -/
theorem falsy_non_mapping_accepted_pre_fix (st : ConfigState) (path : String) :
    applyFileStPreFix st path (.nonMapping false) = (st, none) := rfl

/-- The old and the current rule differ on nothing else. -/
theorem pre_fix_differs_only_there (st : ConfigState) (path : String) (p : Payload)
    (h : p ≠ .nonMapping false) : applyFileStPreFix st path p = applyFileSt st path p := by
  cases p with
  | none => rfl
  | nonMapping t =>
    cases t with
    | false => exact absurd rfl h
    | true => rfl
  | mapping kvs =>
    cases kvs with
    | nil => rfl
    | cons a as => simp [applyFileStPreFix, applyFileSt, Payload.truthy]

example : applyFileStPreFix (defaults exEnv) "pypyr-config.yaml" (.nonMapping false) = (defaults exEnv, none)
    ∧ (applyFileSt (defaults exEnv) "pypyr-config.yaml" (.nonMapping false)).2
        = some (.notMapping "pypyr-config.yaml") := by decide +kernel

/-! ### 6. Empty / absent file: no settings -/

/-- **empty_file_is_no_settings.** An empty document (`None`), an absent file and an empty
    mapping `{}` change nothing and raise nothing… -/
theorem empty_file_is_no_settings (st : ConfigState) (path : String) :
    applyFileSt st path .none = (st, none) ∧ applyFileSt st path (.mapping []) = (st, none) := ⟨rfl, rfl⟩

/-- …so such a file can be dropped from any position of any sequence without changing the result. -/
theorem empty_file_is_no_settings_in_sequence (st : ConfigState) (lower higher : List (String × Payload))
    (path : String) :
    applyAll st (lower ++ (path, .none) :: higher) = applyAll st (lower ++ higher) :=
  applyAll_skip_none st lower higher path

/-- An absent optional file is the same as an empty one. -/
theorem absent_file_is_empty_file (fs : Files) (st : ConfigState) (l : Look) (hm : l.mustExist = false)
    (ha : fs.get? l.path = none) : handlePath fs st l = applyFileSt st l.path .none := by
  simp [handlePath, load, ha, hm]

example : initSt exEnv (("/S/xh/pypyr/config.yaml", .none) :: exFiles) = initSt exEnv exFiles := by
  decide +kernel

/-! ### 7. `$PYPYR_SKIP_INIT` -/

/-- **skip_init_skips_all.** When `$PYPYR_SKIP_INIT` is 'true'/'1'/'1.0' in any case, `init`
    looks nothing up — whatever files exist, well-formed or not, `$PYPYR_CONFIG_GLOBAL` missing or
    not — raises nothing, and the configuration is the defaults (with `skip_init` set). -/
theorem skip_init_skips_all (e : Env) (fs : Files) (hs : e.skip = true) :
    initSt e fs = ({ defaults e with skipInit := true }, none) ∧ initOrder e = []
      ∧ consulted fs (defaults e) (initOrder e) = [] := by
  simp [initSt, initOrder, hs, consulted]

example : exEnvSkip.skip = true ∧
    initSt exEnvSkip (("pypyr-config.yaml", .nonMapping true) :: exFiles)
      = ({ defaults exEnvSkip with skipInit := true }, none) := by decide +kernel

/-- Which spellings skip: exactly the strings whose lower-case is `true`, `1` or `1.0`; unset
    means `'0'`. -/
theorem skip_iff (e : Env) :
    e.skip = castStrToBool ((e.get? "PYPYR_SKIP_INIT").getD "0") := rfl

example : ({ vars := [("PYPYR_SKIP_INIT", "yes")] } : Env).skip = false ∧ ({} : Env).skip = false := by
  decide +kernel

/-! ### 7b. Every `init()` obeys the environment of the moment it runs

  The object on which `init` is called persists (the module singleton is built when `pypyr.config`
  is imported; a program can build further `Config()`s), and the environment can change between
  import, construction and each call. `initOn st e fs` is `init()` on the object `st` under the
  environment `e` *of the call*; `runOps` plays a whole history. Nothing below has a hypothesis
  about how `st` came to be. -/

/-- `Config(); init()` in one unchanged environment is the special case. -/
theorem initSt_eq_initOn (e : Env) (fs : Files) : initSt e fs = initOn (defaults e) e fs := rfl

/-- **skip at call time.** If `$PYPYR_SKIP_INIT` is truthy *when `init` runs*, then — on any
    object, built under any environment, after any earlier calls, whatever files exist — `init`
    raises nothing, makes no `handle_path` call, and leaves every setting and the list of loaded
    paths exactly as they were (only `skip_init` becomes true). -/
theorem init_skip_at_call_time (st : ConfigState) (e : Env) (fs : Files) (hs : e.skip = true) :
    initOn st e fs = ({ st with skipInit := true }, none) ∧
    consulted fs st (initOrder e) = [] ∧
    (initOn st e fs).1.scalars = st.scalars ∧ (initOn st e fs).1.dicts = st.dicts ∧
    (initOn st e fs).1.loaded = st.loaded := by
  simp [initOn, initOrder, hs, consulted]

/-- **no skip at call time.** If it is not truthy when `init` runs, then — even on an object built
    while it *was* set, or on which an earlier `init` skipped — the look-ups are those of the
    *current* environment, in `init_order`'s order, merged into the object as it is. -/
theorem init_looks_at_call_time (st : ConfigState) (e : Env) (fs : Files) (hs : e.skip = false) :
    initOn st e fs = runLooks fs st (lookOrder e) ∧
    consulted fs st (initOrder e) <+: (initOrder e).map (·.path) ∧
    (∀ st', initOn st e fs = (st', none) →
      consulted fs st (initOrder e) = (initOrder e).map (·.path)) := by
  refine ⟨by simp [initOn, hs], consulted_prefix fs st (initOrder e), ?_⟩
  intro st' h
  simp only [initOn, hs] at h
  simp only [initOrder, hs]
  exact consulted_all_of_ok fs st st' (lookOrder e) h

/-- **scalar_highest_wins, on any object.** After a successful `init` under `e`, every scalar has
    the value of the highest-precedence file — in the order given by the environment *of the call* —
    that sets it, else the value the object had before the call. -/
theorem init_on_scalar_highest_wins (st st' : ConfigState) (e : Env) (fs : Files) (hs : e.skip = false)
    (h : initOn st e fs = (st', none)) (k : String) (d : Val) (hd : st.scalar? k = some d) :
    st'.scalar? k = some ((highest k ((payloadsOf fs (initOrder e)).map (·.2))).getD d) := by
  simp only [initOn, hs] at h
  simp only [initOrder, hs]
  exact scalar_highest_wins_list st st' _ (runLooks_ok_applyAll h) k d hd

/-- **dict_union_precedence, on any object.** … and `vars` / `shortcuts` are the key-wise union of
    what the object held with the files, files winning in the same precedence. -/
theorem init_on_dict_union_precedence (st st' : ConfigState) (e : Env) (fs : Files) (hs : e.skip = false)
    (h : initOn st e fs = (st', none)) (name : String) (d0 : Dict) (h0 : st.dict? name = some d0) :
    ∃ d', st'.dict? name = some d' ∧
      ∀ key, dictGet? d' key =
        (highestDict name key ((payloadsOf fs (initOrder e)).map (·.2))).or (dictGet? d0 key) := by
  simp only [initOn, hs] at h
  simp only [initOrder, hs]
  exact dict_union_precedence_list st st' _ (runLooks_ok_applyAll h) name d0 h0

theorem runOps_length (fs : Files) (objs : Objs) (ops : List Op) : (runOps fs objs ops).length = ops.length := by
  induction ops generalizing objs with
  | nil => rfl
  | cons op ops ih => simp [runOps, ih]

theorem runOps_append (fs : Files) (objs : Objs) (pre post : List Op) :
    runOps fs objs (pre ++ post) = runOps fs objs pre ++ runOps fs (objsAfter fs objs pre) post := by
  induction pre generalizing objs with
  | nil => rfl
  | cons op pre ih => simp [runOps, objsAfter, ih]

/-- **In any history** (any number of objects, constructions, earlier `init`s, environment changes):
    what an `init()` step shows is `initOn` of the object as the history left it and of the
    environment *that step runs under* — nothing else of the history matters. -/
theorem history_init_obeys_env_of_its_moment (fs : Files) (objs : Objs) (pre post : List Op)
    (o : Nat) (e : Env) (st : ConfigState) (hst : objGet? (objsAfter fs objs pre) o = some st) :
    (runOps fs objs (pre ++ Op.init o e :: post))[pre.length]? =
      some ⟨o, some (initOn st e fs).1, (initOn st e fs).2, consulted fs st (initOrder e)⟩ := by
  rw [runOps_append]
  have hlen : (runOps fs objs pre).length = pre.length := runOps_length fs objs pre
  rw [List.getElem?_append_right (by omega), hlen]
  simp [runOps, stepOp, hst]

/-- … so with `$PYPYR_SKIP_INIT` truthy at that step, that step looks nothing up and changes no
    setting — e.g. on the singleton built at import, before the variable was set. -/
theorem history_skip_at_its_moment (fs : Files) (objs : Objs) (pre post : List Op)
    (o : Nat) (e : Env) (st : ConfigState) (hst : objGet? (objsAfter fs objs pre) o = some st)
    (hs : e.skip = true) :
    (runOps fs objs (pre ++ Op.init o e :: post))[pre.length]? =
      some ⟨o, some { st with skipInit := true }, none, []⟩ := by
  rw [history_init_obeys_env_of_its_moment fs objs pre post o e st hst]
  obtain ⟨h1, h2, _⟩ := init_skip_at_call_time st e fs hs
  rw [h1, h2]

-- import without the variable (singleton 0 built), THEN set it, THEN init(): nothing is looked up;
-- and the reverse: built while it was set, unset before init(): every file is merged.
example :
    (runOps exFiles [] [.construct 0 exEnv, .init 0 exEnvSkip]).map (fun o => (o.err, o.consulted))
      = [(none, []), (none, [])] ∧
    ((runOps exFiles [] [.construct 0 exEnv, .init 0 exEnvSkip])[1]?.bind (·.state)).map
        (fun st => (st.scalar? "json_indent", st.loaded, st.skipInit)) = some (some (.int 2), [], true) ∧
    ((runOps exFiles [] [.construct 0 exEnvSkip, .init 0 exEnv])[1]?.bind (·.state)).map
        (fun st => (st.scalar? "json_indent", st.loaded.length, st.skipInit)) = some (some (.int 4), 4, false) ∧
    ((runOps exFiles [] [.construct 0 exEnvSkip, .init 0 exEnv])[1]?.map (·.consulted))
      = some ["/S/c2/pypyr/config.yaml", "/S/c1/pypyr/config.yaml", "/S/xh/pypyr/config.yaml",
              "pyproject.toml", "pypyr-config.yaml"] := by
  decide +kernel

-- `$PYPYR_CONFIG_GLOBAL` set after construction and before init(): it replaces common + user.
example :
    ((runOps (("/S/g.yaml", .mapping [("json_indent", .int 9)]) :: exFiles) []
        [.construct 0 exEnv, .construct 1 exEnv, .init 1 exEnvGlobal, .init 0 exEnv]).map (·.consulted))
      = [[], [], ["/S/g.yaml", "pyproject.toml", "pypyr-config.yaml"],
         ["/S/c2/pypyr/config.yaml", "/S/c1/pypyr/config.yaml", "/S/xh/pypyr/config.yaml",
          "pyproject.toml", "pypyr-config.yaml"]] := by
  decide +kernel

/-! ### 8. Every rejection the property names is a config error -/

/-- The errors for a missing `$PYPYR_CONFIG_GLOBAL`, a non-mapping file and an unknown setting
    are `ConfigError`s; the only other exception the model can produce is the `TypeError` of
    `dict.update` on a dict prop whose value is not a mapping (outside the property text). -/
theorem rejections_are_config_errors (err : CfgErr) :
    err.isConfigError = true ∨ ∃ d, err = .dictUpdate d := by
  cases err <;> first | exact Or.inl rfl | exact Or.inr ⟨_, rfl⟩

/-! ### 9. Static tie: the tables in the source are the tables of the model -/

/-- **config_props_agree.** `Config.all_writable_props`, `Config.dict_props`, the shape of
    `scalar_props` and the per-attribute defaults of `Config.__init__`, extracted from
    `pypyr/config.py` by `harness/extract_c20.py` on every run, equal the constants the model
    uses. Editing a table in the source breaks this proof obligation. -/
theorem config_props_agree :
    Generated.ConfigProps.allWritableProps = allWritableProps ∧
    Generated.ConfigProps.dictProps = dictProps ∧
    Generated.ConfigProps.scalarPropsExpr = "all_writable_props - dict_props" ∧
    Generated.ConfigProps.defaultsTable = defaultsTable := by decide +kernel

/-- **init_shape_agrees.** The `handle_path` calls of `Config.init` in source order (guard, loop
    direction, path, loader, raise_not_found), the environment variables it reads with their
    defaults *inside `init`* (`initGetenv`) — while `Config.__init__` reads only the three env-derived
    defaults (`ctorGetenv`) and nothing in `pypyr/config.py` reads the environment at import
    (`moduleGetenv`): which variable is read at which moment is part of the tie —, and the XDG / macOS literals of `pypyr.platform` are the ones `lookOrder`,
    `userConfigPath`, `commonConfigPaths` and `commonBaseDefault` are written from. -/
theorem init_shape_agrees :
    Generated.ConfigProps.initCalls =
      ["if|plain|var|yaml|must",
       "else|reversed:config_common|var|yaml|opt",
       "else|plain|attr:config_user|yaml|opt",
       "top|plain|lit:pyproject.toml|load_pyproject_toml|opt",
       "top|plain|var|yaml|opt"] ∧
    Generated.ConfigProps.initGetenv =
      [("PYPYR_SKIP_INIT", some "0"), ("PYPYR_CONFIG_GLOBAL", none),
       ("PYPYR_CONFIG_LOCAL", some "pypyr-config.yaml")] ∧
    Generated.ConfigProps.ctorGetenv =
      [("PYPYR_CMD_ENCODING", none), ("PYPYR_ENCODING", none), ("PYPYR_NO_CACHE", some "0")] ∧
    Generated.ConfigProps.moduleGetenv = [] ∧
    Generated.ConfigProps.platformArgs = ["pypyr", "config.yaml"] ∧
    appendCfg "" = "/" ++ "pypyr" ++ "/" ++ "config.yaml" ∧
    Generated.ConfigProps.xdgCommonBaseDefault = commonBaseDefault .posix ∧
    Generated.ConfigProps.macCommonBaseDefault = commonBaseDefault .macos ∧
    Generated.ConfigProps.xdgUserGetenv = [("XDG_CONFIG_HOME", some "")] ∧
    Generated.ConfigProps.xdgCommonGetenv = [("XDG_CONFIG_DIRS", some "")] ∧
    Generated.ConfigProps.xdgUserExpand = ["~/.config"] := by decide +kernel

/-- The model's table is internally consistent: the defaults cover exactly the writable props,
    and `scalar_props` are the 15 non-dict ones. -/
theorem tables_consistent :
    (∀ k ∈ allWritableProps, (tableGet? defaultsTable k).isSome = true) ∧
    (∀ p ∈ defaultsTable, allWritableProps.contains p.1 = true) ∧
    scalarProps.length = 15 ∧ (∀ d ∈ dictProps, allWritableProps.contains d = true) := by
  decide +kernel

end Pypyr.C20
