/-
  C12 — runs are independent: executing a pipeline never modifies the shared, cached state
  (pipeline definitions, configuration), and therefore a run gives the same result whatever ran
  before it, between its steps, or concurrently.

  Theorems about the heap-level model `PypyrModel/Heap.lean` (objects with identity, regions
  `defn p` / `config` / `run r`, the operation language `Op` of what the code does to objects),
  for EVERY heap satisfying the invariant, EVERY schedule (global order of the operations of any
  number of runs, any operation lists, any interleaving at operation granularity).  Proofs are by
  induction over the schedule on top of an invariant (`Sep`) and a simulation relation (`Twin`);
  helper lemmas: `Props/Lemmas/C12_Basic.lean`, `C12_Sep.lean`, `C12_Twin.lean`.

  "Fixed" operations (`Op.fixed`, `SchedFixed`) are the operation language of the code as it is
  now: `inCopy` / `configvarsCopy` (deep copies).  The two excluded constructors `inAlias` /
  `configvarsAlias` are the pre-repair code (DESIGN §5 F4); `aliasing_counterexample_pre_fix`
  shows every theorem below fails for them.

  Section 6: decorator inputs of the definition that are COPIED BY FORMATTING before use (foreach
  items, onError): operation `fmtSetAt … keep`, where `keep` = the objects a formatter hands back as
  they are instead of rebuilding them; the code as it is rebuilds every container, also an empty one
  (`keep = []`, part of the fixed language), `formatter_returns_container_counterexample` shows what
  one kept container does.  Section 7: runs that are over are never touched again
  (`finished_run_unchanged`), and `pypyr.pipeline.Pipeline` objects that are run again
  (`RunHeap.PipeObj`, `callsSched`): with a `StepsRunner` per call the object carries nothing from
  one call to the next (`calls_perCall`, `reused_object_same_as_fresh`, `reused_object_rerun_same`);
  `runner_kept_counterexample`: a runner kept on the object breaks it.

  Not claimed here (model limits): interleavings below operation granularity, module-level state
  outside definitions/config (step/parser/backoff caches hold code objects, not data).
-/
import Props.Lemmas.C12_Twin

namespace Pypyr.C12
open Pypyr.RunHeap

/-! ### running example: the F4 pipeline and a config
  Definition 0 is `in: {lst: [0]}`: cell 0 the `in` mapping, cell 1 the list, cell 2 the atom.
  `config.vars` is `{cv: {n: 1}}`. -/
def exDefs : List Block := [[.dict [("lst", 1)], .list [2], .leaf (.int 0)]]
def exCfg : Block := [.dict [("cv", 1)], .dict [("n", 2)], .leaf (.int 1)]
def exH : Heap := Heap.init exDefs exCfg

/-- one run of the example pipeline: context `{a: 5}`, `in` argument copied, list appended to in
    place, config vars copied and a nested value overwritten in place, `in` argument removed -/
def exOps : List Op :=
  [.start [.dict [("a", 1)], .leaf (.int 5)],
   .inCopy "lst" ⟨.defn 0, 1⟩,
   .appendAt [.key "lst"] [.leaf (.int 1)],
   .copyKey "lst" "keep",
   .configvarsCopy,
   .dictSetAt [.key "cv"] "n" [.leaf (.int 9)],
   .unsetIn "lst"]

/-- runs 1 and 2 interleaved operation by operation, run 3 afterwards -/
def exSched : Sched :=
  (List.zip (solo 1 exOps) (solo 2 exOps)).flatMap (fun p => [p.1, p.2]) ++ solo 3 exOps

theorem exSched_fixed : SchedFixed exSched := by decide

example : deepVal 9 (exec exSched exH) (root 1) =
    .dict [(.str "a", .int 5), (.str "keep", .list [.int 0, .int 1]),
           (.str "cv", .dict [(.str "n", .int 9)])] := by decide +kernel

/-! ### 1. the separation invariant -/

/-- `Sep` read region by region: the objects of every run reference that run's objects only, and
    every definition / the configuration is a closed object graph. -/
theorem sep_iff_closed (h : Heap) :
    Sep h ↔ (∀ r, ∀ c ∈ h.arena (.run r), ∀ x ∈ c.refs, x.reg = .run r) ∧
            (∀ g, g.isShared = true → ∀ c ∈ h.arena g, ∀ x ∈ c.refs, x.reg = g) := by
  constructor
  · intro hS
    exact ⟨fun r => hS (.run r), fun g _ => hS g⟩
  · intro ⟨hr, hs⟩ g
    cases g with
    | run r => exact hr r
    | defn p => exact hs _ rfl
    | config => exact hs _ rfl

/-- What the loaders produce is separated: no well-formedness condition on the blocks is needed,
    a relocated block references its own region by construction. -/
theorem sep_init (defs : List Block) (cfg : Block) : Sep (Heap.init defs cfg) := init_sep defs cfg

example : Sep exH := sep_init _ _

/-- Every operation of the code as it is now preserves separation, for every run. -/
theorem sep_step {h : Heap} (hS : Sep h) (r : Nat) {op : Op} (hf : op.fixed = true) :
    Sep (step h r op) := step_sep hS r hf

example : Sep (step (step exH 1 (.start [.dict []])) 1 (.inCopy "lst" ⟨.defn 0, 1⟩)) :=
  sep_step (sep_step (sep_init _ _) 1 rfl) 1 rfl

/-- `sep_invariant`: separation holds after any schedule of any number of runs. -/
theorem sep_invariant {s : Sched} (hs : SchedFixed s) {h : Heap} (hS : Sep h) : Sep (exec s h) :=
  exec_sep hs hS

example : Sep (exec exSched exH) := sep_invariant (s := exSched) (h := exH) exSched_fixed (sep_init _ _)

/-- From a context, nothing but the run's own objects can be reached: `Sep` is what the
    id()-graph observation of the harness (`foreignReach = ∅`) sees. -/
theorem reach_own {h : Heap} (hS : Sep h) {r : Nat} {p : Path} {x : Ref}
    (hx : resolve h (root r) p = some x) : x.reg = .run r := resolve_reg hS hx

example : resolve (exec exSched exH) (root 1) [.key "cv", .key "n"] = some ⟨.run 1, 9⟩ := by
  decide +kernel

/-! ### 2. definitions and configuration are never modified -/

/-- `defs_unchanged`: after any schedule every shared arena – every cached definition, the
    configuration – is exactly (object for object) what it was. -/
theorem defs_unchanged {s : Sched} (hs : SchedFixed s) {h : Heap} (hS : Sep h) :
    ∀ g, g.isShared = true → (exec s h).arena g = h.arena g :=
  fun _ hg => exec_arena_shared hs hS hg

example : (exec exSched exH).arena (.defn 0) = exH.arena (.defn 0) :=
  defs_unchanged (s := exSched) (h := exH) exSched_fixed (sep_init _ _) (.defn 0) rfl

/-- "After any run every cached definition is deep-equal to what its loader produced": the deep
    value of every object of a shared region is unchanged (any fuel). -/
theorem defs_deep_equal {s : Sched} (hs : SchedFixed s) {h : Heap} (hS : Sep h) (n : Nat) {x : Ref}
    (hx : x.reg.isShared = true) : deepVal n (exec s h) x = deepVal n h x :=
  deepVal_region hS (defs_unchanged hs hS _ hx) n rfl

/-- the same, spelled out for the state the loaders produced -/
theorem defs_equal_loader (defs : List Block) (cfg : Block) {s : Sched} (hs : SchedFixed s) (n p i : Nat) :
    deepVal n (exec s (Heap.init defs cfg)) ⟨.defn p, i⟩ = deepVal n (Heap.init defs cfg) ⟨.defn p, i⟩ ∧
    deepVal n (exec s (Heap.init defs cfg)) ⟨.config, i⟩ = deepVal n (Heap.init defs cfg) ⟨.config, i⟩ :=
  ⟨defs_deep_equal hs (sep_init _ _) n rfl, defs_deep_equal hs (sep_init _ _) n rfl⟩

example : deepVal 5 (exec exSched exH) ⟨.defn 0, 0⟩ = .dict [(.str "lst", .list [.int 0])] ∧
    deepVal 5 (exec exSched exH) varsRef = .dict [(.str "cv", .dict [(.str "n", .int 1)])] := by
  decide +kernel

/-! ### 3. interleaving -/

/-- `interleaving_commutes`: in any schedule, run r ends with exactly the arena it produces when
    its operations run alone from the same heap: the operations of other runs neither write to run
    r's objects nor change anything run r's operations read. -/
theorem interleaving_commutes {s : Sched} (hs : SchedFixed s) {h : Heap} (hS : Sep h) (r : Nat) :
    (exec s h).arena (.run r) = (exec (proj r s) h).arena (.run r) := by
  have hT := exec_proj_twin (r := r) hs hS (twin_refl r h)
  rw [hT.own, map_renCell_self]

example : (exec exSched exH).arena (.run 2) = (exec (solo 2 exOps) exH).arena (.run 2) :=
  interleaving_commutes (s := exSched) (h := exH) exSched_fixed (sep_init _ _) 2

/-- The whole heap after a schedule is determined by the per-run operation sequences: two
    interleavings of the same runs end in the same heap. -/
theorem interleavings_agree {s1 s2 : Sched} (h1 : SchedFixed s1) (h2 : SchedFixed s2) {h : Heap}
    (hS : Sep h) (hp : ∀ r, proj r s1 = proj r s2) : ∀ g, (exec s1 h).arena g = (exec s2 h).arena g := by
  intro g
  cases g with
  | run r => rw [interleaving_commutes h1 hS r, interleaving_commutes h2 hS r, hp r]
  | defn p => rw [defs_unchanged h1 hS _ rfl, defs_unchanged h2 hS _ rfl]
  | config => rw [defs_unchanged h1 hS _ rfl, defs_unchanged h2 hS _ rfl]

example : ∀ g, (exec exSched exH).arena g = (exec (solo 3 exOps ++ solo 2 exOps ++ solo 1 exOps) exH).arena g :=
  interleavings_agree (s1 := exSched) (s2 := solo 3 exOps ++ solo 2 exOps ++ solo 1 exOps) (h := exH)
    exSched_fixed (by decide) (sep_init _ _) (by
    intro r
    by_cases h1 : r = 1
    · subst h1; decide
    by_cases h2 : r = 2
    · subst h2; decide
    by_cases h3 : r = 3
    · subst h3; decide
    · have : ∀ s : Sched, (∀ e ∈ s, e.1 = 1 ∨ e.1 = 2 ∨ e.1 = 3) → proj r s = [] := by
        intro s hs
        simp only [proj, List.filter_eq_nil_iff, decide_eq_true_eq]
        intro e he
        rcases hs e he with h | h | h <;> omega
      rw [this _ (by decide), this _ (by decide)])

/-- Every observation of run r's final context (its deep value) is its solo observation. -/
theorem interleaving_same_context {s : Sched} (hs : SchedFixed s) {h : Heap} (hS : Sep h) (r n : Nat) :
    deepVal n (exec s h) (root r) = deepVal n (exec (proj r s) h) (root r) := by
  have hp : SchedFixed (proj r s) := fun e he => hs e (List.mem_filter.1 he).1
  exact (deepVal_region (exec_sep hp hS) (interleaving_commutes hs hS r) n rfl)

/-! ### 4. running again gives the same result -/

/-- `rerun_same`: if two runs r1, r2 that have not started execute the same operation list
    anywhere inside a schedule – one after the other, in either order, interleaved with each other,
    with any other runs before, between and during – then run r2's arena is run r1's arena with
    the region renamed: the same objects, the same sharing, the same values. -/
theorem rerun_same {s : Sched} (hs : SchedFixed s) {h : Heap} (hS : Sep h) {r1 r2 : Nat} {ops : List Op}
    (h1 : h.arena (.run r1) = []) (h2 : h.arena (.run r2) = [])
    (p1 : proj r1 s = solo r1 ops) (p2 : proj r2 s = solo r2 ops) :
    (exec s h).arena (.run r2) = ((exec s h).arena (.run r1)).map (renCell r1 r2) := by
  have hops : ∀ o ∈ ops, o.fixed = true := by
    intro o ho
    have hm : (r1, o) ∈ proj r1 s := by rw [p1]; exact List.mem_map.2 ⟨o, ho, rfl⟩
    exact hs _ (List.mem_filter.1 hm).1
  have hT0 : Twin r1 r2 h h := ⟨fun _ _ => rfl, by rw [h1, h2]; rfl⟩
  have hT := exec_solo_twin hops hS hT0
  rw [interleaving_commutes hs hS r2, interleaving_commutes hs hS r1, p1, p2]
  exact hT.own

example : (exec exSched exH).arena (.run 3) = ((exec exSched exH).arena (.run 1)).map (renCell 1 3) :=
  rerun_same (s := exSched) (h := exH) (r1 := 1) (r2 := 3) (ops := exOps) exSched_fixed (sep_init _ _) rfl rfl
    (by decide) (by decide)

/-- …consequently the final contexts of the two runs are deep-equal (any fuel). -/
theorem rerun_same_context {s : Sched} (hs : SchedFixed s) {h : Heap} (hS : Sep h) {r1 r2 : Nat}
    {ops : List Op} (h1 : h.arena (.run r1) = []) (h2 : h.arena (.run r2) = [])
    (p1 : proj r1 s = solo r1 ops) (p2 : proj r2 s = solo r2 ops) (n : Nat) :
    deepVal n (exec s h) (root r2) = deepVal n (exec s h) (root r1) := by
  have hT : Twin r1 r2 (exec s h) (exec s h) := ⟨fun _ _ => rfl, rerun_same hs hS h1 h2 p1 p2⟩
  have := deepVal_twin (exec_sep hs hS) hT n (x := root r1) rfl
  rwa [ren_root] at this

example : deepVal 9 (exec exSched exH) (root 3) = deepVal 9 (exec exSched exH) (root 1) :=
  rerun_same_context (s := exSched) (h := exH) (r1 := 1) (r2 := 3) (ops := exOps) exSched_fixed (sep_init _ _)
    rfl rfl (by decide) (by decide) 9

/-- Re-running later in the same process: run r2 executing `ops` after ANY history `s` of other
    runs (which included run r1 executing `ops` alone from the loader state) ends with the context
    run r1 ended with. -/
theorem rerun_after_history (defs : List Block) (cfg : Block) {s : Sched} (hs : SchedFixed s)
    {r1 r2 : Nat} {ops : List Op} (hops : ∀ o ∈ ops, o.fixed = true)
    (p1 : proj r1 s = solo r1 ops) (p2 : proj r2 s = []) (n : Nat) :
    deepVal n (exec (s ++ solo r2 ops) (Heap.init defs cfg)) (root r2) =
      deepVal n (exec (solo r1 ops) (Heap.init defs cfg)) (root r1) := by
  have hs' : SchedFixed (s ++ solo r2 ops) := by
    intro e he
    rcases List.mem_append.1 he with h | h
    · exact hs e h
    · obtain ⟨o, ho, rfl⟩ := List.mem_map.1 h
      exact hops o ho
  have hne : r1 ≠ r2 ∨ ops = [] := by
    by_cases hr : r1 = r2
    · subst hr
      rw [p1] at p2
      right
      cases ops with
      | nil => rfl
      | cons o rest => cases p2
    · exact Or.inl hr
  have q1 : proj r1 (s ++ solo r2 ops) = solo r1 ops := by
    rcases hne with hne | hnil
    · have : proj r1 (solo r2 ops) = [] := by
        simp only [proj, solo, List.filter_eq_nil_iff, List.mem_map, decide_eq_true_eq]
        rintro e ⟨o, _, rfl⟩; exact fun e => hne e.symm
      simp only [proj, List.filter_append] at this p1 ⊢
      rw [p1, this, List.append_nil]
    · subst hnil; simpa [proj, solo] using p1
  have q2 : proj r2 (s ++ solo r2 ops) = solo r2 ops := by
    have : proj r2 (solo r2 ops) = solo r2 ops := by
      simp only [proj, solo, List.filter_eq_self, List.mem_map, decide_eq_true_eq]
      rintro e ⟨o, _, rfl⟩; rfl
    simp only [proj, List.filter_append] at this p2 ⊢
    rw [p2, this, List.nil_append]
  rw [rerun_same_context hs' (sep_init _ _) rfl rfl q1 q2 n,
      interleaving_same_context hs' (sep_init _ _) r1 n, q1]

/-! ### 5. the pre-repair code breaks all of this -/

/-- the F4 pipeline as the OLD code ran it: `context.update(self.in_parameters)` -/
def oldOps : List Op :=
  [.start [.dict []], .inAlias "lst" ⟨.defn 0, 1⟩, .appendAt [.key "lst"] [.leaf (.int 1)]]
/-- …and as the code runs it now -/
def newOps : List Op :=
  [.start [.dict []], .inCopy "lst" ⟨.defn 0, 1⟩, .appendAt [.key "lst"] [.leaf (.int 1)]]
/-- old `configvars` (`context.update(config.vars)`) followed by an in-place nested assignment -/
def oldCfgOps : List Op :=
  [.start [.dict []], .configvarsAlias, .dictSetAt [.key "cv"] "n" [.leaf (.int 9)]]
def newCfgOps : List Op :=
  [.start [.dict []], .configvarsCopy, .dictSetAt [.key "cv"] "n" [.leaf (.int 9)]]

/-- `aliasing_counterexample_pre_fix`: with the old aliasing operations one run changes the cached
    definition (`[0]` becomes `[0, 1]`, and `[0, 1, 1]` after a second run, whose context therefore
    differs from the first run's) and the configuration; separation is lost; the same programs
    with the copying operations of the repaired code change nothing. -/
theorem aliasing_counterexample_pre_fix :
    -- old `in`: the definition arena changes, deep value [0] → [0, 1] → [0, 1, 1]
    (exec (solo 1 oldOps) exH).arena (.defn 0) ≠ exH.arena (.defn 0) ∧
    deepVal 5 exH ⟨.defn 0, 1⟩ = .list [.int 0] ∧
    deepVal 5 (exec (solo 1 oldOps) exH) ⟨.defn 0, 1⟩ = .list [.int 0, .int 1] ∧
    deepVal 5 (exec (solo 1 oldOps ++ solo 2 oldOps) exH) ⟨.defn 0, 1⟩ = .list [.int 0, .int 1, .int 1] ∧
    -- the second run's context differs from the first's, and the definition object is reachable from a context
    deepVal 5 (exec (solo 1 oldOps ++ solo 2 oldOps) exH) (root 2) ≠
      deepVal 5 (exec (solo 1 oldOps) exH) (root 1) ∧
    foreignReach 20 (exec (solo 1 oldOps) exH) 1 = [⟨.defn 0, 1⟩] ∧
    -- old configvars: config changes
    (exec (solo 1 oldCfgOps) exH).arena .config ≠ exH.arena .config ∧
    deepVal 5 (exec (solo 1 oldCfgOps) exH) varsRef = .dict [(.str "cv", .dict [(.str "n", .int 9)])] ∧
    -- the code as it is now: nothing shared changes, nothing foreign is reachable, re-run is equal
    (exec (solo 1 newOps ++ solo 2 newOps) exH).arena (.defn 0) = exH.arena (.defn 0) ∧
    (exec (solo 1 newCfgOps) exH).arena .config = exH.arena .config ∧
    foreignReach 20 (exec (solo 1 newOps) exH) 1 = [] ∧
    foreignReach 20 (exec (solo 1 newCfgOps) exH) 1 = [] ∧
    deepVal 5 (exec (solo 1 newOps ++ solo 2 newOps) exH) (root 2) =
      deepVal 5 (exec (solo 1 newOps) exH) (root 1) := by
  decide +kernel

/-- `config.vars = {}` (cell 0) and `config.shortcuts = {sc: {parser_args: [a]}}` (cells 1…4). -/
def exCfgSc : Block := [.dict [], .dict [("sc", 2)], .dict [("parser_args", 3)], .list [4], .leaf (.str "a")]
/-- `Pipeline.new_pipe_and_args` before commit 5922e42: with no cli args the shortcut's own
    `parser_args` list became `context_args`, and `pypyr.parser.list` stores that very list under
    `argList` – the `inAlias` shape on a config object; then `pypyr.steps.append` on `argList`. -/
def oldParserOps : List Op :=
  [.start [.dict []], .inAlias "argList" ⟨.config, 3⟩, .appendAt [.key "argList"] [.leaf (.str "x")]]
/-- the code as it is now (`list(parser_args)`): a fresh list of the (atom) arguments -/
def newParserOps : List Op :=
  [.start [.dict []], .setKey "argList" [.list [1], .leaf (.str "a")], .appendAt [.key "argList"] [.leaf (.str "x")]]

/-- The same defect shape on `config.shortcuts[..]['parser_args']` (found by this property's
    harness, repaired by 5922e42): the old code changes the configuration and the second run's
    context differs from the first's; the repaired code does neither. -/
theorem aliasing_counterexample_parser_args_pre_fix :
    (exec (solo 1 oldParserOps) (Heap.init [] exCfgSc)).arena .config ≠ (Heap.init [] exCfgSc).arena .config ∧
    deepVal 5 (exec (solo 1 oldParserOps) (Heap.init [] exCfgSc)) (root 1) =
      .dict [(.str "argList", .list [.str "a", .str "x"])] ∧
    deepVal 5 (exec (solo 1 oldParserOps ++ solo 2 oldParserOps) (Heap.init [] exCfgSc)) (root 2) =
      .dict [(.str "argList", .list [.str "a", .str "x", .str "x"])] ∧
    foreignReach 20 (exec (solo 1 oldParserOps) (Heap.init [] exCfgSc)) 1 = [⟨.config, 3⟩] ∧
    (exec (solo 1 newParserOps ++ solo 2 newParserOps) (Heap.init [] exCfgSc)).arena .config =
      (Heap.init [] exCfgSc).arena .config ∧
    deepVal 5 (exec (solo 1 newParserOps ++ solo 2 newParserOps) (Heap.init [] exCfgSc)) (root 2) =
      .dict [(.str "argList", .list [.str "a", .str "x"])] ∧
    foreignReach 20 (exec (solo 1 newParserOps) (Heap.init [] exCfgSc)) 1 = [] := by
  decide +kernel

/-- The old operations are exactly what `Sep` excludes: after the old `in` the run's context
    object references a definition object. -/
theorem aliasing_breaks_sep : ¬ Sep (exec (solo 1 oldOps) exH) := by
  intro hS
  have := hS (.run 1) (.dict [("lst", ⟨.defn 0, 1⟩)]) (by decide +kernel) ⟨.defn 0, 1⟩ (by decide)
  cases this

/-! ### 6. decorator inputs are copied by formatting before use

  `Step.foreach_loop` binds `context['i']` to an item of
  `context.get_formatted_value(self.foreach_items)`, `Step.save_error` stores the formatted `onError`
  value under `context['runErrors']`: operation `fmtSetAt path k src keep` of the model.  A formatter
  REBUILDS an object or RETURNS IT AS IT IS (`keep`, see `RunHeap.shiftKeep`); the code as it is
  rebuilds every container, also an empty one (`keep = []`), and is then part of the fixed operation
  language: every theorem above covers it.  -/

/-- Formatting a (brace-free) definition object with a formatter that rebuilds every container IS a
    deep copy: binding a formatted item under `key` has exactly the effect of the `in` deep copy. -/
theorem fmt_rebuild_is_deep_copy (h : Heap) (r : Nat) (key : String) (src : Ref) :
    effect h r (.fmtSetAt [] key src []) = effect h r (.inCopy key src) := by
  simp only [effect, resolve, fmtArena_nil, shiftKeep_nil]
  split
  · rename_i hg
    cases hc : h.get? (root r) with
    | none => rfl
    | some c =>
      cases c with
      | leaf v => rfl
      | list rs => rfl
      | dict kvs => simp only [shiftRef_reg]
  · rfl

/-- Definition 0 is a step with `foreach: [{name: web, done: []}]`: cell 0 the foreach list, cell 1
    the item, cell 2 the atom, cell 3 the EMPTY list. -/
def fmDefs : List Block := [[.list [1], .dict [("name", 2), ("done", 3)], .leaf (.str "web"), .list []]]
def fmH : Heap := Heap.init fmDefs [.dict []]

/-- one run: `i` bound to the formatted item, the step body fills `i['done']` in place
    (`pypyr.steps.contextmerge` extends lists in place, `py`: `i['done'].append(…)`) -/
def fmOps (keep : List Nat) : List Op :=
  [.start [.dict []], .fmtSetAt [] "i" ⟨.defn 0, 1⟩ keep,
   .appendAt [.key "i", .key "done"] [.leaf (.str "checked")]]

example : SchedFixed (solo 1 (fmOps []) ++ solo 2 (fmOps [])) := by decide

example : Sep (exec (solo 1 (fmOps []) ++ solo 2 (fmOps [])) fmH) :=
  sep_invariant (s := solo 1 (fmOps []) ++ solo 2 (fmOps [])) (h := fmH) (by decide) (sep_init _ _)

example : (exec (solo 1 (fmOps []) ++ solo 2 (fmOps [])) fmH).arena (.defn 0) = fmH.arena (.defn 0) :=
  defs_unchanged (s := solo 1 (fmOps []) ++ solo 2 (fmOps [])) (h := fmH) (by decide) (sep_init _ _) (.defn 0) rfl

/-- `formatter_returns_container_counterexample`: a formatter that hands ONE container back as it is
    (here the empty list, cell 3: "nothing to format in there") breaks every statement above: the
    definition object is reachable from the context, the step body changes the cached definition
    (`done: []` becomes `[checked]`, then `[checked, checked]`), the second run's context differs
    from the first's.  With the formatter as it is (`keep = []`) none of that happens. -/
theorem formatter_returns_container_counterexample :
    foreignReach 20 (exec (solo 1 (fmOps [3])) fmH) 1 = [⟨.defn 0, 3⟩] ∧
    (exec (solo 1 (fmOps [3])) fmH).arena (.defn 0) ≠ fmH.arena (.defn 0) ∧
    deepVal 5 fmH ⟨.defn 0, 1⟩ = .dict [(.str "name", .str "web"), (.str "done", .list [])] ∧
    deepVal 5 (exec (solo 1 (fmOps [3])) fmH) ⟨.defn 0, 1⟩ =
      .dict [(.str "name", .str "web"), (.str "done", .list [.str "checked"])] ∧
    deepVal 5 (exec (solo 1 (fmOps [3]) ++ solo 2 (fmOps [3])) fmH) (root 2) ≠
      deepVal 5 (exec (solo 1 (fmOps [3])) fmH) (root 1) ∧
    -- the formatter as it is
    foreignReach 20 (exec (solo 1 (fmOps [])) fmH) 1 = [] ∧
    (exec (solo 1 (fmOps []) ++ solo 2 (fmOps [])) fmH).arena (.defn 0) = fmH.arena (.defn 0) ∧
    deepVal 5 (exec (solo 1 (fmOps []) ++ solo 2 (fmOps [])) fmH) (root 2) =
      deepVal 5 (exec (solo 1 (fmOps [])) fmH) (root 1) ∧
    deepVal 5 (exec (solo 1 (fmOps [])) fmH) (root 1) =
      .dict [(.str "i", .dict [(.str "name", .str "web"), (.str "done", .list [.str "checked"])])] := by
  decide +kernel

/-! ### 7. a run that is over is left alone; objects that outlive a run

  A `pypyr.pipeline.Pipeline` object can be run again (`obj.run(context)` with another `Context`).
  What the object keeps between two calls is `steps_runner` (`RunHeap.PipeObj`); the code as it is
  builds a new `StepsRunner` for the context of every call (`RunnerRule.perCall`), so the operations
  of a call act on the context handed to THAT call whatever the object went through before. -/

theorem exec_append (s1 s2 : Sched) (h : Heap) : exec (s1 ++ s2) h = exec s2 (exec s1 h) := by
  induction s1 generalizing h with
  | nil => rfl
  | cons e rest ih => exact ih _

/-- `finished_run_unchanged`: whatever runs after run r's last operation – the same pipeline again,
    other pipelines, any number of runs, interleaved in any way – leaves every object of run r,
    hence its final context, exactly as it was. -/
theorem finished_run_unchanged {s1 s2 : Sched} (hs : SchedFixed (s1 ++ s2)) {h : Heap} (hS : Sep h)
    (r : Nat) (hp : proj r s2 = []) :
    (exec (s1 ++ s2) h).arena (.run r) = (exec s1 h).arena (.run r) := by
  have h1 : SchedFixed s1 := fun e he => hs e (List.mem_append_left _ he)
  have h2 : SchedFixed s2 := fun e he => hs e (List.mem_append_right _ he)
  rw [exec_append, interleaving_commutes h2 (exec_sep h1 hS) r, hp]
  rfl

theorem finished_run_same_context {s1 s2 : Sched} (hs : SchedFixed (s1 ++ s2)) {h : Heap} (hS : Sep h)
    (r : Nat) (hp : proj r s2 = []) (n : Nat) :
    deepVal n (exec (s1 ++ s2) h) (root r) = deepVal n (exec s1 h) (root r) :=
  deepVal_region (exec_sep (fun e he => hs e (List.mem_append_left _ he)) hS)
    (finished_run_unchanged hs hS r hp) n rfl

example : (exec (solo 1 exOps ++ solo 2 exOps) exH).arena (.run 1) = (exec (solo 1 exOps) exH).arena (.run 1) :=
  finished_run_unchanged (s1 := solo 1 exOps) (s2 := solo 2 exOps) (h := exH) (by decide) (sep_init _ _) 1
    (by decide)

/-- `calls_perCall`: with a `StepsRunner` per call, a history of calls – on one object, on several,
    in whatever state those objects are – performs, call after call, the operations of that call on
    the context handed to that call. -/
theorem calls_perCall (objs : Objs) (cs : List Call) :
    callsSched .perCall objs cs = cs.flatMap fun c => c.sched c.run := by
  induction cs generalizing objs with
  | nil => rfl
  | cons c rest ih => simp only [callsSched, PipeObj.call, List.flatMap_cons, ih]

/-- …so running an object again is running a fresh object: the operations are the same as when
    every call gets a `Pipeline` object of its own that has never run. -/
theorem reused_object_same_as_fresh (objs : Objs) (cs : List Call) :
    callsSched .perCall objs cs = callsSched .perCall Objs.fresh (cs.map fun c => { c with obj := c.run }) := by
  rw [calls_perCall, calls_perCall, List.flatMap_map]
  rfl

def exPre : List Op := [.start [.dict [("log", 1)], .list []]]
def exSteps : List (Option Nat × Op) := [(none, .appendAt [.key "log"] [.leaf (.str "tallied")])]

/-- object 0 is called for runs 1, 2 and 3 with the same program -/
def exCalls : List Call := [⟨0, 1, exPre, exSteps⟩, ⟨0, 2, exPre, exSteps⟩, ⟨0, 3, exPre, exSteps⟩]

example : callsSched .perCall Objs.fresh exCalls =
    callsSched .perCall Objs.fresh [⟨1, 1, exPre, exSteps⟩, ⟨2, 2, exPre, exSteps⟩, ⟨3, 3, exPre, exSteps⟩] :=
  reused_object_same_as_fresh Objs.fresh exCalls

/-- `reused_object_rerun_same`: after ANY history of calls `cs` (any objects, any object states)
    that contained the call `c1` on a context of its own, one more call `c2` – on any object, for
    instance the one `c1` used – with the same program `ops` on a new context ends with the context
    `c1` ends with when it is the only run of the process.  (Calls without nested child runs: the
    operations of `c1` and `c2` are `ops` on their own context.) -/
theorem reused_object_rerun_same (defs : List Block) (cfg : Block) (objs : Objs) (cs : List Call) (c1 c2 : Call)
    {ops : List Op} (hfix : SchedFixed (callsSched .perCall objs cs)) (hops : ∀ o ∈ ops, o.fixed = true)
    (hc1 : c1.sched c1.run = solo c1.run ops) (hc2 : c2.sched c2.run = solo c2.run ops)
    (hp1 : proj c1.run (callsSched .perCall objs cs) = solo c1.run ops)
    (hp2 : proj c2.run (callsSched .perCall objs cs) = []) (n : Nat) :
    deepVal n (exec (callsSched .perCall objs (cs ++ [c2])) (Heap.init defs cfg)) (root c2.run) =
      deepVal n (exec (c1.sched c1.run) (Heap.init defs cfg)) (root c1.run) := by
  have happ : callsSched .perCall objs (cs ++ [c2]) = callsSched .perCall objs cs ++ solo c2.run ops := by
    simp only [calls_perCall, List.flatMap_append, List.flatMap_cons, List.flatMap_nil, List.append_nil, hc2]
  rw [happ, hc1]
  exact rerun_after_history defs cfg hfix hops hp1 hp2 n

example : deepVal 5 (exec (callsSched .perCall Objs.fresh exCalls) (Heap.init [] [.dict []])) (root 3) =
    deepVal 5 (exec ((⟨0, 1, exPre, exSteps⟩ : Call).sched 1) (Heap.init [] [.dict []])) (root 1) :=
  reused_object_rerun_same [] [.dict []] Objs.fresh (exCalls.take 2) ⟨0, 1, exPre, exSteps⟩ ⟨0, 3, exPre, exSteps⟩
    (ops := exPre ++ exSteps.map (·.2)) (by decide) (by decide) (by decide) (by decide) (by decide) (by decide) 5

/-- `runner_kept_counterexample`: a `Pipeline` object that keeps its first `StepsRunner`
    (`RunnerRule.keepFirst`) runs the steps of the later calls on the FIRST call's context: run 1's
    objects change after run 1 is over, runs 2 and 3 leave the context they were given as it was,
    and run 3 – same program, equal initial context – does not end like run 1.  With a runner per
    call (the code as it is) none of that happens. -/
theorem runner_kept_counterexample :
    let h0 := Heap.init [] [.dict []]
    let one := callsSched .keepFirst Objs.fresh (exCalls.take 1)
    let all := callsSched .keepFirst Objs.fresh exCalls
    deepVal 5 (exec one h0) (root 1) = .dict [(.str "log", .list [.str "tallied"])] ∧
    deepVal 5 (exec all h0) (root 1) = .dict [(.str "log", .list [.str "tallied", .str "tallied", .str "tallied"])] ∧
    deepVal 5 (exec all h0) (root 3) = .dict [(.str "log", .list [])] ∧
    -- a runner per call
    deepVal 5 (exec (callsSched .perCall Objs.fresh exCalls) h0) (root 1) = .dict [(.str "log", .list [.str "tallied"])] ∧
    deepVal 5 (exec (callsSched .perCall Objs.fresh exCalls) h0) (root 3) = .dict [(.str "log", .list [.str "tallied"])] := by
  decide +kernel

end Pypyr.C12
