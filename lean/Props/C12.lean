/-
  C12 — runs are independent: executing a pipeline never modifies the shared, cached state
  (pipeline definitions, configuration), and therefore a run gives the same result whatever ran
  before it, between its steps, or concurrently.

  Theorems about the heap-level model `PypyrModel/Heap.lean` (objects with identity, regions
  `defn p` / `config` / `run r`, the operation language `Op` of what the code does to objects),
  for EVERY heap satisfying the invariant, EVERY schedule (global order of the operations of any
  number of runs, any operation lists, any interleaving at operation granularity).  Proofs are by
  induction over the schedule on top of an invariant (`Sep`) and a simulation relation (`Twin`);
  helper lemmas: `Props/Lemmas/C12_Basic.lean`, `C12_Sep.lean`, `C12_Twin.lean`.

  "Fixed" operations (`Op.fixed`, `SchedFixed`) are the operation language of the code as it is
  now: `inCopy` / `configvarsCopy` (deep copies).  The two excluded constructors `inAlias` /
  `configvarsAlias` are the pre-repair code (DESIGN §5 F4); `aliasing_counterexample_pre_fix`
  shows every theorem below fails for them.

  Section 6: decorator inputs of the definition that are COPIED BY FORMATTING before use (foreach
  items, onError): operation `fmtSetAt … keep`, where `keep` = the objects a formatter hands back as
  they are instead of rebuilding them; the code as it is rebuilds every container, also an empty one
  (`keep = []`, part of the fixed language), `formatter_returns_container_counterexample` shows what
  one kept container does.  Section 7: runs that are over are never touched again
  (`finished_run_unchanged`), and `pypyr.pipeline.Pipeline` objects that are run again
  (`RunHeap.PipeObj`, `callsSched`): with a `StepsRunner` per call the object carries nothing from
  one call to the next (`calls_perCall`, `reused_object_same_as_fresh`, `reused_object_rerun_same`);
  `runner_kept_counterexample`: a runner kept on the object breaks it.

  An operation that has no effect RAISES and ends its run (`RunHeap.State.dead`): every statement about
  a run's result is about its arena AND its outcome.  Section 8: the READING of steps (`RunHeap.Instr`,
  `opsOf`) is part of the model: `reading_is_fixed`, schedules at step granularity,
  `interleaving_commutes_steps`, `rerun_same_trace` (equal programs, not equal operation lists).
  Section 9: shared by reference but never written (`tuple_and_atom_immutable`,
  `defs_unchanged_shared_readonly`, what a `Pipeline` object holds).

  Section 11: where the definitions come from (`PypyrModel/LoadHist.lean`): a loader with hidden state,
  histories of cache look-ups / clears / direct loads; under the ASSUMPTION `Loader.TextOnly` ("the loader
  is a function of the file text alone", checked on the real loaders by the harness stream `loads`)
  `cached_is_fresh_load`, `load_order_independent`, `loaded_arena_any_order`, `rerun_after_any_load_order`;
  `shared_parser_counterexample` = one parser object kept between loads.

  Not claimed here (model limits): interleavings below operation granularity; module-level state
  outside definitions/config enters only through `Loader`'s hidden state (the yaml library itself is not
  modelled: `TextOnly` is an assumption the harness tests); paths do not lead through the attributes of
  opaque objects.
-/
import Props.Lemmas.C12_Read
import Props.Lemmas.C12_Frozen
import PypyrModel.LoadHist

namespace Pypyr.C12
open Pypyr.RunHeap

/-! ### running example: the F4 pipeline and a config
  Definition 0 is `in: {lst: [0]}`: cell 0 the `in` mapping, cell 1 the list, cell 2 the atom.
  `config.vars` is `{cv: {n: 1}}`. -/
def exDefs : List Block := [[.dict [("lst", 1)], .list [2], .leaf (.int 0)]]
def exCfg : Block := [.dict [("cv", 1)], .dict [("n", 2)], .leaf (.int 1)]
def exH : Heap := Heap.init exDefs exCfg
/-- the process right after loading: no run has started, none has failed -/
def exSt : State := State.loaded exDefs exCfg

theorem exSt_sep : Sep exSt.heap := init_sep _ _ (by decide) (by decide)

/-- one run of the example pipeline: context `{a: 5}`, `in` argument copied, list appended to in
    place, config vars copied and a nested value overwritten in place, `in` argument removed -/
def exOps : List Op :=
  [.start [.dict [("a", 1)], .leaf (.int 5)],
   .inCopy "lst" ⟨.defn 0, 1⟩,
   .appendAt [.key "lst"] [.leaf (.int 1)],
   .copyKey "lst" "keep",
   .configvarsCopy,
   .dictSetAt [.key "cv"] "n" [.leaf (.int 9)],
   .unsetIn "lst"]

/-- runs 1 and 2 interleaved operation by operation, run 3 afterwards -/
def exSched : Sched :=
  (List.zip (solo 1 exOps) (solo 2 exOps)).flatMap (fun p => [p.1, p.2]) ++ solo 3 exOps

theorem exSched_fixed : SchedFixed exSched := by decide

example : deepVal 9 (exec exSched exSt).heap (root 1) =
    .dict [(.str "a", .int 5), (.str "keep", .list [.int 0, .int 1]),
           (.str "cv", .dict [(.str "n", .int 9)])] := by decide +kernel

/-! ### 1. the separation invariant -/

/-- `Sep` read region by region: the objects of every run reference that run's objects only,
    every definition / the configuration is a closed object graph of plain data. -/
theorem sep_iff_closed (h : Heap) :
    Sep h ↔ (∀ r, ∀ c ∈ h.arena (.run r), ∀ x ∈ c.refs, x.reg = .run r) ∧
            (∀ g, g.isShared = true → ∀ c ∈ h.arena g, (∀ x ∈ c.refs, x.reg = g) ∧ c.isObj = false) := by
  constructor
  · intro hS
    exact ⟨fun r => hS.closed (.run r), fun g hg c hc => ⟨hS.closed g c hc, hS.plain g hg c hc⟩⟩
  · intro ⟨hr, hs⟩
    refine ⟨?_, fun g hg c hc => (hs g hg c hc).2⟩
    intro g
    cases g with
    | run r => exact hr r
    | defn p => exact fun c hc => (hs _ rfl c hc).1
    | config => exact fun c hc => (hs _ rfl c hc).1

/-- What the loaders produce is separated: no well-formedness condition on the shape of the blocks is
    needed (a relocated block references its own region by construction), only that they are plain data
    (`PlainBlock`: no opaque objects – yaml, toml and json loaders build dicts, lists, sets and atoms). -/
theorem sep_init (defs : List Block) (cfg : Block) (hd : ∀ b ∈ defs, PlainBlock b) (hc : PlainBlock cfg) :
    Sep (State.loaded defs cfg).heap := init_sep defs cfg hd hc

example : Sep exSt.heap := exSt_sep

/-- Every operation of the code as it is now preserves separation, for every run. -/
theorem sep_step {st : State} (hS : Sep st.heap) (r : Nat) {op : Op} (hf : op.fixed = true) :
    Sep (step st r op).heap := step_sep hS r hf

example : Sep (step (step exSt 1 (.start [.dict []])) 1 (.inCopy "lst" ⟨.defn 0, 1⟩)).heap :=
  sep_step (sep_step exSt_sep 1 rfl) 1 rfl

/-- `sep_invariant`: separation holds after any schedule of any number of runs. -/
theorem sep_invariant {s : Sched} (hs : SchedFixed s) {st : State} (hS : Sep st.heap) : Sep (exec s st).heap :=
  exec_sep hs hS

example : Sep (exec exSched exSt).heap := sep_invariant (s := exSched) (st := exSt) exSched_fixed exSt_sep

/-- From a context, nothing but the run's own objects can be reached: `Sep` is what the
    id()-graph observation of the harness (`foreignReach = ∅`) sees. -/
theorem reach_own {h : Heap} (hS : Sep h) {r : Nat} {p : Path} {x : Ref}
    (hx : resolve h (root r) p = some x) : x.reg = .run r := resolve_reg hS hx

example : resolve (exec exSched exSt).heap (root 1) [.key "cv", .key "n"] = some ⟨.run 1, 9⟩ := by
  decide +kernel

/-! ### 2. definitions and configuration are never modified -/

/-- `defs_unchanged`: after any schedule every shared arena – every cached definition, the
    configuration – is exactly (object for object) what it was. -/
theorem defs_unchanged {s : Sched} (hs : SchedFixed s) {st : State} (hS : Sep st.heap) :
    ∀ g, g.isShared = true → (exec s st).heap.arena g = st.heap.arena g :=
  fun _ hg => exec_arena_shared hs hS hg

example : (exec exSched exSt).heap.arena (.defn 0) = exSt.heap.arena (.defn 0) :=
  defs_unchanged (s := exSched) (st := exSt) exSched_fixed exSt_sep (.defn 0) rfl

/-- "After any run every cached definition is deep-equal to what its loader produced": the deep
    value of every object of a shared region is unchanged (any fuel). -/
theorem defs_deep_equal {s : Sched} (hs : SchedFixed s) {st : State} (hS : Sep st.heap) (n : Nat) {x : Ref}
    (hx : x.reg.isShared = true) : deepVal n (exec s st).heap x = deepVal n st.heap x :=
  deepVal_region hS (defs_unchanged hs hS _ hx) n rfl

/-- the same, spelled out for the state the loaders produced -/
theorem defs_equal_loader (defs : List Block) (cfg : Block) (hd : ∀ b ∈ defs, PlainBlock b) (hc : PlainBlock cfg)
    {s : Sched} (hs : SchedFixed s) (n p i : Nat) :
    deepVal n (exec s (State.loaded defs cfg)).heap ⟨.defn p, i⟩ = deepVal n (Heap.init defs cfg) ⟨.defn p, i⟩ ∧
    deepVal n (exec s (State.loaded defs cfg)).heap ⟨.config, i⟩ = deepVal n (Heap.init defs cfg) ⟨.config, i⟩ :=
  ⟨defs_deep_equal hs (sep_init _ _ hd hc) n rfl, defs_deep_equal hs (sep_init _ _ hd hc) n rfl⟩

example : deepVal 5 (exec exSched exSt).heap ⟨.defn 0, 0⟩ = .dict [(.str "lst", .list [.int 0])] ∧
    deepVal 5 (exec exSched exSt).heap varsRef = .dict [(.str "cv", .dict [(.str "n", .int 1)])] := by
  decide +kernel

/-! ### 3. interleaving -/

/-- `interleaving_commutes`: in any schedule, run r ends with exactly the arena it produces when
    its operations run alone from the same state, AND WITH THE SAME OUTCOME: it is over because an
    operation raised in the one iff it is in the other (then at the same operation: what was executed
    before is the same).  The operations of other runs – also those that raise and end THEIR run –
    neither write to run r's objects nor change anything run r's operations read. -/
theorem interleaving_commutes {s : Sched} (hs : SchedFixed s) {st : State} (hS : Sep st.heap) (r : Nat) :
    (exec s st).heap.arena (.run r) = (exec (proj r s) st).heap.arena (.run r) ∧
    (exec s st).dead r = (exec (proj r s) st).dead r := by
  have hT := exec_proj_twin (r := r) hs hS (twin_refl r st)
  refine ⟨?_, hT.dead.symm⟩
  rw [hT.heap.own, map_renCell_self]

example : (exec exSched exSt).heap.arena (.run 2) = (exec (solo 2 exOps) exSt).heap.arena (.run 2) :=
  (interleaving_commutes (s := exSched) (st := exSt) exSched_fixed exSt_sep 2).1

/-- run 1 raises at its third operation (append to a key that is not there), run 2 goes on: -/
def exFailOps : List Op :=
  [.start [.dict [("a", 1)], .leaf (.int 5)], .setKey "b" [.list []], .appendAt [.key "nokey"] [.leaf (.int 1)],
   .setKey "after" [.leaf (.int 1)]]
def exFailSched : Sched :=
  (List.zip (solo 1 exFailOps) (solo 2 exOps)).flatMap (fun p => [p.1, p.2]) ++ solo 2 (exOps.drop 4)

/-- …run 1 is over with the context it had when the operation raised (`after` is never set), run 2
    ends as it does alone, and both facts are instances of `interleaving_commutes`. -/
example : (exec exFailSched exSt).dead 1 = true ∧ (exec exFailSched exSt).dead 2 = false ∧
    deepVal 5 (exec exFailSched exSt).heap (root 1) = .dict [(.str "a", .int 5), (.str "b", .list [])] ∧
    deepVal 9 (exec exFailSched exSt).heap (root 2) = deepVal 9 (exec (solo 2 exOps) exSt).heap (root 2) := by
  decide +kernel

/-- The whole heap after a schedule, and which runs are over, is determined by the per-run operation
    sequences: two interleavings of the same runs end in the same state. -/
theorem interleavings_agree {s1 s2 : Sched} (h1 : SchedFixed s1) (h2 : SchedFixed s2) {st : State}
    (hS : Sep st.heap) (hp : ∀ r, proj r s1 = proj r s2) :
    (∀ g, (exec s1 st).heap.arena g = (exec s2 st).heap.arena g) ∧ (∀ r, (exec s1 st).dead r = (exec s2 st).dead r) := by
  refine ⟨?_, fun r => by rw [(interleaving_commutes h1 hS r).2, (interleaving_commutes h2 hS r).2, hp r]⟩
  intro g
  cases g with
  | run r => rw [(interleaving_commutes h1 hS r).1, (interleaving_commutes h2 hS r).1, hp r]
  | defn p => rw [defs_unchanged h1 hS _ rfl, defs_unchanged h2 hS _ rfl]
  | config => rw [defs_unchanged h1 hS _ rfl, defs_unchanged h2 hS _ rfl]

example : ∀ g, (exec exSched exSt).heap.arena g = (exec (solo 3 exOps ++ solo 2 exOps ++ solo 1 exOps) exSt).heap.arena g :=
  (interleavings_agree (s1 := exSched) (s2 := solo 3 exOps ++ solo 2 exOps ++ solo 1 exOps) (st := exSt)
    exSched_fixed (by decide) exSt_sep (by
    intro r
    by_cases h1 : r = 1
    · subst h1; decide
    by_cases h2 : r = 2
    · subst h2; decide
    by_cases h3 : r = 3
    · subst h3; decide
    · have : ∀ s : Sched, (∀ e ∈ s, e.1 = 1 ∨ e.1 = 2 ∨ e.1 = 3) → proj r s = [] := by
        intro s hs
        simp only [proj, List.filter_eq_nil_iff, decide_eq_true_eq]
        intro e he
        rcases hs e he with h | h | h <;> omega
      rw [this _ (by decide), this _ (by decide)])).1

/-- Every observation of run r's final context (its deep value) is its solo observation. -/
theorem interleaving_same_context {s : Sched} (hs : SchedFixed s) {st : State} (hS : Sep st.heap) (r n : Nat) :
    deepVal n (exec s st).heap (root r) = deepVal n (exec (proj r s) st).heap (root r) := by
  have hp : SchedFixed (proj r s) := fun e he => hs e (List.mem_filter.1 he).1
  exact (deepVal_region (exec_sep hp hS) (interleaving_commutes hs hS r).1 n rfl)

/-! ### 4. running again gives the same result -/

/-- `rerun_same`: if two runs r1, r2 that have not started execute the same operation list
    anywhere inside a schedule – one after the other, in either order, interleaved with each other,
    with any other runs before, between and during – then run r2's arena is run r1's arena with
    the region renamed: the same objects, the same sharing, the same values; and run r2 is over
    (an operation raised) iff run r1 is. -/
theorem rerun_same {s : Sched} (hs : SchedFixed s) {st : State} (hS : Sep st.heap) {r1 r2 : Nat} {ops : List Op}
    (h1 : st.heap.arena (.run r1) = []) (h2 : st.heap.arena (.run r2) = []) (hd : st.dead r2 = st.dead r1)
    (p1 : proj r1 s = solo r1 ops) (p2 : proj r2 s = solo r2 ops) :
    (exec s st).heap.arena (.run r2) = ((exec s st).heap.arena (.run r1)).map (renCell r1 r2) ∧
    (exec s st).dead r2 = (exec s st).dead r1 := by
  have hops : ∀ o ∈ ops, o.fixed = true := by
    intro o ho
    have hm : (r1, o) ∈ proj r1 s := by rw [p1]; exact List.mem_map.2 ⟨o, ho, rfl⟩
    exact hs _ (List.mem_filter.1 hm).1
  have hT0 : Twin r1 r2 st st := ⟨⟨fun _ _ => rfl, by rw [h1, h2]; rfl⟩, hd⟩
  have hT := exec_solo_twin hops hS hT0
  rw [(interleaving_commutes hs hS r2).1, (interleaving_commutes hs hS r1).1,
      (interleaving_commutes hs hS r2).2, (interleaving_commutes hs hS r1).2, p1, p2]
  exact ⟨hT.heap.own, hT.dead⟩

example : (exec exSched exSt).heap.arena (.run 3) = ((exec exSched exSt).heap.arena (.run 1)).map (renCell 1 3) :=
  (rerun_same (s := exSched) (st := exSt) (r1 := 1) (r2 := 3) (ops := exOps) exSched_fixed exSt_sep rfl rfl rfl
    (by decide) (by decide)).1

/-- …consequently the final contexts of the two runs are deep-equal (any fuel). -/
theorem rerun_same_context {s : Sched} (hs : SchedFixed s) {st : State} (hS : Sep st.heap) {r1 r2 : Nat}
    {ops : List Op} (h1 : st.heap.arena (.run r1) = []) (h2 : st.heap.arena (.run r2) = [])
    (hd : st.dead r2 = st.dead r1)
    (p1 : proj r1 s = solo r1 ops) (p2 : proj r2 s = solo r2 ops) (n : Nat) :
    deepVal n (exec s st).heap (root r2) = deepVal n (exec s st).heap (root r1) := by
  have hT : HTwin r1 r2 (exec s st).heap (exec s st).heap := ⟨fun _ _ => rfl, (rerun_same hs hS h1 h2 hd p1 p2).1⟩
  have := deepVal_twin (exec_sep hs hS) hT n (x := root r1) rfl
  rwa [ren_root] at this

example : deepVal 9 (exec exSched exSt).heap (root 3) = deepVal 9 (exec exSched exSt).heap (root 1) :=
  rerun_same_context (s := exSched) (st := exSt) (r1 := 1) (r2 := 3) (ops := exOps) exSched_fixed exSt_sep
    rfl rfl rfl (by decide) (by decide) 9

/-- Re-running later in the same process: run r2 executing `ops` after ANY history `s` of other
    runs (which included run r1 executing `ops` alone from the loader state) ends with the context
    run r1 ended with, and with its outcome. -/
theorem rerun_after_history (defs : List Block) (cfg : Block) (hd : ∀ b ∈ defs, PlainBlock b) (hc : PlainBlock cfg)
    {s : Sched} (hs : SchedFixed s)
    {r1 r2 : Nat} {ops : List Op} (hops : ∀ o ∈ ops, o.fixed = true)
    (p1 : proj r1 s = solo r1 ops) (p2 : proj r2 s = []) (n : Nat) :
    deepVal n (exec (s ++ solo r2 ops) (State.loaded defs cfg)).heap (root r2) =
      deepVal n (exec (solo r1 ops) (State.loaded defs cfg)).heap (root r1) ∧
    (exec (s ++ solo r2 ops) (State.loaded defs cfg)).dead r2 = (exec (solo r1 ops) (State.loaded defs cfg)).dead r1 := by
  have hs' : SchedFixed (s ++ solo r2 ops) := hs.append (schedFixed_solo hops)
  have hS0 := sep_init defs cfg hd hc
  have hne : r1 ≠ r2 ∨ ops = [] := by
    by_cases hr : r1 = r2
    · subst hr
      rw [p1] at p2
      right
      cases ops with
      | nil => rfl
      | cons o rest => cases p2
    · exact Or.inl hr
  have q1 : proj r1 (s ++ solo r2 ops) = solo r1 ops := by
    rcases hne with hne | hnil
    · have : proj r1 (solo r2 ops) = [] := by
        simp only [proj, solo, List.filter_eq_nil_iff, List.mem_map, decide_eq_true_eq]
        rintro e ⟨o, _, rfl⟩; exact fun e => hne e.symm
      simp only [proj, List.filter_append] at this p1 ⊢
      rw [p1, this, List.append_nil]
    · subst hnil; simpa [proj, solo] using p1
  have q2 : proj r2 (s ++ solo r2 ops) = solo r2 ops := by
    have : proj r2 (solo r2 ops) = solo r2 ops := by
      simp only [proj, solo, List.filter_eq_self, List.mem_map, decide_eq_true_eq]
      rintro e ⟨o, _, rfl⟩; rfl
    simp only [proj, List.filter_append] at this p2 ⊢
    rw [p2, this, List.nil_append]
  refine ⟨?_, ?_⟩
  · rw [rerun_same_context (r1 := r1) (r2 := r2) hs' hS0 rfl rfl rfl q1 q2 n, interleaving_same_context hs' hS0 r1 n, q1]
  · rw [(rerun_same (r1 := r1) (r2 := r2) hs' hS0 rfl rfl rfl q1 q2).2, (interleaving_commutes hs' hS0 r1).2, q1]

/-! ### 5. the pre-repair code breaks all of this -/

/-- the F4 pipeline as the OLD code ran it: `context.update(self.in_parameters)` -/
def oldOps : List Op :=
  [.start [.dict []], .inAlias "lst" ⟨.defn 0, 1⟩, .appendAt [.key "lst"] [.leaf (.int 1)]]
/-- …and as the code runs it now -/
def newOps : List Op :=
  [.start [.dict []], .inCopy "lst" ⟨.defn 0, 1⟩, .appendAt [.key "lst"] [.leaf (.int 1)]]
/-- old `configvars` (`context.update(config.vars)`) followed by an in-place nested assignment -/
def oldCfgOps : List Op :=
  [.start [.dict []], .configvarsAlias, .dictSetAt [.key "cv"] "n" [.leaf (.int 9)]]
def newCfgOps : List Op :=
  [.start [.dict []], .configvarsCopy, .dictSetAt [.key "cv"] "n" [.leaf (.int 9)]]

/-- the heap after a schedule from the example's loader state -/
def exRun (s : Sched) : Heap := (exec s exSt).heap

/-- `aliasing_counterexample_pre_fix`: with the old aliasing operations one run changes the cached
    definition (`[0]` becomes `[0, 1]`, and `[0, 1, 1]` after a second run, whose context therefore
    differs from the first run's) and the configuration; separation is lost; the same programs
    with the copying operations of the repaired code change nothing. -/
theorem aliasing_counterexample_pre_fix :
    -- old `in`: the definition arena changes, deep value [0] → [0, 1] → [0, 1, 1]
    (exRun (solo 1 oldOps)).arena (.defn 0) ≠ exH.arena (.defn 0) ∧
    deepVal 5 exH ⟨.defn 0, 1⟩ = .list [.int 0] ∧
    deepVal 5 (exRun (solo 1 oldOps)) ⟨.defn 0, 1⟩ = .list [.int 0, .int 1] ∧
    deepVal 5 (exRun (solo 1 oldOps ++ solo 2 oldOps)) ⟨.defn 0, 1⟩ = .list [.int 0, .int 1, .int 1] ∧
    -- the second run's context differs from the first's, and the definition object is reachable from a context
    deepVal 5 (exRun (solo 1 oldOps ++ solo 2 oldOps)) (root 2) ≠
      deepVal 5 (exRun (solo 1 oldOps)) (root 1) ∧
    foreignReach 20 (exRun (solo 1 oldOps)) 1 = [⟨.defn 0, 1⟩] ∧
    -- old configvars: config changes
    (exRun (solo 1 oldCfgOps)).arena .config ≠ exH.arena .config ∧
    deepVal 5 (exRun (solo 1 oldCfgOps)) varsRef = .dict [(.str "cv", .dict [(.str "n", .int 9)])] ∧
    -- the code as it is now: nothing shared changes, nothing foreign is reachable, re-run is equal
    (exRun (solo 1 newOps ++ solo 2 newOps)).arena (.defn 0) = exH.arena (.defn 0) ∧
    (exRun (solo 1 newCfgOps)).arena .config = exH.arena .config ∧
    foreignReach 20 (exRun (solo 1 newOps)) 1 = [] ∧
    foreignReach 20 (exRun (solo 1 newCfgOps)) 1 = [] ∧
    deepVal 5 (exRun (solo 1 newOps ++ solo 2 newOps)) (root 2) =
      deepVal 5 (exRun (solo 1 newOps)) (root 1) := by
  decide +kernel

/-- `config.vars = {}` (cell 0) and `config.shortcuts = {sc: {parser_args: [a]}}` (cells 1…4). -/
def exCfgSc : Block := [.dict [], .dict [("sc", 2)], .dict [("parser_args", 3)], .list [4], .leaf (.str "a")]
/-- `Pipeline.new_pipe_and_args` before commit 5922e42: with no cli args the shortcut's own
    `parser_args` list became `context_args`, and `pypyr.parser.list` stores that very list under
    `argList` – the `inAlias` shape on a config object; then `pypyr.steps.append` on `argList`. -/
def oldParserOps : List Op :=
  [.start [.dict []], .inAlias "argList" ⟨.config, 3⟩, .appendAt [.key "argList"] [.leaf (.str "x")]]
/-- the code as it is now (`list(parser_args)`): a fresh list of the (atom) arguments -/
def newParserOps : List Op :=
  [.start [.dict []], .setKey "argList" [.list [1], .leaf (.str "a")], .appendAt [.key "argList"] [.leaf (.str "x")]]

def scRun (s : Sched) : Heap := (exec s (State.loaded [] exCfgSc)).heap

/-- The same defect shape on `config.shortcuts[..]['parser_args']` (found by this property's
    harness, repaired by 5922e42): the old code changes the configuration and the second run's
    context differs from the first's; the repaired code does neither. -/
theorem aliasing_counterexample_parser_args_pre_fix :
    (scRun (solo 1 oldParserOps)).arena .config ≠ (Heap.init [] exCfgSc).arena .config ∧
    deepVal 5 (scRun (solo 1 oldParserOps)) (root 1) =
      .dict [(.str "argList", .list [.str "a", .str "x"])] ∧
    deepVal 5 (scRun (solo 1 oldParserOps ++ solo 2 oldParserOps)) (root 2) =
      .dict [(.str "argList", .list [.str "a", .str "x", .str "x"])] ∧
    foreignReach 20 (scRun (solo 1 oldParserOps)) 1 = [⟨.config, 3⟩] ∧
    (scRun (solo 1 newParserOps ++ solo 2 newParserOps)).arena .config =
      (Heap.init [] exCfgSc).arena .config ∧
    deepVal 5 (scRun (solo 1 newParserOps ++ solo 2 newParserOps)) (root 2) =
      .dict [(.str "argList", .list [.str "a", .str "x"])] ∧
    foreignReach 20 (scRun (solo 1 newParserOps)) 1 = [] := by
  decide +kernel

/-- The old operations are exactly what `Sep` excludes: after the old `in` the run's context
    object references a definition object. -/
theorem aliasing_breaks_sep : ¬ Sep (exRun (solo 1 oldOps)) := by
  intro hS
  have := hS.closed (.run 1) (.dict [("lst", ⟨.defn 0, 1⟩)]) (by decide +kernel) ⟨.defn 0, 1⟩ (by decide)
  cases this

/-! ### 6. decorator inputs are copied by formatting before use

  `Step.foreach_loop` binds `context['i']` to an item of
  `context.get_formatted_value(self.foreach_items)`, `Step.save_error` stores the formatted `onError`
  value under `context['runErrors']`: operation `fmtSetAt path k src keep` of the model.  A formatter
  REBUILDS an object or RETURNS IT AS IT IS (`keep`, see `RunHeap.shiftKeep`); the code as it is
  rebuilds every container, also an empty one (`keep = []`), and is then part of the fixed operation
  language: every theorem above covers it.  (Opaque objects are always returned as they are; the
  shared regions hold none: `Sep.plain`.) -/

/-- Formatting a (brace-free) definition object with a formatter that rebuilds every container IS a
    deep copy: binding a formatted item under `key` has exactly the effect of the `in` deep copy. -/
theorem fmt_rebuild_is_deep_copy {h : Heap} (hS : Sep h) (r : Nat) (key : String) (src : Ref) :
    effect h r (.fmtSetAt [] key src []) = effect h r (.inCopy key src) := by
  simp only [effect, fmtBind, resolve]
  split
  · rename_i hg
    simp only [objIdx_shared hS hg, List.append_nil, fmtArena_nil, shiftKeep_nil]
    cases hc : h.get? (root r) with
    | none => rfl
    | some c =>
      cases c with
      | dict kvs => simp only [shiftRef_reg]
      | _ => rfl
  · rfl

/-- Definition 0 is a step with `foreach: [{name: web, done: []}]`: cell 0 the foreach list, cell 1
    the item, cell 2 the atom, cell 3 the EMPTY list. -/
def fmDefs : List Block := [[.list [1], .dict [("name", 2), ("done", 3)], .leaf (.str "web"), .list []]]
def fmSt : State := State.loaded fmDefs [.dict []]
def fmH : Heap := fmSt.heap
def fmRun (s : Sched) : Heap := (exec s fmSt).heap

theorem fmSt_sep : Sep fmSt.heap := init_sep _ _ (by decide) (by decide)

/-- one run: `i` bound to the formatted item, the step body fills `i['done']` in place
    (`pypyr.steps.contextmerge` extends lists in place, `py`: `i['done'].append(…)`) -/
def fmOps (keep : List Nat) : List Op :=
  [.start [.dict []], .fmtSetAt [] "i" ⟨.defn 0, 1⟩ keep,
   .appendAt [.key "i", .key "done"] [.leaf (.str "checked")]]

example : SchedFixed (solo 1 (fmOps []) ++ solo 2 (fmOps [])) := by decide

example : Sep (fmRun (solo 1 (fmOps []) ++ solo 2 (fmOps []))) :=
  sep_invariant (s := solo 1 (fmOps []) ++ solo 2 (fmOps [])) (st := fmSt) (by decide) fmSt_sep

example : (fmRun (solo 1 (fmOps []) ++ solo 2 (fmOps []))).arena (.defn 0) = fmH.arena (.defn 0) :=
  defs_unchanged (s := solo 1 (fmOps []) ++ solo 2 (fmOps [])) (st := fmSt) (by decide) fmSt_sep (.defn 0) rfl

/-- `formatter_returns_container_counterexample`: a formatter that hands ONE container back as it is
    (here the empty list, cell 3: "nothing to format in there") breaks every statement above: the
    definition object is reachable from the context, the step body changes the cached definition
    (`done: []` becomes `[checked]`, then `[checked, checked]`), the second run's context differs
    from the first's.  With the formatter as it is (`keep = []`) none of that happens. -/
theorem formatter_returns_container_counterexample :
    foreignReach 20 (fmRun (solo 1 (fmOps [3]))) 1 = [⟨.defn 0, 3⟩] ∧
    (fmRun (solo 1 (fmOps [3]))).arena (.defn 0) ≠ fmH.arena (.defn 0) ∧
    deepVal 5 fmH ⟨.defn 0, 1⟩ = .dict [(.str "name", .str "web"), (.str "done", .list [])] ∧
    deepVal 5 (fmRun (solo 1 (fmOps [3]))) ⟨.defn 0, 1⟩ =
      .dict [(.str "name", .str "web"), (.str "done", .list [.str "checked"])] ∧
    deepVal 5 (fmRun (solo 1 (fmOps [3]) ++ solo 2 (fmOps [3]))) (root 2) ≠
      deepVal 5 (fmRun (solo 1 (fmOps [3]))) (root 1) ∧
    -- the formatter as it is
    foreignReach 20 (fmRun (solo 1 (fmOps []))) 1 = [] ∧
    (fmRun (solo 1 (fmOps []) ++ solo 2 (fmOps []))).arena (.defn 0) = fmH.arena (.defn 0) ∧
    deepVal 5 (fmRun (solo 1 (fmOps []) ++ solo 2 (fmOps []))) (root 2) =
      deepVal 5 (fmRun (solo 1 (fmOps []))) (root 1) ∧
    deepVal 5 (fmRun (solo 1 (fmOps []))) (root 1) =
      .dict [(.str "i", .dict [(.str "name", .str "web"), (.str "done", .list [.str "checked"])])] := by
  decide +kernel

/-! ### 7. a run that is over is left alone; objects that outlive a run

  A `pypyr.pipeline.Pipeline` object can be run again (`obj.run(context)` with another `Context`).
  What the object keeps between two calls is `steps_runner` (`RunHeap.PipeObj`); the code as it is
  builds a new `StepsRunner` for the context of every call (`RunnerRule.perCall`), so the operations
  of a call act on the context handed to THAT call whatever the object went through before. -/

/-- `finished_run_unchanged`: whatever runs after run r's last operation – the same pipeline again,
    other pipelines, any number of runs, interleaved in any way – leaves every object of run r,
    hence its final context, exactly as it was. -/
theorem finished_run_unchanged {s1 s2 : Sched} (hs : SchedFixed (s1 ++ s2)) {st : State} (hS : Sep st.heap)
    (r : Nat) (hp : proj r s2 = []) :
    (exec (s1 ++ s2) st).heap.arena (.run r) = (exec s1 st).heap.arena (.run r) := by
  have h1 : SchedFixed s1 := fun e he => hs e (List.mem_append_left _ he)
  have h2 : SchedFixed s2 := fun e he => hs e (List.mem_append_right _ he)
  rw [exec_append, (interleaving_commutes h2 (exec_sep h1 hS) r).1, hp]
  rfl

theorem finished_run_same_context {s1 s2 : Sched} (hs : SchedFixed (s1 ++ s2)) {st : State} (hS : Sep st.heap)
    (r : Nat) (hp : proj r s2 = []) (n : Nat) :
    deepVal n (exec (s1 ++ s2) st).heap (root r) = deepVal n (exec s1 st).heap (root r) :=
  deepVal_region (exec_sep (fun e he => hs e (List.mem_append_left _ he)) hS)
    (finished_run_unchanged hs hS r hp) n rfl

example : (exec (solo 1 exOps ++ solo 2 exOps) exSt).heap.arena (.run 1) = (exec (solo 1 exOps) exSt).heap.arena (.run 1) :=
  finished_run_unchanged (s1 := solo 1 exOps) (s2 := solo 2 exOps) (st := exSt) (by decide) exSt_sep 1
    (by decide)

/-- `calls_perCall`: with a `StepsRunner` per call, a history of calls – on one object, on several,
    in whatever state those objects are – performs, call after call, the operations of that call on
    the context handed to that call. -/
theorem calls_perCall {α : Type} (objs : Objs) (cs : List (CallOf α)) :
    callsSched .perCall objs cs = cs.flatMap fun c => c.sched c.run := by
  induction cs generalizing objs with
  | nil => rfl
  | cons c rest ih => simp only [callsSched, PipeObj.call, List.flatMap_cons, ih]

/-- …so running an object again is running a fresh object: the operations are the same as when
    every call gets a `Pipeline` object of its own that has never run. -/
theorem reused_object_same_as_fresh {α : Type} (objs : Objs) (cs : List (CallOf α)) :
    callsSched .perCall objs cs = callsSched .perCall Objs.fresh (cs.map fun c => { c with obj := c.run }) := by
  rw [calls_perCall, calls_perCall, List.flatMap_map]
  rfl

def exPre : List Op := [.start [.dict [("log", 1)], .list []]]
def exSteps : List (Option Nat × Op) := [(none, .appendAt [.key "log"] [.leaf (.str "tallied")])]

/-- object 0 is called for runs 1, 2 and 3 with the same program -/
def exCalls : List Call := [⟨0, 1, exPre, exSteps⟩, ⟨0, 2, exPre, exSteps⟩, ⟨0, 3, exPre, exSteps⟩]

example : callsSched .perCall Objs.fresh exCalls =
    callsSched .perCall Objs.fresh [⟨1, 1, exPre, exSteps⟩, ⟨2, 2, exPre, exSteps⟩, ⟨3, 3, exPre, exSteps⟩] :=
  reused_object_same_as_fresh Objs.fresh exCalls

/-- `reused_object_rerun_same`: after ANY history of calls `cs` (any objects, any object states)
    that contained the call `c1` on a context of its own, one more call `c2` – on any object, for
    instance the one `c1` used – with the same program `ops` on a new context ends with the context
    `c1` ends with when it is the only run of the process.  (Calls without nested child runs: the
    operations of `c1` and `c2` are `ops` on their own context.) -/
theorem reused_object_rerun_same (defs : List Block) (cfg : Block) (hd : ∀ b ∈ defs, PlainBlock b) (hc : PlainBlock cfg)
    (objs : Objs) (cs : List Call) (c1 c2 : Call)
    {ops : List Op} (hfix : SchedFixed (callsSched .perCall objs cs)) (hops : ∀ o ∈ ops, o.fixed = true)
    (hc1 : c1.sched c1.run = solo c1.run ops) (hc2 : c2.sched c2.run = solo c2.run ops)
    (hp1 : proj c1.run (callsSched .perCall objs cs) = solo c1.run ops)
    (hp2 : proj c2.run (callsSched .perCall objs cs) = []) (n : Nat) :
    deepVal n (exec (callsSched .perCall objs (cs ++ [c2])) (State.loaded defs cfg)).heap (root c2.run) =
      deepVal n (exec (c1.sched c1.run) (State.loaded defs cfg)).heap (root c1.run) := by
  have happ : callsSched .perCall objs (cs ++ [c2]) = callsSched .perCall objs cs ++ solo c2.run ops := by
    simp only [calls_perCall, List.flatMap_append, List.flatMap_cons, List.flatMap_nil, List.append_nil, hc2]
  rw [happ, hc1]
  exact (rerun_after_history defs cfg hd hc hfix hops hp1 hp2 n).1

def plainSt : State := State.loaded [] [.dict []]
theorem plainSt_sep : Sep plainSt.heap := init_sep [] [.dict []] (by decide) (by decide)

example : deepVal 5 (exec (callsSched .perCall Objs.fresh exCalls) plainSt).heap (root 3) =
    deepVal 5 (exec ((⟨0, 1, exPre, exSteps⟩ : Call).sched 1) plainSt).heap (root 1) :=
  reused_object_rerun_same [] [.dict []] (by decide) (by decide) Objs.fresh (exCalls.take 2) ⟨0, 1, exPre, exSteps⟩ ⟨0, 3, exPre, exSteps⟩
    (ops := exPre ++ exSteps.map (·.2)) (by decide) (by decide) (by decide) (by decide) (by decide) (by decide) 5

/-- `runner_kept_counterexample`: a `Pipeline` object that keeps its first `StepsRunner`
    (`RunnerRule.keepFirst`) runs the steps of the later calls on the FIRST call's context: run 1's
    objects change after run 1 is over, runs 2 and 3 leave the context they were given as it was,
    and run 3 – same program, equal initial context – does not end like run 1.  With a runner per
    call (the code as it is) none of that happens. -/
theorem runner_kept_counterexample :
    let one : Sched := callsSched .keepFirst Objs.fresh (exCalls.take 1)
    let all : Sched := callsSched .keepFirst Objs.fresh exCalls
    let per : Sched := callsSched .perCall Objs.fresh exCalls
    deepVal 5 (exec one plainSt).heap (root 1) = .dict [(.str "log", .list [.str "tallied"])] ∧
    deepVal 5 (exec all plainSt).heap (root 1) = .dict [(.str "log", .list [.str "tallied", .str "tallied", .str "tallied"])] ∧
    deepVal 5 (exec all plainSt).heap (root 3) = .dict [(.str "log", .list [])] ∧
    -- a runner per call
    deepVal 5 (exec per plainSt).heap (root 1) = .dict [(.str "log", .list [.str "tallied"])] ∧
    deepVal 5 (exec per plainSt).heap (root 3) = .dict [(.str "log", .list [.str "tallied"])] := by
  decide +kernel

/-! ### 8. the READING of steps is part of the model; schedules at step granularity

  Sections 1–7 are about operation lists.  Which operations a step performs is itself a function of the
  step (kind + configuration, `RunHeap.Instr`) and of what the context holds when the step starts
  (`RunHeap.opsOf`: `pypyr.steps.append` / `add` test `context.get(key)` for truthiness, `Context.merge`
  and `set_defaults` walk the current value, `Step.save_error` looks for `runErrors`).  The harness sends
  the STEPS, the driver returns the operations it read and their result, and the harness compares the
  operations with its own reading and the result with the implementation.  Here: every reading is in the
  fixed language whatever the heap (`reading_is_fixed`), so all of the above holds for every schedule of
  steps (`KSched`, the granularity of the property text), and two runs of the same PROGRAM – the same
  list of steps; nothing is assumed about the operations – have the same step trace, outcome and final
  context (`rerun_same_trace`): in twin states they read the same operations. -/

/-- `opsOf_fixed`: for every step kind the harness reads, every configuration, every heap, the
    operations are operations of the code as it is now (no aliasing constructor). -/
theorem reading_is_fixed {h : Heap} {r : Nat} {i : Instr} {ops : List Op} (he : opsOf h r i = some ops) :
    ∀ o ∈ ops, o.fixed = true := opsOf_fixed he

/-- Equal reads under `Twin`: a second run in a twin state reads literally the same operations. -/
theorem reading_same_for_twins {r1 r2 : Nat} {st st' : State} (hS : Sep st.heap) (hT : Twin r1 r2 st st')
    (i : Instr) : opsOf st'.heap r2 i = opsOf st.heap r1 i := opsOf_twin hS hT.heap i

/-- the readings of one step differ with the context: `append` to a missing / an empty / a non-empty list -/
example :
    let st0 := exec (solo 1 [.start [.dict [("e", 1), ("l", 2)], .list [], .list [3], .leaf (.int 0)]]) plainSt
    opsOf st0.heap 1 (.append "new" (.int 5) false) = some [.setKey "new" [.list [1], .leaf (.int 5)]] ∧
    opsOf st0.heap 1 (.append "e" (.int 5) false) = some [.setKey "e" [.list [1], .leaf (.int 5)]] ∧
    opsOf st0.heap 1 (.append "l" (.int 5) false) = some [.appendAt [.key "l"] [.leaf (.int 5)]] ∧
    opsOf st0.heap 1 (.merge (.dict [(.str "l", .list [.int 1]), (.str "e", .str "s"), (.str "n", .dict [])])) =
      some [.extendAt [.key "l"] [[.leaf (.int 1)]], .setKey "e" [.leaf (.str "s")], .setKey "n" [.dict []]] := by
  decide +kernel

/-- `sep_invariant` / `defs_unchanged` for every schedule of steps – no hypothesis on the steps. -/
theorem sep_invariant_steps (s : KSched) {st : State} (hS : Sep st.heap) : Sep (execK s st).heap :=
  execK_sep s hS

theorem defs_unchanged_steps (s : KSched) {st : State} (hS : Sep st.heap) :
    ∀ g, g.isShared = true → (execK s st).heap.arena g = st.heap.arena g :=
  fun _ hg => execK_arena_shared s hS hg

/-- `interleaving_commutes` at step granularity, with the trace: in any schedule of steps run r ends
    with the arena and the outcome of its solo run, and what an observer sees of run r after each of its
    steps (context, over or not) is its solo trace. -/
theorem interleaving_commutes_steps (s : KSched) {st : State} (hS : Sep st.heap) (r n : Nat) :
    (execK s st).heap.arena (.run r) = (execK (projK r s) st).heap.arena (.run r) ∧
    (execK s st).dead r = (execK (projK r s) st).dead r ∧
    obsFor r (logK n s st) = traceK n r ((projK r s).map (·.2)) st := by
  have hT := execK_proj_twin (r := r) s hS (twin_refl r st)
  refine ⟨?_, hT.dead.symm, logK_proj_twin n s hS (twin_refl r st)⟩
  rw [hT.heap.own, map_renCell_self]

theorem soloK_map_snd (r : Nat) (is : List Instr) : (soloK r is).map (·.2) = is := by
  induction is with
  | nil => rfl
  | cons i rest ih => simp only [soloK, List.map_cons, List.map_map] at ih ⊢; rw [ih]

/-- `rerun_same_trace`: two runs r1, r2 that have not started and execute THE SAME PROGRAM (list of
    steps) anywhere inside a schedule of steps – in either order, interleaved, any other runs around –
    show the same step trace (context after every step, over or not), the same outcome, and end with
    the same context (arena renamed).  Nothing is assumed about their operation lists: they are read
    from the steps, and equal reads follow from the twin relation. -/
theorem rerun_same_trace (s : KSched) {st : State} (hS : Sep st.heap) {r1 r2 : Nat} {prog : List Instr}
    (h1 : st.heap.arena (.run r1) = []) (h2 : st.heap.arena (.run r2) = []) (hd : st.dead r2 = st.dead r1)
    (p1 : projK r1 s = soloK r1 prog) (p2 : projK r2 s = soloK r2 prog) (n : Nat) :
    obsFor r2 (logK n s st) = obsFor r1 (logK n s st) ∧
    (execK s st).dead r2 = (execK s st).dead r1 ∧
    (execK s st).heap.arena (.run r2) = ((execK s st).heap.arena (.run r1)).map (renCell r1 r2) := by
  have hT0 : Twin r1 r2 st st := ⟨⟨fun _ _ => rfl, by rw [h1, h2]; rfl⟩, hd⟩
  have i1 := interleaving_commutes_steps s hS r1 n
  have i2 := interleaving_commutes_steps s hS r2 n
  have hT := execK_soloK_twin prog hS hT0
  refine ⟨?_, ?_, ?_⟩
  · rw [i2.2.2, i1.2.2, p1, p2, soloK_map_snd, soloK_map_snd]
    exact traceK_twin n prog hS hT0
  · rw [i2.2.1, i1.2.1, p1, p2]; exact hT.dead
  · rw [i2.1, i1.1, p1, p2]; exact hT.heap.own

/-- a program whose readings depend on the context: `lst` is missing, then non-empty; the second step
    of run 7 is read as "bind a new list", its third as "append in place" -/
def exProg : List Instr :=
  [.ctxStart (.dict [(.str "a", .int 5)]), .append "lst" (.int 1) false, .append "lst" (.int 2) false,
   .merge (.dict [(.str "lst", .list [.int 3]), (.str "d", .dict [(.str "x", .int 1)])]),
   .py [.append [.key "nokey"] (.int 0)], .setf [("never", .int 1)]]

/-- runs 7 and 8 interleaved step by step -/
def exKSched : KSched := (List.zip (soloK 7 exProg) (soloK 8 exProg)).flatMap (fun p => [p.1, p.2])

example : obsFor 8 (logK 6 exKSched plainSt) = obsFor 7 (logK 6 exKSched plainSt) :=
  (rerun_same_trace exKSched (st := plainSt) plainSt_sep (r1 := 7) (r2 := 8)
    (prog := exProg) rfl rfl rfl (by decide) (by decide) 6).1

/-- …and concretely: the trace ends when the fifth step raises; the run is over, `never` is never set -/
example : (obsFor 7 (logK 6 exKSched plainSt)).map (·.2) = [false, false, false, false, true, true] ∧
    (obsFor 7 (logK 6 exKSched plainSt))[3]? = some (.dict [(.str "a", .int 5), (.str "lst", .list [.int 1, .int 2, .int 3]),
      (.str "d", .dict [(.str "x", .int 1)])], false) := by
  decide +kernel

/-! ### 9. shared by reference but never written

  Separation (`Sep`) forbids a run to HOLD a shared object.  The code does hold some: an atom-only tuple
  is handed on by `copy.deepcopy` as it is, and `Pipeline.new_pipe_and_args` stores
  `shortcut.get('groups')` – the configuration's own list – on the `Pipeline` object, where the runner
  only reads it.  What matters for the property is that such an object is never WRITTEN:

  * cells: `tuple` (immutable container) and `leaf` are never the target of any operation's write
    (`tuple_and_atom_immutable`: any operation, any state, no hypothesis);
  * `defs_unchanged_shared_readonly`: for ANY schedule – aliasing operations included, no separation –
    that never writes to a shared object (`neverWritesShared`, decidable on a concrete schedule) every
    definition and the configuration are exactly what they were;
  * `PipeObj.held`: a reference a `Pipeline` object keeps is not changed by any history of calls
    (`held_reference_kept`) and reads the same value after it (`held_reference_reads_same`): no
    operation has a `Pipeline` object's slot as its target. -/

/-- Atoms and tuples are immutable objects of the model: whatever is executed, by whichever runs, in
    whatever state, a cell that is a leaf or a tuple stays that cell. -/
theorem tuple_and_atom_immutable (s : Sched) {st : State} {x : Ref} {c : Cell} (hx : st.heap.get? x = some c)
    (hc : Cell.isMutable c = false) : (exec s st).heap.get? x = some c :=
  frozen_cell_exec s hx hc

/-- `defs_unchanged` under "shared by reference but never written". -/
theorem defs_unchanged_shared_readonly {s : Sched} {st : State} (hn : neverWritesShared s st = true) :
    ∀ g, g.isShared = true → (exec s st).heap.arena g = st.heap.arena g :=
  fun _ hg => exec_readonly_shared hn hg

/-- `config.vars = {}`, `config.shortcuts = {sc: {groups: [a, (b, c)]}}`: a list holding an atom and a tuple. -/
def exCfgGroups : Block :=
  [.dict [], .dict [("sc", 2)], .dict [("groups", 3)], .list [4, 5], .leaf (.str "a"), .tuple [6, 7],
   .leaf (.str "b"), .leaf (.str "c")]
def grSt : State := State.loaded [] exCfgGroups

/-- a run that HOLDS the configuration's list by reference, copies the reference, reads through it, and
    changes only its own objects … -/
def holdOps : List Op :=
  [.start [.dict [("own", 1)], .list []], .inAlias "groups" ⟨.config, 3⟩, .copyKey "groups" "again",
   .appendAt [.key "own"] [.leaf (.int 1)], .unsetIn "groups"]
/-- … and one that appends to it -/
def holdWriteOps : List Op := holdOps.take 3 ++ [.appendAt [.key "again"] [.leaf (.str "x")]]

example : ¬ SchedFixed (solo 1 holdOps) := by decide

/-- held, never written: nothing shared changes (although the schedule is outside the fixed language and
    the context reaches the configuration's list); written once: the hypothesis fails and so does the
    conclusion; the tuple inside the list stays what it is in both. -/
example :
    neverWritesShared (solo 1 holdOps) grSt = true ∧
    foreignReach 20 (exec (solo 1 (holdOps.take 3)) grSt).heap 1 = [⟨.config, 3⟩, ⟨.config, 5⟩] ∧
    (exec (solo 1 holdOps) grSt).heap.arena .config = grSt.heap.arena .config ∧
    neverWritesShared (solo 1 holdWriteOps) grSt = false ∧
    (exec (solo 1 holdWriteOps) grSt).heap.arena .config ≠ grSt.heap.arena .config ∧
    (exec (solo 1 holdWriteOps) grSt).heap.get? ⟨.config, 5⟩ = some (.tuple [⟨.config, 6⟩, ⟨.config, 7⟩]) := by
  decide +kernel

example : (exec (solo 1 holdOps) grSt).heap.arena .config = grSt.heap.arena .config :=
  defs_unchanged_shared_readonly (s := solo 1 holdOps) (st := grSt) (by decide +kernel) .config rfl

/-- What a `Pipeline` object holds is not changed by calling it (or any other object), under either
    runner rule. -/
theorem held_reference_kept {α : Type} (rule : RunnerRule) (objs : Objs) (cs : List (CallOf α)) (o : Nat) :
    (callsObjs rule objs cs o).held = (objs o).held := by
  induction cs generalizing objs with
  | nil => rfl
  | cons c rest ih =>
    simp only [callsObjs]
    rw [ih]
    simp only [Objs.put]
    split
    · rename_i ho; subst ho
      simp only [PipeObj.call]
      split <;> rfl
    · rfl

/-- …and after any history of calls it reads the same value: the object a `Pipeline` holds by reference
    (the configuration's `groups` list) is read-only state, run k of the object sees what run 1 saw. -/
theorem held_reference_reads_same (rule : RunnerRule) (objs : Objs) (cs : List Call) {st : State}
    (hS : Sep st.heap) (hfix : SchedFixed (callsSched rule objs cs)) (o n : Nat) {x : Ref}
    (hx : (objs o).held = some x) (hsh : x.reg.isShared = true) :
    (callsObjs rule objs cs o).held = some x ∧
    deepVal n (exec (callsSched rule objs cs) st).heap x = deepVal n st.heap x :=
  ⟨by rw [held_reference_kept, hx], defs_deep_equal hfix hS n hsh⟩

example :
    let objs : Objs := Objs.fresh.put 0 ⟨none, some ⟨.config, 3⟩⟩
    (callsObjs .perCall objs exCalls 0).held = some ⟨.config, 3⟩ ∧
    deepVal 5 (exec (callsSched .perCall objs exCalls) grSt).heap ⟨.config, 3⟩ = .list [.str "a", .tuple [.str "b", .str "c"]] := by
  decide +kernel

/-! ### 10. two more shapes of the same defect: a process-global memo of a MUTABLE result, a partial copy

  (a) `pypyr.steps.pype` with `pipeArg: <string>`: `shlex.split` makes a NEW list for every pype, which
  `pypyr.parser.list` binds as the child's `argList` – `Instr.parserList` on the child run: its reading is one
  `setKey "argList" <fresh block>` (fixed language, so every theorem above covers it: `parserList_reading_fixed`).  A
  memo in front of the split (`functools.lru_cache`: equal strings get THE SAME list object) hands the list the
  first child run was given – and changed in place – to every later child run: in the model the later run binds
  an object of the EARLIER RUN's region by reference (`fmtFrom earlier … byRef := true`, not in the fixed
  language).  `memoised_arglist_counterexample`: the later run starts from the list as the earlier run left it, its
  append shows in the context of the run that was over, and the two runs – same pipeline, equal initial context –
  end differently.  Any module-level cache (functools caches, module globals, class attributes) that holds a
  mutable object it also hands to runs is this shape; the harness looks for it generically (monitor
  `run-object-held-by-process-global-state`).

  (b) `pypyr.steps.configvars` with a hand-written copy that rebuilds mappings and lists and returns everything else
  as it is: a copy-by-rebuilding with a KEEP list – the operation `fmtSetAt … keep` on a configuration object, `keep` =
  the set cells (yaml `!!set`).  `partial_copy_counterexample`: the kept set is the configuration's own object:
  `pypyr.steps.add` on it changes `config.vars`, and the next run of the same pipeline ends differently.  With
  `keep = []` (every container rebuilt – what `copy.deepcopy` / `configvarsCopy` do) nothing of that happens. -/

/-- the reading of `pypyr.parser.list` (top-level run or pype child) is in the fixed language -/
theorem parserList_reading_fixed (rd : Path → Option Kind) (args : List String) :
    ∃ ops, opsOfK rd (.parserList args) = some ops ∧ ∀ o ∈ ops, Op.fixed o = true := by
  refine ⟨_, rfl, ?_⟩
  intro o ho
  simp only [List.mem_singleton] at ho
  subst ho; rfl

/-- a child run of `pipeArg: lint src`: `Context()`, the parser binds argList, the child appends `--quiet` -/
def argChild (first : Option Nat) : List Op :=
  [.start [.dict []],
   (match first with
    | none => .setKey "argList" [.list [1, 2], .leaf (.str "lint"), .leaf (.str "src")]
    | some r => .fmtFrom r [.key "argList"] [] "argList" true),
   .appendAt [.key "argList"] [.leaf (.str "--quiet")]]

theorem memoised_arglist_counterexample :
    let memo := (exec (solo 1 (argChild none) ++ solo 2 (argChild (some 1))) (State.loaded [] [.dict []])).heap
    let asIs := (exec (solo 1 (argChild none) ++ solo 2 (argChild none)) (State.loaded [] [.dict []])).heap
    let one := (exec (solo 1 (argChild none)) (State.loaded [] [.dict []])).heap
    Op.fixed (.fmtFrom 1 [.key "argList"] [] "argList" true) = false ∧
    deepVal 5 one (root 1) = .dict [(.str "argList", .list [.str "lint", .str "src", .str "--quiet"])] ∧
    -- memoised: run 2 ends with two `--quiet`, run 1 (over) has changed, run 2 reaches run 1's object
    deepVal 5 memo (root 2) =
      .dict [(.str "argList", .list [.str "lint", .str "src", .str "--quiet", .str "--quiet"])] ∧
    deepVal 5 memo (root 1) ≠ deepVal 5 one (root 1) ∧
    foreignReach 20 memo 2 = [⟨.run 1, 1⟩] ∧
    -- as it is: run 2 = run 1, run 1 untouched, nothing foreign reachable
    deepVal 5 asIs (root 2) = deepVal 5 one (root 1) ∧
    asIs.arena (.run 1) = one.arena (.run 1) ∧
    foreignReach 20 asIs 2 = [] := by
  decide +kernel

/-- `config.vars = {regions: !!set {eu, us}, owners: [ops]}` -/
def setCfg : Block :=
  [.dict [("regions", 1), ("owners", 4)], .set [2, 3], .leaf (.str "eu"), .leaf (.str "us"), .list [5], .leaf (.str "ops")]

/-- configvars by a copy that keeps the cells `keep` of the config arena, then `pypyr.steps.add` / `append` -/
def cfgKeepOps (keep : List Nat) : List Op :=
  [.start [.dict []], .fmtSetAt [] "regions" ⟨.config, 1⟩ keep, .fmtSetAt [] "owners" ⟨.config, 4⟩ keep,
   .addAt [.key "regions"] [.leaf (.str "ap")], .appendAt [.key "owners"] [.leaf (.str "oncall")]]

theorem partial_copy_counterexample :
    let st0 := State.loaded [] setCfg
    let part := (exec (solo 1 (cfgKeepOps [1]) ++ solo 2 (cfgKeepOps [1])) st0).heap
    let part1 := (exec (solo 1 (cfgKeepOps [1])) st0).heap
    let full := (exec (solo 1 (cfgKeepOps []) ++ solo 2 (cfgKeepOps [])) st0).heap
    Op.fixed (.fmtSetAt [] "regions" ⟨.config, 1⟩ [1]) = false ∧
    -- the set is the configuration's own: config.vars changes, the context reaches it
    part1.arena .config ≠ st0.heap.arena .config ∧
    deepVal 5 part1 ⟨.config, 1⟩ = .set [.str "eu", .str "us", .str "ap"] ∧
    foreignReach 20 part1 1 = [⟨.config, 1⟩] ∧
    -- the list WAS rebuilt: that part of the configuration is intact (why tests with lists / mappings pass)
    deepVal 5 part ⟨.config, 4⟩ = .list [.str "ops"] ∧
    -- a full copy: configuration intact, nothing foreign reachable, run 2 = run 1
    full.arena .config = st0.heap.arena .config ∧
    foreignReach 20 full 1 = [] ∧ foreignReach 20 full 2 = [] ∧
    deepVal 5 full (root 2) = deepVal 5 (exec (solo 1 (cfgKeepOps [])) st0).heap (root 1) ∧
    (∀ o ∈ cfgKeepOps [], Op.fixed o = true) := by
  decide +kernel

/-! ### 11. where the definitions come from: the loader as a function of the text alone

    `Heap.init defs cfg` takes the loaders' output as given. `PypyrModel/LoadHist.lean` models how that list comes
    about in a process: a history of cache look-ups (`Req.get`), cache clears and direct loader calls over a
    loader that may carry hidden state from call to call. Under the ASSUMPTION `Loader.TextOnly` (the harness
    checks it on the real loaders, stream `loads`) the definition arena is the same after every history, so
    every theorem above holds whatever was loaded before, in whatever order. `shared_parser_counterexample`: one
    parser object kept between loads, remembering the `%YAML` version of the last directive, breaks the
    assumption and with it "cached definition = what the loader produces" and order independence. -/

/-- Everything the cache holds is the pristine-process load of its source. -/
def CacheFresh {σ τ : Type} (L : Loader σ τ) (files : Nat → τ) (c : List (Nat × Block)) : Prop :=
  ∀ p b, cacheGet? c p = some b → b = L.fresh (files p)

theorem cacheFresh_req {σ τ : Type} {L : Loader σ τ} (hL : L.TextOnly) (files : Nat → τ) (x : LoadSt σ)
    (hx : CacheFresh L files x.cache) (r : Req) : CacheFresh L files (x.req L files r).cache := by
  cases r with
  | get p =>
    simp only [LoadSt.req]
    split
    · exact hx
    · intro q b hq
      simp only [cacheGet?] at hq
      split at hq
      · rename_i hpq
        cases hq
        subst hpq
        exact hL _ _
      · exact hx q b hq
  | clear =>
    intro p b h
    simp [LoadSt.req, cacheGet?] at h
  | bypass p => exact hx

theorem cacheFresh_run {σ τ : Type} {L : Loader σ τ} (hL : L.TextOnly) (files : Nat → τ) (h : List Req) :
    ∀ x : LoadSt σ, CacheFresh L files x.cache → CacheFresh L files (LoadSt.run L files x h).cache := by
  induction h with
  | nil => intro x hx; exact hx
  | cons r rest ih => intro x hx; exact ih _ (cacheFresh_req hL files x hx r)

/-- "After any run every cached definition is deep-equal to what its loader produced", with the loader's own
    history in the picture: after EVERY history of look-ups, clears and direct loads, what the cache holds for a
    source is what the loader gives for that source alone in a pristine process. -/
theorem cached_is_fresh_load {σ τ : Type} {L : Loader σ τ} (hL : L.TextOnly) (files : Nat → τ) (h : List Req)
    {p : Nat} {b : Block} (hc : cacheGet? (loadHist L files h).cache p = some b) : b = L.fresh (files p) :=
  cacheFresh_run hL files h ⟨L.init, []⟩ (by intro p b hp; simp [cacheGet?] at hp) p b hc

/-- The definition loaded after history h is the definition loaded first (the loader called past the cache). -/
theorem load_after_history_is_first_load {σ τ : Type} {L : Loader σ τ} (hL : L.TextOnly) (files : Nat → τ)
    (h : List Req) (p : Nat) : (L.load (loadHist L files h).st (files p)).1 = L.fresh (files p) := hL _ _

/-- Two processes that loaded in different orders hold the same definition for a source both have loaded. -/
theorem load_order_independent {σ τ : Type} {L : Loader σ τ} (hL : L.TextOnly) (files : Nat → τ) (h1 h2 : List Req)
    {p : Nat} {b1 b2 : Block} (c1 : cacheGet? (loadHist L files h1).cache p = some b1)
    (c2 : cacheGet? (loadHist L files h2).cache p = some b2) : b1 = b2 :=
  (cached_is_fresh_load hL files h1 c1).trans (cached_is_fresh_load hL files h2 c2).symm

/-- The definition arena after any history that has every source in the cache is the arena of pristine loads. -/
theorem loaded_arena_any_order {σ τ : Type} {L : Loader σ τ} (hL : L.TextOnly) (files : Nat → τ) (n : Nat)
    (h : List Req) (hall : ∀ p < n, (cacheGet? (loadHist L files h).cache p).isSome = true) :
    defsAfter L files n h = defsFresh L files n := by
  unfold defsAfter defsFresh
  apply List.map_congr_left
  intro p hp
  have hp' : p < n := List.mem_range.mp hp
  have hs := hall p hp'
  cases hc : cacheGet? (loadHist L files h).cache p with
  | none => rw [hc] at hs; cases hs
  | some b => rw [Option.getD_some]; exact cached_is_fresh_load hL files h hc

/-- … hence the loader state every theorem of sections 1-10 starts from does not depend on the order of loads. -/
theorem loader_state_any_order {σ τ : Type} {L : Loader σ τ} (hL : L.TextOnly) (files : Nat → τ) (n : Nat)
    (h1 h2 : List Req) (a1 : ∀ p < n, (cacheGet? (loadHist L files h1).cache p).isSome = true)
    (a2 : ∀ p < n, (cacheGet? (loadHist L files h2).cache p).isSome = true) (cfg : Block) :
    State.loaded (defsAfter L files n h1) cfg = State.loaded (defsAfter L files n h2) cfg := by
  rw [loaded_arena_any_order hL files n h1 a1, loaded_arena_any_order hL files n h2 a2]

/-- Re-running "in a different order relative to other pipelines", the loads included: run r1 executing `ops`
    alone in a process that loaded its sources by history h1 and run r2 executing `ops` after any schedule `s`
    of other runs in a process that loaded by history h2 end with the same context and outcome. -/
theorem rerun_after_any_load_order {σ τ : Type} {L : Loader σ τ} (hL : L.TextOnly) (files : Nat → τ) (n : Nat)
    (h1 h2 : List Req) (a1 : ∀ p < n, (cacheGet? (loadHist L files h1).cache p).isSome = true)
    (a2 : ∀ p < n, (cacheGet? (loadHist L files h2).cache p).isSome = true)
    (cfg : Block) (hd : ∀ b ∈ defsFresh L files n, PlainBlock b) (hc : PlainBlock cfg)
    {s : Sched} (hs : SchedFixed s) {r1 r2 : Nat} {ops : List Op} (hops : ∀ o ∈ ops, o.fixed = true)
    (p1 : proj r1 s = solo r1 ops) (p2 : proj r2 s = []) (k : Nat) :
    deepVal k (exec (s ++ solo r2 ops) (State.loaded (defsAfter L files n h2) cfg)).heap (root r2) =
      deepVal k (exec (solo r1 ops) (State.loaded (defsAfter L files n h1) cfg)).heap (root r1) ∧
    (exec (s ++ solo r2 ops) (State.loaded (defsAfter L files n h2) cfg)).dead r2 =
      (exec (solo r1 ops) (State.loaded (defsAfter L files n h1) cfg)).dead r1 := by
  rw [loaded_arena_any_order hL files n h1 a1, loaded_arena_any_order hL files n h2 a2]
  exact rerun_after_history _ cfg hd hc hs hops p1 p2 k

/-- `get_pipeline_yaml` as it is (a parser object per call) satisfies the assumption in the text model. -/
theorem perCallParser_textOnly : perCallParser.TextOnly := fun _ _ => rfl

/-- sources of the example: 0 = a pipeline that starts with `%YAML 1.1`, 1 = one without a directive whose plain
    scalars the two versions read differently, 2 = a pipeline that starts with `%YAML 1.2`. -/
def exTexts : Nat → YText
  | 0 => ⟨some .v11, ["done"]⟩
  | 1 => ⟨none, ["se", "no", "1:30", "0755"]⟩
  | _ => ⟨some .v12, ["x"]⟩

example : cacheGet? (loadHist perCallParser exTexts [.get 0, .get 1, .clear, .get 1, .bypass 0]).cache 1 =
    some (perCallParser.fresh (exTexts 1)) := by decide +kernel

example : ∀ p < 3, (cacheGet? (loadHist perCallParser exTexts [.get 2, .get 0, .get 1]).cache p).isSome = true := by
  decide +kernel

/-- One parser object for all loads: the assumption fails, and so does everything that rests on it. -/
theorem shared_parser_counterexample :
    ¬ sharedParser.TextOnly ∧
    -- report loaded after legacy is not report loaded alone
    cacheGet? (loadHist sharedParser exTexts [.get 0, .get 1]).cache 1 ≠ some (sharedParser.fresh (exTexts 1)) ∧
    cacheGet? (loadHist sharedParser exTexts [.get 0, .get 1]).cache 1 ≠
      cacheGet? (loadHist sharedParser exTexts [.get 1, .get 0]).cache 1 ∧
    -- … `no` has become False, `1:30` 90, `0755` 493
    cacheGet? (loadHist sharedParser exTexts [.get 0, .get 1]).cache 1 =
      some [.list [1, 2, 3, 4], .leaf (.str "se"), .leaf (.bool false), .leaf (.int 90), .leaf (.int 493)] ∧
    sharedParser.fresh (exTexts 1) =
      [.list [1, 2, 3, 4], .leaf (.str "se"), .leaf (.str "no"), .leaf (.str "1:30"), .leaf (.int 755)] ∧
    -- already cached before legacy loads: nothing shows (why the order report, legacy, report is clean) …
    cacheGet? (loadHist sharedParser exTexts [.get 1, .get 0, .get 1]).cache 1 = some (sharedParser.fresh (exTexts 1)) ∧
    -- … until the caches are cleared, or the loader is called past the cache
    cacheGet? (loadHist sharedParser exTexts [.get 1, .get 0, .clear, .get 1]).cache 1 ≠
      some (sharedParser.fresh (exTexts 1)) ∧
    (sharedParser.load (loadHist sharedParser exTexts [.get 1, .get 0]).st (exTexts 1)).1 ≠ sharedParser.fresh (exTexts 1) ∧
    -- a `%YAML 1.2` document in between flips the parser back: the result depends on the whole history
    cacheGet? (loadHist sharedParser exTexts [.get 0, .get 2, .get 1]).cache 1 = some (sharedParser.fresh (exTexts 1)) ∧
    -- the arenas of the two orders differ
    defsAfter sharedParser exTexts 2 [.get 0, .get 1] ≠ defsAfter sharedParser exTexts 2 [.get 1, .get 0] ∧
    -- the per-call parser on the same histories: equal
    defsAfter perCallParser exTexts 2 [.get 0, .get 1] = defsAfter perCallParser exTexts 2 [.get 1, .get 0] := by
  refine ⟨fun h => ?_, ?_⟩
  · have := h .v11 (exTexts 1)
    revert this
    decide +kernel
  · decide +kernel

/-! ### 12. yaml TAG objects (`!jsonify` over a mapping / sequence, `!py`, `!sic`) as arguments

  A tag object of a definition is an `obj` cell of the tag classes (`isTagClass`) with its payload under the
  attribute `value` — for `!jsonify` a mapping / sequence OF THE DEFINITION ARENA.  Tag cells are not opaque to
  formatting (`CellOf.isObj = false`), so `Sep.plain` / `PlainBlock` ADMIT them in definitions and configuration:
  every theorem above (separation, `defs_unchanged`, interleaving, re-run) holds for definitions that carry tags,
  and since paths lead through attributes (`Seg.attr`) the operation language contains the step that changes a
  tag's payload in place (`context['body'].value['tags'].append(x)` = `appendAt [key body, attr value, key tags]`).
  What makes it true: `Step.set_step_input_context`'s deep copy is deep THROUGH tag payloads (`copyArena` copies
  the tag cell and shifts its `value` reference like any other).  `shallow_tag_copy_counterexample`: a copy that
  hands the tag object back as it is ("tags never change: share" — `__deepcopy__` returning `self`) is not in the
  fixed language, and the in-place step then writes into the definition. -/

/-- `in_copy_deep_through_tag_payload`: after the `in` deep copy of ANY definition object (tags inside, at any
    depth) separation still holds, no shared arena has changed, and every path from the bound key — through dict
    keys, list indices AND object attributes (`.value`) — ends in the run's own region: what a later in-place
    operation writes to is the run's own copy of the payload. -/
theorem in_copy_deep_through_tag_payload {h : Heap} (hS : Sep h) (r : Nat) (key : String) (src : Ref) {e : Effect}
    (he : effect h r (.inCopy key src) = some e) :
    Sep (apply h r e) ∧ (∀ g, g.isShared = true → (apply h r e).arena g = h.arena g) ∧
    ∀ (p : Path) (x : Ref), resolve (apply h r e) (root r) (.key key :: p) = some x → x.reg = .run r := by
  have hL : Local r e := effect_local hS (op := .inCopy key src) rfl he
  have hS' : Sep (apply h r e) := apply_sep hS hL
  exact ⟨hS', fun g hg => apply_arena_other hL (shared_ne_run hg r), fun p x hx => reach_own hS' hx⟩

/-- `tag_payload_write_is_own`: in any state reached by the fixed operation language from loaded definitions
    (with tags), the object an in-place operation finds at the end of a path through a tag's `.value` is the
    run's own; whatever it writes, every shared arena stays as loaded (`defs_unchanged`). -/
theorem tag_payload_write_is_own {s : Sched} (hs : SchedFixed s) {st : State} (hS : Sep st.heap) (r : Nat)
    (p q : Path) (k : String) (x : Ref)
    (hx : resolve (exec s st).heap (root r) (p ++ .attr k :: q) = some x) :
    x.reg = .run r ∧ ∀ g, g.isShared = true → (exec s st).heap.arena g = st.heap.arena g :=
  ⟨reach_own (sep_invariant hs hS) hx, defs_unchanged hs hS⟩

/-- Definition 0: a step `in: {body: !jsonify {kind: report, tags: [base]}, cfg: [!sic "x", !py "1+1"]}`.
    cell 0 the `in` mapping, 1 the Jsonify tag object, 2 its payload mapping, 4 the list `tags`;
    7 the list `cfg` with two tag objects whose payloads are atoms. -/
def tagDefs : List Block :=
  [[.dict [("body", 1), ("cfg", 7)], .obj "Jsonify" [("value", 2)], .dict [("kind", 3), ("tags", 4)],
    .leaf (.str "report"), .list [5], .leaf (.str "base"), .leaf (.int 0),
    .list [8, 10], .obj "SicString" [("value", 9)], .leaf (.str "x"), .obj "PyString" [("value", 11)],
    .leaf (.str "1+1")]]

def tagSt : State := State.loaded tagDefs [.dict []]

/-- definitions with tag objects satisfy the hypotheses of every theorem of this file -/
theorem tagSt_sep : Sep tagSt.heap := init_sep _ _ (by decide) (by decide)

/-- One run: `Context({'tag': t})`; the step's `in` arguments arrive (`copy` = the `in` deep copy as it is, or a copy
    that keeps the cells `keep` of the definition arena: `fmtSetAt … keep` — rebuilds every other container);
    the step stamps the payload in place — `context['body'].value['tags'].append(tag)`; `in` is unset. -/
def tagOps (keep : Option (List Nat)) (t : String) : List Op :=
  [.start [.dict [("tag", 1)], .leaf (.str t)],
   (match keep with
    | none => .inCopy "body" ⟨.defn 0, 1⟩
    | some ks => .fmtSetAt [] "body" ⟨.defn 0, 1⟩ ks),
   .appendAt [.key "body", .attr "value", .key "tags"] [.leaf (.str t)],
   .copyKey "body" "sent", .unsetIn "body"]

theorem tagOps_fixed (t : String) : ∀ o ∈ tagOps none t, Op.fixed o = true := by
  intro o ho
  simp only [tagOps, List.mem_cons, List.mem_nil_iff, or_false] at ho
  rcases ho with rfl | rfl | rfl | rfl | rfl <;> rfl

/-- the general theorems on this example: three runs (tags a, b, a) in any fixed interleaving leave definition 0
    as loaded -/
example : (exec (solo 1 (tagOps none "a") ++ solo 2 (tagOps none "b") ++ solo 3 (tagOps none "a")) tagSt).heap.arena (.defn 0)
    = tagSt.heap.arena (.defn 0) :=
  defs_unchanged (SchedFixed.append (SchedFixed.append (schedFixed_solo (tagOps_fixed "a")) (schedFixed_solo (tagOps_fixed "b")))
    (schedFixed_solo (tagOps_fixed "a"))) tagSt_sep (.defn 0) rfl

/-- `shallow_tag_copy_counterexample`: the copy that SHARES the tag object (`keep = [1]`, the Jsonify cell:
    "`__deepcopy__` returns self") — every plain container of `in` is still rebuilt — against the copy as it is. -/
theorem shallow_tag_copy_counterexample :
    let sched := fun keep => solo 1 (tagOps keep "a") ++ solo 2 (tagOps keep "b") ++ solo 3 (tagOps keep "a")
    let shal := (exec (sched (some [1])) tagSt).heap
    let shal1 := (exec (solo 1 (tagOps (some [1]) "a")) tagSt).heap
    let full := (exec (sched none) tagSt).heap
    Op.fixed (.fmtSetAt [] "body" ⟨.defn 0, 1⟩ [1]) = false ∧
    -- shared tag: the context reaches the definition's tag object and its payload; the stamp lands in the definition
    foreignReach 30 shal1 1 = [⟨.defn 0, 1⟩, ⟨.defn 0, 2⟩, ⟨.defn 0, 4⟩] ∧
    resolve shal1 (root 1) [.key "sent", .attr "value", .key "tags"] = some ⟨.defn 0, 4⟩ ∧
    shal1.arena (.defn 0) ≠ tagSt.heap.arena (.defn 0) ∧
    deepVal 6 shal ⟨.defn 0, 4⟩ = .list [.str "base", .str "a", .str "b", .str "a"] ∧
    -- … and run 3 (same initial context as run 1) does not end like run 1 did
    deepVal 6 shal (root 3) ≠ deepVal 6 shal1 (root 1) ∧
    -- sharing only tags whose payload is an atom (!sic / !py: cells 8 and 10) with no in-place step is unobservable
    -- in the deep values; with the copy as it is nothing foreign is reachable at all:
    full.arena (.defn 0) = tagSt.heap.arena (.defn 0) ∧
    foreignReach 30 full 1 = [] ∧ foreignReach 30 full 3 = [] ∧
    resolve full (root 1) [.key "sent", .attr "value", .key "tags"] = some ⟨.run 1, 6⟩ ∧
    deepVal 6 full ⟨.run 1, 6⟩ = .list [.str "base", .str "a"] ∧
    deepVal 6 full (root 3) = deepVal 6 full (root 1) ∧
    deepVal 6 full ⟨.defn 0, 4⟩ = .list [.str "base"] := by
  decide +kernel

end Pypyr.C12
