/-
  C17 — command steps report exit status faithfully and in declaration order.

  Property theorems only (helper lemmas: Props/Lemmas/C17_Serial.lean, C17_Async.lean).
  Every statement is for *all* command lists (single string, expanded maps, `run:` lists,
  nested serial sub-lists), *all* scripted exit codes / outputs and, for the concurrent steps,
  *all* completion schedules (arbitrary lists of lane indices, not only permutations).
-/
import PypyrModel.Cmd
import Props.Lemmas.C17_Serial
import Props.Lemmas.C17_Async

namespace Pypyr.C17
open Pypyr.Cmd

/-! ## cmd / shell -/

/-- The step succeeds iff every declared command exits 0. -/
theorem serial_ok_iff_all_zero (cs : List SCommand) :
    (runSerial cs).err = none ↔ ∀ d ∈ declsOf cs, d.proc.code = 0 := by
  simp only [runSerial, runCommands_closed]
  exact firstFailD_none_iff _

example : (runSerial [⟨[⟨1, 0, "a", ""⟩, ⟨2, 0, "", ""⟩], true, true⟩, ⟨[⟨3, 0, "", ""⟩], false, false⟩]).err = none ∧
    (runSerial [⟨[⟨1, 0, "a", ""⟩, ⟨2, 3, "", ""⟩], true, true⟩, ⟨[⟨3, 0, "", ""⟩], false, false⟩]).err = some ⟨2, 3⟩ := by
  decide +kernel

/-- The commands run are a prefix of the declaration; they are *started in that order*; every one of
    them but the last exited 0; the step fails exactly when the last one run exited non-zero, the
    error carries that command and that code, and nothing after it was started. -/
theorem serial_started_is_prefix (cs : List SCommand) :
    ∃ pre rest, declsOf cs = pre ++ rest ∧ (runSerial cs).started = pre.map (·.proc.id) ∧
      match (runSerial cs).err with
      | none => rest = [] ∧ ∀ d ∈ pre, d.proc.code = 0
      | some e => ∃ init d, pre = init ++ [d] ∧ (∀ x ∈ init, x.proc.code = 0) ∧
          d.proc.code ≠ 0 ∧ e = ⟨d.proc.id, d.proc.code⟩ := by
  obtain ⟨rest, h1, h2⟩ := takeThroughD_split (declsOf cs)
  refine ⟨takeThroughD (declsOf cs), rest, h1, ?_, ?_⟩
  · simp [runSerial, runCommands_closed]
  · simp only [runSerial, runCommands_closed]
    cases hf : firstFailD (declsOf cs) <;> (rw [hf] at h2; exact h2)

example : (runSerial [⟨[⟨1, 0, "", ""⟩, ⟨2, 1, "", ""⟩, ⟨3, 0, "", ""⟩], false, false⟩, ⟨[⟨4, 0, "", ""⟩], false, false⟩]).started
    = [1, 2] := by decide +kernel

/-- "Succeeds iff every command it *ran* exited 0", on the commands actually run. -/
theorem serial_ok_iff_all_run_zero (cs : List SCommand) :
    (runSerial cs).err = none ↔ ∀ d ∈ takeThroughD (declsOf cs), d.proc.code = 0 := by
  obtain ⟨rest, _, h2⟩ := takeThroughD_split (declsOf cs)
  simp only [runSerial, runCommands_closed]
  cases hf : firstFailD (declsOf cs) with
  | none =>
    rw [hf] at h2
    replace h2 : rest = [] ∧ ∀ d ∈ takeThroughD (declsOf cs), d.proc.code = 0 := h2
    exact ⟨fun _ => h2.2, fun _ => rfl⟩
  | some e =>
    rw [hf] at h2
    obtain ⟨init, d, h3, _, h5, _⟩ := h2
    simp only [reduceCtorEq, false_iff]
    intro hall
    exact h5 (hall d (by simp [h3]))

/-- With `save`, `cmdOut` holds one result per command actually run whose command has `save`,
    in declaration order, the failed one included (it is appended before the return-code check);
    one result is stored as the object itself, several as a list, none leaves `cmdOut` untouched. -/
theorem serial_cmdOut (cs : List SCommand) :
    ∃ pre rest, declsOf cs = pre ++ rest ∧ (runSerial cs).started = pre.map (·.proc.id) ∧
      (runSerial cs).results = (pre.filter (·.save)).map (fun d => mkResultSync d.text d.proc) ∧
      (runSerial cs).cmdOut = cmdOutOf (runSerial cs).results := by
  obtain ⟨rest, h1, _⟩ := takeThroughD_split (declsOf cs)
  exact ⟨takeThroughD (declsOf cs), rest, h1, by simp [runSerial, runCommands_closed],
    by simp [runSerial, runCommands_closed, resultsOfD], rfl⟩

/-- When every command has `save`: exactly one result per started command, same order, carrying
    that command's exit code. -/
theorem serial_cmdOut_all_save (cs : List SCommand) (hs : ∀ c ∈ cs, c.save = true) :
    (runSerial cs).results.map (·.id) = (runSerial cs).started ∧
    (runSerial cs).results.map (·.code) = (takeThroughD (declsOf cs)).map (·.proc.code) := by
  have hall : ∀ d ∈ declsOf cs, d.save = true := by
    induction cs with
    | nil => simp [declsOf]
    | cons c cs ih =>
      intro d hd
      simp only [declsOf, List.mem_append, List.mem_map] at hd
      cases hd with
      | inl h => obtain ⟨p, _, rfl⟩ := h; exact hs c (by simp)
      | inr h => exact ih (fun c' hc' => hs c' (by simp [hc'])) d h
  obtain ⟨rest, h1, _⟩ := takeThroughD_split (declsOf cs)
  have hpre : ∀ d ∈ takeThroughD (declsOf cs), d.save = true := by
    intro d hd
    apply hall
    rw [h1]
    simp [hd]
  have hfil : (takeThroughD (declsOf cs)).filter (·.save) = takeThroughD (declsOf cs) :=
    List.filter_eq_self.mpr hpre
  constructor
  · simp only [runSerial, runCommands_closed, resultsOfD, hfil, List.map_map]
    apply List.map_congr_left
    intro d _
    simp only [Function.comp, mkResultSync]
    split <;> rfl
  · simp only [runSerial, runCommands_closed, resultsOfD, hfil, List.map_map]
    apply List.map_congr_left
    intro d _
    simp only [Function.comp, mkResultSync]
    split <;> rfl

example : (runSerial [⟨[⟨1, 0, "x\n", ""⟩, ⟨2, 1, "", "boom \n"⟩, ⟨3, 0, "", ""⟩], true, true⟩]).cmdOut
    = .many [⟨1, 0, .text "x", .text ""⟩, ⟨2, 1, .text "", .text "boom"⟩] := by decide +kernel

/-! ## cmds / shells -/

/-- Whatever the completion schedule: the saved results, the aggregate error and the set of started
    processes are the same. -/
theorem async_results_order_independent (cs : List ACommand) (s₁ s₂ : List Nat) :
    (runAsync cs s₁).cmdOut = (runAsync cs s₂).cmdOut ∧
    (runAsync cs s₁).errors = (runAsync cs s₂).errors ∧
    (runAsync cs s₁).started = (runAsync cs s₂).started := by
  simp [runAsync, final_lanes]

/-- … and they are in declaration order: flattened, `cmdOut` is the results of the `save` lanes in
    the order the lanes are declared, each lane contributing one result per process it ran, in
    sub-list order. `cmdOut` is set iff some command has `save`. -/
theorem async_cmdOut_declaration_order (cs : List ACommand) (s : List Nat) :
    match (runAsync cs s).cmdOut with
    | none => cs.any (·.save) = false
    | some slots => cs.any (·.save) = true ∧
        slotResults slots = ((alanesOf cs).filter (·.save)).flatMap ALane.results := by
  simp only [runAsync, final_lanes]
  cases h : cs.any (·.save)
  · simp
  · simp only [if_true]
    exact ⟨trivial, (collect_final cs).1⟩

/-- Every top-level entry is started before any process has been waited for (the trace of every
    schedule begins with the start of the first process of each lane), and ends up among the started. -/
theorem async_all_started (cs : List ACommand) (s : List Nat) :
    (∃ rest, (runAsync cs s).trace = startEvents (lanesOf cs) ++ rest) ∧
    ∀ ps ∈ lanesOf cs, ∀ p, ps.head? = some p → p.id ∈ (runAsync cs s).started := by
  refine ⟨⟨_, by simp only [runAsync, List.append_assoc]; rfl⟩, ?_⟩
  intro ps hps p hp
  simp only [runAsync, final_lanes, List.mem_flatten, List.mem_map]
  refine ⟨laneStarted (finalLane ps), ⟨finalLane ps, ⟨ps, hps, rfl⟩, rfl⟩, ?_⟩
  cases ps with
  | nil => simp at hp
  | cons q qs =>
    simp only [List.head?_cons, Option.some.injEq] at hp
    subst hp
    by_cases h : q.code ≠ 0 <;> simp [laneStarted, finalLane, takeThrough, h]

/-- A serial sub-list stops at its first non-zero exit: the processes started are, lane by lane,
    the prefix of the lane up to and including its first non-zero exit. -/
theorem async_sublist_prefix (cs : List ACommand) (s : List Nat) :
    (runAsync cs s).started = (lanesOf cs).flatMap (fun ps => (takeThrough ps).map (·.id)) := by
  simp only [runAsync, final_lanes, List.map_map]
  rw [List.flatMap_def]
  congr 1
  apply List.map_congr_left
  intro ps _
  simp [laneStarted, finalLane]

/-- `takeThrough` is what its name says. -/
theorem takeThrough_spec (ps : List Proc) :
    ∃ rest, ps = takeThrough ps ++ rest ∧
      ((rest = [] ∧ ∀ p ∈ takeThrough ps, p.code = 0) ∨
       ∃ init p, takeThrough ps = init ++ [p] ∧ (∀ x ∈ init, x.code = 0) ∧ p.code ≠ 0) := by
  induction ps with
  | nil => exact ⟨[], rfl, .inl ⟨rfl, by simp [takeThrough]⟩⟩
  | cons p ps ih =>
    obtain ⟨rest, h1, h2⟩ := ih
    by_cases hc : p.code ≠ 0
    · exact ⟨ps, by simp [takeThrough, hc], .inr ⟨[], p, by simp [takeThrough, hc], by simp, hc⟩⟩
    · have hz : p.code = 0 := by omega
      refine ⟨rest, ?_, ?_⟩
      · simp only [takeThrough, if_neg hc, List.cons_append]
        rw [← h1]
      · simp only [takeThrough, if_neg hc]
        cases h2 with
        | inl h => exact .inl ⟨h.1, by
            intro x hx
            cases hx with
            | head => exact hz
            | tail _ hx => exact h.2 x hx⟩
        | inr h =>
          obtain ⟨init, q, h3, h4, h5⟩ := h
          refine .inr ⟨p :: init, q, by simp [h3], ?_, h5⟩
          intro x hx
          cases hx with
          | head => exact hz
          | tail _ hx => exact h4 x hx

/-- One aggregate error lists every failure: the errors are exactly the processes run that exited
    non-zero (with command and code), in declaration order; the step succeeds iff there is none. -/
theorem async_error_lists_all_failures (cs : List ACommand) (s : List Nat) :
    (runAsync cs s).errors =
      (((lanesOf cs).flatMap takeThrough).filter (fun p => p.code ≠ 0)).map (fun p => ⟨p.id, p.code⟩) := by
  simp only [runAsync, final_lanes]
  rw [(collect_final cs).2, ← alanesOf_procs]
  simp only [List.flatMap_map, List.filter_flatMap, List.map_flatMap]
  refine congrArg (fun f => List.flatMap f _) (funext fun l => ?_)
  simp only [ALane.errors, ALane.results, List.filter_map, List.map_map]
  have : ((fun r : Result => decide (r.code ≠ 0)) ∘ mkResultAsync l.save l.text)
      = (fun p : Proc => decide (p.code ≠ 0)) := by
    funext p
    simp only [Function.comp, mkResultAsync]
    split <;> try split
    all_goals rfl
  rw [this]
  apply List.map_congr_left
  intro p _
  simp only [Function.comp, toErr, mkResultAsync]
  split <;> try split
  all_goals rfl

theorem async_ok_iff_all_run_zero (cs : List ACommand) (s : List Nat) :
    (runAsync cs s).errors = [] ↔ ∀ p ∈ (lanesOf cs).flatMap takeThrough, p.code = 0 := by
  rw [async_error_lists_all_failures]
  simp [List.filter_eq_nil_iff]

/-- three lanes: `a`, the sub-list `[b (exit 1), c]`, `d (exit 3)`; schedule "d, a, b" and its reverse. -/
example :
    let cs : List ACommand := [⟨.many [.one ⟨1, 0, "a", ""⟩, .serial [⟨2, 1, "", "e"⟩, ⟨3, 0, "", ""⟩]], true, true⟩,
                               ⟨.single ⟨4, 3, "", ""⟩, false, false⟩]
    (runAsync cs [2, 0, 1]).errors = [⟨2, 1⟩, ⟨4, 3⟩] ∧
    (runAsync cs [2, 0, 1]).started = [1, 2, 4] ∧
    (runAsync cs [2, 0, 1]).trace = [.start 1, .start 2, .start 4, .fin 4, .fin 1, .fin 2] ∧
    (runAsync cs [1, 0, 2]).trace = [.start 1, .start 2, .start 4, .fin 2, .fin 1, .fin 4] ∧
    (runAsync cs [2, 0, 1]).cmdOut = (runAsync cs [1, 0, 2]).cmdOut ∧
    (runAsync cs []).cmdOut = some [.res ⟨1, 0, .text "a", .bytes ""⟩, .sub [⟨2, 1, .bytes "", .text "e"⟩]] := by
  decide +kernel

end Pypyr.C17
