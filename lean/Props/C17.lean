/-
  C17 — command steps report exit status faithfully and in declaration order.

  Property theorems only (helper lemmas: Props/Lemmas/C17_Serial.lean, C17_Async.lean, C17_Wait.lean,
  C17_Trace.lean, C17_Parse.lean, C17_Files.lean, C17_Dup.lean, C17_Hist.lean).

  **Identical entries.** No statement below assumes that the commands, instructions or process ids of a step
  are distinct: an id names the content of an instruction, a configuration may hold it any number of times,
  and `started` / `errors` / `trace` / the results are lists in which an id occurs once per *process*
  (`parse_preserves_length`, `parse_keeps_duplicates`, `parse_lanes`, `async_starts_every_occurrence`,
  `async_cfg_starts_every_entry` say so explicitly; their examples hold duplicates).
  Every statement is for *all* command lists (single string, expanded maps, `run:` lists,
  nested serial sub-lists), *all* scripted outcomes — exit status over `Int` (0, positive exit
  codes, **negative = killed by a signal**), "cannot be started at all" (the spawn call raises), or
  "ran, but what it wrote cannot be decoded" (`decodeFails`) — all outputs, all outcomes of opening the
  commands' output files and, for the concurrent steps, *all* completion schedules (arbitrary lists of
  lane indices, not only permutations).

  "Zero" always means `= (0 : Int)`; a loop stops at the first command whose status is `≠ 0`
  (not "`> 0`"), that cannot be started, or whose captured output cannot be decoded.

  Vocabulary: `d.undec` / `l.dec && p.decodeFails` — the command captures output (`save`), decodes it
  (serial: text mode *or* an `encoding`; concurrent: text mode) and this instruction's output is not
  valid under the encoding. Only then does `decodeFails` matter.
-/
import PypyrModel.Cmd
import Props.Lemmas.C17_Serial
import Props.Lemmas.C17_Async
import Props.Lemmas.C17_Wait
import Props.Lemmas.C17_Trace
import Props.Lemmas.C17_Parse
import Props.Lemmas.C17_Files
import Props.Lemmas.C17_Dup
import Props.Lemmas.C17_Hist

set_option linter.unusedSimpArgs false

namespace Pypyr.C17
open Pypyr.Cmd

/-! Shorthands for the examples. -/

/-- A process that runs and exits with `code`. -/
def P (id : Nat) (code : Int) (out err : String) : Proc := ⟨id, none, code, out, err, false⟩
/-- An instruction that cannot be started. -/
def PX (id : Nat) (k : SpawnKind) : Proc := ⟨id, some k, 0, "", "", false⟩
/-- A process that runs, exits with `code`, and writes the bytes ff fe (not text in utf-8 / ascii). -/
def PU (id : Nat) (code : Int) : Proc := ⟨id, none, code, "ÿþ", "", true⟩
def S (run : List Proc) (save text : Bool) : SCommand := ⟨run, save, text, false, {}⟩
def A (run : ARun) (save text : Bool) : ACommand := ⟨run, save, text, {}⟩
/-- A command writing stdout to the file `path`; `bad`: the path cannot be opened. -/
def toFile (path : String) (bad : Option OpenKind) : Redirect :=
  { stdout := .file path, openErr := bad.map (fun k => (false, k)) }

/-! ## cmd / shell -/

/-- The step succeeds iff every declared command can be started, exits 0 and — where its command
    decodes what it captures — wrote decodable output. (`ho`: every output file can be opened; the
    other case is `serial_open_failure`.) -/
theorem serial_ok_iff_all_zero (cs : List SCommand) (ho : ∀ c ∈ cs, c.redir.openError = none) :
    (runSerial cs).err = none ↔
      ∀ d ∈ declsOf cs, d.proc.spawn = none ∧ d.proc.code = 0 ∧ d.undec = false := by
  simp only [runSerial, runCommands_closed cs ho, firstFailD_none_iff, Decl.stops_false_iff]

example : (runSerial [S [P 1 0 "a" "", P 2 0 "" ""] true true, S [P 3 0 "" ""] false false]).err = none ∧
    (runSerial [S [P 1 0 "a" "", P 2 3 "" ""] true true, S [P 3 0 "" ""] false false]).err = some (.exit 2 3) ∧
    (runSerial [S [P 1 0 "a" "", P 2 (-9) "" ""] true true, S [P 3 0 "" ""] false false]).err = some (.exit 2 (-9)) ∧
    (runSerial [S [P 1 0 "a" "", PX 2 .notFound] true true, S [P 3 0 "" ""] false false]).err
      = some (.spawn 2 .notFound) ∧
    -- every command exits 0, the 2nd one's output is not text: the step fails
    (runSerial [S [P 1 0 "a" "", PU 2 0] true true, S [P 3 0 "" ""] false false]).err = some (.decode 2) ∧
    -- … not so when nothing is decoded (no save; save + bytes)
    (runSerial [S [P 1 0 "a" "", PU 2 0] false false, S [PU 3 0] true false]).err = none := by
  decide +kernel

/-- The commands run (`pre`: a process existed for each) are a prefix of the declaration, *started in
    that order*. Then exactly one of:
    * no error: nothing is left, every one exited 0 (and its output, where decoded, was decodable);
    * a `CalledProcessError`: the last one run exited non-zero — **positive or negative** —, all before
      it exited 0, the error carries that command and that status;
    * a `UnicodeDecodeError` (`.decode`): the last one **ran** (it is in `started`), its captured output
      cannot be decoded; the error is *not* an exit error — whatever the exit status was;
    * a spawn error: every one run exited 0, the *next* declared command could not be started and the
      error is its.
    In the last three cases nothing after the failing command was started (`started` is exactly `pre`). -/
theorem serial_started_is_prefix (cs : List SCommand) (ho : ∀ c ∈ cs, c.redir.openError = none) :
    ∃ pre rest, declsOf cs = pre ++ rest ∧ (runSerial cs).started = pre.map (·.proc.id) ∧
      (∀ d ∈ pre, d.proc.spawn = none) ∧
      match (runSerial cs).err with
      | none => rest = [] ∧ ∀ d ∈ pre, d.proc.code = 0 ∧ d.undec = false
      | some (.exit i c) => ∃ init d, pre = init ++ [d] ∧ (∀ x ∈ init, x.proc.code = 0 ∧ x.undec = false) ∧
          d.proc.code ≠ 0 ∧ d.undec = false ∧ i = d.proc.id ∧ c = d.proc.code
      | some (.decode i) => ∃ init d, pre = init ++ [d] ∧ (∀ x ∈ init, x.proc.code = 0 ∧ x.undec = false) ∧
          d.undec = true ∧ i = d.proc.id
      | some (.spawn i k) => (∀ d ∈ pre, d.proc.code = 0 ∧ d.undec = false) ∧
          ∃ d rest', rest = d :: rest' ∧ d.proc.spawn = some k ∧ i = d.proc.id
      | some (.openOut _ _) => False := by
  obtain ⟨rest, h1, h2, h3⟩ := ranD_split (declsOf cs)
  refine ⟨ranD (declsOf cs), rest, h1, ?_, h2, ?_⟩
  · simp [runSerial, runCommands_closed cs ho]
  · simp only [runSerial, runCommands_closed cs ho]
    exact h3

example : (runSerial [S [P 1 0 "" "", P 2 1 "" "", P 3 0 "" ""] false false, S [P 4 0 "" ""] false false]).started
    = [1, 2] ∧
  (runSerial [S [P 1 0 "" "", P 2 (-15) "" "", P 3 0 "" ""] false false, S [P 4 0 "" ""] false false]).started
    = [1, 2] ∧
  (runSerial [S [P 1 0 "" "", PX 2 .permission, P 3 0 "" ""] false false, S [P 4 0 "" ""] false false]).started
    = [1] ∧
  (runSerial [S [P 1 0 "" "", PU 2 0, P 3 0 "" ""] true true, S [P 4 0 "" ""] false false]).started
    = [1, 2] := by decide +kernel

/-- identical instructions in the serial steps: `[w, w]` runs `w` twice; `[ok, fail, the same fail]` stops at
    the first failure, with `save` one result per command run. -/
example : (runSerial [S [P 1 0 "" ""] false false, S [P 1 0 "" ""] false false]).started = [1, 1] ∧
    (runSerial [S [P 1 0 "x" "", P 1 0 "x" ""] true true]).results.map (·.id) = [1, 1] ∧
    (runSerial [S [P 2 0 "" "", P 1 3 "" "", P 1 3 "" ""] true true]).started = [2, 1] ∧
    (runSerial [S [P 2 0 "" "", P 1 3 "" "", P 1 3 "" ""] true true]).err = some (.exit 1 3) := by
  decide +kernel

/-- "Succeeds iff every command it *ran* exited 0", on the commands actually attempted (the
    declaration prefix through the first one that stops the loop): the step succeeds iff each of them
    could be started, exited 0 **and its captured output could be decoded**. The last conjunct is where
    the code departs from the property text: a command that ran and exited 0 can fail the step. -/
theorem serial_ok_iff_all_run_zero (cs : List SCommand) (ho : ∀ c ∈ cs, c.redir.openError = none) :
    (runSerial cs).err = none ↔
      ∀ d ∈ takeThroughD (declsOf cs), d.proc.spawn = none ∧ d.proc.code = 0 ∧ d.undec = false := by
  obtain ⟨rest, _, h2⟩ := takeThroughD_split (declsOf cs)
  simp only [runSerial, runCommands_closed cs ho]
  cases hf : firstFailD (declsOf cs) with
  | none =>
    rw [hf] at h2
    replace h2 : rest = [] ∧ ∀ d ∈ takeThroughD (declsOf cs), d.stops = false := h2
    exact ⟨fun _ d hd => (Decl.stops_false_iff _).mp (h2.2 d hd), fun _ => rfl⟩
  | some e =>
    rw [hf] at h2
    obtain ⟨init, d, h3, _, h5, _⟩ := h2
    simp only [reduceCtorEq, false_iff]
    intro hall
    have := (Decl.stops_false_iff _).mpr (hall d (by simp [h3]))
    simp [h5] at this

example : ∃ d ∈ takeThroughD (declsOf [S [P 1 0 "" "", P 2 (-9) "" "", P 3 0 "" ""] false false]),
    d.proc.code ≠ 0 := ⟨⟨P 2 (-9) "" "", false, false, false⟩, by decide +kernel, by decide⟩

/-- When nothing undecodable is captured (no `decodeFails` under a decoding command — in particular
    for ASCII output) the step succeeds iff every command it ran exited 0: the property's clause. -/
theorem serial_ok_iff_all_run_zero_decodable (cs : List SCommand)
    (ho : ∀ c ∈ cs, c.redir.openError = none) (hd : ∀ d ∈ declsOf cs, d.undec = false) :
    (runSerial cs).err = none ↔
      ∀ d ∈ takeThroughD (declsOf cs), d.proc.spawn = none ∧ d.proc.code = 0 := by
  rw [serial_ok_iff_all_run_zero cs ho]
  obtain ⟨rest, h1, _⟩ := takeThroughD_split (declsOf cs)
  have hmem : ∀ d ∈ takeThroughD (declsOf cs), d ∈ declsOf cs := fun d hd' => by rw [h1]; simp [hd']
  exact ⟨fun h d hd' => ⟨(h d hd').1, (h d hd').2.1⟩,
         fun h d hd' => ⟨(h d hd').1, (h d hd').2, hd d (hmem d hd')⟩⟩

/-- With `save`, `cmdOut` holds one result per command actually run whose command has `save` **and whose
    output could be decoded**, in declaration order, the failed one included (it is appended before the
    return-code check) — for every outcome sequence: a non-zero exit of either sign, or a later command
    that cannot be started, loses none of the results of the commands that did run. One result is stored
    as the object itself, several as a list, none leaves `cmdOut` untouched. -/
theorem serial_cmdOut (cs : List SCommand) (ho : ∀ c ∈ cs, c.redir.openError = none) :
    ∃ pre rest, declsOf cs = pre ++ rest ∧ (runSerial cs).started = pre.map (·.proc.id) ∧
      (runSerial cs).results =
        (pre.filter (fun d => d.save && !d.undec)).map (fun d => mkResultSync d.text d.enc d.proc) ∧
      (runSerial cs).cmdOut = cmdOutOf (runSerial cs).results := by
  obtain ⟨rest, h1, _⟩ := ranD_split (declsOf cs)
  refine ⟨ranD (declsOf cs), rest, h1, by simp [runSerial, runCommands_closed cs ho], ?_, rfl⟩
  simp only [runSerial, runCommands_closed cs ho, resultsOfD, ranD, List.filter_filter]
  congr 1
  apply List.filter_congr
  intro d _
  cases d.save <;> cases d.proc.ran <;> cases d.undec <;> rfl

/-- When every command has `save`: one result per started command whose output could be decoded, same
    order, carrying that command's exit status; when nothing undecodable is captured that is **exactly
    one result per command actually run**. -/
theorem serial_cmdOut_all_save (cs : List SCommand) (ho : ∀ c ∈ cs, c.redir.openError = none)
    (hs : ∀ c ∈ cs, c.save = true) :
    (runSerial cs).results.map (·.id) = ((ranD (declsOf cs)).filter (fun d => !d.undec)).map (·.proc.id) ∧
    (runSerial cs).results.map (·.code) = ((ranD (declsOf cs)).filter (fun d => !d.undec)).map (·.proc.code) ∧
    ((∀ d ∈ declsOf cs, d.undec = false) → (runSerial cs).results.map (·.id) = (runSerial cs).started) := by
  have hall : ∀ d ∈ declsOf cs, d.save = true := by
    induction cs with
    | nil => simp [declsOf]
    | cons c cs ih =>
      intro d hd
      simp only [declsOf, List.mem_append, List.mem_map] at hd
      cases hd with
      | inl h => obtain ⟨p, _, rfl⟩ := h; exact hs c (by simp)
      | inr h =>
        exact ih (fun c' hc' => ho c' (by simp [hc'])) (fun c' hc' => hs c' (by simp [hc'])) d h
  obtain ⟨rest, h1, _⟩ := takeThroughD_split (declsOf cs)
  have hmem : ∀ d ∈ takeThroughD (declsOf cs), d ∈ declsOf cs := fun d hd => by rw [h1]; simp [hd]
  have hfil : (takeThroughD (declsOf cs)).filter (fun d => d.save && d.proc.ran && !d.undec) =
      (ranD (declsOf cs)).filter (fun d => !d.undec) := by
    unfold ranD
    rw [List.filter_filter]
    apply List.filter_congr
    intro d hd
    simp [hall d (hmem d hd), Bool.and_comm]
  have hid : ∀ d : Decl, (mkResultSync d.text d.enc d.proc).id = d.proc.id ∧
      (mkResultSync d.text d.enc d.proc).code = d.proc.code := by
    intro d
    simp only [mkResultSync]
    split <;> try split
    all_goals exact ⟨rfl, rfl⟩
  have h1' : (runSerial cs).results.map (·.id) =
      ((ranD (declsOf cs)).filter (fun d => !d.undec)).map (·.proc.id) := by
    simp only [runSerial, runCommands_closed cs ho, resultsOfD, hfil, List.map_map]
    apply List.map_congr_left
    intro d _
    exact (hid d).1
  refine ⟨h1', ?_, ?_⟩
  · simp only [runSerial, runCommands_closed cs ho, resultsOfD, hfil, List.map_map]
    apply List.map_congr_left
    intro d _
    exact (hid d).2
  · intro hd
    rw [h1']
    simp only [runSerial, runCommands_closed cs ho]
    congr 1
    apply List.filter_eq_self.mpr
    intro d hd'
    simp only [ranD, List.mem_filter] at hd'
    simp [hd d (hmem d hd'.1)]

example : (runSerial [S [P 1 0 "x\n" "", P 2 1 "" "boom \n", P 3 0 "" ""] true true]).cmdOut
    = .many [⟨1, 0, .text "x", .text ""⟩, ⟨2, 1, .text "", .text "boom"⟩] ∧
  -- killed by SIGKILL: the result with code -9 is there, nothing after it ran
  (runSerial [S [P 1 0 "x\n" "", P 2 (-9) "" "", P 3 0 "" ""] true true]).cmdOut
    = .many [⟨1, 0, .text "x", .text ""⟩, ⟨2, -9, .text "", .text ""⟩] ∧
  -- the 2nd cannot be started: the result of the 1st is kept
  (runSerial [S [P 1 0 "x\n" "", PX 2 .notFound, P 3 0 "" ""] true true]).cmdOut
    = .single ⟨1, 0, .text "x", .text ""⟩ ∧
  (runSerial [S [P 1 0 "A" ""] true true, S [P 2 0 "B" "", PX 3 .notFound, P 4 0 "" ""] true true,
              S [P 5 0 "" ""] false false]).cmdOut
    = .many [⟨1, 0, .text "A", .text ""⟩, ⟨2, 0, .text "B", .text ""⟩] ∧
  -- bytes mode with an encoding: subprocess.run decodes all the same, nothing is stripped
  (runSerial [⟨[P 1 0 "x \n" ""], true, false, true, {}⟩]).cmdOut = .single ⟨1, 0, .text "x \n", .text ""⟩ := by
  decide +kernel

/-- **Undecodable captured output.** When the step ends with the decode error of command `i`:
    `i` *was started* (it is the last of `started`), every command before it exited 0, **there is no
    result for it** (the results are those of the commands before it), and the error is neither an exit
    error nor a spawn error — although the process ran and has an exit status (possibly 0). Nothing
    declared after it is started. -/
theorem serial_undecodable (cs : List SCommand) (ho : ∀ c ∈ cs, c.redir.openError = none) (i : Nat)
    (h : (runSerial cs).err = some (.decode i)) :
    ∃ init d rest, declsOf cs = init ++ d :: rest ∧ d.undec = true ∧ d.proc.spawn = none ∧ i = d.proc.id ∧
      (∀ x ∈ init, x.proc.spawn = none ∧ x.proc.code = 0 ∧ x.undec = false) ∧
      (runSerial cs).started = init.map (·.proc.id) ++ [i] ∧
      (runSerial cs).results =
        (init.filter (·.save)).map (fun d => mkResultSync d.text d.enc d.proc) := by
  obtain ⟨rest, h1, h2⟩ := takeThroughD_split (declsOf cs)
  simp only [runSerial, runCommands_closed cs ho] at h ⊢
  rw [h] at h2
  obtain ⟨init, d, h3, h4, h5, h6⟩ := h2
  have hsp : d.proc.spawn = none := by
    cases hs : d.proc.spawn with
    | none => rfl
    | some k => simp [Decl.error, Proc.error, hs] at h6
  have hu : d.undec = true := by
    by_cases hu : d.undec = true
    · exact hu
    · have : (d.dec && d.proc.decodeFails) = false := by simpa [Decl.undec] using hu
      simp [Decl.error, Proc.error, hsp, this] at h6
  have hi : i = d.proc.id := by
    have : (d.dec && d.proc.decodeFails) = true := hu
    simpa [Decl.error, Proc.error, hsp, this] using h6
  have hin : ∀ x ∈ init, x.proc.spawn = none ∧ x.proc.code = 0 ∧ x.undec = false :=
    fun x hx => (Decl.stops_false_iff x).mp (h4 x hx)
  refine ⟨init, d, rest, by rw [h1, h3]; simp, hu, hsp, hi, hin, ?_, ?_⟩
  · simp only [ranD, h3, List.filter_append, filter_ran_of_not_stops h4]
    simp [Proc.ran, hsp, hi]
  · simp only [resultsOfD, h3, List.filter_append]
    have : [d].filter (fun d => d.save && d.proc.ran && !d.undec) = [] := by simp [hu]
    rw [this, List.append_nil]
    congr 1
    apply List.filter_congr
    intro x hx
    simp [(hin x hx).2.2, (ran_iff x.proc).mpr (hin x hx).1]

/-- `echo one; <prints ff fe>; echo three` with `save`: every command exits 0, yet the step fails, the
    third command never runs and `cmdOut` holds only the first result. With `bytes` all three results
    are there; with `bytes` **and** an `encoding` the synchronous step decodes anyway and fails. -/
example :
    (runSerial [S [P 1 0 "one\n" "", PU 2 0, P 3 0 "three\n" ""] true true]).err = some (.decode 2) ∧
    (runSerial [S [P 1 0 "one\n" "", PU 2 0, P 3 0 "three\n" ""] true true]).started = [1, 2] ∧
    (runSerial [S [P 1 0 "one\n" "", PU 2 0, P 3 0 "three\n" ""] true true]).cmdOut
      = .single ⟨1, 0, .text "one", .text ""⟩ ∧
    (runSerial [S [P 1 0 "one\n" "", PU 2 0, P 3 0 "three\n" ""] true false]).err = none ∧
    (runSerial [S [P 1 0 "one\n" "", PU 2 0, P 3 0 "three\n" ""] true false]).results.map (·.id) = [1, 2, 3] ∧
    (runSerial [⟨[P 1 0 "one\n" "", PU 2 0, P 3 0 "three\n" ""], true, false, true, {}⟩]).err = some (.decode 2) ∧
    -- a non-zero exit status does not change the kind of the error: the decoding raises first
    (runSerial [S [PU 1 3, P 2 0 "" ""] true true]).err = some (.decode 1) := by
  decide +kernel

/-- **An output file that cannot be opened.** Let `c` be the first command whose `stdout:` / `stderr:` file
    cannot be opened, `pre` the commands before it (the theorems above apply to `pre`: all its files can
    be opened). If `pre` fails, the step is `pre`'s; otherwise everything of `pre` ran, **nothing of `c`
    or after it is started** and the error is the one of opening the file. -/
theorem serial_open_failure (cs : List SCommand) :
    (∀ c ∈ (splitAtOpenFail cs).1, c.redir.openError = none) ∧
    match (splitAtOpenFail cs).2 with
    | none => cs = (splitAtOpenFail cs).1
    | some (e, rest) =>
      (∃ c, c.redir.openError = some e ∧ cs = (splitAtOpenFail cs).1 ++ c :: rest) ∧
      runSerial cs =
        match (runSerial (splitAtOpenFail cs).1).err with
        | some _ => runSerial (splitAtOpenFail cs).1
        | none => { runSerial (splitAtOpenFail cs).1 with err := some e } := by
  have hs := splitAtOpenFail_spec cs
  refine ⟨hs.1, ?_⟩
  cases h2 : (splitAtOpenFail cs).2 with
  | none => have := hs.2; rw [h2] at this; exact this
  | some er =>
    obtain ⟨e, rest⟩ := er
    have h := hs.2
    rw [h2] at h
    obtain ⟨c, hc, hsplit⟩ := h
    refine ⟨⟨c, hc, hsplit⟩, ?_⟩
    have hexec : runCommands (c :: rest) = { started := [], results := [], err := some e } := by
      simp [runCommands_cons, SCommand.exec, hc]
    conv => lhs; rw [hsplit]
    simp only [runSerial, runCommands_append, hexec]
    cases hr : (runCommands (splitAtOpenFail cs).1).err <;> simp [hr]

example : (runSerial [S [P 1 0 "A" ""] true true,
                      ⟨[P 2 0 "" "", P 3 0 "" ""], false, false, false, toFile "out" (some .isDir)⟩,
                      S [P 4 0 "" ""] false false]) =
      { started := [1], err := some (.openOut "out" .isDir), results := [⟨1, 0, .text "A", .text ""⟩],
        cmdOut := .single ⟨1, 0, .text "A", .text ""⟩ } ∧
    splitAtOpenFail [S [P 1 0 "A" ""] true true,
                     ⟨[P 2 0 "" "", P 3 0 "" ""], false, false, false, toFile "out" (some .isDir)⟩] =
      ([S [P 1 0 "A" ""] true true], some (.openOut "out" .isDir, [])) := by
  decide +kernel

/-- **`stdout:` file of a command** (stderr inherited or discarded, the file can be opened): once the
    command is over the file holds — after its previous content when `append`, else from scratch — what the
    processes that existed wrote to stdout, one after the other in declaration order (the failing one
    included, nothing of the commands never started). -/
theorem serial_stdout_file (c : SCommand) (p : String) (fs : Fs) (h : c.redir.onlyStdoutFile p) :
    (filesSerial [c] fs).get p =
      some ((if c.redir.append then (fs.get p).getD "" else "") ++ catOut (ranP c.dec c.run)) := by
  have ho : c.redir.openError = none := by simp [Redirect.openError, h.2.2]
  have hfold := foldl_writeProc_get c.redir p h (ranP c.dec c.run) (c.redir.openFs fs) _ (openFs_get c.redir p h fs)
  simp only [filesSerial, ho]
  cases c.exec.err <;> exact hfold

example :
    filesSerial [⟨[P 1 0 "a\n" "x", P 2 3 "b\n" "", P 3 0 "c\n" ""], false, false, false,
                  { stdout := .file "o", append := true }⟩] [("o", "old\n")] = [("o", "old\na\nb\n")] ∧
    filesSerial [⟨[P 1 0 "a\n" "x", P 2 3 "b\n" "y"], false, false, false,
                  { stdout := .file "o", stderr := .toStdout }⟩] [("o", "old\n")] = [("o", "a\nxb\ny")] ∧
    -- stderr cannot be opened: stdout has been emptied already, nothing ran
    filesSerial [⟨[P 1 0 "a\n" ""], false, false, false,
                  { stdout := .file "o", stderr := .file "e", openErr := some (true, .isDir) }⟩] [("o", "old\n")]
      = [("o", "")] := by
  decide +kernel

/-- **Stale `cmdOut`.** The step writes `context['cmdOut']` only when it has at least one result:
    otherwise what the context held before — the result of an *earlier* step — is still there afterwards,
    also when the commands have `save`. -/
theorem cmdOut_after (prev : Option Val) (cs : List SCommand) :
    (cmdOutAfter prev cs = .prior prev ↔ (runSerial cs).results = []) ∧
    (∀ r, cmdOutAfter prev cs = .single r ↔ (runSerial cs).results = [r]) ∧
    (∀ rs, cmdOutAfter prev cs = .many rs ↔ (runSerial cs).results = rs ∧ 2 ≤ rs.length) := by
  simp only [cmdOutAfter, runSerial]
  generalize (runCommands cs).results = res
  match res with
  | [] => simp [cmdOutOf]
  | [r] => simp [cmdOutOf]
  | r1 :: r2 :: rs =>
    simp only [cmdOutOf]
    refine ⟨by simp, by simp, fun rs' => ?_⟩
    constructor
    · intro h; injection h with h; subst h; simp
    · intro h; rw [h.1]

/-- `save` and the first command cannot be started (or its output cannot be decoded, or its output file
    cannot be opened …): no result, the previous step's `cmdOut` survives. -/
example :
    cmdOutAfter (some (.str "previous step's")) [S [PX 1 .notFound, P 2 0 "" ""] true true]
      = .prior (some (.str "previous step's")) ∧
    cmdOutAfter (some (.str "previous step's")) [S [PU 1 0] true true] = .prior (some (.str "previous step's")) ∧
    cmdOutAfter none [S [P 1 0 "x" ""] false false] = .prior none ∧
    cmdOutAfter (some (.str "previous step's")) [S [P 1 0 "x" ""] true true]
      = .single ⟨1, 0, .text "x", .text ""⟩ := by
  decide +kernel

/-! ## From the configuration to the commands -/

/-- The commands `CmdStep.__init__` / `AsyncCmdStep.__init__` build hold the instruction strings in the
    order a two-line flattening of the configuration value gives (`flattenSpec`: the items of the
    configuration, each item's `run` strings, sub-lists inlined), each with the `save` / `text` of its item
    — for every configuration the constructor accepts. -/
theorem parse_declaration_order (async dflt : Bool) (cfg : Val) (cs : List RawCommand)
    (h : parseCmdConfig async dflt (some cfg) = some (.ok cs)) : rawDecls cs = flattenSpec cfg :=
  parse_decls async dflt cfg cs h

/-- … hence the declarations of the serial step the model runs are the scripted outcomes of exactly these
    strings, in this order. -/
theorem serial_cfg_declaration_order (dflt : Bool) (w : World) (cfg : Val) (cs : List RawCommand)
    (h : parseCmdConfig false dflt (some cfg) = some (.ok cs)) :
    (declsOf (cs.map (RawCommand.toS w))).map (fun d => (d.proc, d.save, d.text)) =
      (flattenSpec cfg).map (fun x => (w.proc x.1, x.2.1, x.2.2)) := by
  rw [declsOf_toS, parse_decls false dflt cfg cs h]

example :
    flattenSpec (.list [.str "a", .dict [(.str "run", .list [.str "b", .str "c"]), (.str "save", .bool true)],
                        .dict [(.str "run", .str "d"), (.str "save", .str "True"), (.str "bytes", .int 1)]])
      = [("a", false, false), ("b", true, true), ("c", true, true), ("d", true, false)] ∧
    (parseCmdConfig true false
        (some (.list [.str "a", .list [.str "b", .str "c"],
                      .dict [(.str "run", .list [.str "d", .list [.str "e", .str "f"]])]]))).map
        (fun r => match r with | .ok cs => rawDecls cs | .error _ => [])
      = some [("a", false, false), ("b", false, false), ("c", false, false), ("d", false, false),
              ("e", false, false), ("f", false, false)] := by
  decide +kernel

/-- **One command per declared entry.** For a list (or tuple) configuration the constructor builds exactly one
    command per item, position by position: the `i`-th command is the one `parseItem` makes of the `i`-th
    item, whatever the other items are — an item equal to an earlier one is *not* dropped or merged. -/
theorem parse_preserves_length (async dflt : Bool) (cfg : Val) (xs : List Val) (cs : List RawCommand)
    (hseq : cfg = .list xs ∨ cfg = .tuple xs)
    (h : parseCmdConfig async dflt (some cfg) = some (.ok cs)) :
    cs.length = xs.length ∧
    ∀ (i : Nat) (v : Val), xs[i]? = some v → ∃ c, cs[i]? = some c ∧ parseItem async dflt v = some (.ok c) := by
  have hp : Pointwise (fun v c => parseItem async dflt v = some (.ok c)) xs cs := by
    cases hseq with
    | inl e => subst e; exact parseItems_forall₂ async dflt xs cs h
    | inr e => subst e; exact parseItems_forall₂ async dflt xs cs h
  exact ⟨hp.length_eq, hp.get⟩

/-- … in particular the same item at two positions `i`, `j` gives the same command at both positions `i`
    and `j` of the command list: both are there. -/
theorem parse_keeps_duplicates (async dflt : Bool) (cfg : Val) (xs : List Val) (cs : List RawCommand)
    (hseq : cfg = .list xs ∨ cfg = .tuple xs)
    (h : parseCmdConfig async dflt (some cfg) = some (.ok cs))
    (i j : Nat) (v : Val) (hi : xs[i]? = some v) (hj : xs[j]? = some v) :
    ∃ c, cs[i]? = some c ∧ cs[j]? = some c ∧ parseItem async dflt v = some (.ok c) := by
  obtain ⟨_, hget⟩ := parse_preserves_length async dflt cfg xs cs hseq h
  obtain ⟨c, hc, hv⟩ := hget i v hi
  obtain ⟨c', hc', hv'⟩ := hget j v hj
  rw [hv] at hv'
  simp only [Option.some.injEq, Except.ok.injEq] at hv'
  subst hv'
  exact ⟨c, hc, hc', hv⟩

/-- **One lane per declared entry.** The units of concurrency the constructor builds (`rawLanes`: a top-level
    instruction, a top-level serial sub-list, each element of a map's `run`) are the ones a three-line reading
    of the configuration value gives (`lanesSpec`, a `flatMap`/`map` — multiplicities are those of the
    value), in declaration order. -/
theorem parse_lanes (async dflt : Bool) (cfg : Val) (cs : List RawCommand)
    (h : parseCmdConfig async dflt (some cfg) = some (.ok cs)) : rawLanes cs = lanesSpec cfg :=
  parse_lanes' async dflt cfg cs h

/-- the same instruction twice; the same sub-list twice; the same map twice; duplicates inside a `run` list. -/
example :
    parseCmdConfig true false (some (.list [.str "w", .str "w"])) =
      some (.ok [⟨.single "w", simpleSettings false⟩, ⟨.single "w", simpleSettings false⟩]) ∧
    (parseCmdConfig true false (some (.list [.list [.str "a", .str "b"], .list [.str "a", .str "b"]]))).map
        (fun r => match r with | .ok cs => cs.length | .error _ => 0) = some 2 ∧
    lanesSpec (.list [.str "w", .list [.str "a", .str "b"], .str "w", .list [.str "a", .str "b"],
                      .dict [(.str "run", .list [.str "w", .str "w", .list [.str "a", .str "a"]])],
                      .dict [(.str "run", .list [.str "w", .str "w", .list [.str "a", .str "a"]])]])
      = [["w"], ["a", "b"], ["w"], ["a", "b"], ["w"], ["w"], ["a", "a"], ["w"], ["w"], ["a", "a"]] ∧
    flattenSpec (.list [.str "w", .str "w", .dict [(.str "run", .list [.str "w", .str "w"])]])
      = [("w", false, false), ("w", false, false), ("w", false, false), ("w", false, false)] := by
  refine ⟨rfl, ?_, ?_, ?_⟩ <;> decide +kernel

/-- The constructor's error branches. -/
example :
    parseCmdConfig false false none = some (.error excNoKey) ∧
    parseCmdConfig false false (some .none) = some (.error excNoValue) ∧
    parseCmdConfig false false (some (.int 5)) = some (.error excBadConfig) ∧
    parseCmdConfig false false (some (.list [.str "a", .int 5])) = some (.error excBadItem) ∧
    parseCmdConfig false false (some (.list [.str "a", .list [.str "b"]])) = some (.error excBadItem) ∧
    parseCmdConfig false false (some (.dict [(.str "save", .bool true)])) = some (.error excRunMissing) ∧
    parseCmdConfig false false (some (.dict [(.str "run", .list [])])) = some (.error excRunEmpty) ∧
    parseCmdConfig false false (some (.dict [(.str "run", .str "")])) = some (.error excRunEmpty) ∧
    parseCmdConfig true false (some (.dict [(.str "run", .str "a"), (.str "save", .bool true),
                                             (.str "stderr", .str "/dev/null")])) = some (.error excSaveRedirect) ∧
    parseCmdConfig false false (some (.dict [(.str "run", .str "a"), (.str "stdout", .str "o"),
                                              (.str "stderr", .str "/dev/stdout"), (.str "append", .int 1)])) =
      some (.ok [⟨.single "a", { simpleSettings false with stdout := .file "o", stderr := .toStdout, append := true }⟩]) := by
  refine ⟨?_, ?_, ?_, ?_, ?_, ?_, ?_, ?_, ?_, ?_⟩ <;> rfl

/-! ## cmds / shells -/

/-- Whatever the completion schedule: the saved results, the aggregate error and the set of started
    processes are the same. -/
theorem async_results_order_independent (cs : List ACommand) (s₁ s₂ : List Nat) :
    (runAsync cs s₁).cmdOut = (runAsync cs s₂).cmdOut ∧
    (runAsync cs s₁).errors = (runAsync cs s₂).errors ∧
    (runAsync cs s₁).started = (runAsync cs s₂).started := by
  simp [runAsync, final_lanes]

theorem items_results (c : ACommand) : itemResults c.items = c.lanes.flatMap ALane.results := by
  unfold ACommand.items ACommand.lanes
  cases c.redir.openError with
  | some e => simp [itemResults]
  | none =>
    simp only [itemResults_flatMap]
    exact congrArg (fun f => List.flatMap f _) (funext fun l => (ALane.results_eq l).symm)

theorem lanesOf_flatMap (cs : List ACommand) : lanesOf cs = cs.flatMap ACommand.lanes := by
  induction cs with
  | nil => rfl
  | cons c cs ih => simp [lanesOf, ih]

/-- … and they are in declaration order: flattened, `cmdOut` is the items of the `save` commands in
    the order the commands and their lanes are declared, each lane contributing one item per instruction it
    attempted, in sub-list order (the exception object for the one that could not be started / whose output
    could not be decoded, as the code does; one exception for a command whose output file could not be
    opened); the `SubprocessResult`s among them are exactly one per process that existed **and whose
    output could be decoded**, in that order. `cmdOut` is set iff some command has `save`. -/
theorem async_cmdOut_declaration_order (cs : List ACommand) (s : List Nat) :
    match (runAsync cs s).cmdOut with
    | none => cs.any (·.save) = false
    | some slots => cs.any (·.save) = true ∧
        slotItems slots = (cs.filter (·.save)).flatMap ACommand.items ∧
        slotResults slots = (lanesOf (cs.filter (·.save))).flatMap ALane.results := by
  simp only [runAsync, final_lanes]
  cases h : cs.any (·.save)
  · simp
  · simp only [if_true]
    refine ⟨trivial, (collect_final cs).1, ?_⟩
    rw [slotResults, (collect_final cs).1, itemResults_flatMap, lanesOf_flatMap, List.flatMap_assoc]
    exact congrArg (fun f => List.flatMap f _) (funext fun c => items_results c)

/-- When every command has `save`: `cmdOut` holds one `SubprocessResult` per process that existed and whose
    output could be decoded, in declaration order (lane by lane, sub-list order inside a lane); when nothing
    undecodable is captured: **exactly one per process that existed**. -/
theorem async_cmdOut_one_result_per_process (cs : List ACommand) (s : List Nat)
    (hs : ∀ c ∈ cs, c.save = true) :
    match (runAsync cs s).cmdOut with
    | none => cs = []
    | some slots =>
      (slotResults slots).map (·.id) = (lanesOf cs).flatMap (fun l =>
        ((ranP l.dec l.procs).filter (fun p => !(l.dec && p.decodeFails))).map (·.id)) ∧
      ((∀ l ∈ lanesOf cs, ∀ p ∈ l.procs, (l.dec && p.decodeFails) = false) →
        (slotResults slots).map (·.id) = (runAsync cs s).started) := by
  have h := async_cmdOut_declaration_order cs s
  cases hc : (runAsync cs s).cmdOut with
  | none =>
    rw [hc] at h
    cases cs with
    | nil => rfl
    | cons c cs => simp [hs c (by simp)] at h
  | some slots =>
    rw [hc] at h
    obtain ⟨_, _, h3⟩ := h
    have hfil : cs.filter (·.save) = cs := List.filter_eq_self.mpr (fun c hc' => hs c hc')
    have hres : ∀ l : ALane, l.results.map (·.id) =
        ((ranP l.dec l.procs).filter (fun p => !(l.dec && p.decodeFails))).map (·.id) := by
      intro l
      simp only [ALane.results, ranP, List.filter_filter, List.map_map]
      have : (fun p => p.ran && !(l.dec && p.decodeFails)) =
          (fun p : Proc => (!(l.dec && p.decodeFails)) && p.ran) := by
        funext p; exact Bool.and_comm _ _
      rw [this]
      apply List.map_congr_left
      intro p _
      simp only [Function.comp, mkResultAsync]
      split <;> try split
      all_goals rfl
    have h1 : (slotResults slots).map (·.id) = (lanesOf cs).flatMap (fun l =>
        ((ranP l.dec l.procs).filter (fun p => !(l.dec && p.decodeFails))).map (·.id)) := by
      rw [h3, hfil, List.map_flatMap]
      exact congrArg (fun f => List.flatMap f _) (funext hres)
    refine ⟨h1, fun hd => ?_⟩
    rw [h1]
    simp only [runAsync, final_lanes, List.map_map, List.flatten_eq_flatMap, List.flatMap_map]
    apply flatMap_congr_mem
    intro l hl
    simp only [Function.comp, laneStarted_final, ranP]
    congr 1
    apply List.filter_eq_self.mpr
    intro p hp
    have hp' : p ∈ l.procs := by
      obtain ⟨rest, hsplit, _⟩ := takeThrough_split l.dec l.procs
      rw [hsplit]
      simp only [List.mem_filter] at hp
      simp [hp.1]
    simp [hd l hl p hp']

/-- Every top-level entry is started before any process has been waited for (the trace of every
    schedule begins with the start of the first process of each lane that can be started), and ends
    up among the started. -/
theorem async_all_started (cs : List ACommand) (s : List Nat) :
    (∃ rest, (runAsync cs s).trace = startEvents (lanesOf cs) ++ rest) ∧
    ∀ l ∈ lanesOf cs, ∀ p, l.procs.head? = some p → p.spawn = none → p.id ∈ (runAsync cs s).started := by
  refine ⟨⟨_, by simp only [runAsync, List.append_assoc]; rfl⟩, ?_⟩
  intro l hl p hp hsp
  simp only [runAsync, final_lanes, List.mem_flatten, List.mem_map]
  refine ⟨laneStarted (finalLane l.dec l.procs), ⟨finalLane l.dec l.procs, ⟨l, hl, rfl⟩, rfl⟩, ?_⟩
  obtain ⟨ps, sv, tx⟩ := l
  cases ps with
  | nil => simp at hp
  | cons q qs =>
    simp only [List.head?_cons, Option.some.injEq] at hp
    subst hp
    rw [laneStarted_final]
    by_cases h : q.stops (ALane.dec ⟨q :: qs, sv, tx⟩) = true <;> simp [takeThrough, h, Proc.ran, hsp]

/-- `startEvents` really is "the first instruction of every lane, when it can be started". -/
theorem startEvents_spec (ls : List ALane) :
    startEvents ls = ls.flatMap (fun l => match l.procs.head? with
      | some p => if p.spawn = none then [Event.start p.id] else []
      | none => []) := by
  induction ls with
  | nil => rfl
  | cons l ls ih =>
    simp only [startEvents, List.flatMap_cons, ih]
    congr 1
    obtain ⟨ps, sv, tx⟩ := l
    cases ps with
    | nil => rfl
    | cons p ps => cases hp : p.spawn <;> simp [launchEvents, hp]

/-- A serial sub-list stops at its first non-zero exit (positive or negative), unstartable command or
    undecodable captured output: the processes started are, lane by lane, the startable ones of the
    prefix of the lane up to and including the first instruction that stops it. -/
theorem async_sublist_prefix (cs : List ACommand) (s : List Nat) :
    (runAsync cs s).started = (lanesOf cs).flatMap (fun l => (ranP l.dec l.procs).map (·.id)) := by
  simp only [runAsync, final_lanes, List.map_map]
  rw [List.flatMap_def]
  congr 1
  apply List.map_congr_left
  intro l _
  simp [laneStarted_final, ranP]

/-- `takeThrough` is what its name says: a prefix of the lane; every instruction in it but the last
    could be started, exited 0 and (where decoded) wrote decodable output; either it is the whole lane and
    that holds of the last one too, or the last one has a non-zero status (`≠ 0` over `Int`: a signal
    counts), could not be started, or its captured output cannot be decoded. -/
theorem takeThrough_spec (dec : Bool) (ps : List Proc) :
    ∃ rest, ps = takeThrough dec ps ++ rest ∧
      ((rest = [] ∧ ∀ p ∈ takeThrough dec ps, p.spawn = none ∧ p.code = 0 ∧ (dec && p.decodeFails) = false) ∨
       ∃ init p, takeThrough dec ps = init ++ [p] ∧
         (∀ x ∈ init, x.spawn = none ∧ x.code = 0 ∧ (dec && x.decodeFails) = false) ∧
         (p.spawn ≠ none ∨ p.code ≠ 0 ∨ (dec && p.decodeFails) = true)) := by
  obtain ⟨rest, h1, h2⟩ := takeThrough_split dec ps
  refine ⟨rest, h1, ?_⟩
  cases h2 with
  | inl h => exact .inl ⟨h.1, fun p hp => (stops_false_iff dec p).mp (h.2 p hp)⟩
  | inr h =>
    obtain ⟨init, p, h3, h4, h5⟩ := h
    exact .inr ⟨init, p, h3, fun x hx => (stops_false_iff dec x).mp (h4 x hx), (stops_true_iff dec p).mp h5⟩

/-- … and the processes that existed (`ranP`) are that prefix without a final unstartable one. -/
theorem ranP_spec (dec : Bool) (ps : List Proc) :
    (∀ p ∈ ranP dec ps, p.spawn = none) ∧
    (ranP dec ps = takeThrough dec ps ∨ ∃ q, q.spawn ≠ none ∧ takeThrough dec ps = ranP dec ps ++ [q]) := by
  refine ⟨fun p hp => ?_, ?_⟩
  · simp only [ranP, List.mem_filter] at hp
    exact (ran_iff p).mp hp.2
  · obtain ⟨rest, _, h2⟩ := takeThrough_split dec ps
    have hfil : ∀ {l : List Proc}, (∀ x ∈ l, x.stops dec = false) → l.filter Proc.ran = l :=
      fun h => List.filter_eq_self.mpr (fun x hx => ran_of_not_stops (h x hx))
    cases h2 with
    | inl h => exact .inl (hfil h.2)
    | inr h =>
      obtain ⟨init, p, h3, h4, h5⟩ := h
      cases hsp : p.spawn with
      | none =>
        refine .inl ?_
        unfold ranP
        rw [h3, List.filter_append, hfil h4]
        simp [Proc.ran, hsp]
      | some k =>
        refine .inr ⟨p, by simp [hsp], ?_⟩
        unfold ranP
        rw [h3, List.filter_append, hfil h4]
        simp [Proc.ran, hsp]

example :
    takeThrough false [P 1 0 "" "", P 2 (-15) "" "", P 3 0 "" ""] = [P 1 0 "" "", P 2 (-15) "" ""] ∧
    ranP false [P 1 0 "" "", PX 2 .badArgs, P 3 0 "" ""] = [P 1 0 "" ""] ∧
    takeThrough false [P 1 0 "" "", PX 2 .badArgs, P 3 0 "" ""] = [P 1 0 "" "", PX 2 .badArgs] ∧
    takeThrough true [P 1 0 "" "", PU 2 0, P 3 0 "" ""] = [P 1 0 "" "", PU 2 0] ∧
    takeThrough false [P 1 0 "" "", PU 2 0, P 3 0 "" ""] = [P 1 0 "" "", PU 2 0, P 3 0 "" ""] ∧
    startEvents [⟨[PX 1 .notFound], false, false⟩, ⟨[P 2 0 "" "", P 3 0 "" ""], false, false⟩] = [.start 2] := by
  decide +kernel

/-- "… wait for all of them": for every command list — whatever its entries do: exit 0, exit non-zero,
    die of a signal, write undecodable output, or *raise instead of starting* — and every completion
    schedule, the step returns only after every process it started has finished: nothing is running at
    that moment, and each started process has its exit (`fin`) in the trace of the step. -/
theorem async_waits_for_all (cs : List ACommand) (s : List Nat) :
    (runAsync cs s).running = [] ∧
    ∀ i ∈ (runAsync cs s).started, Event.fin i ∈ (runAsync cs s).trace := by
  constructor
  · simp only [runAsync, final_lanes]
    simp [finalLane]
  · intro i hi
    simp only [runAsync] at hi ⊢
    cases drainAll_fins _ i hi with
    | inr h => simp [h]
    | inl h =>
      cases runSched_fins _ s i h with
      | inr h => simp [h]
      | inl h => simp [flatMap_finsOf_start] at h

/-- an entry that cannot be started declared *first*, a slow failing sibling after it: the sibling is
    waited for (its exit is in the trace), its failure is listed, its result is in `cmdOut`. -/
example :
    let cs : List ACommand := [A (.many [.one (PX 1 .notFound), .one (P 2 3 "late" "")]) true true]
    (runAsync cs []).trace = [.start 2, .fin 2] ∧ (runAsync cs []).running = [] ∧
    (runAsync cs []).errors = [.spawn 1 .notFound, .exit 2 3] ∧
    (runAsync cs []).cmdOut = some [.one (.exc (.spawn 1 .notFound)), .one (.res ⟨2, 3, .text "late", .bytes ""⟩)] := by
  decide +kernel

/-- **Shape of the trace**, for every command list and every schedule:
    * the trace is a permutation of the lanes' sequential lives `start p₁, fin p₁, start p₂, fin p₂, …`
      (`p₁ p₂ …` the processes of the lane that existed, in sub-list order) — nothing else is in it;
    * in particular its start events are a permutation of `started`, and so are its exit events: every
      process is started once and finishes once;
    * each lane's sequential life is a *subsequence* of the trace: inside a serial sub-list `fin p` comes
      before `start q` whenever `p` is before `q` (and `start p` before `fin p`). -/
theorem trace_wellformed (cs : List ACommand) (s : List Nat) :
    (runAsync cs s).trace.Perm ((lanesOf cs).flatMap (fun l => seqEvents (ranP l.dec l.procs))) ∧
    ((runAsync cs s).trace.filterMap startId).Perm (runAsync cs s).started ∧
    ((runAsync cs s).trace.filterMap finId).Perm (runAsync cs s).started ∧
    ∀ l ∈ lanesOf cs, (seqEvents (ranP l.dec l.procs)).Sublist (runAsync cs s).trace := by
  have hw0 := start_lanes_wf (lanesOf cs)
  have hperm : (runAsync cs s).trace.Perm ((lanesOf cs).flatMap (fun l => seqEvents (ranP l.dec l.procs))) := by
    have h1 := runSched_perm _ s hw0
    have h2 := drainAll_perm _ (runSched_wf _ s hw0)
    rw [final_lanes] at h2
    simp only [List.flatMap_map, laneSeq_final] at h2
    simp only [runAsync]
    refine List.Perm.symm (h2.trans ?_)
    rw [start_lanes_seq] at h1
    exact List.Perm.append_right _ h1
  have hstarted : (runAsync cs s).started =
      ((lanesOf cs).flatMap (fun l => seqEvents (ranP l.dec l.procs))).filterMap startId := by
    simp only [runAsync, final_lanes, List.map_map, List.flatten_eq_flatMap, List.flatMap_map,
      List.filterMap_flatMap, seqEvents_starts]
    apply flatMap_congr_mem
    intro l _
    simp [laneStarted_final, ranP]
  have hstarted' : (runAsync cs s).started =
      ((lanesOf cs).flatMap (fun l => seqEvents (ranP l.dec l.procs))).filterMap finId := by
    rw [hstarted]
    simp only [List.filterMap_flatMap, seqEvents_starts, seqEvents_fins]
  refine ⟨hperm, ?_, ?_, ?_⟩
  · rw [hstarted]; exact hperm.filterMap _
  · rw [hstarted']; exact hperm.filterMap _
  · intro l hl
    have e1 := start_ext (lanesOf cs)
    have e2 := runSched_ext _ s hw0
    have e3 := drainAll_ext _ (runSched_wf _ s hw0)
    have e := ExtBy_trans (ExtBy_trans e1 e2) e3
    rw [final_lanes] at e
    have hsub := ExtBy_from_nil e
    simp only [runAsync]
    apply hsub
    simp only [List.map_map, List.mem_map]
    exact ⟨l, hl, by simp [laneSeq_final]⟩

/-- lane 0 `a`; lane 1 the sub-list `[b, c]`: under the schedule "lane 1, lane 0, lane 1" the trace
    interleaves the lanes; `fin b` is directly followed by `start c`. -/
example :
    let cs : List ACommand := [A (.many [.one (P 1 0 "" ""), .serial [P 2 0 "" "", P 3 0 "" ""]]) false false]
    (runAsync cs [1, 0, 1]).trace = [.start 1, .start 2, .fin 2, .start 3, .fin 1, .fin 3] ∧
    seqEvents (ranP false [P 2 0 "" "", P 3 0 "" ""]) = [.start 2, .fin 2, .start 3, .fin 3] := by
  decide +kernel

/-- **Every declared occurrence is started.** Whatever the schedule:
    * the trace begins with one start event per lane whose first instruction can be started, in declaration
      order (`filterMap` over the lanes: two equal lanes give two events);
    * over the whole trace, an id is started exactly as often as processes of that instruction had to exist
      (lane by lane, the startable ones of the prefix through the first instruction that stops the lane). -/
theorem async_starts_every_occurrence (cs : List ACommand) (s : List Nat) :
    (∃ rest, (runAsync cs s).trace =
        ((lanesOf cs).filterMap (fun l => firstRunnable l.procs)).map Event.start ++ rest) ∧
    ∀ i, ((runAsync cs s).trace.filterMap startId).count i =
      ((lanesOf cs).flatMap (fun l => (ranP l.dec l.procs).map (·.id))).count i := by
  constructor
  · obtain ⟨rest, hrest⟩ := (async_all_started cs s).1
    exact ⟨rest, by rw [hrest, startEvents_filterMap]⟩
  · intro i
    have hperm := (trace_wellformed cs s).2.1
    rw [hperm.count_eq, async_sublist_prefix]

/-- **From the configuration: every top-level entry is started.** For a configuration the constructor of
    `cmds` / `shells` accepts, all of whose output files can be opened and all of whose instructions can be
    started: whatever the schedule, the trace begins with the start of the first instruction of every declared
    (non-empty) lane — `lanesSpec cfg`, equal entries included —, in declaration order, before any process has
    been waited for. -/
theorem async_cfg_starts_every_entry (dflt : Bool) (w : World) (cfg : Val) (cs : List RawCommand)
    (s : List Nat) (h : parseCmdConfig true dflt (some cfg) = some (.ok cs))
    (ho : ∀ c ∈ cs, (w.redirect c.set).openError = none) (hs : ∀ str, (w.proc str).spawn = none) :
    ∃ rest, (runAsync (cs.map (RawCommand.toA w)) s).trace =
      ((lanesSpec cfg).filterMap List.head?).map (fun str => Event.start (w.proc str).id) ++ rest := by
  obtain ⟨rest, hrest⟩ := (async_all_started (cs.map (RawCommand.toA w)) s).1
  exact ⟨rest, by rw [hrest, startEvents_procs, lanesOf_toA w cs ho, launch_resolved w hs,
    parse_lanes true dflt cfg cs h]⟩

/-- `[fail, ok, the same fail]` as three top-level entries with `save`: three processes, two errors, three
    results in declaration order — for every schedule (here: the reverse order of completion);
    the same serial sub-list twice: both run; two identical instructions inside one serial sub-list. -/
example :
    let f := P 1 3 "boom" ""
    let cs : List ACommand := [A (.single f) true true, A (.single (P 2 0 "fine" "")) true true, A (.single f) true true]
    (runAsync cs [2, 1, 0]).trace = [.start 1, .start 2, .start 1, .fin 1, .fin 2, .fin 1] ∧
    (runAsync cs [2, 1, 0]).started = [1, 2, 1] ∧
    (runAsync cs [2, 1, 0]).errors = [.exit 1 3, .exit 1 3] ∧
    (runAsync cs [2, 1, 0]).cmdOut = some [.one (.res ⟨1, 3, .text "boom", .bytes ""⟩),
      .one (.res ⟨2, 0, .text "fine", .bytes ""⟩), .one (.res ⟨1, 3, .text "boom", .bytes ""⟩)] ∧
    (let sub := Entry.serial [P 1 0 "" "", P 2 0 "" ""]
     (runAsync [A (.many [sub, sub]) false false] [1, 0]).trace
       = [.start 1, .start 1, .fin 1, .start 2, .fin 1, .start 2, .fin 2, .fin 2]) ∧
    (runAsync [A (.many [.serial [P 1 0 "" "", P 1 0 "" ""]]) false false] []).started = [1, 1] ∧
    ((runAsync cs [0]).trace.filterMap startId).count 1 = 2 := by
  decide +kernel

/-- from the configuration value: `cmds: [w, w, [a, b], [a, b]]`. -/
example :
    (lanesSpec (.list [.str "w", .str "w", .list [.str "a", .str "b"], .list [.str "a", .str "b"]])).filterMap List.head?
      = ["w", "w", "a", "a"] := by decide +kernel

/-- One aggregate error lists every failure: the errors are, command by command, the exception of an
    output file that could not be opened, or else — lane by lane — the instructions attempted that exited
    non-zero (`SubprocessError` with command and code), wrote undecodable captured output (the
    `UnicodeDecodeError`) or could not be started (their own exception), in declaration order. -/
theorem async_error_lists_all_failures (cs : List ACommand) (s : List Nat) :
    (runAsync cs s).errors = cs.flatMap (fun c =>
      match c.redir.openError with
      | some e => [e]
      | none => c.lanes.flatMap (fun l =>
          ((takeThrough l.dec l.procs).filter (Proc.stops l.dec)).map (Proc.error l.dec))) := by
  simp only [runAsync, final_lanes]
  rw [(collect_final cs).2]
  refine congrArg (fun f => List.flatMap f _) (funext fun c => ?_)
  unfold ACommand.errors ACommand.items
  cases ho : c.redir.openError with
  | some e => simp [itemErrors]
  | none =>
    simp only [List.flatMap_assoc]
    exact congrArg (fun f => List.flatMap f _) (funext fun l => ALane.errors_eq l)

/-- The step succeeds iff every output file could be opened and every instruction attempted could be
    started, exited 0 and (where decoded) wrote decodable output. -/
theorem async_ok_iff_all_run_zero (cs : List ACommand) (s : List Nat) :
    (runAsync cs s).errors = [] ↔
      (∀ c ∈ cs, c.redir.openError = none) ∧
      ∀ l ∈ lanesOf cs, ∀ p ∈ takeThrough l.dec l.procs,
        p.spawn = none ∧ p.code = 0 ∧ (l.dec && p.decodeFails) = false := by
  rw [async_error_lists_all_failures, lanesOf_flatMap]
  simp only [List.flatMap_eq_nil_iff, List.mem_flatMap]
  constructor
  · intro h
    refine ⟨fun c hc => ?_, fun l ⟨c, hc, hl⟩ p hp => ?_⟩
    · have := h c hc
      cases ho : c.redir.openError with
      | none => rfl
      | some e => simp [ho] at this
    · have hc' := h c hc
      cases ho : c.redir.openError with
      | some e => simp [ho] at hc'
      | none =>
        simp only [ho, List.flatMap_eq_nil_iff, List.map_eq_nil_iff, List.filter_eq_nil_iff] at hc'
        exact (stops_false_iff l.dec p).mp (by simpa using hc' l hl p hp)
  · intro ⟨ho, h⟩ c hc
    simp only [ho c hc, List.flatMap_eq_nil_iff, List.map_eq_nil_iff, List.filter_eq_nil_iff]
    intro l hl p hp
    simp [(stops_false_iff l.dec p).mpr (h l ⟨c, hc, hl⟩ p hp)]

/-- **Undecodable captured output in the concurrent steps.** An instruction of a lane that was attempted,
    ran, and whose captured output cannot be decoded: it is among the started, its exit is in the trace
    (it ran to its end), the aggregate error lists the `UnicodeDecodeError` — not an exit error —, and (by
    `async_sublist_prefix` / `takeThrough_spec`) it is the last instruction of its lane that was attempted.
    With `save` its slot in `cmdOut` holds the exception object, not a result
    (`async_cmdOut_declaration_order`). -/
theorem async_undecodable (cs : List ACommand) (s : List Nat) (c : ACommand) (hc : c ∈ cs)
    (l : ALane) (hl : l ∈ c.lanes) (p : Proc)
    (hp : p ∈ takeThrough l.dec l.procs) (hsp : p.spawn = none) (hu : (l.dec && p.decodeFails) = true) :
    p.id ∈ (runAsync cs s).started ∧ Event.fin p.id ∈ (runAsync cs s).trace ∧
    CmdErr.decode p.id ∈ (runAsync cs s).errors ∧
    Item.exc (.decode p.id) ∈ c.items ∧
    ∃ init, takeThrough l.dec l.procs = init ++ [p] := by
  have ho : c.redir.openError = none := by
    cases ho : c.redir.openError with
    | none => rfl
    | some e => simp [ACommand.lanes, ho] at hl
  have hstarted : p.id ∈ (runAsync cs s).started := by
    rw [async_sublist_prefix, lanesOf_flatMap]
    simp only [List.mem_flatMap, List.mem_map]
    exact ⟨l, ⟨c, hc, hl⟩, p, by simp [ranP, hp, Proc.ran, hsp], rfl⟩
  have hstops : p.stops l.dec = true := (stops_true_iff l.dec p).mpr (.inr (.inr hu))
  have herr : p.error l.dec = .decode p.id := by simp [Proc.error, hsp, hu]
  refine ⟨hstarted, (async_waits_for_all cs s).2 _ hstarted, ?_, ?_, ?_⟩
  · rw [async_error_lists_all_failures]
    simp only [List.mem_flatMap]
    refine ⟨c, hc, ?_⟩
    simp only [ho, List.mem_flatMap, List.mem_map, List.mem_filter]
    exact ⟨l, hl, p, ⟨hp, hstops⟩, herr⟩
  · simp only [ACommand.items, ho, List.mem_flatMap]
    refine ⟨l, hl, ?_⟩
    simp only [ALane.items, List.mem_map]
    refine ⟨p, hp, ?_⟩
    have hu' : (l.save && l.text && p.decodeFails) = true := hu
    simp [mkItem, hsp, hu']
  · obtain ⟨rest, _, h2⟩ := takeThrough_split l.dec l.procs
    cases h2 with
    | inl h => have := h.2 p hp; simp [hstops] at this
    | inr h =>
      obtain ⟨init, q, h3, h4, _⟩ := h
      rw [h3] at hp
      simp only [List.mem_append, List.mem_singleton] at hp
      cases hp with
      | inl h' => have := h4 p h'; simp [hstops] at this
      | inr h' => exact ⟨init, by rw [h3, h']⟩

/-- **An output file that cannot be opened, concurrent steps**: the command contributes no lane — none of
    its instructions is started —, its one item is that exception, and the aggregate error lists it. The
    other commands are not affected (their lanes are all there). -/
theorem async_open_failure (cs : List ACommand) (s : List Nat) (c : ACommand) (hc : c ∈ cs) (e : CmdErr)
    (ho : c.redir.openError = some e) :
    c.lanes = [] ∧ c.items = [.exc e] ∧ e ∈ (runAsync cs s).errors := by
  refine ⟨by simp [ACommand.lanes, ho], by simp [ACommand.items, ho], ?_⟩
  rw [async_error_lists_all_failures]
  simp only [List.mem_flatMap]
  exact ⟨c, hc, by simp [ho]⟩

example :
    let cs : List ACommand := [⟨.many [.one (P 1 0 "" ""), .one (P 2 0 "" "")], false, false, toFile "o" (some .parentFile)⟩,
                               A (.single (P 3 1 "x" "")) true true]
    (runAsync cs []).started = [3] ∧
    (runAsync cs []).errors = [.openOut "o" .parentFile, .exit 3 1] ∧
    (runAsync cs []).cmdOut = some [.one (.res ⟨3, 1, .text "x", .bytes ""⟩)] := by
  decide +kernel

/-- three lanes: `a`, the sub-list `[b (exit 1), c]`, `d (exit 3)`; schedule "d, a, b" and its reverse. -/
example :
    let cs : List ACommand := [A (.many [.one (P 1 0 "a" ""), .serial [P 2 1 "" "e", P 3 0 "" ""]]) true true,
                               A (.single (P 4 3 "" "")) false false]
    (runAsync cs [2, 0, 1]).errors = [.exit 2 1, .exit 4 3] ∧
    (runAsync cs [2, 0, 1]).started = [1, 2, 4] ∧
    (runAsync cs [2, 0, 1]).trace = [.start 1, .start 2, .start 4, .fin 4, .fin 1, .fin 2] ∧
    (runAsync cs [1, 0, 2]).trace = [.start 1, .start 2, .start 4, .fin 2, .fin 1, .fin 4] ∧
    (runAsync cs [2, 0, 1]).cmdOut = (runAsync cs [1, 0, 2]).cmdOut ∧
    (runAsync cs []).cmdOut = some [.one (.res ⟨1, 0, .text "a", .bytes ""⟩), .sub [.res ⟨2, 1, .bytes "", .text "e"⟩]] := by
  decide +kernel

/-- signals and spawn errors: lane 0 `a`; lane 1 the sub-list `[b, c (SIGKILL), d]`; lane 2 the sub-list
    `[e, f (not found), g]`; lane 3 `h` (not executable). `d` and `g` are never started; the aggregate
    error lists c, f, h in declaration order; `cmdOut` has one result for each of a, b, c, e. -/
example :
    let cs : List ACommand := [A (.many [.one (P 1 0 "a" ""),
                                       .serial [P 2 0 "b" "", P 3 (-9) "" "", P 4 0 "" ""],
                                       .serial [P 5 0 "e" "", PX 6 .notFound, P 7 0 "" ""],
                                       .one (PX 8 .permission)]) true true]
    (runAsync cs [2, 1, 0, 1]).errors = [.exit 3 (-9), .spawn 6 .notFound, .spawn 8 .permission] ∧
    (runAsync cs [2, 1, 0, 1]).started = [1, 2, 3, 5] ∧
    (runAsync cs [2, 1, 0, 1]).trace = [.start 1, .start 2, .start 5, .fin 5, .fin 2, .start 3, .fin 1, .fin 3] ∧
    (runAsync cs []).cmdOut = some [.one (.res ⟨1, 0, .text "a", .bytes ""⟩),
                                    .sub [.res ⟨2, 0, .text "b", .bytes ""⟩, .res ⟨3, -9, .bytes "", .bytes ""⟩],
                                    .sub [.res ⟨5, 0, .text "e", .bytes ""⟩, .exc (.spawn 6 .notFound)],
                                    .one (.exc (.spawn 8 .permission))] ∧
    (match (runAsync cs []).cmdOut with | some ss => (slotResults ss).map (·.id) | none => []) = [1, 2, 3, 5] := by
  decide +kernel

/-- undecodable output, concurrent: `echo one`, `<prints ff fe>`, `echo three` as three lanes and as one
    serial sub-list, with `save`: every process exits 0; the aggregate error carries the decode error; in
    the sub-list `three` is never started; `cmdOut` holds the exception object in place of a result. With
    `bytes` nothing is decoded and nothing fails. -/
example :
    let top : List ACommand := [A (.many [.one (P 1 0 "one\n" ""), .one (PU 2 0), .one (P 3 0 "three\n" "")]) true true]
    let sub : List ACommand := [A (.many [.serial [P 1 0 "one\n" "", PU 2 0, P 3 0 "three\n" ""]]) true true]
    let raw : List ACommand := [A (.many [.serial [P 1 0 "one\n" "", PU 2 0, P 3 0 "three\n" ""]]) true false]
    (runAsync top []).errors = [.decode 2] ∧ (runAsync top []).started = [1, 2, 3] ∧
    (runAsync top []).cmdOut = some [.one (.res ⟨1, 0, .text "one", .bytes ""⟩), .one (.exc (.decode 2)),
                                     .one (.res ⟨3, 0, .text "three", .bytes ""⟩)] ∧
    (runAsync sub []).errors = [.decode 2] ∧ (runAsync sub []).started = [1, 2] ∧
    (runAsync sub []).trace = [.start 1, .fin 1, .start 2, .fin 2] ∧
    (runAsync sub []).cmdOut = some [.sub [.res ⟨1, 0, .text "one", .bytes ""⟩, .exc (.decode 2)]] ∧
    (runAsync raw []).errors = [] ∧ (runAsync raw []).started = [1, 2, 3] := by
  decide +kernel

/-! ## Histories in one process: which encoding decodes a command's saved output

`runHist cfg ops`: for every step run of the history `ops` (imports of the step modules, assignments of the two
encoding settings — by `config.init()` or directly —, step runs), the encoding each command's output is read with. -/

/-- **The value in force when the step runs decides.** A run anywhere in a history reads each command's output with
    the command's own `encoding`, else with `config.default_cmd_encoding` as the operations BEFORE that run left
    it (`cfgAfter cfg pre`) — nothing after it, and (next theorems) nothing about imports, matters. -/
theorem hist_run_reads_config_at_run_time (cfg : EncCfg) (pre post : List HOp) (own : List (Option String)) :
    runHist cfg (pre ++ .run own :: post)
      = runHist cfg pre ++ own.map (encInForce (cfgAfter cfg pre)) :: runHist (cfgAfter cfg pre) post := by
  rw [runHist_append, runHist_cons_run]

/-- The default in force at a run is the LAST assignment before it: for a history `pre ++ set v :: mid ++ run own …`
    with no assignment of `default_cmd_encoding` in `mid`, a command without an `encoding` of its own is read with
    `v`, one with its own (non-empty) `encoding` with that — whatever the initial configuration (environment variable
    at start-up), whatever was imported, run or set before `set v`, whatever `mid` imports or runs. -/
theorem hist_encoding_is_last_set (cfg : EncCfg) (pre mid post : List HOp) (v : Option String)
    (own : List (Option String)) (hmid : ∀ o ∈ mid, o.setsCmdEnc = false) :
    (runHist cfg ((pre ++ .setCmdEnc v :: mid) ++ .run own :: post))[(runHist cfg (pre ++ .setCmdEnc v :: mid)).length]?
      = some (own.map fun o => match o with
          | some e => if e = "" then v else some e
          | none => v) := by
  rw [hist_run_reads_config_at_run_time]
  simp only [List.getElem?_append_right (Nat.le_refl _), Nat.sub_self, List.getElem?_cons_zero]
  congr 1
  apply List.map_congr_left
  intro o _
  have h := cfgAfter_last_set cfg pre mid v hmid
  cases o <;> simp [encInForce, h]

/-- Importing a module of the command steps — before, between or after the assignments — changes nothing: the
    history without its imports gives the same encodings for every run. -/
theorem hist_imports_irrelevant (cfg : EncCfg) (ops : List HOp) :
    runHist cfg (ops.filter (fun o => !o.isImp)) = runHist cfg ops :=
  runHist_imports_irrelevant cfg ops

/-- `config.default_encoding` (files) is not what command output is read with. -/
theorem hist_file_encoding_irrelevant (cfg : EncCfg) (f : Option String) (ops : List HOp) :
    runHist { cfg with fileEnc := f } ops = runHist cfg ops :=
  runHist_fileEnc_irrelevant cfg f ops

/-- import first, configure later (utf-16), run: the configured value is used; a per-command encoding wins; a
    later re-configuration is seen by the next run; the file encoding plays no part. -/
example :
    runHist ⟨none, none⟩ [.imp "pypyr.steps.cmd", .run [none], .setFileEnc (some "latin-1"), .setCmdEnc (some "utf-16"),
                          .run [none, some "cp1252", some ""], .imp "pypyr.steps.shell", .setCmdEnc none, .run [none]]
      = [[none], [some "utf-16", some "cp1252", some "utf-16"], [none]] := by
  decide +kernel

/-- **The property's clause for a step run anywhere in a history.** If what every command writes is text under the
    encoding in force for it when the step runs (`isText (encInForce (cfgAfter cfg pre) own) id`) — whatever it would
    be under any value the setting had earlier, e.g. when the modules were imported — the step succeeds iff every
    command it ran could be started and exited 0. -/
theorem hist_step_ok_iff_all_run_zero (isText : Option String → Nat → Bool) (cfg : EncCfg) (pre : List HOp)
    (cmds : List (Option String × Proc))
    (htext : ∀ x ∈ cmds, isText (encInForce (cfgAfter cfg pre) x.1) x.2.id = true) :
    (histStep isText cfg pre cmds).err = none ↔
      ∀ d ∈ takeThroughD (declsOf (cmds.map (histCommand isText (cfgAfter cfg pre)))),
        d.proc.spawn = none ∧ d.proc.code = 0 := by
  unfold histStep
  apply serial_ok_iff_all_run_zero_decodable
  · intro c hc
    obtain ⟨x, _, rfl⟩ := List.mem_map.mp hc
    rfl
  · intro d hd
    have : ∀ (l : List (Option String × Proc)), (∀ x ∈ l, isText (encInForce (cfgAfter cfg pre) x.1) x.2.id = true) →
        ∀ d ∈ declsOf (l.map (histCommand isText (cfgAfter cfg pre))), d.undec = false := by
      intro l
      induction l with
      | nil => intro _ d hd; simp [declsOf] at hd
      | cons x l ih =>
        intro hx d hd
        simp only [List.map_cons, declsOf, List.mem_append, List.mem_map] at hd
        rcases hd with ⟨p, hp, rfl⟩ | hd
        · simp only [histCommand, List.mem_singleton] at hp
          subst hp
          simp [Decl.undec, histCommand, hx x (by simp)]
        · exact ih (fun y hy => hx y (by simp [hy])) d hd
    exact this cmds htext d hd

/-- import, then configure utf-16, then run three commands writing utf-16 text (text under utf-16, not under the
    start-up default): with exit codes 0, 3, 0 the step fails at the SECOND command with its code, the first one's
    result is kept, the third never starts. -/
example :
    let isText : Option String → Nat → Bool := fun e _ => e == some "utf-16"
    let o := histStep isText ⟨none, none⟩ [.imp "pypyr.steps.cmd", .setCmdEnc (some "utf-16")]
               [(none, P 1 0 "a" ""), (none, P 2 3 "b" ""), (none, P 3 0 "c" "")]
    o.started = [1, 2] ∧ o.err = some (.exit 2 3) ∧ o.results.map (·.id) = [1, 2] := by
  decide +kernel

end Pypyr.C17
