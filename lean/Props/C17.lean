/-
  C17 — command steps report exit status faithfully and in declaration order.

  Property theorems only (helper lemmas: Props/Lemmas/C17_Serial.lean, C17_Async.lean).
  Every statement is for *all* command lists (single string, expanded maps, `run:` lists,
  nested serial sub-lists), *all* scripted outcomes — exit status over `Int` (0, positive exit
  codes, **negative = killed by a signal**) or "cannot be started at all" (the spawn call raises) —
  all outputs and, for the concurrent steps, *all* completion schedules (arbitrary lists of lane
  indices, not only permutations).

  "Zero" always means `= (0 : Int)`; a loop stops at the first command whose status is `≠ 0`
  (not "`> 0`") or that cannot be started.
-/
import PypyrModel.Cmd
import Props.Lemmas.C17_Serial
import Props.Lemmas.C17_Async
import Props.Lemmas.C17_Wait

namespace Pypyr.C17
open Pypyr.Cmd

/-! ## cmd / shell -/

/-- The step succeeds iff every declared command can be started and exits 0. -/
theorem serial_ok_iff_all_zero (cs : List SCommand) :
    (runSerial cs).err = none ↔ ∀ d ∈ declsOf cs, d.proc.spawn = none ∧ d.proc.code = 0 := by
  simp only [runSerial, runCommands_closed, firstFailD_none_iff, stops_false_iff]

example : (runSerial [⟨[⟨1, none, 0, "a", ""⟩, ⟨2, none, 0, "", ""⟩], true, true⟩, ⟨[⟨3, none, 0, "", ""⟩], false, false⟩]).err = none ∧
    (runSerial [⟨[⟨1, none, 0, "a", ""⟩, ⟨2, none, 3, "", ""⟩], true, true⟩, ⟨[⟨3, none, 0, "", ""⟩], false, false⟩]).err = some (.exit 2 3) ∧
    (runSerial [⟨[⟨1, none, 0, "a", ""⟩, ⟨2, none, -9, "", ""⟩], true, true⟩, ⟨[⟨3, none, 0, "", ""⟩], false, false⟩]).err = some (.exit 2 (-9)) ∧
    (runSerial [⟨[⟨1, none, 0, "a", ""⟩, ⟨2, some .notFound, 0, "", ""⟩], true, true⟩, ⟨[⟨3, none, 0, "", ""⟩], false, false⟩]).err
      = some (.spawn 2 .notFound) := by
  decide +kernel

/-- The commands run (`pre`: a process existed for each) are a prefix of the declaration, *started in
    that order*. Then exactly one of:
    * no error: nothing is left and every one exited 0;
    * a `CalledProcessError`: the last one run exited non-zero — **positive or negative** —, all before
      it exited 0, the error carries that command and that status;
    * a spawn error: every one run exited 0, the *next* declared command could not be started and the
      error is its.
    In the last two cases nothing after the failing command was started (`started` is exactly `pre`). -/
theorem serial_started_is_prefix (cs : List SCommand) :
    ∃ pre rest, declsOf cs = pre ++ rest ∧ (runSerial cs).started = pre.map (·.proc.id) ∧
      (∀ d ∈ pre, d.proc.spawn = none) ∧
      match (runSerial cs).err with
      | none => rest = [] ∧ ∀ d ∈ pre, d.proc.code = 0
      | some (.exit i c) => ∃ init d, pre = init ++ [d] ∧ (∀ x ∈ init, x.proc.code = 0) ∧
          d.proc.code ≠ 0 ∧ i = d.proc.id ∧ c = d.proc.code
      | some (.spawn i k) => (∀ d ∈ pre, d.proc.code = 0) ∧
          ∃ d rest', rest = d :: rest' ∧ d.proc.spawn = some k ∧ i = d.proc.id := by
  obtain ⟨rest, h1, h2, h3⟩ := ranD_split (declsOf cs)
  refine ⟨ranD (declsOf cs), rest, h1, ?_, h2, ?_⟩
  · simp [runSerial, runCommands_closed]
  · simp only [runSerial, runCommands_closed]
    exact h3

example : (runSerial [⟨[⟨1, none, 0, "", ""⟩, ⟨2, none, 1, "", ""⟩, ⟨3, none, 0, "", ""⟩], false, false⟩, ⟨[⟨4, none, 0, "", ""⟩], false, false⟩]).started
    = [1, 2] ∧
  (runSerial [⟨[⟨1, none, 0, "", ""⟩, ⟨2, none, -15, "", ""⟩, ⟨3, none, 0, "", ""⟩], false, false⟩, ⟨[⟨4, none, 0, "", ""⟩], false, false⟩]).started
    = [1, 2] ∧
  (runSerial [⟨[⟨1, none, 0, "", ""⟩, ⟨2, some .permission, 0, "", ""⟩, ⟨3, none, 0, "", ""⟩], false, false⟩, ⟨[⟨4, none, 0, "", ""⟩], false, false⟩]).started
    = [1] := by decide +kernel

/-- "Succeeds iff every command it *ran* exited 0", on the commands actually attempted (the
    declaration prefix through the first one that stops the loop): the step succeeds iff each of them
    could be started and exited 0. -/
theorem serial_ok_iff_all_run_zero (cs : List SCommand) :
    (runSerial cs).err = none ↔
      ∀ d ∈ takeThroughD (declsOf cs), d.proc.spawn = none ∧ d.proc.code = 0 := by
  obtain ⟨rest, _, h2⟩ := takeThroughD_split (declsOf cs)
  simp only [runSerial, runCommands_closed]
  cases hf : firstFailD (declsOf cs) with
  | none =>
    rw [hf] at h2
    replace h2 : rest = [] ∧ ∀ d ∈ takeThroughD (declsOf cs), d.proc.stops = false := h2
    exact ⟨fun _ d hd => (stops_false_iff _).mp (h2.2 d hd), fun _ => rfl⟩
  | some e =>
    rw [hf] at h2
    obtain ⟨init, d, h3, _, h5, _⟩ := h2
    simp only [reduceCtorEq, false_iff]
    intro hall
    have := (stops_false_iff _).mpr (hall d (by simp [h3]))
    simp [h5] at this

example : ∃ d ∈ takeThroughD (declsOf [⟨[⟨1, none, 0, "", ""⟩, ⟨2, none, -9, "", ""⟩, ⟨3, none, 0, "", ""⟩], false, false⟩]),
    d.proc.code ≠ 0 := ⟨⟨⟨2, none, -9, "", ""⟩, false, false⟩, by decide +kernel, by decide⟩

/-- With `save`, `cmdOut` holds one result per command actually run whose command has `save`,
    in declaration order, the failed one included (it is appended before the return-code check) —
    for every outcome sequence: a non-zero exit of either sign, or a later command that cannot be
    started, loses none of the results of the commands that did run. One result is stored as the
    object itself, several as a list, none leaves `cmdOut` untouched. -/
theorem serial_cmdOut (cs : List SCommand) :
    ∃ pre rest, declsOf cs = pre ++ rest ∧ (runSerial cs).started = pre.map (·.proc.id) ∧
      (runSerial cs).results = (pre.filter (·.save)).map (fun d => mkResultSync d.text d.proc) ∧
      (runSerial cs).cmdOut = cmdOutOf (runSerial cs).results := by
  obtain ⟨rest, h1, _⟩ := ranD_split (declsOf cs)
  refine ⟨ranD (declsOf cs), rest, h1, by simp [runSerial, runCommands_closed], ?_, rfl⟩
  simp only [runSerial, runCommands_closed, resultsOfD, ranD, List.filter_filter]

/-- When every command has `save`: exactly one result per started command, same order, carrying
    that command's exit status. -/
theorem serial_cmdOut_all_save (cs : List SCommand) (hs : ∀ c ∈ cs, c.save = true) :
    (runSerial cs).results.map (·.id) = (runSerial cs).started ∧
    (runSerial cs).results.map (·.code) = (ranD (declsOf cs)).map (·.proc.code) := by
  have hall : ∀ d ∈ declsOf cs, d.save = true := by
    induction cs with
    | nil => simp [declsOf]
    | cons c cs ih =>
      intro d hd
      simp only [declsOf, List.mem_append, List.mem_map] at hd
      cases hd with
      | inl h => obtain ⟨p, _, rfl⟩ := h; exact hs c (by simp)
      | inr h => exact ih (fun c' hc' => hs c' (by simp [hc'])) d h
  obtain ⟨rest, h1, _⟩ := takeThroughD_split (declsOf cs)
  have hpre : ∀ d ∈ takeThroughD (declsOf cs), d.save = true := by
    intro d hd
    apply hall
    rw [h1]
    simp [hd]
  have hfil : (takeThroughD (declsOf cs)).filter (fun d => d.save && d.proc.ran) = ranD (declsOf cs) := by
    unfold ranD
    apply List.filter_congr
    intro d hd
    simp [hpre d hd]
  constructor
  · simp only [runSerial, runCommands_closed, resultsOfD, hfil, List.map_map]
    apply List.map_congr_left
    intro d _
    simp only [Function.comp, mkResultSync]
    split <;> rfl
  · simp only [runSerial, runCommands_closed, resultsOfD, hfil, List.map_map]
    apply List.map_congr_left
    intro d _
    simp only [Function.comp, mkResultSync]
    split <;> rfl

example : (runSerial [⟨[⟨1, none, 0, "x\n", ""⟩, ⟨2, none, 1, "", "boom \n"⟩, ⟨3, none, 0, "", ""⟩], true, true⟩]).cmdOut
    = .many [⟨1, 0, .text "x", .text ""⟩, ⟨2, 1, .text "", .text "boom"⟩] ∧
  -- killed by SIGKILL: the result with code -9 is there, nothing after it ran
  (runSerial [⟨[⟨1, none, 0, "x\n", ""⟩, ⟨2, none, -9, "", ""⟩, ⟨3, none, 0, "", ""⟩], true, true⟩]).cmdOut
    = .many [⟨1, 0, .text "x", .text ""⟩, ⟨2, -9, .text "", .text ""⟩] ∧
  -- the 2nd cannot be started: the result of the 1st is kept
  (runSerial [⟨[⟨1, none, 0, "x\n", ""⟩, ⟨2, some .notFound, 0, "", ""⟩, ⟨3, none, 0, "", ""⟩], true, true⟩]).cmdOut
    = .single ⟨1, 0, .text "x", .text ""⟩ ∧
  (runSerial [⟨[⟨1, none, 0, "A", ""⟩], true, true⟩, ⟨[⟨2, none, 0, "B", ""⟩, ⟨3, some .notFound, 0, "", ""⟩, ⟨4, none, 0, "", ""⟩], true, true⟩,
              ⟨[⟨5, none, 0, "", ""⟩], false, false⟩]).cmdOut
    = .many [⟨1, 0, .text "A", .text ""⟩, ⟨2, 0, .text "B", .text ""⟩] := by decide +kernel

/-! ## cmds / shells -/

/-- Whatever the completion schedule: the saved results, the aggregate error and the set of started
    processes are the same. -/
theorem async_results_order_independent (cs : List ACommand) (s₁ s₂ : List Nat) :
    (runAsync cs s₁).cmdOut = (runAsync cs s₂).cmdOut ∧
    (runAsync cs s₁).errors = (runAsync cs s₂).errors ∧
    (runAsync cs s₁).started = (runAsync cs s₂).started := by
  simp [runAsync, final_lanes]

/-- … and they are in declaration order: flattened, `cmdOut` is the items of the `save` lanes in
    the order the lanes are declared, each lane contributing one item per instruction it attempted, in
    sub-list order (the exception object for the one that could not be started, as the code does);
    the `SubprocessResult`s among them are exactly one per process that existed, in that order.
    `cmdOut` is set iff some command has `save`. -/
theorem async_cmdOut_declaration_order (cs : List ACommand) (s : List Nat) :
    match (runAsync cs s).cmdOut with
    | none => cs.any (·.save) = false
    | some slots => cs.any (·.save) = true ∧
        slotItems slots = ((alanesOf cs).filter (·.save)).flatMap ALane.items ∧
        slotResults slots = ((alanesOf cs).filter (·.save)).flatMap ALane.results := by
  simp only [runAsync, final_lanes]
  cases h : cs.any (·.save)
  · simp
  · simp only [if_true]
    refine ⟨trivial, (collect_final cs).1, ?_⟩
    simp only [slotResults, (collect_final cs).1, itemResults_flatMap]
    exact congrArg (fun f => List.flatMap f _) (funext fun l => (ALane.results_eq l).symm)

/-- When every command has `save`: `cmdOut` holds exactly one `SubprocessResult` per process that
    existed, in declaration order (lane by lane, sub-list order inside a lane). -/
theorem async_cmdOut_one_result_per_process (cs : List ACommand) (s : List Nat)
    (hs : ∀ c ∈ cs, c.save = true) :
    match (runAsync cs s).cmdOut with
    | none => cs = []
    | some slots => (slotResults slots).map (·.id) = (runAsync cs s).started := by
  have h := async_cmdOut_declaration_order cs s
  cases hc : (runAsync cs s).cmdOut with
  | none =>
    rw [hc] at h
    cases cs with
    | nil => rfl
    | cons c cs => simp [hs c (by simp)] at h
  | some slots =>
    rw [hc] at h
    obtain ⟨_, _, h3⟩ := h
    have hall : ∀ l ∈ alanesOf cs, l.save = true := alanes_all_save cs hs
    have hfil : (alanesOf cs).filter (·.save) = alanesOf cs := List.filter_eq_self.mpr hall
    simp only [h3, hfil, runAsync, final_lanes, List.map_map]
    rw [← alanesOf_procs, List.map_map, List.map_flatMap, List.flatten_eq_flatMap, List.flatMap_map]
    refine congrArg (fun f => List.flatMap f _) (funext fun l => ?_)
    simp only [Function.comp, laneStarted_final, ALane.results, List.map_map]
    apply List.map_congr_left
    intro p _
    simp only [Function.comp, mkResultAsync]
    split <;> try split
    all_goals rfl

/-- Every top-level entry is started before any process has been waited for (the trace of every
    schedule begins with the start of the first process of each lane that can be started), and ends
    up among the started. -/
theorem async_all_started (cs : List ACommand) (s : List Nat) :
    (∃ rest, (runAsync cs s).trace = startEvents (lanesOf cs) ++ rest) ∧
    ∀ ps ∈ lanesOf cs, ∀ p, ps.head? = some p → p.spawn = none → p.id ∈ (runAsync cs s).started := by
  refine ⟨⟨_, by simp only [runAsync, List.append_assoc]; rfl⟩, ?_⟩
  intro ps hps p hp hsp
  simp only [runAsync, final_lanes, List.mem_flatten, List.mem_map]
  refine ⟨laneStarted (finalLane ps), ⟨finalLane ps, ⟨ps, hps, rfl⟩, rfl⟩, ?_⟩
  cases ps with
  | nil => simp at hp
  | cons q qs =>
    simp only [List.head?_cons, Option.some.injEq] at hp
    subst hp
    rw [laneStarted_final]
    by_cases h : q.stops = true <;> simp [takeThrough, h, Proc.ran, hsp]

/-- `startEvents` really is "the first instruction of every lane, when it can be started". -/
theorem startEvents_spec (ls : List (List Proc)) :
    startEvents ls = ls.flatMap (fun ps => match ps.head? with
      | some p => if p.spawn = none then [Event.start p.id] else []
      | none => []) := by
  induction ls with
  | nil => rfl
  | cons ps ls ih =>
    simp only [startEvents, List.flatMap_cons, ih]
    congr 1
    cases ps with
    | nil => rfl
    | cons p ps => cases hp : p.spawn <;> simp [launchEvents, hp]

/-- A serial sub-list stops at its first non-zero exit (positive or negative) or unstartable command:
    the processes started are, lane by lane, the startable ones of the prefix of the lane up to and
    including the first instruction that stops it. -/
theorem async_sublist_prefix (cs : List ACommand) (s : List Nat) :
    (runAsync cs s).started = (lanesOf cs).flatMap (fun ps => (ranP ps).map (·.id)) := by
  simp only [runAsync, final_lanes, List.map_map]
  rw [List.flatMap_def]
  congr 1
  apply List.map_congr_left
  intro ps _
  simp [laneStarted_final, ranP]

/-- `takeThrough` is what its name says: a prefix of the lane; every instruction in it but the last
    could be started and exited 0; either it is the whole lane and that holds of the last one too, or
    the last one has a non-zero status (`≠ 0` over `Int`: a signal counts) or could not be started. -/
theorem takeThrough_spec (ps : List Proc) :
    ∃ rest, ps = takeThrough ps ++ rest ∧
      ((rest = [] ∧ ∀ p ∈ takeThrough ps, p.spawn = none ∧ p.code = 0) ∨
       ∃ init p, takeThrough ps = init ++ [p] ∧ (∀ x ∈ init, x.spawn = none ∧ x.code = 0) ∧
         (p.spawn ≠ none ∨ p.code ≠ 0)) := by
  obtain ⟨rest, h1, h2⟩ := takeThrough_split ps
  refine ⟨rest, h1, ?_⟩
  cases h2 with
  | inl h => exact .inl ⟨h.1, fun p hp => (stops_false_iff p).mp (h.2 p hp)⟩
  | inr h =>
    obtain ⟨init, p, h3, h4, h5⟩ := h
    exact .inr ⟨init, p, h3, fun x hx => (stops_false_iff x).mp (h4 x hx), (stops_true_iff p).mp h5⟩

/-- … and the processes that existed (`ranP`) are that prefix without a final unstartable one. -/
theorem ranP_spec (ps : List Proc) :
    (∀ p ∈ ranP ps, p.spawn = none) ∧
    (ranP ps = takeThrough ps ∨ ∃ q, q.spawn ≠ none ∧ takeThrough ps = ranP ps ++ [q]) := by
  refine ⟨fun p hp => ?_, ?_⟩
  · simp only [ranP, List.mem_filter] at hp
    exact (ran_iff p).mp hp.2
  · obtain ⟨rest, _, h2⟩ := takeThrough_split ps
    have hfil : ∀ {l : List Proc}, (∀ x ∈ l, x.stops = false) → l.filter Proc.ran = l :=
      fun h => List.filter_eq_self.mpr (fun x hx => ran_of_not_stops (h x hx))
    cases h2 with
    | inl h => exact .inl (hfil h.2)
    | inr h =>
      obtain ⟨init, p, h3, h4, h5⟩ := h
      cases hsp : p.spawn with
      | none =>
        refine .inl ?_
        unfold ranP
        rw [h3, List.filter_append, hfil h4]
        simp [Proc.ran, hsp]
      | some k =>
        refine .inr ⟨p, by simp [hsp], ?_⟩
        unfold ranP
        rw [h3, List.filter_append, hfil h4]
        simp [Proc.ran, hsp]

example :
    takeThrough [⟨1, none, 0, "", ""⟩, ⟨2, none, -15, "", ""⟩, ⟨3, none, 0, "", ""⟩]
      = [⟨1, none, 0, "", ""⟩, ⟨2, none, -15, "", ""⟩] ∧
    ranP [⟨1, none, 0, "", ""⟩, ⟨2, some .badArgs, 0, "", ""⟩, ⟨3, none, 0, "", ""⟩] = [⟨1, none, 0, "", ""⟩] ∧
    takeThrough [⟨1, none, 0, "", ""⟩, ⟨2, some .badArgs, 0, "", ""⟩, ⟨3, none, 0, "", ""⟩]
      = [⟨1, none, 0, "", ""⟩, ⟨2, some .badArgs, 0, "", ""⟩] ∧
    startEvents [[⟨1, some .notFound, 0, "", ""⟩], [⟨2, none, 0, "", ""⟩, ⟨3, none, 0, "", ""⟩]] = [.start 2] := by
  decide +kernel

/-- "… wait for all of them": for every command list — whatever its entries do: exit 0, exit non-zero,
    die of a signal, or *raise instead of starting* — and every completion schedule, the step returns
    only after every process it started has finished: nothing is running at that moment, and each
    started process has its exit (`fin`) in the trace of the step. -/
theorem async_waits_for_all (cs : List ACommand) (s : List Nat) :
    (runAsync cs s).running = [] ∧
    ∀ i ∈ (runAsync cs s).started, Event.fin i ∈ (runAsync cs s).trace := by
  constructor
  · simp only [runAsync, final_lanes]
    simp [finalLane]
  · intro i hi
    simp only [runAsync] at hi ⊢
    cases drainAll_fins _ i hi with
    | inr h => simp [h]
    | inl h =>
      cases runSched_fins _ s i h with
      | inr h => simp [h]
      | inl h => simp [flatMap_finsOf_start] at h

/-- an entry that cannot be started declared *first*, a slow failing sibling after it: the sibling is
    waited for (its exit is in the trace), its failure is listed, its result is in `cmdOut`. -/
example :
    let cs : List ACommand := [⟨.many [.one ⟨1, some .notFound, 0, "", ""⟩, .one ⟨2, none, 3, "late", ""⟩], true, true⟩]
    (runAsync cs []).trace = [.start 2, .fin 2] ∧ (runAsync cs []).running = [] ∧
    (runAsync cs []).errors = [.spawn 1 .notFound, .exit 2 3] ∧
    (runAsync cs []).cmdOut = some [.one (.exc 1 .notFound), .one (.res ⟨2, 3, .text "late", .bytes ""⟩)] := by
  decide +kernel

/-- One aggregate error lists every failure: the errors are exactly the instructions attempted that
    exited non-zero (`SubprocessError` with command and code) or could not be started (their own
    exception), in declaration order. -/
theorem async_error_lists_all_failures (cs : List ACommand) (s : List Nat) :
    (runAsync cs s).errors =
      (((lanesOf cs).flatMap takeThrough).filter Proc.stops).map Proc.error := by
  simp only [runAsync, final_lanes]
  rw [(collect_final cs).2, ← alanesOf_procs]
  simp only [List.flatMap_map, List.filter_flatMap, List.map_flatMap]
  refine congrArg (fun f => List.flatMap f _) (funext fun l => ?_)
  exact ALane.errors_eq l

/-- The step succeeds iff every instruction attempted could be started and exited 0. -/
theorem async_ok_iff_all_run_zero (cs : List ACommand) (s : List Nat) :
    (runAsync cs s).errors = [] ↔
      ∀ p ∈ (lanesOf cs).flatMap takeThrough, p.spawn = none ∧ p.code = 0 := by
  rw [async_error_lists_all_failures]
  simp only [List.map_eq_nil_iff, List.filter_eq_nil_iff]
  constructor
  · intro h p hp
    exact (stops_false_iff p).mp (by simpa using h p hp)
  · intro h p hp
    simp [(stops_false_iff p).mpr (h p hp)]

/-- three lanes: `a`, the sub-list `[b (exit 1), c]`, `d (exit 3)`; schedule "d, a, b" and its reverse. -/
example :
    let cs : List ACommand := [⟨.many [.one ⟨1, none, 0, "a", ""⟩, .serial [⟨2, none, 1, "", "e"⟩, ⟨3, none, 0, "", ""⟩]], true, true⟩,
                               ⟨.single ⟨4, none, 3, "", ""⟩, false, false⟩]
    (runAsync cs [2, 0, 1]).errors = [.exit 2 1, .exit 4 3] ∧
    (runAsync cs [2, 0, 1]).started = [1, 2, 4] ∧
    (runAsync cs [2, 0, 1]).trace = [.start 1, .start 2, .start 4, .fin 4, .fin 1, .fin 2] ∧
    (runAsync cs [1, 0, 2]).trace = [.start 1, .start 2, .start 4, .fin 2, .fin 1, .fin 4] ∧
    (runAsync cs [2, 0, 1]).cmdOut = (runAsync cs [1, 0, 2]).cmdOut ∧
    (runAsync cs []).cmdOut = some [.one (.res ⟨1, 0, .text "a", .bytes ""⟩), .sub [.res ⟨2, 1, .bytes "", .text "e"⟩]] := by
  decide +kernel

/-- signals and spawn errors: lane 0 `a`; lane 1 the sub-list `[b, c (SIGKILL), d]`; lane 2 the sub-list
    `[e, f (not found), g]`; lane 3 `h` (not executable). `d` and `g` are never started; the aggregate
    error lists c, f, h in declaration order; `cmdOut` has one result for each of a, b, c, e. -/
example :
    let cs : List ACommand := [⟨.many [.one ⟨1, none, 0, "a", ""⟩,
                                       .serial [⟨2, none, 0, "b", ""⟩, ⟨3, none, -9, "", ""⟩, ⟨4, none, 0, "", ""⟩],
                                       .serial [⟨5, none, 0, "e", ""⟩, ⟨6, some .notFound, 0, "", ""⟩, ⟨7, none, 0, "", ""⟩],
                                       .one ⟨8, some .permission, 0, "", ""⟩], true, true⟩]
    (runAsync cs [2, 1, 0, 1]).errors = [.exit 3 (-9), .spawn 6 .notFound, .spawn 8 .permission] ∧
    (runAsync cs [2, 1, 0, 1]).started = [1, 2, 3, 5] ∧
    (runAsync cs [2, 1, 0, 1]).trace = [.start 1, .start 2, .start 5, .fin 5, .fin 2, .start 3, .fin 1, .fin 3] ∧
    (runAsync cs []).cmdOut = some [.one (.res ⟨1, 0, .text "a", .bytes ""⟩),
                                    .sub [.res ⟨2, 0, .text "b", .bytes ""⟩, .res ⟨3, -9, .bytes "", .bytes ""⟩],
                                    .sub [.res ⟨5, 0, .text "e", .bytes ""⟩, .exc 6 .notFound],
                                    .one (.exc 8 .permission)] ∧
    (match (runAsync cs []).cmdOut with | some ss => (slotResults ss).map (·.id) | none => []) = [1, 2, 3, 5] := by
  decide +kernel

end Pypyr.C17
