/-
  C13 — caches are transparent, single-flight and never remember failures.

  Property theorems about the transition system `PypyrModel/CacheTS.lean` (a transliteration of
  `pypyr/cache/cache.py`), for EVERY schedule (list of thread ids, any number of threads, any
  program of get/clear operations per thread, any creator failure script), at micro-step
  granularity. Helper lemmas: `Props/Lemmas/C13_Inv.lean` (inductive invariant),
  `C13_Spec.lean` (atomic specification), `C13_SysPath.lean`, `C13_Stack.lean` (the layers above
  the caches: `LoaderCache` → `Loader._pipeline_cache` → `file_cache`, `step_cache`, and the
  `Pipeline` objects that are run again and again across edits and clears — section "Layers").

  Everything up to section "progress" is SAFETY. Sections added after the first audit:
  "progress" (deadlock freedom and termination of the one-lock system, every operation returns —
  `C13_Progress.lean`), "clear_pipes" (`LoaderCache.clear_pipes` next to look-ups, as repaired and as it
  was — `C13_Scan.lean`), "two locks" (`CacheTS.Nest`: the pipeline cache's creator looks up `file_cache` —
  `C13_Nest.lean`, `C13_SpecU.lean`), "add_sys_path, one set operation at a time" (`C13_SysPathF.lean`),
  "WorldOk for the file loader" (`C13_Resolve.lean`), "failed look-ups: what they leave behind" (sources that
  are malformed — `World.mapping`, the check at the end of `Loader._load_pipeline` — and repaired later: the
  only thing a failed look-up leaves in any table is the rejected parse in `file_cache`, the OPEN finding
  `rejected_file_is_remembered`).

  Histories are newest-first; "`(e :: h) <:+ H`" reads "at the moment `e` happened the history
  was `h`".
-/
import Props.Lemmas.C13_Inv
import Props.Lemmas.C13_Spec
import Props.Lemmas.C13_SysPath
import Props.Lemmas.C13_Stack
import Props.Lemmas.C13_Seq
import Generated.CacheAdmin
import Props.Lemmas.C13_Progress
import Props.Lemmas.C13_SpecU
import Props.Lemmas.C13_Scan
import Props.Lemmas.C13_Nest
import Props.Lemmas.C13_SysPathF
import Props.Lemmas.C13_Resolve

namespace Pypyr.C13
open Pypyr.CacheTS

/-- the state after running `sched` from the initial state -/
abbrev reach (cfg : Cfg) (prog : Tid → List Op) (sched : List Tid) : State :=
  run cfg (init cfg prog) sched

/-! ### example system used for the non-vacuity examples
  two threads, `T0: get 0; get 0`, `T1: get 0; clear`; creator call 0 raises. -/
def exCfg : Cfg := { seed := fun _ => none, fails := fun n => n == 0, noCache := false }
def exProg : Tid → List Op
  | 0 => [.get 0, .get 0]
  | 1 => [.get 0, .clear]
  | _ => []
/-- T0 starts and takes the lock, T1 starts and blocks; T0's creator raises; T1 creates object 1;
    T0 hits; T1 clears. -/
def exSched : List Tid :=
  [0, 0, 1, 1, 0, 0, 0, 0, 0, 1, 1, 1, 1, 1, 1, 1, 0, 0, 0, 0, 0, 1, 1, 1, 1, 1]

example : (reach exCfg exProg exSched).hist =
    [.clear 1, .hit 0 0 1, .create 1 0 1, .fail 0 0 0] := by decide

/-! ### mutual exclusion -/

/-- `mutex`: at most one thread is between lock-acquire and lock-release. -/
theorem mutex (cfg : Cfg) (prog : Tid → List Op) (sched : List Tid) (t u : Tid)
    (ht : ((reach cfg prog sched).threads t).pc.inCS = true)
    (hu : ((reach cfg prog sched).threads u).pc.inCS = true) : t = u := by
  have h := (inv_reach cfg prog sched).mutex
  have := (h t).1 ht
  have := (h u).1 hu
  simp_all

example : ((reach exCfg exProg [0, 0, 1, 1]).threads 0).pc.inCS = true ∧
    ((reach exCfg exProg [0, 0, 1, 1]).threads 1).pc = .wantLock (.get 0) := by decide

/-! ### refinement to the atomic get-or-create specification -/

/-- `refines_atomic`: without `no_cache`, the history of every reachable state is a trace of the
    atomic specification `specStep` (check, create and store happen as one indivisible event),
    and the specification's table is the implementation's table (plus the object the lock holder
    is about to store). -/
theorem refines_atomic (cfg : Cfg) (prog : Tid → List Op) (sched : List Tid)
    (hnc : cfg.noCache = false) :
    specRun cfg (reach cfg prog sched).hist = some (effCache (reach cfg prog sched)) :=
  (inv_reach cfg prog sched).refines hnc

example : (specRun exCfg (reach exCfg exProg exSched).hist).isSome = true := by decide

/-- at the moment an event happened, the history before it was a specification trace and the event
    was possible in the specification state -/
theorem event_possible (cfg : Cfg) (prog : Tid → List Op) (sched : List Tid)
    (hnc : cfg.noCache = false) {e : Ev} {h : List Ev}
    (hs : (e :: h) <:+ (reach cfg prog sched).hist) :
    ∃ s s', specRun cfg h = some s ∧ specStep cfg s e = some s' := by
  obtain ⟨s', hs'⟩ := specRun_suffix hs (refines_atomic cfg prog sched hnc)
  obtain ⟨s, h1, h2⟩ := specRun_cons hs'
  exact ⟨s, s', h1, h2⟩

/-! ### single flight -/

/-- `single_flight`: when a creator succeeds for `k`, no object for `k` has been created or handed
    out since the last clear — so between two clears there is at most one successful creation
    per key. -/
theorem single_flight (cfg : Cfg) (prog : Tid → List Op) (sched : List Tid)
    (hnc : cfg.noCache = false) {t : Tid} {k : Key} {c : Obj} {h : List Ev}
    (hs : (.create t k c :: h) <:+ (reach cfg prog sched).hist) : epochIds k h = [] := by
  obtain ⟨s, s', h1, h2⟩ := event_possible cfg prog sched hnc hs
  simp only [specStep] at h2
  split at h2
  · rename_i hk
    cases hids : epochIds k h with
    | nil => rfl
    | cons c' rest =>
      have := spec_epoch h1 (c := c') (k := k) (by rw [hids]; exact List.mem_cons_self)
      simp_all
  · cases h2

/-- `single_flight_pairs`: two successful creations for the same key are separated by a clear. -/
theorem single_flight_pairs (cfg : Cfg) (prog : Tid → List Op) (sched : List Tid)
    (hnc : cfg.noCache = false) {t1 t2 : Tid} {k : Key} {c1 c2 : Obj} {h1 mid h3 : List Ev}
    (hh : (reach cfg prog sched).hist = h1 ++ .create t1 k c1 :: (mid ++ .create t2 k c2 :: h3)) :
    ∃ t, .clear t ∈ mid := by
  have hs : (.create t1 k c1 :: (mid ++ .create t2 k c2 :: h3)) <:+ (reach cfg prog sched).hist :=
    ⟨h1, hh.symm⟩
  have hnil := single_flight cfg prog sched hnc hs
  apply Classical.byContradiction
  intro hno
  have : c2 ∈ epochIds k (mid ++ .create t2 k c2 :: h3) :=
    epochIds_mem_append (fun e he t hc => hno ⟨t, hc ▸ he⟩) (by simp [epochIds])
  rw [hnil] at this
  cases this

example : (Ev.create 1 0 1 :: [.fail 0 0 0]) <:+ (reach exCfg exProg exSched).hist := by decide

/-! ### same object -/

/-- `same_object`: every object created for or served under `k` is the same as all objects
    created for or served under `k` since the last clear. -/
theorem same_object (cfg : Cfg) (prog : Tid → List Op) (sched : List Tid)
    (hnc : cfg.noCache = false) {e : Ev} {t : Tid} {k : Key} {c : Obj} {h : List Ev}
    (hs : (e :: h) <:+ (reach cfg prog sched).hist) (he : e = .hit t k c ∨ e = .create t k c) :
    ∀ c' ∈ epochIds k h, c' = c := by
  intro c' hc'
  obtain ⟨s, s', h1, h2⟩ := event_possible cfg prog sched hnc hs
  have hk := spec_epoch h1 hc'
  rcases he with rfl | rfl <;> simp only [specStep] at h2 <;> split at h2 <;> simp_all

example : (Ev.hit 0 0 1 :: [.create 1 0 1, .fail 0 0 0]) <:+ (reach exCfg exProg exSched).hist ∧
    epochIds 0 [.create 1 0 1, .fail 0 0 0] = [1] := by decide

/-- `results_are_observations`: what a thread's finished operations returned to their callers is
    exactly what the thread's own events observed, in order (both modes). Together with
    `same_object`: every caller receives that same object. -/
theorem results_are_observations (cfg : Cfg) (prog : Tid → List Op) (sched : List Tid) (t : Tid)
    (hidle : ((reach cfg prog sched).threads t).pc = .idle) :
    ((reach cfg prog sched).threads t).results =
      (eventsOf t (reach cfg prog sched).hist).map Ev.res := by
  have := (inv_reach cfg prog sched).results t
  rw [hidle] at this
  simpa [Pc.pendingRes] using this.symm

example : ((reach exCfg exProg exSched).threads 0).pc = .idle ∧
    ((reach exCfg exProg exSched).threads 0).results = [.val 1, .raised 0] ∧
    ((reach exCfg exProg exSched).threads 1).results = [.cleared, .val 1] := by decide

/-- `creator_calls_distinct`: creator-call numbers (= ids of the created objects) are never
    reused, so equal ids in the statements above mean the very same creation. -/
theorem creator_calls_distinct (cfg : Cfg) (prog : Tid → List Op) (sched : List Tid) :
    (callIds (reach cfg prog sched).hist).Nodup :=
  (inv_reach cfg prog sched).fresh.nodup

/-- `model_holds`: the decidable monitor the driver's `cache.judge` evaluates on the IMPLEMENTATION's
    history (`CacheTS.holds`: trace of the atomic specification, call numbers distinct) is true of
    every history of the model. -/
theorem model_holds (cfg : Cfg) (prog : Tid → List Op) (sched : List Tid) (hnc : cfg.noCache = false) :
    holds cfg (reach cfg prog sched).hist = true := by
  simp [holds, refines_atomic cfg prog sched hnc, creator_calls_distinct cfg prog sched]

example : holds exCfg [.create 1 0 1, .create 0 0 0] = false := by decide

/-! ### failures are not remembered, clear refreshes -/

/-- `hit_justified`: an object is served from the table only if it is a seed (`BackoffCache`
    built-ins) or the newest event concerning that key created or served that very object. -/
theorem hit_justified (cfg : Cfg) (prog : Tid → List Op) (sched : List Tid)
    (hnc : cfg.noCache = false) {t : Tid} {k : Key} {c : Obj} {h : List Ev}
    (hs : (.hit t k c :: h) <:+ (reach cfg prog sched).hist) :
    cfg.seed k = some c ∨ (∃ t', lastOn k h = some (.hit t' k c)) ∨
      (∃ t', lastOn k h = some (.create t' k c)) := by
  obtain ⟨s, s', h1, h2⟩ := event_possible cfg prog sched hnc hs
  simp only [specStep] at h2
  split at h2
  · rename_i hk; exact spec_lastOn h1 hk
  · cases h2

/-- `failure_not_cached`: a creator that raised leaves its key absent … -/
theorem failure_leaves_absent (cfg : Cfg) (prog : Tid → List Op) (sched : List Tid)
    (hnc : cfg.noCache = false) {t : Tid} {k : Key} {c : Nat} {h : List Ev}
    (hh : (reach cfg prog sched).hist = .fail t k c :: h) :
    effCache (reach cfg prog sched) k = none := by
  have hr := refines_atomic cfg prog sched hnc
  rw [hh] at hr
  obtain ⟨s, _, h2⟩ := specRun_cons hr
  simp only [specStep] at h2
  split at h2 <;> simp_all

/-- … and the next look-up of that key is never served from the table: it runs the creator
    again (its event is a `create` or a `fail`, not a `hit`). -/
theorem failure_not_cached (cfg : Cfg) (prog : Tid → List Op) (sched : List Tid)
    (hnc : cfg.noCache = false) {t : Tid} {k : Key} {c : Obj} {h : List Ev}
    (hs : (.hit t k c :: h) <:+ (reach cfg prog sched).hist) (t' : Tid) (c' : Nat)
    (hseed : cfg.seed k = none) : lastOn k h ≠ some (.fail t' k c') := by
  rcases hit_justified cfg prog sched hnc hs with h | ⟨_, h⟩ | ⟨_, h⟩ <;> simp_all

example : (reach exCfg exProg [0, 0, 1, 1, 0, 0, 0]).hist = [.fail 0 0 0] ∧
    (reach exCfg exProg [0, 0, 1, 1, 0, 0, 0]).cache 0 = none := by decide

/-- `clear_refreshes`: after a clear the next look-up of an unseeded key is not served from the
    table: it creates afresh. -/
theorem clear_refreshes (cfg : Cfg) (prog : Tid → List Op) (sched : List Tid)
    (hnc : cfg.noCache = false) {t : Tid} {k : Key} {c : Obj} {h : List Ev}
    (hs : (.hit t k c :: h) <:+ (reach cfg prog sched).hist) (t' : Tid)
    (hseed : cfg.seed k = none) : lastOn k h ≠ some (.clear t') := by
  rcases hit_justified cfg prog sched hnc hs with h | ⟨_, h⟩ | ⟨_, h⟩ <;> simp_all

/-- … and right after a clear the table is the seed table (empty for all caches but
    `BackoffCache`, whose built-ins are its seed). -/
theorem clear_resets (cfg : Cfg) (prog : Tid → List Op) (sched : List Tid)
    (hnc : cfg.noCache = false) {t : Tid} {h : List Ev}
    (hh : (reach cfg prog sched).hist = .clear t :: h) :
    effCache (reach cfg prog sched) = cfg.seed := by
  have hr := refines_atomic cfg prog sched hnc
  rw [hh] at hr
  obtain ⟨s, _, h2⟩ := specRun_cons hr
  simp only [specStep] at h2
  simp_all

example : (reach exCfg exProg exSched).hist.head? = some (.clear 1) ∧
    (reach exCfg exProg exSched).cache 0 = none := by decide

/-! ### transparency, `no_cache` -/

/-- `objects_made_for_their_key`: an object served for `k` is a seed for `k` or was made by a
    creator invocation for `k` — look-ups never receive another key's object. -/
theorem objects_made_for_their_key (cfg : Cfg) (prog : Tid → List Op) (sched : List Tid)
    (hnc : cfg.noCache = false) {t : Tid} {k : Key} {c : Obj} {h : List Ev}
    (hs : (.hit t k c :: h) <:+ (reach cfg prog sched).hist) :
    cfg.seed k = some c ∨ ∃ t', .create t' k c ∈ h := by
  obtain ⟨s, s', h1, h2⟩ := event_possible cfg prog sched hnc hs
  simp only [specStep] at h2
  split at h2
  · rename_i hk; exact spec_created h1 hk
  · cases h2

/-- `no_cache_transparent`: with `config.no_cache` the table is never written, nothing is ever
    served from it, and every look-up returns the result of its OWN creator invocation. -/
theorem no_cache_transparent (cfg : Cfg) (prog : Tid → List Op) (sched : List Tid)
    (hnc : cfg.noCache = true) :
    (reach cfg prog sched).cache = cfg.seed ∧
    (∀ e ∈ (reach cfg prog sched).hist, e.isHit = false) ∧
    (∀ t c, ((reach cfg prog sched).threads t).pc = .idle →
      .val c ∈ ((reach cfg prog sched).threads t).results →
      ∃ k, .create t k c ∈ (reach cfg prog sched).hist) := by
  obtain ⟨h1, h2⟩ := (inv_reach cfg prog sched).bypass hnc
  refine ⟨h1, h2, ?_⟩
  intro t c hidle hc
  rw [results_are_observations cfg prog sched t hidle] at hc
  obtain ⟨e, he, hres⟩ := List.mem_map.mp hc
  have hmem : e ∈ (reach cfg prog sched).hist := (List.mem_filter.mp he).1
  have htid : e.tid = t := by simpa [eventsOf] using (List.mem_filter.mp he).2
  have hnh := h2 e hmem
  cases e <;> simp_all [Ev.res, Ev.isHit, Ev.tid]
  exact ⟨_, hmem⟩

def exCfgNC : Cfg := { exCfg with noCache := true, fails := fun _ => false }
example : (reach exCfgNC exProg [0, 1, 0, 1, 1, 0, 1, 0, 0, 0, 0, 0]).hist =
      [.create 0 0 2, .create 0 0 0, .create 1 0 1] ∧
    ((reach exCfgNC exProg [0, 1, 0, 1, 1, 0, 1, 0, 0, 0, 0, 0]).threads 0).results = [.val 2, .val 0] := by
  decide

/-- with deterministic creators the two modes agree on WHAT is returned: in either mode a
    returned object was made by a creator invocation for the requested key (or is a seed);
    cached mode: `objects_made_for_their_key` + `same_object`; `no_cache`: above. -/
theorem no_cache_same_values (cfg : Cfg) (prog : Tid → List Op) (sched : List Tid) {e : Ev}
    (he : e ∈ (reach cfg prog sched).hist) (hnc : cfg.noCache = true) :
    (∃ t k c, e = .create t k c) ∨ (∃ t k c, e = .fail t k c) ∨ (∃ t, e = .clear t) := by
  have := (no_cache_transparent cfg prog sched hnc).2.1 e he
  cases e <;> simp_all [Ev.isHit]

/-! ### the turn-level executions the correspondence harness drives are schedules -/

/-- `turns_are_schedules`: whatever the driver executes at turn granularity is `run` of some
    micro-step schedule, so every theorem above applies to it. -/
theorem turns_are_schedules (cfg : Cfg) : ∀ (ts : List Tid) st, ∃ sched, runTurns cfg st ts = run cfg st sched := by
  intro ts
  induction ts with
  | nil => intro st; exact ⟨[], rfl⟩
  | cons t ts ih =>
    intro st
    obtain ⟨s1, h1⟩ := settle_is_run cfg t 3 (step cfg st t)
    obtain ⟨s2, h2⟩ := ih (turn cfg st t)
    have ht : turn cfg st t = run cfg (step cfg st t) s1 := h1
    refine ⟨t :: s1 ++ s2, ?_⟩
    simp only [runTurns, List.cons_append, run, run_append]
    rw [← ht]; exact h2

/-! ### pipeline cache key -/

/-- `pipelineKey_injective`: the key `Loader.get_pipeline` uses determines the name, whether the
    parent is truthy, and — when it is — `str(parent)`. Two requests share a cache entry only if
    they agree on all of these (which is all the file loader looks at). -/
theorem pipelineKey_injective (pt pt' : Bool) (ps ps' n n' : String)
    (h : pipelineKey pt ps n = pipelineKey pt' ps' n') :
    n = n' ∧ pt = pt' ∧ (pt = true → ps = ps') := by
  cases pt <;> cases pt' <;> simp_all [pipelineKey]

/-- the falsy-parent case: every falsy parent (`None`, `''`, `0`) shares the bare-name key. -/
theorem pipelineKey_falsy_parent (ps ps' n : String) : pipelineKey false ps n = pipelineKey false ps' n := rfl

example : pipelineKey true "/x/a" "b+c" ≠ pipelineKey true "/x/a+b" "c" := by decide

/-- `pipelineKey_collision_pre_fix`: the key before fix F5 (`f'{parent}+{name}'`) maps two
    different requests to one entry. -/
theorem pipelineKey_collision_pre_fix :
    pipelineKeyOld true "/x/a" "b+c" = pipelineKeyOld true "/x/a+b" "c" ∧
    ("/x/a", "b+c") ≠ ("/x/a+b", "c") := by decide

/-! ### the layers above the caches: Pipeline objects re-used across runs, clears and edits

  `CacheTS.Stack`: `LoaderCache` → `Loader._pipeline_cache` → `file_cache`, `step_cache`, and the
  client objects (`pypyr.pipeline.Pipeline`) whose `pipeline_definition` slot survives from run to
  run. Sessions are arbitrary lists of runs (any client object, any loader, any request), changes of
  the world (sources edited, files appearing/disappearing), the five clears and `no_cache` toggles. -/
section Layers
open Pypyr.CacheTS.Stack

/-- run a list of operations, forgetting the observations -/
def execAll (w : World) (st : LState) : List LOp → World × LState
  | [] => (w, st)
  | op :: ops => execAll (exec w st op).1 (exec w st op).2.1 ops

def stepAll (f : Flags) : List LOp → Flags
  | [] => f
  | op :: ops => stepAll (f.step op) ops

/-- every world of the session answers requests by their cache key -/
def WorldsOk (w : World) (ops : List LOp) : Prop := WorldOk w ∧ ∀ w', LOp.world w' ∈ ops → WorldOk w'

theorem exec_world_ok {w : World} {st : LState} {op : LOp} {ops : List LOp} (h : WorldsOk w (op :: ops)) :
    WorldsOk (exec w st op).1 ops := by
  refine ⟨?_, fun w' hw' => h.2 w' (List.mem_cons_of_mem _ hw')⟩
  cases op <;> try exact h.1
  · exact h.2 _ List.mem_cons_self
  · rename_i ol; cases ol <;> exact h.1

theorem inv_execAll (ops : List LOp) : ∀ (w : World) (st : LState) (f : Flags), Inv w st f → WorldsOk w ops →
    Inv (execAll w st ops).1 (execAll w st ops).2 (stepAll f ops) := by
  induction ops with
  | nil => intro w st f hi _; exact hi
  | cons op ops ih =>
    intro w st f hi hw
    exact ih _ _ _ (inv_exec w st f op hw.1 hi) (exec_world_ok hw)

/-- `session_fresh` — the property at the level of whole pipelines, for EVERY session: a run
    that goes only through layers cleared since the world last changed (or runs with `no_cache`)
    executes exactly what an uncached look-up of its own (loader, parent, name) yields at that
    moment — whichever client object issues it, whatever that object ran before, whatever other
    requests were served in between. -/
theorem session_fresh (ops : List LOp) : ∀ (w : World) (st : LState) (f : Flags), Inv w st f → WorldsOk w ops →
    ∀ x ∈ session w st f ops, x.2.1 = true → x.1.ran = x.2.2 := by
  induction ops with
  | nil => intro w st f _ _ x hx; simp [session] at hx
  | cons op ops ih =>
    intro w st f hi hw x hx hclean
    have hrest := ih _ _ _ (inv_exec w st f op hw.1 hi) (exec_world_ok hw)
    cases op with
    | run c l r =>
      simp only [session, List.mem_cons] at hx
      rcases hx with rfl | hx
      · simp only [Bool.or_eq_true] at hclean
        exact run_fresh_of_inv w st f c l r hi hclean
      · exact hrest x hx hclean
    | _ => exact hrest x (by simpa [session] using hx) hclean

/-- the initial state satisfies the invariant for any flags -/
theorem session_fresh_init (w : World) (ops : List LOp) (hw : WorldsOk w ops) :
    ∀ x ∈ session w LState.init Flags.none ops, x.2.1 = true → x.1.ran = x.2.2 :=
  session_fresh ops w LState.init Flags.none (inv_init w _) hw

/-- any well-formed state satisfies the invariant when every layer is flagged as possibly stale -/
theorem inv_all_stale (w : World) (st : LState) (hw : Wf st) :
    Inv w st { files := true, pipes := fun _ => true } :=
  ⟨hw, fun h => by simp at h, fun _ h => by simp at h⟩

/-- `clear_all_refreshes` — "a clear makes the next look-up create afresh", end to end: after ANY
    session (edits, runs, toggles, from the initial state), `pypyr.cache.admin.clear_all()` followed by
    a run on ANY client object — new or used before — executes the present source. -/
theorem clear_all_refreshes (w0 : World) (pre : List LOp) (hw : WorldsOk w0 pre) (c l : Nat) (r : Rq) :
    (run (execAll w0 LState.init pre).1 (exec (execAll w0 LState.init pre).1 (execAll w0 LState.init pre).2 .clearAll).2.1
      c l r).1.ran = (execAll w0 LState.init pre).1.fresh l r := by
  have hi := inv_execAll pre w0 LState.init Flags.none (inv_init w0 _) hw
  have hwok : WorldOk (execAll w0 LState.init pre).1 := by
    clear hi
    generalize LState.init = st at *
    induction pre generalizing w0 st with
    | nil => exact hw.1
    | cons op ops ih => exact ih _ (exec_world_ok hw) _
  have hi2 := inv_exec _ _ _ .clearAll hwok (inv_all_stale _ _ hi.wf)
  exact run_fresh_of_inv _ _ _ c l r hi2 (Or.inl (by simp [Flags.step, Flags.clean]))

/-- `no_cache_run` — with caching disabled a run executes the present source, creates every item
    itself (loader, definition, step) and leaves every table as it was. -/
theorem no_cache_run (w : World) (st : LState) (c l : Nat) (r : Rq) (h : st.noCache = true) :
    (run w st c l r).1.ran = w.fresh l r ∧ (run w st c l r).1.loaderMade = true ∧
    (run w st c l r).1.defMade = true ∧ ((run w st c l r).1.ran.isSome → (run w st c l r).1.stepMade = true) ∧
    (run w st c l r).2.loaders = st.loaders ∧ (run w st c l r).2.pipes = st.pipes ∧
    (run w st c l r).2.files = st.files ∧ (run w st c l r).2.stepCached = st.stepCached := by
  have hL := getLoader_loaders_noCache st l h
  have hnc : (getLoader st l).2.2.noCache = true := by rw [getLoader_noCache]; exact h
  have hP := getPipeline_noCache w (getLoader st l).2.2 (getLoader st l).1 l r hnc
  simp only [Stack.run]
  cases hx : (getPipeline w (getLoader st l).2.2 (getLoader st l).1 l r).1 with
  | none =>
    simp only [hP.2.1, hL.1, getLoader_pipes, getLoader_files, getLoader_stepCached, hL.2.2, hP.2.2, ← hP.1, hx]
    simp
  | some x =>
    simp only [getStep, hP.2.1, hnc, hL.1, getLoader_pipes, getLoader_files, getLoader_stepCached, hL.2.2,
      hP.2.2, ← hP.1, hx]
    simp

/-- `cached_equals_uncached` — transparency: while the world does not change, every run of every
    session executes what an uncached look-up yields — caching on or off makes no difference to
    WHAT runs. -/
theorem cached_equals_uncached (w : World) (hw : WorldOk w) (ops : List LOp)
    (hno : ∀ w', LOp.world w' ∉ ops) : ∀ x ∈ session w LState.init Flags.none ops, x.1.ran = x.2.2 := by
  have key : ∀ (ops : List LOp) (st : LState), (∀ w', LOp.world w' ∉ ops) → Inv w st Flags.none →
      ∀ x ∈ session w st Flags.none ops, x.1.ran = x.2.2 := by
    intro ops
    induction ops with
    | nil => intro st _ _ x hx; simp [session] at hx
    | cons op ops ih =>
      intro st hno hi x hx
      have hno' : ∀ w', LOp.world w' ∉ ops := fun w' h => hno w' (List.mem_cons_of_mem _ h)
      have hstep : Flags.none.step op = Flags.none ∧ (exec w st op).1 = w := by
        cases op with
        | world w' => exact absurd List.mem_cons_self (hno w')
        | clearPipes ol => cases ol <;> simp [Flags.step, Flags.none, exec]
        | _ => simp [Flags.step, Flags.none, exec]
      have hi' := inv_exec w st Flags.none op hw hi
      rw [hstep.1, hstep.2] at hi'
      have hrest := ih _ hno' hi'
      cases op with
      | run c l r =>
        simp only [session, List.mem_cons] at hx
        rcases hx with rfl | hx
        · exact run_fresh_of_inv w st Flags.none c l r hi (Or.inl (by simp [Flags.clean, Flags.none]))
        · rw [hstep.1, hstep.2] at hx; exact hrest x hx
      | _ =>
        simp only [session] at hx
        rw [hstep.1, hstep.2] at hx
        exact hrest x hx
  exact key ops LState.init hno (inv_init w _)

/-- where the key's injectivity is used: a world in which all falsy parents mean "no parent"
    answers requests by their cache key -/
theorem worldOk_of_falsy (w : World)
    (h : ∀ l (r r' : Rq), r.pt = false → r'.pt = false → r.name = r'.name → w.fresh l r = w.fresh l r') :
    WorldOk w := by
  intro l r r' hk
  obtain ⟨hn, hpt, hps⟩ := pipelineKey_injective r.pt r'.pt r.ps r'.ps r.name r'.name hk
  cases hp : r.pt
  · exact h l r r' hp (hpt ▸ hp) hn
  · have : r = r' := by
      cases r; cases r'; simp_all
    rw [this]

/-- `run_ignores_slots` — the client object is not part of the look-up: whatever a Pipeline object
    holds from earlier runs (`pipeline_definition`), a run on it observes and leaves behind exactly
    what a run on a brand-new object does. (The assumption "clients do not retain cached objects",
    as a theorem about the model of `load_and_run_pipeline`; the correspondence harness checks the
    real `Pipeline`, `pipelinerunner.run` and the pype step against it with re-used objects.) -/
theorem run_ignores_slots (w : World) (st : LState) (s' : Nat → Option Ver) (c l : Nat) (r : Rq) :
    (Stack.run w { st with slot := s' } c l r).1 = (Stack.run w st c l r).1 ∧
    ∃ s'', (Stack.run w { st with slot := s' } c l r).2 = { (Stack.run w st c l r).2 with slot := s'' } := by
  simp only [Stack.run, getLoader_slot_irrelevant, getPipeline_slot_irrelevant]
  split
  · exact ⟨rfl, _, rfl⟩
  · rename_i x hx
    have h1 := getStep_slot_irrelevant (getPipeline w (getLoader st l).2.2 (getLoader st l).1 l r).2.2.2
      (fun c' => if c' = c then some x else s' c')
    have h2 := getStep_slot_irrelevant (getPipeline w (getLoader st l).2.2 (getLoader st l).1 l r).2.2.2
      (fun c' => if c' = c then some x else (getPipeline w (getLoader st l).2.2 (getLoader st l).1 l r).2.2.2.slot c')
    simp only at h1 h2
    simp only [h1, h2]
    exact ⟨trivial, _, rfl⟩

/-! example worlds: the file loader's pipeline `p` is file 0, whose content is version 1, then 2 -/
def exRq : Rq := { pt := false, ps := "None", name := "p" }
def exW1 : World := { resolve := fun r => if r.name == "p" then some 0 else none, fileVer := fun _ => 1,
                      custom := fun _ _ => some 10 }
def exW2 : World := { exW1 with fileVer := fun _ => 2 }

theorem exW_ok : WorldsOk exW1 [.run 7 0 exRq, .world exW2, .run 7 0 exRq, .clearAll, .run 7 0 exRq] := by
  have h1 : WorldOk exW1 := worldOk_of_falsy _ (by intro l r r' _ _ hn; simp [World.fresh, World.raw, exW1, hn])
  have h2 : WorldOk exW2 := worldOk_of_falsy _ (by intro l r r' _ _ hn; simp [World.fresh, World.raw, exW2, exW1, hn])
  refine ⟨h1, ?_⟩
  intro w' hw'
  simp at hw'
  exact hw' ▸ h2

/-- one client object (7): runs version 1; the source changes; the warm caches still serve
    version 1 (not a clean run); `clear_all()`; the same object now runs version 2. -/
example : (session exW1 LState.init Flags.none
      [.run 7 0 exRq, .world exW2, .run 7 0 exRq, .clearAll, .run 7 0 exRq]).map
        (fun x => (x.1.ran, x.2.1, x.2.2)) =
    [(some 1, true, some 1), (some 1, false, some 2), (some 2, true, some 2)] := by
  decide +kernel

/-- `retaining_client_breaks_clear` — NOT pypyr: were the client to re-use the definition it holds
    (`Stack.runRetaining`), `clear_all_refreshes` would be false: the same session ends with the
    pre-clear version. The hypothesis "the slot is never read" is essential, not decoration. -/
theorem retaining_client_breaks_clear :
    let st := (execAll exW1 LState.init [.run 7 0 exRq, .world exW2, .clearAll]).2
    (Stack.run exW2 st 7 0 exRq).1.ran = some 2 ∧ (runRetaining exW2 st 7 0 exRq).1.ran = some 1 := by
  decide +kernel

/-! #### `clear_all` and `clear_pipes` as sequences of single clears, other threads in every gap

`pypyr.cache.admin.clear_all()` is not one step: it is `<cache>.clear()` after `<cache>.clear()`, each under
that cache's own lock, and between two of them another thread can complete any number of look-ups
(`Stack.weave`). What the caller of `clear_all` is promised — "a clear makes the next look-up create afresh" —
therefore depends on the ORDER of the clears: the file loader's pipeline cache (outer, reached through
`loader_cache`) is filled FROM `file_cache` (inner). Hypothesis of the theorems, stated: every look-up is a
completed one (a `run` in a gap, before or after); a look-up that STARTED before a clear and is still inside
its creator when `clear_all` returns is outside them. -/

theorem stepAll_eq_steps (f : Flags) (ops : List LOp) : stepAll f ops = Seq.steps f ops := by
  induction ops generalizing f with
  | nil => rfl
  | cons op ops ih => exact ih _

/-- the clears of `clear_all` that lie on a pipeline look-up's path, in the order pypyr/cache/admin.py has
    them (`Generated/CacheAdmin.lean`, written from the source under test by ast on every run) -/
def clearAllSeq : List LOp := Pypyr.Generated.CacheAdmin.clearAllOrder.filterMap clearOpOf

/-- the STATIC TIE: `clear_all` as it is in the tree under test is a straight line of `.clear()` calls on
    module-level cache instances, it clears `file_cache`, `loader_cache` and `step_cache`, and it clears
    the inner `file_cache` before the outer `loader_cache`. -/
theorem clear_all_order_inner_first :
    Pypyr.Generated.CacheAdmin.clearAllStraight = true ∧ innerFirst clearAllSeq = true ∧
    "step_cache" ∈ Pypyr.Generated.CacheAdmin.clearAllOrder ∧ clearAllSeq.all (fun op => !op.isWorld) = true := by
  decide

theorem clearAllSeq_quiet : Seq.Quiet clearAllSeq := by
  intro op hop
  have h := clear_all_order_inner_first.2.2.2
  rw [List.all_eq_true] at h
  simpa using h op hop

/-- `clear_seq_refreshes` — for EVERY session before, every list of single clears `cl` that empties the inner
    layer before the outer one, every choice of operations other threads complete in every gap (runs on any
    client, any loader, any request; further clears; `no_cache` toggles — anything but an edit of the
    sources) and after the last clear: the next look-up, by any client object, executes the source as it is
    now. -/
theorem clear_seq_refreshes (w0 : World) (pre cl post : List LOp) (gap : Nat → List LOp)
    (hin : innerFirst cl = true) (hq : Seq.Quiet cl) (hg : ∀ i, Seq.Quiet (gap i)) (hpost : Seq.Quiet post)
    (hw : WorldsOk w0 (pre ++ (weave gap 0 cl ++ post))) (c l : Nat) (r : Rq) :
    (run (execAll w0 LState.init (pre ++ (weave gap 0 cl ++ post))).1
         (execAll w0 LState.init (pre ++ (weave gap 0 cl ++ post))).2 c l r).1.ran =
      (execAll w0 LState.init (pre ++ (weave gap 0 cl ++ post))).1.fresh l r := by
  have hi := inv_execAll _ w0 LState.init Flags.none (inv_init w0 _) hw
  rw [stepAll_eq_steps, Seq.steps_append, Seq.steps_append] at hi
  have h1 := Seq.weave_inner_first gap hg cl 0 (Seq.steps Flags.none pre) hq hin
  have h2 := Seq.steps_clean post _ hpost h1.1 h1.2
  exact run_fresh_of_inv _ _ _ c l r hi (Or.inl (by simp [Flags.clean, h2.1, h2.2 l]))

/-- `clear_all_refreshes_interleaved` — the same for `clear_all` in the order the code under test has. -/
theorem clear_all_refreshes_interleaved (w0 : World) (pre post : List LOp) (gap : Nat → List LOp)
    (hg : ∀ i, Seq.Quiet (gap i)) (hpost : Seq.Quiet post)
    (hw : WorldsOk w0 (pre ++ (weave gap 0 clearAllSeq ++ post))) (c l : Nat) (r : Rq) :
    (run (execAll w0 LState.init (pre ++ (weave gap 0 clearAllSeq ++ post))).1
         (execAll w0 LState.init (pre ++ (weave gap 0 clearAllSeq ++ post))).2 c l r).1.ran =
      (execAll w0 LState.init (pre ++ (weave gap 0 clearAllSeq ++ post))).1.fresh l r :=
  clear_seq_refreshes w0 pre clearAllSeq post gap clear_all_order_inner_first.2.1 clearAllSeq_quiet hg hpost hw c l r

/-- `clear_pipes_seq_refreshes` — `LoaderCache.clear_pipes()` is a loop of `Loader.clear()` calls; the
    per-loader pipeline caches do not feed one another, so ANY order of the loaders `ls` will do: with
    `file_cache` emptied since the last edit, after the loop — whatever other threads completed in the gaps —
    a look-up through any of the cleared loaders executes the present source. -/
theorem clear_pipes_seq_refreshes (w0 : World) (pre mid post : List LOp) (ls : List Nat) (gap : Nat → List LOp)
    (hmid : Seq.Quiet mid) (hg : ∀ i, Seq.Quiet (gap i)) (hpost : Seq.Quiet post)
    (hw : WorldsOk w0 (pre ++ (LOp.clearFiles :: mid ++ (weave gap 0 (ls.map fun x => LOp.clearPipes (some x)) ++ post))))
    (c l : Nat) (r : Rq) (hl : l ∈ ls) :
    let ops := pre ++ (LOp.clearFiles :: mid ++ (weave gap 0 (ls.map fun x => LOp.clearPipes (some x)) ++ post))
    (run (execAll w0 LState.init ops).1 (execAll w0 LState.init ops).2 c l r).1.ran =
      (execAll w0 LState.init ops).1.fresh l r := by
  intro ops
  have hi := inv_execAll _ w0 LState.init Flags.none (inv_init w0 _) hw
  rw [stepAll_eq_steps, Seq.steps_append, List.cons_append, Seq.steps, Seq.steps_append, Seq.steps_append] at hi
  have hf0 : ((Seq.steps Flags.none pre).step .clearFiles).files = false := by simp [Flags.step]
  have hf1 := Seq.steps_files mid _ hmid hf0
  have hqw := Seq.quiet_weave gap hg _ 0 (Seq.quiet_clearPipes ls)
  have hf2 := Seq.steps_files _ _ hqw hf1
  have hp2 := Seq.weave_pipes gap hg l ls 0 _ hf1 (Or.inl hl)
  have hf3 := Seq.steps_files post _ hpost hf2
  have hp3 := Seq.steps_pipe l post _ hpost hf2 hp2
  exact run_fresh_of_inv _ _ _ c l r hi (Or.inl (by simp [Flags.clean, hf3, hp3]))

/-- the gap used by the witnesses: another thread (client 8) completes one look-up of the same pipeline
    between the first and the second clear -/
def exGap : Nat → List LOp := fun i => if i = 1 then [.run 8 0 exRq] else []

/-- `outer_layer_first_keeps_stale` — the COUNTER-MODEL: the same two clears the other way round
    (`loader_cache.clear()` BEFORE `file_cache.clear()`). The look-up in the gap makes a new Loader whose
    creator is served the pre-clear parse by the not yet emptied `file_cache`; after the sequence has
    returned, look-ups execute version 1 although the source holds version 2 — for ever, nothing else
    clears it. With the inner layer first the very same interleaving ends fresh. `innerFirst` is exactly what
    tells the two apart. -/
theorem outer_layer_first_keeps_stale :
    let pre : List LOp := [.run 7 0 exRq, .world exW2]
    let bad := execAll exW1 LState.init (pre ++ weave exGap 0 [.clearLoaders, .clearFiles, .clearSteps])
    let good := execAll exW1 LState.init (pre ++ weave exGap 0 [.clearFiles, .clearLoaders, .clearSteps])
    (Stack.run bad.1 bad.2 7 0 exRq).1.ran = some 1 ∧ bad.1.fresh 0 exRq = some 2 ∧
    (Stack.run good.1 good.2 7 0 exRq).1.ran = some 2 ∧
    innerFirst [.clearLoaders, .clearFiles, .clearSteps] = false ∧
    innerFirst [.clearFiles, .clearLoaders, .clearSteps] = true ∧
    -- without a look-up in the gap both orders end fresh: single-threaded the two are indistinguishable
    (let b0 := execAll exW1 LState.init (pre ++ weave (fun _ => []) 0 [.clearLoaders, .clearFiles, .clearSteps])
     (Stack.run b0.1 b0.2 7 0 exRq).1.ran = some 2) := by
  decide +kernel

/-- the hypotheses of `clear_all_refreshes_interleaved` are satisfiable: the session of the witness, with the
    code's own order — the look-up in the gap is still served version 1 by the not yet dropped Loader (it is
    concurrent with the clear), the one after `clear_all` executes version 2 -/
example : (session exW1 LState.init Flags.none
      ([.run 7 0 exRq, .world exW2] ++ (weave exGap 0 clearAllSeq ++ [.run 7 0 exRq]))).map
        (fun x => (x.1.ran, x.2.1, x.2.2)) =
    [(some 1, true, some 1), (some 1, false, some 2), (some 2, true, some 2)] := by
  decide +kernel

/-! #### failed look-ups: what they leave behind

"a creator that raises leaves nothing cached so a later look-up tries again", end to end. A look-up
fails when the source is absent (`PipelineNotFoundError`, a custom loader raising) or when
`Loader._load_pipeline` rejects a payload that is not a mapping (`PipelineDefinitionError`). -/

/-- `failed_run_leaves_pipeline_caches` — a failed look-up writes nothing to any pipeline cache. -/
theorem failed_run_leaves_pipeline_caches (w : World) (st : LState) (c l : Nat) (r : Rq)
    (h : (run w st c l r).1.ran = none) : (run w st c l r).2.pipes = st.pipes := by
  have ht := run_tables w st c l r
  simp only at ht
  rw [ht.2.2.1]
  rw [ht.2.2.2.2.2.2] at h
  rcases getPipeline_pipes w (getLoader st l).2.2 (getLoader st l).1 l r with hp | ⟨_, x, hx, _⟩
  · rw [hp, getLoader_pipes]
  · rw [hx] at h; cases h

/-- `failed_run_leaves_only_rejected_parse` — what a failed look-up leaves in `file_cache`: nothing,
    or (file loader, caching on, path not yet cached) exactly the parse of the file the request
    resolves to, and that parse is one the mapping check rejects. This is the open finding
    "malformed top level cached before rejection", and the theorem says it is the ONLY way a failed
    look-up is remembered in the model of the code as it is. -/
theorem failed_run_leaves_only_rejected_parse (w : World) (st : LState) (c l : Nat) (r : Rq)
    (h : (run w st c l r).1.ran = none) :
    (run w st c l r).2.files = st.files ∨
    (l = 0 ∧ st.noCache = false ∧ ∃ p, w.resolve r = some p ∧ st.files p = none ∧
      w.mapping (w.fileVer p) = false ∧
      (run w st c l r).2.files = fun p' => if p' = p then some (w.fileVer p) else st.files p') := by
  have ht := run_tables w st c l r
  simp only at ht
  rw [ht.2.2.2.1]
  rw [ht.2.2.2.2.2.2] at h
  have hld := getPipeline_none w (getLoader st l).2.2 (getLoader st l).1 l r h
  rcases getPipeline_files w (getLoader st l).2.2 (getLoader st l).1 l r with hf | hf
  · rw [hf]
    rcases loadDef_files_cases w (getLoader st l).2.2 l r with hc | ⟨hl, hnc, p, hp, hfp, hv, hfiles⟩
    · left; rw [hc, getLoader_files]
    · right
      rw [getLoader_noCache] at hnc
      rw [getLoader_files] at hfp hfiles
      refine ⟨hl, hnc, p, hp, hfp, ?_, hfiles⟩
      rw [hv] at hld
      cases hm : w.mapping (w.fileVer p)
      · rfl
      · simp [World.accept, hm] at hld
  · left; rw [hf, getLoader_files]

/-- `custom_failure_not_remembered` — for every loader but the file loader: after a failed look-up
    the next look-up of the same request, on any client object and in whatever world there is then,
    yields what an uncached look-up yields then: the loader is asked again. -/
theorem custom_failure_not_remembered (w w' : World) (st : LState) (c c' l : Nat) (r : Rq) (hl : l ≠ 0)
    (h : (run w st c l r).1.ran = none) :
    (run w' (run w st c l r).2 c' l r).1.ran = w'.fresh l r := by
  have ht := run_tables w st c l r
  simp only at ht
  obtain ⟨hnc, hlo, hpi, _, _, _, hran⟩ := ht
  have hk := getPipeline_keeps w (getLoader st l).2.2 (getLoader st l).1 l r
  rw [hran] at h
  rw [(run_tables w' _ c' l r).2.2.2.2.2.2]
  by_cases hn : st.noCache = true
  · apply (getPipeline_noCache w' _ _ l r _).1
    rw [getLoader_noCache, hnc, hk.1, getLoader_noCache]; exact hn
  · have hn' : st.noCache = false := by simpa using hn
    have hreg := getLoader_registered st l hn'
    have hnc2 : (run w st c l r).2.noCache = false := by rw [hnc, hk.1, getLoader_noCache]; exact hn'
    have hlo2 : (run w st c l r).2.loaders l = some (getLoader st l).1 := by rw [hlo, hk.2.1]; exact hreg
    have hg : getLoader (run w st c l r).2 l = ((getLoader st l).1, false, (run w st c l r).2) := by
      simp [getLoader, hnc2, hlo2]
    rw [hg]
    -- the first look-up missed and stored nothing
    have hmiss : (run w st c l r).2.pipes (getLoader st l).1 (Rq.key r) = none := by
      rw [hpi]
      rcases getPipeline_pipes w (getLoader st l).2.2 (getLoader st l).1 l r with hp | ⟨_, x, hx, _⟩
      · rw [hp]
        have hnc1 : (getLoader st l).2.2.noCache = false := by rw [getLoader_noCache]; exact hn'
        cases hv : (getLoader st l).2.2.pipes (getLoader st l).1 (Rq.key r) with
        | none => rfl
        | some v => simp [getPipeline, hnc1, hv] at h
      · rw [hx] at h; cases h
    have hld := (loadDef_custom w' (run w st c l r).2 l r hl).1
    simp only [getPipeline, hnc2, hmiss]
    cases hx : (loadDef w' (run w st c l r).2 l r).1 <;> simp [hx, ← hld]

/-- the same answers as the code as it is; a rejected payload is stored nowhere -/
theorem validating_file_creator_forgets_rejection (w : World) (st : LState) (l : Nat) (r : Rq) :
    (loadDefV w st l r).1 = (loadDef w st l r).1 ∧ (loadDefV w st l r).2.1 = (loadDef w st l r).2.1 ∧
    ((loadDefV w st l r).1 = none → (loadDefV w st l r).2.2 = st) := by
  unfold loadDefV loadDef
  split
  · split
    · simp
    · split
      · simp
      · split
        · simp
        · split <;> simp_all [World.accept]
  · simp

/-! the file `p` holds a list (version 5 is not a mapping), is repaired (version 6) -/
def exBad1 : World := { exW1 with fileVer := fun _ => 5, mapping := fun v => v != 5 }
def exBad2 : World := { exBad1 with fileVer := fun _ => 6 }

/-- `rejected_file_is_remembered` — the OPEN finding, in the model of the code as it is: the file is
    malformed, the look-up is rejected; the file is repaired; the next look-up is rejected again
    although an uncached look-up would succeed (the pipeline cache is clean — the rejected parse sits
    in `file_cache`); only `file_cache.clear()` (or `clear_all`) ends it. Clearing the pipeline
    caches does not. -/
theorem rejected_file_is_remembered :
    (session exBad1 LState.init Flags.none
      [.run 7 0 exRq, .world exBad2, .run 7 0 exRq, .clearPipes none, .run 8 0 exRq, .clearFiles, .run 7 0 exRq]).map
        (fun x => (x.1.ran, x.1.fileRead, x.2.2)) =
    [(none, true, none), (none, false, some 6), (none, false, some 6), (some 6, true, some 6)] := by
  decide +kernel

/-- with the validating file creator the repaired file is read again at once -/
example : (loadDefV exBad1 LState.init 0 exRq).2.2.files 0 = none ∧
    (loadDef exBad1 LState.init 0 exRq).2.2.files 0 = some 5 := by decide +kernel

/-- a custom loader's rejected payload is not remembered (hypotheses of `custom_failure_not_remembered`
    satisfiable: loader 1 answers with a list, then with a mapping) -/
example :
    let wb : World := { exW1 with custom := fun _ _ => some 5, mapping := fun v => v != 5 }
    let wg : World := { wb with custom := fun _ _ => some 6 }
    (run wb LState.init 7 1 exRq).1.ran = none ∧ (run wg (run wb LState.init 7 1 exRq).2 7 1 exRq).1.ran = some 6 := by
  decide +kernel

end Layers

/-! ### `add_sys_path` -/

/-- `syspath_once`: for every interleaving of `add_sys_path` calls by any number of threads,
    `sys.path` (duplicate-free before) stays duplicate-free: a path is appended at most once. -/
theorem syspath_once (ex : Nat → Bool) (base : List Nat) (prog : Tid → List Nat) (sched : List Tid)
    (hbase : base.Nodup) : (spRun ex (spInit base prog) sched).sysPath.Nodup :=
  (spInv_run ex base sched _ (spInv_init ex base prog hbase)).nodup

/-- `syspath_keeps_prior`: entries are only appended; the user's prior `sys.path` stays a prefix. -/
theorem syspath_keeps_prior (ex : Nat → Bool) (base : List Nat) (prog : Tid → List Nat)
    (sched : List Tid) (hbase : base.Nodup) : base <+: (spRun ex (spInit base prog) sched).sysPath :=
  (spInv_run ex base sched _ (spInv_init ex base prog hbase)).keeps

/-- `syspath_added`: once `add_sys_path(p)` has run to completion (p is in `_known_dirs`) for an
    existing directory, p is on `sys.path`. -/
theorem syspath_added (ex : Nat → Bool) (base : List Nat) (prog : Tid → List Nat) (sched : List Tid)
    (hbase : base.Nodup) (p : Nat) (hk : p ∈ (spRun ex (spInit base prog) sched).known)
    (hex : ex p = true) : p ∈ (spRun ex (spInit base prog) sched).sysPath :=
  (spInv_run ex base sched _ (spInv_init ex base prog hbase)).known p hk hex

def exSpProg : Tid → List Nat
  | 0 => [7, 8]
  | 1 => [7]
  | _ => []
example : (spRun (fun p => p == 7) (spInit [1] exSpProg)
    [0, 1, 0, 1, 0, 1, 0, 0, 0, 0, 1, 1, 1, 1, 0, 0, 0]).sysPath = [1, 7] := by decide


/-! ### progress: no deadlock, every scheduler completes, every operation returns

  The sections above are safety: a model whose `toRelease` step kept the lock would satisfy them
  all. Here: `n` threads (any `n`), any programs, any creator script (creators terminate: `inCreator
  → exiting` is one step), both modes. -/

/-- `no_deadlock`: a reachable state in which none of the `n` threads can move is the state where
    every thread has finished its program and the lock is free. -/
theorem no_deadlock (cfg : Cfg) (prog : Tid → List Op) (n : Nat) (hn : ∀ t, n ≤ t → prog t = [])
    (sched : List Tid) (hstuck : ∀ t, t < n → enabled (reach cfg prog sched) t = false) :
    Quiescent (reach cfg prog sched) :=
  stuck_is_done n _ (inv_reach cfg prog sched).mutex (outside_run cfg n sched _ (outside_init cfg prog n hn)) hstuck

/-- the hypothesis "reachable" (lock coherence) is what makes `no_deadlock` true: in a state where the
    lock is held by a thread outside its critical section — what a `toRelease` that forgot to release
    leaves behind — nobody can move although thread 1 has not finished. -/
theorem stuck_needs_coherence :
    let st : State := { threads := fun t => if t = 1 then { ops := [], pc := .wantLock (.get 0), results := [] }
                                            else { ops := [], pc := .idle, results := [] }
                        lock := some 0, cache := fun _ => none, calls := 0, hist := [] }
    enabled st 0 = false ∧ enabled st 1 = false ∧ (st.threads 1).pc ≠ .idle := by decide

/-- `every_scheduler_completes`: from any reachable state, ANY scheduler — micro-steps (`step`) or turns
    (`turn`), any choice of the next thread as long as it never idles while somebody can move — reaches
    within `8 × (number of operations)` moves the state where every thread is idle with no operations
    left and the lock is free. No fairness assumption is needed: programs are finite. -/
theorem every_scheduler_completes (cfg : Cfg) (prog : Tid → List Op) (n : Nat) (hn : ∀ t, n ≤ t → prog t = [])
    (mv : State → Tid → State) (hmv : IsMove cfg mv) (pick : State → Option Tid) (hp : NeverIdles n pick)
    (sched : List Tid) (fuel : Nat) (hf : 8 * totalOps prog n ≤ fuel) :
    Quiescent (drain mv pick fuel (reach cfg prog sched)) := by
  apply drain_quiescent cfg n mv hmv pick hp fuel _ (inv_reach cfg prog sched)
    (outside_run cfg n sched _ (outside_init cfg prog n hn))
  have := work_run_le cfg n sched (init cfg prog)
  rw [work_init] at this
  exact Nat.le_trans this hf

/-- `finish_completes`: the model's own fair completion (`finish`: lowest-numbered enabled thread first, at
    turn granularity) with the driver's fuel completes every run. -/
theorem finish_completes (cfg : Cfg) (prog : Tid → List Op) (n : Nat) (hn : ∀ t, n ≤ t → prog t = [])
    (sched : List Tid) (fuel : Nat) (hf : 8 * totalOps prog n ≤ fuel) :
    Quiescent (finish cfg n fuel (reach cfg prog sched)) := by
  rw [finish_eq_drain]
  exact every_scheduler_completes cfg prog n hn _ (turn_isMove cfg) _ (lowestEnabled_neverIdles n) sched fuel hf

/-- … also after a prefix given in turns, which is what `cache.run` with `finish: true` executes -/
theorem driver_finish_completes (cfg : Cfg) (prog : Tid → List Op) (n : Nat) (hn : ∀ t, n ≤ t → prog t = [])
    (turns : List Tid) :
    Quiescent (finish cfg n (8 * totalOps prog n + 8) (runTurns cfg (init cfg prog) turns)) := by
  obtain ⟨sched, hs⟩ := turns_are_schedules cfg turns (init cfg prog)
  rw [hs]
  exact finish_completes cfg prog n hn sched _ (Nat.le_add_right _ _)

/-- `completion_reachable`: every reachable state can be continued to the all-done state. -/
theorem completion_reachable (cfg : Cfg) (prog : Tid → List Op) (n : Nat) (hn : ∀ t, n ≤ t → prog t = [])
    (sched : List Tid) : ∃ s, Quiescent (reach cfg prog (sched ++ s)) := by
  obtain ⟨s, hs⟩ := drain_is_run cfg (turn cfg) (turn_isMove cfg) (fun st => (List.range n).find? (enabled st))
    (8 * totalOps prog n) (reach cfg prog sched)
  refine ⟨s, ?_⟩
  have := finish_completes cfg prog n hn sched _ (Nat.le_refl _)
  rw [finish_eq_drain, hs] at this
  simpa [reach, run_append] using this

/-- `every_op_returns`: in the all-done state every thread has one result per operation of its program, in
    order, of the right kind: a `get` returned a value or its creator's exception, a `clear` returned. -/
theorem every_op_returns (cfg : Cfg) (prog : Tid → List Op) (sched : List Tid) (t : Tid)
    (hq : Quiescent (reach cfg prog sched)) :
    ((reach cfg prog sched).threads t).results.reverse.map Res.ofGet = (prog t).map Op.isGet := by
  have h := kinds_run cfg prog sched _ (kinds_init cfg prog) t
  rw [(hq.2 t).1, (hq.2 t).2] at h
  simpa [Pc.pendingKind] using h

/-- `every_get_returns`: the `i`-th operation of thread `t`, if it is a `get`, returned a value or raised the
    exception of the creator call it made. -/
theorem every_get_returns (cfg : Cfg) (prog : Tid → List Op) (sched : List Tid) (t : Tid)
    (hq : Quiescent (reach cfg prog sched)) (i : Nat) (k : Key) (hi : (prog t)[i]? = some (.get k)) :
    ∃ c, ((reach cfg prog sched).threads t).results.reverse[i]? = some (.val c) ∨
         ((reach cfg prog sched).threads t).results.reverse[i]? = some (.raised c) := by
  have h := congrArg (fun l => l[i]?) (every_op_returns cfg prog sched t hq)
  simp only [List.getElem?_map, hi, Option.map_some, Op.isGet] at h
  cases hr : ((reach cfg prog sched).threads t).results.reverse[i]? with
  | none => simp [hr] at h
  | some r =>
    rw [hr] at h
    cases r with
    | val c => exact ⟨c, .inl rfl⟩
    | raised c => exact ⟨c, .inr rfl⟩
    | cleared => simp [Res.ofGet] at h

theorem exProg_outside : ∀ t, 2 ≤ t → exProg t = [] := by
  intro t ht
  match t, ht with
  | t + 2, _ => rfl

example : Quiescent (finish exCfg 2 32 (reach exCfg exProg [0, 0, 1, 1])) :=
  finish_completes exCfg exProg 2 exProg_outside [0, 0, 1, 1] 32 (by decide)

example : ((finish exCfg 2 32 (reach exCfg exProg [0, 0, 1, 1])).threads 0).results = [.val 1, .raised 0] ∧
    ((finish exCfg 2 32 (reach exCfg exProg [0, 0, 1, 1])).threads 1).results = [.cleared, .val 1] ∧
    (finish exCfg 2 32 (reach exCfg exProg [0, 0, 1, 1])).lock = none := by decide

/-! ### `LoaderCache.clear_pipes` next to look-ups (`CacheTS.Scan`; before fix fa2daa9: `CacheTS.ScanPre`) -/
section ClearPipes
open Pypyr.CacheTS.Scan

/-- the state of the extended system after a schedule; `sk` = the reserved key whose look-up is the snapshot's
    critical section -/
abbrev xreach (cfg : Cfg) (sk : Key) (prog : Tid → List SOp) (sched : List Tid) : XState :=
  xrun cfg sk (xinit cfg prog) sched

/-- `clear_pipes_keeps_invariant`: threads that run `clear_pipes` next to look-ups and clears leave the whole
    inductive invariant of the one-lock system intact: the snapshot is a read under the lock, the single-loader
    form is one unlocked read, the clearing happens on the Loaders' own locks. So every safety clause above holds
    for such programs too: -/
theorem clear_pipes_keeps_invariant (cfg : Cfg) (sk : Key) (prog : Tid → List SOp) (sched : List Tid) :
    Inv cfg (xreach cfg sk prog sched).base :=
  xrun_inv cfg sk sched _ (xinit_inv cfg prog)

theorem clear_pipes_mutex (cfg : Cfg) (sk : Key) (prog : Tid → List SOp) (sched : List Tid) (t u : Tid)
    (ht : (((xreach cfg sk prog sched).base).threads t).pc.inCS = true)
    (hu : (((xreach cfg sk prog sched).base).threads u).pc.inCS = true) : t = u := by
  have h := (clear_pipes_keeps_invariant cfg sk prog sched).mutex
  have := (h t).1 ht
  have := (h u).1 hu
  simp_all

theorem clear_pipes_refines_atomic (cfg : Cfg) (sk : Key) (prog : Tid → List SOp) (sched : List Tid)
    (hnc : cfg.noCache = false) :
    specRun cfg (xreach cfg sk prog sched).base.hist = some (effCache (xreach cfg sk prog sched).base) :=
  (clear_pipes_keeps_invariant cfg sk prog sched).refines hnc

/-- single flight, same object, no remembered failure, clear refreshes — for the table of a `LoaderCache` some
    of whose users call `clear_pipes` concurrently -/
theorem clear_pipes_clauses (cfg : Cfg) (sk : Key) (prog : Tid → List SOp) (sched : List Tid) (hnc : cfg.noCache = false) :
    (∀ {t k c h}, (Ev.create t k c :: h) <:+ (xreach cfg sk prog sched).base.hist → epochIds k h = []) ∧
    (∀ {e t k c h}, (e :: h) <:+ (xreach cfg sk prog sched).base.hist → (e = .hit t k c ∨ e = .create t k c) →
        ∀ c' ∈ epochIds k h, c' = c) ∧
    (∀ {t k c h}, (Ev.hit t k c :: h) <:+ (xreach cfg sk prog sched).base.hist →
        cfg.seed k = some c ∨ (∃ t', lastOn k h = some (.hit t' k c)) ∨ (∃ t', lastOn k h = some (.create t' k c))) := by
  have hU := specRunU_of_specRun (clear_pipes_refines_atomic cfg sk prog sched hnc)
  exact ⟨fun hs => traceU_single_flight hU hs, fun hs he => traceU_same_object hU hs he,
         fun hs => traceU_hit_justified hU hs⟩

/-- `clear_pipes_clears_what_it_read` — the clear clause for the repaired `clear_pipes`: in every reachable state,
    every finished call of every thread ended normally (no `RuntimeError`) and cleared exactly the Loader objects
    it had read — for `clear_pipes()` the list read under the cache's lock, for `clear_pipes(name)` the Loader
    the table held for `name` at its one read — in order, whatever other threads did meanwhile. -/
theorem clear_pipes_clears_what_it_read (cfg : Cfg) (sk : Key) (prog : Tid → List SOp) (sched : List Tid) (t : Tid)
    (hoff : ((xreach cfg sk prog sched).scan t).spc = .off) :
    ((xreach cfg sk prog sched).scan t).sres.map SRes.cleared = ((xreach cfg sk prog sched).scan t).snaps ∧
    ∀ r ∈ ((xreach cfg sk prog sched).scan t).sres, ∃ cs, r = .swept cs := by
  have h := sweepOk_run cfg sk sched _ (sweepOk_init cfg prog) t
  unfold SweepOk at h
  rw [hoff] at h
  refine ⟨h.2, fun r hr => ?_⟩
  have := h.1 r hr
  cases r with
  | swept cs => exact ⟨cs, rfl⟩
  | sizeChanged cs => cases this

theorem xrun_snoc (cfg : Cfg) (sk : Key) : ∀ (sched : List Tid) (t : Tid) (x : XState),
    xrun cfg sk x (sched ++ [t]) = xstep cfg sk (xrun cfg sk x sched) t := by
  intro sched
  induction sched with
  | nil => intro t x; rfl
  | cons u us ih => intro t x; exact ih t _

/-- `clear_pipes_snapshot_is_table` — and what `clear_pipes()` reads under the lock IS the table of that moment:
    every Loader stored (under an unseeded key) when the snapshot is taken is in the list, and nothing else is.
    Hence: every loader present at the snapshot is cleared when the call returns; a loader stored AFTER the
    snapshot (by a look-up that took the lock later) is not in the list and is not cleared by this call
    (`clear_pipes_added_later_not_cleared`). -/
theorem clear_pipes_snapshot_is_table (cfg : Cfg) (sk : Key) (prog : Tid → List SOp) (sched : List Tid)
    (hnc : cfg.noCache = false) (t : Tid) (snap : Option (List Obj))
    (hs : ((xreach cfg sk prog sched).scan t).spc = .snapping snap)
    (hl : ((xreach cfg sk prog sched).base.threads t).pc = .locked (.get sk)) :
    ∃ l, ((xreach cfg sk prog (sched ++ [t])).scan t).spc = .snapping (some l) ∧
      (∀ k c, cfg.seed k = none → (xreach cfg sk prog sched).base.cache k = some c → c ∈ l) ∧
      (∀ c ∈ l, ∃ k, (xreach cfg sk prog sched).base.cache k = some c) := by
  refine ⟨((visible (xreach cfg sk prog sched).base).map (·.2)), ?_, ?_, ?_⟩
  · rw [show xreach cfg sk prog (sched ++ [t]) = xstep cfg sk (xreach cfg sk prog sched) t from xrun_snoc cfg sk sched t _]
    exact snapshot_step cfg sk _ t snap hs hl
  · intro k c hseed hc
    exact List.mem_map.mpr ⟨(k, c), (mem_visible (clear_pipes_keeps_invariant cfg sk prog sched) hnc hseed).2 hc, rfl⟩
  · intro c hc
    obtain ⟨kc, hkc, rfl⟩ := List.mem_map.mp hc
    refine ⟨kc.1, ?_⟩
    have := (List.mem_filter.mp hkc).2
    simpa using this

/-- two threads. T0: `get 0` (loader 0 is made and stored), then `clear_pipes()`; T1: `get 1`. Key 9 is the
    reserved key. -/
def cpProg : Tid → List SOp
  | 0 => [.base (.get 0), .clearPipes]
  | 1 => [.base (.get 1)]
  | _ => []
def cpCfg : Cfg := { seed := fun k => if k = 9 then some 99 else none, fails := fun _ => false, noCache := false }
/-- T0 finishes its `get`, takes the snapshot ([loader 0]) under the lock and is about to clear loader 0;
    T1 runs its whole `get 1`; T0 clears loader 0 and returns. -/
def cpSched : List Tid := [0, 0, 0, 0, 0, 0, 0, 0, 0, 0, 0, 0, 0, 0, 0, 1, 1, 1, 1, 1, 1, 1, 1, 0, 0, 0]

/-- `clear_pipes_added_later_not_cleared` — stated precisely: loader 1, stored after T0's snapshot, is in the table
    when T0's `clear_pipes()` returns and has NOT been cleared by it; the call cleared its snapshot, `[0]`. -/
theorem clear_pipes_added_later_not_cleared :
    ((xreach cpCfg 9 cpProg cpSched).scan 0).sres = [.swept [0]] ∧
    ((xreach cpCfg 9 cpProg cpSched).scan 0).snaps = [[0]] ∧
    visible (xreach cpCfg 9 cpProg cpSched).base = [(0, 0), (1, 1)] := by decide

/-- the hypotheses of the two theorems above are satisfiable: T0 at the lock-protected read; T0 finished -/
example : ((xreach cpCfg 9 cpProg [0, 0, 0, 0, 0, 0, 0, 0, 0, 0]).scan 0).spc = .snapping none ∧
    ((xreach cpCfg 9 cpProg [0, 0, 0, 0, 0, 0, 0, 0, 0, 0]).base.threads 0).pc = .locked (.get 9) ∧
    ((xreach cpCfg 9 cpProg cpSched).scan 0).spc = .off := by decide

/-- `clear_pipes(name)`: one unlocked read; clears the Loader the table holds for `name` then (none: nothing) -/
example : ((xreach cpCfg 9 (fun t => if t = 0 then [.base (.get 0), .clearPipesOf 0, .clearPipesOf 1] else [])
      [0, 0, 0, 0, 0, 0, 0, 0, 0, 0, 0, 0, 0, 0, 0]).scan 0).sres = [.swept [], .swept [0]] := by decide

/-! #### before fix fa2daa9: the table was read and iterated without the lock (`CacheTS.ScanPre`) -/

/-- the pre-fix sweep only read, too: the safety clauses were never affected … -/
theorem clear_pipes_pre_fix_keeps_invariant (cfg : Cfg) : ∀ (sched : List Tid) (x : ScanPre.XState),
    Inv cfg x.base → Inv cfg (ScanPre.xrun cfg x sched).base := by
  intro sched
  induction sched with
  | nil => intro x h; exact h
  | cons t ts ih =>
    intro x h
    apply ih
    unfold ScanPre.xstep
    simp only []
    split
    · split
      · exact h
      · split <;> exact h
    · split <;> exact h
    · exact h
    · split
      · split
        · exact h
        · exact inv_step cfg _ t (inv_feed cfg x.base t _ h)
        · exact h
        · exact h
      · exact inv_step cfg _ t h

def cpCfgPre : Cfg := { seed := fun _ => none, fails := fun _ => false, noCache := false }
/-- T0 finishes its `get`, makes the iterator (size 1), clears loader 0's pipelines (takes and releases that
    Loader's lock); T1 runs its whole `get 1`: the table now has 2 entries; T0's next `next()` raises. -/
def cpSchedPre : List Tid := [0, 0, 0, 0, 0, 0, 0, 0, 0, 0, 0, 0, 1, 1, 1, 1, 1, 1, 1, 1, 0]

/-- `clear_pipes_race_pre_fix` — … but the sweep itself could end in `RuntimeError: dictionary changed size during
    iteration`, because another thread's look-up stored a new Loader while it iterated (fixed by fa2daa9). -/
theorem clear_pipes_race_pre_fix :
    ((ScanPre.xrun cpCfgPre (ScanPre.xinit cpCfgPre cpProg) cpSchedPre).scan 0).sres = [.sizeChanged [0]] ∧
    (ScanPre.xrun cpCfgPre (ScanPre.xinit cpCfgPre cpProg) cpSchedPre).base.hist = [.create 1 1 1, .create 0 0 0] := by
  decide

/-- T0: `get 0`, `get 1` (two loaders), then `clear_pipes()`; T1: `get 2`. -/
def cpProg2 : Tid → List SOp
  | 0 => [.base (.get 0), .base (.get 1), .clearPipes]
  | 1 => [.base (.get 2)]
  | _ => []
def cpSched2 : List Tid :=
  [0, 0, 0, 0, 0, 0, 0, 0, 0, 0, 0, 0, 0, 0, 0, 0, 0, 0, 0, 0, 1, 1, 1, 1, 1, 1, 1, 1, 0]

/-- `clear_pipes_partial_pre_fix` — and then it had cleared only the loaders before the failing point: loader 1
    was in the table during the whole call and kept its pipelines ("a clear makes the next look-up create afresh"
    failed for it). With the repaired code the same programs clear both (`clear_pipes_clears_what_it_read`). -/
theorem clear_pipes_partial_pre_fix :
    ((ScanPre.xrun cpCfgPre (ScanPre.xinit cpCfgPre cpProg2) cpSched2).scan 0).sres = [.sizeChanged [0]] ∧
    visible (ScanPre.xrun cpCfgPre (ScanPre.xinit cpCfgPre cpProg2) cpSched2).base = [(0, 0), (1, 1), (2, 2)] := by
  decide

example : ((xreach cpCfg 9 cpProg2 ([0, 0, 0, 0, 0, 0, 0, 0, 0, 0, 0, 0, 0, 0, 0, 0, 0, 0, 0, 0, 0, 0, 0, 0, 0] ++
      [1, 1, 1, 1, 1, 1, 1, 1] ++ [0, 0, 0, 0, 0, 0, 0, 0])).scan 0).sres = [.swept [0, 1]] := by decide

end ClearPipes

/-! ### two locks: the pipeline cache's creator looks up `file_cache` (`CacheTS.Nest`) -/
section TwoLocks
open Pypyr.CacheTS.Nest

abbrev nreach (cfg : NCfg) (prog : Tid → List NOp) (sched : List Tid) : NState := nrun cfg (ninit prog) sched

theorem ninv_reach (cfg : NCfg) (prog : Tid → List NOp) (sched : List Tid) : NInv (nreach cfg prog sched) :=
  ninv_run cfg sched _ (ninv_init prog)

/-- `nest_mutex_outer` / `nest_mutex_inner`: each lock has at most one thread between its acquire and release
    (for the outer lock that span includes the nested look-up of the inner cache). -/
theorem nest_mutex_outer (cfg : NCfg) (prog : Tid → List NOp) (sched : List Tid) (t u : Tid)
    (ht : ((nreach cfg prog sched).threads t).pc.inCSO = true)
    (hu : ((nreach cfg prog sched).threads u).pc.inCSO = true) : t = u := by
  have h := (ninv_reach cfg prog sched).mutexO
  have := (h t).1 ht
  have := (h u).1 hu
  simp_all

theorem nest_mutex_inner (cfg : NCfg) (prog : Tid → List NOp) (sched : List Tid) (t u : Tid)
    (ht : ((nreach cfg prog sched).threads t).pc.inCSI = true)
    (hu : ((nreach cfg prog sched).threads u).pc.inCSI = true) : t = u := by
  have h := (ninv_reach cfg prog sched).mutexI
  have := (h t).1 ht
  have := (h u).1 hu
  simp_all

/-- `nest_lock_order`: the holder of the inner lock never waits for the outer lock (the order is outer → inner
    only), so the wait-for relation has no cycle. -/
theorem nest_lock_order (cfg : NCfg) (prog : Tid → List NOp) (sched : List Tid) (t : Tid)
    (h : (nreach cfg prog sched).lockI = some t) :
    (∀ op, ((nreach cfg prog sched).threads t).pc ≠ .wantO op) ∧
    (∀ ko ko' c, ((nreach cfg prog sched).threads t).pc ≠ .reWant ko ko' c) := by
  have hcs := ((ninv_reach cfg prog sched).mutexI t).2 h
  constructor
  · intro op e; rw [e] at hcs; cases hcs
  · intro ko ko' c e; rw [e] at hcs; cases hcs

/-- `nest_refines`: per layer, the history is a trace of the atomic get-or-create discipline. -/
theorem nest_refines (cfg : NCfg) (prog : Tid → List NOp) (sched : List Tid) :
    specRunU emptyTab (nreach cfg prog sched).histO = some (effO (nreach cfg prog sched)) ∧
    specRunU emptyTab (nreach cfg prog sched).histI = some (effI (nreach cfg prog sched)) :=
  ⟨(ninv_reach cfg prog sched).refinesO, (ninv_reach cfg prog sched).refinesI⟩

/-- `nest_single_flight`: per layer, a creation for a key succeeds only when nothing was created or served for
    it since that layer's last clear — although the outer creator spans a whole look-up of the inner cache during
    which other threads run. -/
theorem nest_single_flight (cfg : NCfg) (prog : Tid → List NOp) (sched : List Tid) {t : Tid} {k : Key} {c : Obj}
    {h : List Ev} :
    ((.create t k c :: h) <:+ (nreach cfg prog sched).histO → epochIds k h = []) ∧
    ((.create t k c :: h) <:+ (nreach cfg prog sched).histI → epochIds k h = []) :=
  ⟨traceU_single_flight (nest_refines cfg prog sched).1, traceU_single_flight (nest_refines cfg prog sched).2⟩

/-- `nest_same_object`: per layer, everything created or served under a key since the last clear is one object. -/
theorem nest_same_object (cfg : NCfg) (prog : Tid → List NOp) (sched : List Tid) {e : Ev} {t : Tid} {k : Key} {c : Obj}
    {h : List Ev} (he : e = .hit t k c ∨ e = .create t k c) :
    ((e :: h) <:+ (nreach cfg prog sched).histO → ∀ c' ∈ epochIds k h, c' = c) ∧
    ((e :: h) <:+ (nreach cfg prog sched).histI → ∀ c' ∈ epochIds k h, c' = c) :=
  ⟨fun hs => traceU_same_object (nest_refines cfg prog sched).1 hs he,
   fun hs => traceU_same_object (nest_refines cfg prog sched).2 hs he⟩

/-- `nest_hit_justified`: per layer, a hit serves what the newest event on that key created or served — never
    after a failure (also a failure of the NESTED look-up, which fails the outer creator) or a clear. -/
theorem nest_hit_justified (cfg : NCfg) (prog : Tid → List NOp) (sched : List Tid) {t : Tid} {k : Key} {c : Obj}
    {h : List Ev} :
    ((.hit t k c :: h) <:+ (nreach cfg prog sched).histO →
      (∃ t', lastOn k h = some (.hit t' k c)) ∨ (∃ t', lastOn k h = some (.create t' k c))) ∧
    ((.hit t k c :: h) <:+ (nreach cfg prog sched).histI →
      (∃ t', lastOn k h = some (.hit t' k c)) ∨ (∃ t', lastOn k h = some (.create t' k c))) := by
  constructor
  · intro hs
    rcases traceU_hit_justified (nest_refines cfg prog sched).1 hs with h | h | h
    · simp [emptyTab] at h
    · exact .inl h
    · exact .inr h
  · intro hs
    rcases traceU_hit_justified (nest_refines cfg prog sched).2 hs with h | h | h
    · simp [emptyTab] at h
    · exact .inl h
    · exact .inr h

/-- `nest_no_deadlock`: ASSUMING no creator re-enters its own cache (`NOp.noRe`), a reachable state in which
    none of the threads can move is the all-done state with both locks free. -/
theorem nest_no_deadlock (cfg : NCfg) (prog : Tid → List NOp) (n : Nat) (hn : ∀ t, n ≤ t → prog t = [])
    (hre : ∀ t, ∀ op ∈ prog t, op.noRe = true) (sched : List Tid)
    (hstuck : ∀ t, t < n → nenabled (nreach cfg prog sched) t = false) : NQuiescent (nreach cfg prog sched) :=
  nstuck_is_done n _ (ninv_reach cfg prog sched).mutexO (ninv_reach cfg prog sched).mutexI
    (noRe_run cfg sched _ (noRe_init prog hre)) (noutside_run cfg n sched _ (noutside_init prog n hn)) hstuck

/-- `nest_every_scheduler_completes`: under the same assumption any scheduler that never idles while somebody
    can move completes every run within `15 × (number of operations)` moves. -/
theorem nest_every_scheduler_completes (cfg : NCfg) (prog : Tid → List NOp) (n : Nat) (hn : ∀ t, n ≤ t → prog t = [])
    (hre : ∀ t, ∀ op ∈ prog t, op.noRe = true)
    (mv : NState → Tid → NState) (hmv : NIsMove cfg mv) (pick : NState → Option Tid) (hp : NNeverIdles n pick)
    (sched : List Tid) (fuel : Nat) (hf : 15 * ntotalOps prog n ≤ fuel) :
    NQuiescent (ndrain mv pick fuel (nreach cfg prog sched)) := by
  apply ndrain_quiescent cfg n mv hmv pick hp fuel _ (ninv_reach cfg prog sched)
    (noRe_run cfg sched _ (noRe_init prog hre)) (noutside_run cfg n sched _ (noutside_init prog n hn))
  have := nwork_run_le cfg n sched (ninit prog)
  rw [nwork_init] at this
  exact Nat.le_trans this hf

theorem nest_finish_completes (cfg : NCfg) (prog : Tid → List NOp) (n : Nat) (hn : ∀ t, n ≤ t → prog t = [])
    (hre : ∀ t, ∀ op ∈ prog t, op.noRe = true) (sched : List Tid) (fuel : Nat) (hf : 15 * ntotalOps prog n ≤ fuel) :
    NQuiescent (nfinish cfg n fuel (nreach cfg prog sched)) := by
  rw [nfinish_eq_drain]
  exact nest_every_scheduler_completes cfg prog n hn hre _ (nturn_isMove cfg) _ (nlowestEnabled_neverIdles n) sched fuel hf

/-- T0 and T1 both ask the outer cache for key 0 (inner key 0); T2 asks the inner cache directly; inner creator
    call 0 raises. -/
def nxProg : Tid → List NOp
  | 0 => [.getO 0 0, .getO 0 0]
  | 1 => [.getO 0 0]
  | 2 => [.getI 0, .clearI]
  | _ => []
def nxCfg : NCfg := { failsO := fun _ => false, failsI := fun n => n == 0 }

example : (nfinish nxCfg 3 75 (nreach nxCfg nxProg [0, 0, 2, 1, 0])).histO =
      [.hit 1 0 1, .create 0 0 1, .fail 0 0 0] ∧
    (nfinish nxCfg 3 75 (nreach nxCfg nxProg [0, 0, 2, 1, 0])).histI =
      [.clear 2, .hit 2 0 1, .create 0 0 1, .fail 0 0 0] ∧
    (nfinish nxCfg 3 75 (nreach nxCfg nxProg [0, 0, 2, 1, 0])).lockO = none := by decide

theorem nxProg_outside : ∀ t, 3 ≤ t → nxProg t = [] := by
  intro t ht
  match t, ht with
  | t + 3, _ => rfl

theorem nxProg_noRe : ∀ t, ∀ op ∈ nxProg t, op.noRe = true := by
  intro t op h
  match t with
  | 0 => simp [nxProg] at h; rcases h with rfl | rfl <;> rfl
  | 1 => simp [nxProg] at h; subst h; rfl
  | 2 => simp [nxProg] at h; rcases h with rfl | rfl <;> rfl
  | t + 3 => simp [nxProg] at h

example : NQuiescent (nfinish nxCfg 3 75 (nreach nxCfg nxProg [0, 0, 2, 1, 0])) :=
  nest_finish_completes nxCfg nxProg 3 nxProg_outside nxProg_noRe [0, 0, 2, 1, 0] 75 (by decide)

/-- `reentrant_get_deadlocks` — why the assumption is needed: ONE thread whose creator looks up the cache it is
    creating for (`threading.Lock` is not re-entrant) holds the outer lock and waits for it for ever: nobody can
    move, the thread never returns. -/
theorem reentrant_get_deadlocks :
    let st := nfinish nxCfg 1 100 (ninit (fun t => if t = 0 then [.getRe 0 1] else []))
    (st.threads 0).pc = .reWant 0 1 0 ∧ st.lockO = some 0 ∧ nenabled st 0 = false := by decide

end TwoLocks

/-! ### `add_sys_path`, one set operation at a time -/

/-- `syspath_once_fine`: with `_known_dirs` / `_missing_dirs` read and written outside the lock one set
    operation at a time — any number of threads, any interleaving — `sys.path` stays duplicate-free: the
    membership test and the append are under `_sys_path_lock`, the sets only decide whether to get there. -/
theorem syspath_once_fine (ex : Nat → Bool) (base : List Nat) (prog : Tid → List Nat) (sched : List Tid)
    (hbase : base.Nodup) : (fRun ex (fInit base prog) sched).sysPath.Nodup :=
  (fInv_run ex base sched _ (fInv_init base prog hbase)).nodup

theorem syspath_keeps_prior_fine (ex : Nat → Bool) (base : List Nat) (prog : Tid → List Nat)
    (sched : List Tid) (hbase : base.Nodup) : base <+: (fRun ex (fInit base prog) sched).sysPath :=
  (fInv_run ex base sched _ (fInv_init base prog hbase)).keeps

/-- … and while directories appear and disappear under the running threads (the exists() oracle per step) -/
theorem syspath_once_fine_anyfs (base : List Nat) (prog : Tid → List Nat) (sched : List ((Nat → Bool) × Tid))
    (hbase : base.Nodup) : (fRunW (fInit base prog) sched).sysPath.Nodup :=
  (fInv_runW base sched _ (fInv_init base prog hbase)).nodup

/-- `syspath_added_fine`: a path in `_known_dirs` that exists is on `sys.path` — so the unlocked early return
    (`path in _known_dirs and path not in _missing_dirs`) never skips a directory that still has to be added.
    (A process without a history, file system standing still: then `_missing_dirs` holds no existing directory.) -/
theorem syspath_added_fine (ex : Nat → Bool) (base : List Nat) (prog : Tid → List Nat) (sched : List Tid)
    (hbase : base.Nodup) (p : Nat) (hk : p ∈ (fRun ex (fInit base prog) sched).known)
    (hex : ex p = true) : p ∈ (fRun ex (fInit base prog) sched).sysPath := by
  refine (fInv_run ex base sched _ (fInv_init base prog hbase)).known p hk ?_
  intro hm
  have := f_missing_run ex sched (fInit base prog) (by simp [fInit, FPc.absent]) (by simp [fInit]) p hm
  simp [hex] at this

/-- `add_sys_path_returned_on_syspath_anyfs` — what a caller of `add_sys_path` relies on, in full: a process with
    ANY history of earlier calls (`_known_dirs` / `_missing_dirs` as those left them: `hk`; a directory that was
    missing at an earlier call and exists now is in both sets and not on `sys.path`), any number of threads, any
    interleaving at the granularity of the single set operations, the file system changing at any moment (the
    exists() oracle per step): whenever a thread RETURNS from `add_sys_path(p)` by the unlocked early return or
    from the locked append — i.e. unless its OWN exists() test said the directory is not there — `p` is on
    `sys.path` at that moment. The import the caller does next finds the directory. -/
theorem add_sys_path_returned_on_syspath_anyfs (base known missing : List Nat) (prog : Tid → List Nat)
    (sched : List ((Nat → Bool) × Tid)) (hbase : base.Nodup) (hk : ∀ p ∈ known, p ∉ missing → p ∈ base)
    (ex : Nat → Bool) (t : Tid) (p : Nat) :
    let st := fRunW (fInitH base known missing prog) sched
    (st.threads t).pc.path = some p → (st.threads t).pc.absent = none →
      ((fStep ex st t).threads t).pc = .fIdle → p ∈ (fStep ex st t).sysPath := by
  intro st hin hnot hret
  exact f_return_step ex base st t (fInv_runW base sched _ (fInv_initH base known missing prog hbase hk)) p
    hin hnot hret

/-- `add_sys_path_returned_on_syspath` — the same while the file system stands still: EVERY return of
    `add_sys_path(p)` for a directory that exists finds `p` on `sys.path`. -/
theorem add_sys_path_returned_on_syspath (ex : Nat → Bool) (base known missing : List Nat) (prog : Tid → List Nat)
    (sched : List Tid) (hbase : base.Nodup) (hk : ∀ p ∈ known, p ∉ missing → p ∈ base)
    (t : Tid) (p : Nat) :
    let st := fRun ex (fInitH base known missing prog) sched
    (st.threads t).pc.path = some p → ((fStep ex st t).threads t).pc = .fIdle → ex p = true →
      p ∈ (fStep ex st t).sysPath := by
  intro st hin hret hex
  have hinv := fInv_run ex base sched _ (fInv_initH base known missing prog hbase hk)
  have habs := f_absent_run ex sched (fInitH base known missing prog) (by simp [fInitH, FPc.absent]) t
  refine f_return_step ex base st t hinv p hin ?_ hret
  cases hpc : (st.threads t).pc <;> simp_all [FPc.absent, FPc.path, st]

/-- the order as a parameter: `FOrder.repaired` IS `fStep` -/
theorem fStepO_repaired (ex : Nat → Bool) (st : FState) (t : Tid) : fStepO .repaired ex st t = fStep ex st t := by
  cases hpc : (st.threads t).pc <;> simp only [fStepO, fStep, hpc, FOrder.repaired]

def histProg : Tid → List Nat
  | 0 => [7]
  | 1 => [7]
  | _ => []

/-- the hypotheses are satisfiable by the history that matters — 7 was missing at an earlier call (known AND
    missing, not on `sys.path`) and exists now; thread 0 is about to take the lock when thread 1 calls: thread 1
    does not take the early return (7 is still marked missing), it goes on to the append itself -/
example : (∀ p ∈ [7], p ∉ [7] → p ∈ [1]) ∧
    let st := fRun (fun p => p == 7) (fInitH [1] [7] [7] histProg) [0, 0, 0, 0, 1, 1, 1, 1]
    (st.threads 0).pc = .fWant 7 ∧ (st.threads 1).pc = .fWant 7 ∧ st.sysPath = [1] := by decide

/-- `discardFirst_breaks_returned_on_syspath` — the order before the repair (`_missing_dirs.discard` BEFORE the
    append), same history: thread 0 has discarded 7 from `_missing_dirs` and waits for the lock; thread 1's call
    sees "known and not missing" and RETURNS — 7 exists and is not on `sys.path`. -/
theorem discardFirst_breaks_returned_on_syspath :
    let ex : Nat → Bool := fun p => p == 7
    let st := fRunO .discardFirst ex (fInitH [1] [7] [7] histProg) [0, 0, 0, 0, 0, 1, 1]
    (st.threads 1).pc.path = some 7 ∧ ((fStepO .discardFirst ex st 1).threads 1).pc = .fIdle ∧ ex 7 = true ∧
      7 ∉ (fStepO .discardFirst ex st 1).sysPath := by decide

/-- `knownFirst_breaks_returned_on_syspath` — `_known_dirs.add` BEFORE the append, a directory never seen before:
    thread 0 has put 7 into `_known_dirs` and has not appended yet; thread 1's call RETURNS by the early return —
    7 exists and is not on `sys.path`. -/
theorem knownFirst_breaks_returned_on_syspath :
    let ex : Nat → Bool := fun p => p == 7
    let st := fRunO .knownFirst ex (fInit [1] histProg) [0, 0, 0, 0, 1, 1]
    (st.threads 1).pc.path = some 7 ∧ ((fStepO .knownFirst ex st 1).threads 1).pc = .fIdle ∧ ex 7 = true ∧
      7 ∉ (fStepO .knownFirst ex st 1).sysPath := by decide

/-- `knownBeforeMissing_breaks_returned_on_syspath` — the not-exists branch in the order `_known_dirs.add`,
    `_missing_dirs.add`: thread 0 found 7 missing and has put it into `_known_dirs`; the directory is created; thread
    1's call sees "known and not (yet) missing" and RETURNS by the early return — 7 exists now and is not on
    `sys.path`. (With `_missing_dirs.add` first — `fStep` — `add_sys_path_returned_on_syspath_anyfs` excludes this.) -/
theorem knownBeforeMissing_breaks_returned_on_syspath :
    let no : Nat → Bool := fun _ => false
    let yes : Nat → Bool := fun p => p == 7
    let st := fRunOW .knownBeforeMissing (fInit [1] histProg) [(no, 0), (no, 0), (no, 0), (no, 0), (yes, 1), (yes, 1)]
    (st.threads 1).pc.path = some 7 ∧ (st.threads 1).pc.absent = none ∧
      ((fStepO .knownBeforeMissing yes st 1).threads 1).pc = .fIdle ∧ yes 7 = true ∧
      7 ∉ (fStepO .knownBeforeMissing yes st 1).sysPath := by decide

/-- both threads pass the unlocked test for path 7 before either has added it -/
example : (fRun (fun p => p == 7) (fInit [1] exSpProg)
    [0, 1, 0, 1, 0, 1, 0, 1, 0, 1, 0, 0, 0, 0, 1, 1, 1, 1, 0, 0, 0, 0, 0]).sysPath = [1, 7] := by decide

/-! ### `WorldOk` for the file loader -/
section ResolveWorld
open Pypyr.CacheTS.Stack

/-- `worldOk_of_resolve`: the world whose file loader is `PypyrModel/Resolve.lean`'s `get_pipeline_path`, read
    through ONE `Reading` (one process working directory, one state of the symlinks), answers requests by
    their cache key. -/
theorem worldOk_of_resolve (fs : Resolve.Fs) (rd : Reading) (enc : Resolve.Path → Nat) (fileVer : Nat → Ver)
    (custom : Nat → Rq → Option Ver)
    (hc : ∀ l r r', l ≠ 0 → Rq.key r = Rq.key r' → custom l r = custom l r') :
    WorldOk (fileWorld fs rd enc fileVer custom) :=
  worldOk_fileWorld fs rd enc fileVer custom hc

/-- … so for it caching is transparent as long as neither the files nor the process cwd change -/
theorem cached_equals_uncached_fileWorld (fs : Resolve.Fs) (rd : Reading) (enc : Resolve.Path → Nat)
    (fileVer : Nat → Ver) (ops : List LOp) (hno : ∀ w', LOp.world w' ∉ ops) :
    ∀ x ∈ session (fileWorld fs rd enc fileVer (fun _ _ => none)) LState.init Flags.none ops, x.1.ran = x.2.2 :=
  cached_equals_uncached _ (worldOk_of_resolve fs rd enc fileVer _ (fun _ _ _ _ _ => rfl)) ops hno

def cwdFs : Resolve.Fs :=
  { cwd := ["w"], builtin := ["b"], isFile := fun p => p == ["a", "sub", "p.yaml"], dirExists := fun _ => true }
def cwdRq : Rq := { pt := true, ps := "sub", name := "p" }
/-- how a process whose working directory is `dir` reads `cwdRq` (`readingAt dir`, written out: string
    splitting does not reduce in the kernel) -/
def cwdReading (dir : Resolve.Path) : Reading := { nameOf := fun _ => .rel ["p"], parentDir := fun _ => dir ++ ["sub"] }

/-- `resolve_depends_on_process_cwd` — the cwd dependence, exhibited: the SAME request (relative parent `sub`)
    — one cache key — means `/a/sub/p.yaml` to a process in `/a` and nothing to a process in `/c`. An `os.chdir`
    between two look-ups is a change of the world (`LOp.world`): the theorems above do not cover sessions that
    change directory without saying so, and the warm pipeline cache keeps serving the first answer. -/
theorem resolve_depends_on_process_cwd :
    fileResolve cwdFs (cwdReading ["a"]) cwdRq = some ["a", "sub", "p.yaml"] ∧
    fileResolve cwdFs (cwdReading ["c"]) cwdRq = none := by decide +kernel

end ResolveWorld

end Pypyr.C13
