/-
  C13 — caches are transparent, single-flight and never remember failures.

  Property theorems about the transition system `PypyrModel/CacheTS.lean` (a transliteration of
  `pypyr/cache/cache.py`), for EVERY schedule (list of thread ids, any number of threads, any
  program of get/clear operations per thread, any creator failure script), at micro-step
  granularity. Helper lemmas: `Props/Lemmas/C13_Inv.lean` (inductive invariant),
  `C13_Spec.lean` (atomic specification), `C13_SysPath.lean`, `C13_Stack.lean` (the layers above
  the caches: `LoaderCache` → `Loader._pipeline_cache` → `file_cache`, `step_cache`, and the
  `Pipeline` objects that are run again and again across edits and clears — section "Layers").

  Histories are newest-first; "`(e :: h) <:+ H`" reads "at the moment `e` happened the history
  was `h`".
-/
import Props.Lemmas.C13_Inv
import Props.Lemmas.C13_Spec
import Props.Lemmas.C13_SysPath
import Props.Lemmas.C13_Stack

namespace Pypyr.C13
open Pypyr.CacheTS

/-- the state after running `sched` from the initial state -/
abbrev reach (cfg : Cfg) (prog : Tid → List Op) (sched : List Tid) : State :=
  run cfg (init cfg prog) sched

/-! ### example system used for the non-vacuity examples
  two threads, `T0: get 0; get 0`, `T1: get 0; clear`; creator call 0 raises. -/
def exCfg : Cfg := { seed := fun _ => none, fails := fun n => n == 0, noCache := false }
def exProg : Tid → List Op
  | 0 => [.get 0, .get 0]
  | 1 => [.get 0, .clear]
  | _ => []
/-- T0 starts and takes the lock, T1 starts and blocks; T0's creator raises; T1 creates object 1;
    T0 hits; T1 clears. -/
def exSched : List Tid :=
  [0, 0, 1, 1, 0, 0, 0, 0, 0, 1, 1, 1, 1, 1, 1, 1, 0, 0, 0, 0, 0, 1, 1, 1, 1, 1]

example : (reach exCfg exProg exSched).hist =
    [.clear 1, .hit 0 0 1, .create 1 0 1, .fail 0 0 0] := by decide

/-! ### mutual exclusion -/

/-- `mutex`: at most one thread is between lock-acquire and lock-release. -/
theorem mutex (cfg : Cfg) (prog : Tid → List Op) (sched : List Tid) (t u : Tid)
    (ht : ((reach cfg prog sched).threads t).pc.inCS = true)
    (hu : ((reach cfg prog sched).threads u).pc.inCS = true) : t = u := by
  have h := (inv_reach cfg prog sched).mutex
  have := (h t).1 ht
  have := (h u).1 hu
  simp_all

example : ((reach exCfg exProg [0, 0, 1, 1]).threads 0).pc.inCS = true ∧
    ((reach exCfg exProg [0, 0, 1, 1]).threads 1).pc = .wantLock (.get 0) := by decide

/-! ### refinement to the atomic get-or-create specification -/

/-- `refines_atomic`: without `no_cache`, the history of every reachable state is a trace of the
    atomic specification `specStep` (check, create and store happen as one indivisible event),
    and the specification's table is the implementation's table (plus the object the lock holder
    is about to store). -/
theorem refines_atomic (cfg : Cfg) (prog : Tid → List Op) (sched : List Tid)
    (hnc : cfg.noCache = false) :
    specRun cfg (reach cfg prog sched).hist = some (effCache (reach cfg prog sched)) :=
  (inv_reach cfg prog sched).refines hnc

example : (specRun exCfg (reach exCfg exProg exSched).hist).isSome = true := by decide

/-- at the moment an event happened, the history before it was a specification trace and the event
    was possible in the specification state -/
theorem event_possible (cfg : Cfg) (prog : Tid → List Op) (sched : List Tid)
    (hnc : cfg.noCache = false) {e : Ev} {h : List Ev}
    (hs : (e :: h) <:+ (reach cfg prog sched).hist) :
    ∃ s s', specRun cfg h = some s ∧ specStep cfg s e = some s' := by
  obtain ⟨s', hs'⟩ := specRun_suffix hs (refines_atomic cfg prog sched hnc)
  obtain ⟨s, h1, h2⟩ := specRun_cons hs'
  exact ⟨s, s', h1, h2⟩

/-! ### single flight -/

/-- `single_flight`: when a creator succeeds for `k`, no object for `k` has been created or handed
    out since the last clear — so between two clears there is at most one successful creation
    per key. -/
theorem single_flight (cfg : Cfg) (prog : Tid → List Op) (sched : List Tid)
    (hnc : cfg.noCache = false) {t : Tid} {k : Key} {c : Obj} {h : List Ev}
    (hs : (.create t k c :: h) <:+ (reach cfg prog sched).hist) : epochIds k h = [] := by
  obtain ⟨s, s', h1, h2⟩ := event_possible cfg prog sched hnc hs
  simp only [specStep] at h2
  split at h2
  · rename_i hk
    cases hids : epochIds k h with
    | nil => rfl
    | cons c' rest =>
      have := spec_epoch h1 (c := c') (k := k) (by rw [hids]; exact List.mem_cons_self)
      simp_all
  · cases h2

/-- `single_flight_pairs`: two successful creations for the same key are separated by a clear. -/
theorem single_flight_pairs (cfg : Cfg) (prog : Tid → List Op) (sched : List Tid)
    (hnc : cfg.noCache = false) {t1 t2 : Tid} {k : Key} {c1 c2 : Obj} {h1 mid h3 : List Ev}
    (hh : (reach cfg prog sched).hist = h1 ++ .create t1 k c1 :: (mid ++ .create t2 k c2 :: h3)) :
    ∃ t, .clear t ∈ mid := by
  have hs : (.create t1 k c1 :: (mid ++ .create t2 k c2 :: h3)) <:+ (reach cfg prog sched).hist :=
    ⟨h1, hh.symm⟩
  have hnil := single_flight cfg prog sched hnc hs
  apply Classical.byContradiction
  intro hno
  have : c2 ∈ epochIds k (mid ++ .create t2 k c2 :: h3) :=
    epochIds_mem_append (fun e he t hc => hno ⟨t, hc ▸ he⟩) (by simp [epochIds])
  rw [hnil] at this
  cases this

example : (Ev.create 1 0 1 :: [.fail 0 0 0]) <:+ (reach exCfg exProg exSched).hist := by decide

/-! ### same object -/

/-- `same_object`: every object created for or served under `k` is the same as all objects
    created for or served under `k` since the last clear. -/
theorem same_object (cfg : Cfg) (prog : Tid → List Op) (sched : List Tid)
    (hnc : cfg.noCache = false) {e : Ev} {t : Tid} {k : Key} {c : Obj} {h : List Ev}
    (hs : (e :: h) <:+ (reach cfg prog sched).hist) (he : e = .hit t k c ∨ e = .create t k c) :
    ∀ c' ∈ epochIds k h, c' = c := by
  intro c' hc'
  obtain ⟨s, s', h1, h2⟩ := event_possible cfg prog sched hnc hs
  have hk := spec_epoch h1 hc'
  rcases he with rfl | rfl <;> simp only [specStep] at h2 <;> split at h2 <;> simp_all

example : (Ev.hit 0 0 1 :: [.create 1 0 1, .fail 0 0 0]) <:+ (reach exCfg exProg exSched).hist ∧
    epochIds 0 [.create 1 0 1, .fail 0 0 0] = [1] := by decide

/-- `results_are_observations`: what a thread's finished operations returned to their callers is
    exactly what the thread's own events observed, in order (both modes). Together with
    `same_object`: every caller receives that same object. -/
theorem results_are_observations (cfg : Cfg) (prog : Tid → List Op) (sched : List Tid) (t : Tid)
    (hidle : ((reach cfg prog sched).threads t).pc = .idle) :
    ((reach cfg prog sched).threads t).results =
      (eventsOf t (reach cfg prog sched).hist).map Ev.res := by
  have := (inv_reach cfg prog sched).results t
  rw [hidle] at this
  simpa [Pc.pendingRes] using this.symm

example : ((reach exCfg exProg exSched).threads 0).pc = .idle ∧
    ((reach exCfg exProg exSched).threads 0).results = [.val 1, .raised 0] ∧
    ((reach exCfg exProg exSched).threads 1).results = [.cleared, .val 1] := by decide

/-- `creator_calls_distinct`: creator-call numbers (= ids of the created objects) are never
    reused, so equal ids in the statements above mean the very same creation. -/
theorem creator_calls_distinct (cfg : Cfg) (prog : Tid → List Op) (sched : List Tid) :
    (callIds (reach cfg prog sched).hist).Nodup :=
  (inv_reach cfg prog sched).fresh.nodup

/-- `model_holds`: the decidable monitor the driver's `cache.judge` evaluates on the IMPLEMENTATION's
    history (`CacheTS.holds`: trace of the atomic specification, call numbers distinct) is true of
    every history of the model. -/
theorem model_holds (cfg : Cfg) (prog : Tid → List Op) (sched : List Tid) (hnc : cfg.noCache = false) :
    holds cfg (reach cfg prog sched).hist = true := by
  simp [holds, refines_atomic cfg prog sched hnc, creator_calls_distinct cfg prog sched]

example : holds exCfg [.create 1 0 1, .create 0 0 0] = false := by decide

/-! ### failures are not remembered, clear refreshes -/

/-- `hit_justified`: an object is served from the table only if it is a seed (`BackoffCache`
    built-ins) or the newest event concerning that key created or served that very object. -/
theorem hit_justified (cfg : Cfg) (prog : Tid → List Op) (sched : List Tid)
    (hnc : cfg.noCache = false) {t : Tid} {k : Key} {c : Obj} {h : List Ev}
    (hs : (.hit t k c :: h) <:+ (reach cfg prog sched).hist) :
    cfg.seed k = some c ∨ (∃ t', lastOn k h = some (.hit t' k c)) ∨
      (∃ t', lastOn k h = some (.create t' k c)) := by
  obtain ⟨s, s', h1, h2⟩ := event_possible cfg prog sched hnc hs
  simp only [specStep] at h2
  split at h2
  · rename_i hk; exact spec_lastOn h1 hk
  · cases h2

/-- `failure_not_cached`: a creator that raised leaves its key absent … -/
theorem failure_leaves_absent (cfg : Cfg) (prog : Tid → List Op) (sched : List Tid)
    (hnc : cfg.noCache = false) {t : Tid} {k : Key} {c : Nat} {h : List Ev}
    (hh : (reach cfg prog sched).hist = .fail t k c :: h) :
    effCache (reach cfg prog sched) k = none := by
  have hr := refines_atomic cfg prog sched hnc
  rw [hh] at hr
  obtain ⟨s, _, h2⟩ := specRun_cons hr
  simp only [specStep] at h2
  split at h2 <;> simp_all

/-- … and the next look-up of that key is never served from the table: it runs the creator
    again (its event is a `create` or a `fail`, not a `hit`). -/
theorem failure_not_cached (cfg : Cfg) (prog : Tid → List Op) (sched : List Tid)
    (hnc : cfg.noCache = false) {t : Tid} {k : Key} {c : Obj} {h : List Ev}
    (hs : (.hit t k c :: h) <:+ (reach cfg prog sched).hist) (t' : Tid) (c' : Nat)
    (hseed : cfg.seed k = none) : lastOn k h ≠ some (.fail t' k c') := by
  rcases hit_justified cfg prog sched hnc hs with h | ⟨_, h⟩ | ⟨_, h⟩ <;> simp_all

example : (reach exCfg exProg [0, 0, 1, 1, 0, 0, 0]).hist = [.fail 0 0 0] ∧
    (reach exCfg exProg [0, 0, 1, 1, 0, 0, 0]).cache 0 = none := by decide

/-- `clear_refreshes`: after a clear the next look-up of an unseeded key is not served from the
    table: it creates afresh. -/
theorem clear_refreshes (cfg : Cfg) (prog : Tid → List Op) (sched : List Tid)
    (hnc : cfg.noCache = false) {t : Tid} {k : Key} {c : Obj} {h : List Ev}
    (hs : (.hit t k c :: h) <:+ (reach cfg prog sched).hist) (t' : Tid)
    (hseed : cfg.seed k = none) : lastOn k h ≠ some (.clear t') := by
  rcases hit_justified cfg prog sched hnc hs with h | ⟨_, h⟩ | ⟨_, h⟩ <;> simp_all

/-- … and right after a clear the table is the seed table (empty for all caches but
    `BackoffCache`, whose built-ins are its seed). -/
theorem clear_resets (cfg : Cfg) (prog : Tid → List Op) (sched : List Tid)
    (hnc : cfg.noCache = false) {t : Tid} {h : List Ev}
    (hh : (reach cfg prog sched).hist = .clear t :: h) :
    effCache (reach cfg prog sched) = cfg.seed := by
  have hr := refines_atomic cfg prog sched hnc
  rw [hh] at hr
  obtain ⟨s, _, h2⟩ := specRun_cons hr
  simp only [specStep] at h2
  simp_all

example : (reach exCfg exProg exSched).hist.head? = some (.clear 1) ∧
    (reach exCfg exProg exSched).cache 0 = none := by decide

/-! ### transparency, `no_cache` -/

/-- `objects_made_for_their_key`: an object served for `k` is a seed for `k` or was made by a
    creator invocation for `k` — look-ups never receive another key's object. -/
theorem objects_made_for_their_key (cfg : Cfg) (prog : Tid → List Op) (sched : List Tid)
    (hnc : cfg.noCache = false) {t : Tid} {k : Key} {c : Obj} {h : List Ev}
    (hs : (.hit t k c :: h) <:+ (reach cfg prog sched).hist) :
    cfg.seed k = some c ∨ ∃ t', .create t' k c ∈ h := by
  obtain ⟨s, s', h1, h2⟩ := event_possible cfg prog sched hnc hs
  simp only [specStep] at h2
  split at h2
  · rename_i hk; exact spec_created h1 hk
  · cases h2

/-- `no_cache_transparent`: with `config.no_cache` the table is never written, nothing is ever
    served from it, and every look-up returns the result of its OWN creator invocation. -/
theorem no_cache_transparent (cfg : Cfg) (prog : Tid → List Op) (sched : List Tid)
    (hnc : cfg.noCache = true) :
    (reach cfg prog sched).cache = cfg.seed ∧
    (∀ e ∈ (reach cfg prog sched).hist, e.isHit = false) ∧
    (∀ t c, ((reach cfg prog sched).threads t).pc = .idle →
      .val c ∈ ((reach cfg prog sched).threads t).results →
      ∃ k, .create t k c ∈ (reach cfg prog sched).hist) := by
  obtain ⟨h1, h2⟩ := (inv_reach cfg prog sched).bypass hnc
  refine ⟨h1, h2, ?_⟩
  intro t c hidle hc
  rw [results_are_observations cfg prog sched t hidle] at hc
  obtain ⟨e, he, hres⟩ := List.mem_map.mp hc
  have hmem : e ∈ (reach cfg prog sched).hist := (List.mem_filter.mp he).1
  have htid : e.tid = t := by simpa [eventsOf] using (List.mem_filter.mp he).2
  have hnh := h2 e hmem
  cases e <;> simp_all [Ev.res, Ev.isHit, Ev.tid]
  exact ⟨_, hmem⟩

def exCfgNC : Cfg := { exCfg with noCache := true, fails := fun _ => false }
example : (reach exCfgNC exProg [0, 1, 0, 1, 1, 0, 1, 0, 0, 0, 0, 0]).hist =
      [.create 0 0 2, .create 0 0 0, .create 1 0 1] ∧
    ((reach exCfgNC exProg [0, 1, 0, 1, 1, 0, 1, 0, 0, 0, 0, 0]).threads 0).results = [.val 2, .val 0] := by
  decide

/-- with deterministic creators the two modes agree on WHAT is returned: in either mode a
    returned object was made by a creator invocation for the requested key (or is a seed);
    cached mode: `objects_made_for_their_key` + `same_object`; `no_cache`: above. -/
theorem no_cache_same_values (cfg : Cfg) (prog : Tid → List Op) (sched : List Tid) {e : Ev}
    (he : e ∈ (reach cfg prog sched).hist) (hnc : cfg.noCache = true) :
    (∃ t k c, e = .create t k c) ∨ (∃ t k c, e = .fail t k c) ∨ (∃ t, e = .clear t) := by
  have := (no_cache_transparent cfg prog sched hnc).2.1 e he
  cases e <;> simp_all [Ev.isHit]

/-! ### the turn-level executions the correspondence harness drives are schedules -/

/-- `turns_are_schedules`: whatever the driver executes at turn granularity is `run` of some
    micro-step schedule, so every theorem above applies to it. -/
theorem turns_are_schedules (cfg : Cfg) : ∀ (ts : List Tid) st, ∃ sched, runTurns cfg st ts = run cfg st sched := by
  intro ts
  induction ts with
  | nil => intro st; exact ⟨[], rfl⟩
  | cons t ts ih =>
    intro st
    obtain ⟨s1, h1⟩ := settle_is_run cfg t 3 (step cfg st t)
    obtain ⟨s2, h2⟩ := ih (turn cfg st t)
    have ht : turn cfg st t = run cfg (step cfg st t) s1 := h1
    refine ⟨t :: s1 ++ s2, ?_⟩
    simp only [runTurns, List.cons_append, run, run_append]
    rw [← ht]; exact h2

/-! ### pipeline cache key -/

/-- `pipelineKey_injective`: the key `Loader.get_pipeline` uses determines the name, whether the
    parent is truthy, and — when it is — `str(parent)`. Two requests share a cache entry only if
    they agree on all of these (which is all the file loader looks at). -/
theorem pipelineKey_injective (pt pt' : Bool) (ps ps' n n' : String)
    (h : pipelineKey pt ps n = pipelineKey pt' ps' n') :
    n = n' ∧ pt = pt' ∧ (pt = true → ps = ps') := by
  cases pt <;> cases pt' <;> simp_all [pipelineKey]

/-- the falsy-parent case: every falsy parent (`None`, `''`, `0`) shares the bare-name key. -/
theorem pipelineKey_falsy_parent (ps ps' n : String) : pipelineKey false ps n = pipelineKey false ps' n := rfl

example : pipelineKey true "/x/a" "b+c" ≠ pipelineKey true "/x/a+b" "c" := by decide

/-- `pipelineKey_collision_pre_fix`: the key before fix F5 (`f'{parent}+{name}'`) maps two
    different requests to one entry. -/
theorem pipelineKey_collision_pre_fix :
    pipelineKeyOld true "/x/a" "b+c" = pipelineKeyOld true "/x/a+b" "c" ∧
    ("/x/a", "b+c") ≠ ("/x/a+b", "c") := by decide

/-! ### the layers above the caches: Pipeline objects re-used across runs, clears and edits

  `CacheTS.Stack`: `LoaderCache` → `Loader._pipeline_cache` → `file_cache`, `step_cache`, and the
  client objects (`pypyr.pipeline.Pipeline`) whose `pipeline_definition` slot survives from run to
  run. Sessions are arbitrary lists of runs (any client object, any loader, any request), changes of
  the world (sources edited, files appearing/disappearing), the five clears and `no_cache` toggles. -/
section Layers
open Pypyr.CacheTS.Stack

/-- run a list of operations, forgetting the observations -/
def execAll (w : World) (st : LState) : List LOp → World × LState
  | [] => (w, st)
  | op :: ops => execAll (exec w st op).1 (exec w st op).2.1 ops

def stepAll (f : Flags) : List LOp → Flags
  | [] => f
  | op :: ops => stepAll (f.step op) ops

/-- every world of the session answers requests by their cache key -/
def WorldsOk (w : World) (ops : List LOp) : Prop := WorldOk w ∧ ∀ w', LOp.world w' ∈ ops → WorldOk w'

theorem exec_world_ok {w : World} {st : LState} {op : LOp} {ops : List LOp} (h : WorldsOk w (op :: ops)) :
    WorldsOk (exec w st op).1 ops := by
  refine ⟨?_, fun w' hw' => h.2 w' (List.mem_cons_of_mem _ hw')⟩
  cases op <;> try exact h.1
  · exact h.2 _ List.mem_cons_self
  · rename_i ol; cases ol <;> exact h.1

theorem inv_execAll (ops : List LOp) : ∀ (w : World) (st : LState) (f : Flags), Inv w st f → WorldsOk w ops →
    Inv (execAll w st ops).1 (execAll w st ops).2 (stepAll f ops) := by
  induction ops with
  | nil => intro w st f hi _; exact hi
  | cons op ops ih =>
    intro w st f hi hw
    exact ih _ _ _ (inv_exec w st f op hw.1 hi) (exec_world_ok hw)

/-- `session_fresh` — the property at the level of whole pipelines, for EVERY session: a run
    that goes only through layers cleared since the world last changed (or runs with `no_cache`)
    executes exactly what an uncached look-up of its own (loader, parent, name) yields at that
    moment — whichever client object issues it, whatever that object ran before, whatever other
    requests were served in between. -/
theorem session_fresh (ops : List LOp) : ∀ (w : World) (st : LState) (f : Flags), Inv w st f → WorldsOk w ops →
    ∀ x ∈ session w st f ops, x.2.1 = true → x.1.ran = x.2.2 := by
  induction ops with
  | nil => intro w st f _ _ x hx; simp [session] at hx
  | cons op ops ih =>
    intro w st f hi hw x hx hclean
    have hrest := ih _ _ _ (inv_exec w st f op hw.1 hi) (exec_world_ok hw)
    cases op with
    | run c l r =>
      simp only [session, List.mem_cons] at hx
      rcases hx with rfl | hx
      · simp only [Bool.or_eq_true] at hclean
        exact run_fresh_of_inv w st f c l r hi hclean
      · exact hrest x hx hclean
    | _ => exact hrest x (by simpa [session] using hx) hclean

/-- the initial state satisfies the invariant for any flags -/
theorem session_fresh_init (w : World) (ops : List LOp) (hw : WorldsOk w ops) :
    ∀ x ∈ session w LState.init Flags.none ops, x.2.1 = true → x.1.ran = x.2.2 :=
  session_fresh ops w LState.init Flags.none (inv_init w _) hw

/-- any well-formed state satisfies the invariant when every layer is flagged as possibly stale -/
theorem inv_all_stale (w : World) (st : LState) (hw : Wf st) :
    Inv w st { files := true, pipes := fun _ => true } :=
  ⟨hw, fun h => by simp at h, fun _ h => by simp at h⟩

/-- `clear_all_refreshes` — "a clear makes the next look-up create afresh", end to end: after ANY
    session (edits, runs, toggles, from the initial state), `pypyr.cache.admin.clear_all()` followed by
    a run on ANY client object — new or used before — executes the present source. -/
theorem clear_all_refreshes (w0 : World) (pre : List LOp) (hw : WorldsOk w0 pre) (c l : Nat) (r : Rq) :
    (run (execAll w0 LState.init pre).1 (exec (execAll w0 LState.init pre).1 (execAll w0 LState.init pre).2 .clearAll).2.1
      c l r).1.ran = (execAll w0 LState.init pre).1.fresh l r := by
  have hi := inv_execAll pre w0 LState.init Flags.none (inv_init w0 _) hw
  have hwok : WorldOk (execAll w0 LState.init pre).1 := by
    clear hi
    generalize LState.init = st at *
    induction pre generalizing w0 st with
    | nil => exact hw.1
    | cons op ops ih => exact ih _ (exec_world_ok hw) _
  have hi2 := inv_exec _ _ _ .clearAll hwok (inv_all_stale _ _ hi.wf)
  exact run_fresh_of_inv _ _ _ c l r hi2 (Or.inl (by simp [Flags.step, Flags.clean]))

/-- `no_cache_run` — with caching disabled a run executes the present source, creates every item
    itself (loader, definition, step) and leaves every table as it was. -/
theorem no_cache_run (w : World) (st : LState) (c l : Nat) (r : Rq) (h : st.noCache = true) :
    (run w st c l r).1.ran = w.fresh l r ∧ (run w st c l r).1.loaderMade = true ∧
    (run w st c l r).1.defMade = true ∧ ((run w st c l r).1.ran.isSome → (run w st c l r).1.stepMade = true) ∧
    (run w st c l r).2.loaders = st.loaders ∧ (run w st c l r).2.pipes = st.pipes ∧
    (run w st c l r).2.files = st.files ∧ (run w st c l r).2.stepCached = st.stepCached := by
  have hL := getLoader_loaders_noCache st l h
  have hnc : (getLoader st l).2.2.noCache = true := by rw [getLoader_noCache]; exact h
  have hP := getPipeline_noCache w (getLoader st l).2.2 (getLoader st l).1 l r hnc
  simp only [Stack.run]
  cases hx : (getPipeline w (getLoader st l).2.2 (getLoader st l).1 l r).1 with
  | none =>
    simp only [hP.2.1, hL.1, getLoader_pipes, getLoader_files, getLoader_stepCached, hL.2.2, hP.2.2, ← hP.1, hx]
    simp
  | some x =>
    simp only [getStep, hP.2.1, hnc, hL.1, getLoader_pipes, getLoader_files, getLoader_stepCached, hL.2.2,
      hP.2.2, ← hP.1, hx]
    simp

/-- `cached_equals_uncached` — transparency: while the world does not change, every run of every
    session executes what an uncached look-up yields — caching on or off makes no difference to
    WHAT runs. -/
theorem cached_equals_uncached (w : World) (hw : WorldOk w) (ops : List LOp)
    (hno : ∀ w', LOp.world w' ∉ ops) : ∀ x ∈ session w LState.init Flags.none ops, x.1.ran = x.2.2 := by
  have key : ∀ (ops : List LOp) (st : LState), (∀ w', LOp.world w' ∉ ops) → Inv w st Flags.none →
      ∀ x ∈ session w st Flags.none ops, x.1.ran = x.2.2 := by
    intro ops
    induction ops with
    | nil => intro st _ _ x hx; simp [session] at hx
    | cons op ops ih =>
      intro st hno hi x hx
      have hno' : ∀ w', LOp.world w' ∉ ops := fun w' h => hno w' (List.mem_cons_of_mem _ h)
      have hstep : Flags.none.step op = Flags.none ∧ (exec w st op).1 = w := by
        cases op with
        | world w' => exact absurd List.mem_cons_self (hno w')
        | clearPipes ol => cases ol <;> simp [Flags.step, Flags.none, exec]
        | _ => simp [Flags.step, Flags.none, exec]
      have hi' := inv_exec w st Flags.none op hw hi
      rw [hstep.1, hstep.2] at hi'
      have hrest := ih _ hno' hi'
      cases op with
      | run c l r =>
        simp only [session, List.mem_cons] at hx
        rcases hx with rfl | hx
        · exact run_fresh_of_inv w st Flags.none c l r hi (Or.inl (by simp [Flags.clean, Flags.none]))
        · rw [hstep.1, hstep.2] at hx; exact hrest x hx
      | _ =>
        simp only [session] at hx
        rw [hstep.1, hstep.2] at hx
        exact hrest x hx
  exact key ops LState.init hno (inv_init w _)

/-- where the key's injectivity is used: a world in which all falsy parents mean "no parent"
    answers requests by their cache key -/
theorem worldOk_of_falsy (w : World)
    (h : ∀ l (r r' : Rq), r.pt = false → r'.pt = false → r.name = r'.name → w.fresh l r = w.fresh l r') :
    WorldOk w := by
  intro l r r' hk
  obtain ⟨hn, hpt, hps⟩ := pipelineKey_injective r.pt r'.pt r.ps r'.ps r.name r'.name hk
  cases hp : r.pt
  · exact h l r r' hp (hpt ▸ hp) hn
  · have : r = r' := by
      cases r; cases r'; simp_all
    rw [this]

/-- `run_ignores_slots` — the client object is not part of the look-up: whatever a Pipeline object
    holds from earlier runs (`pipeline_definition`), a run on it observes and leaves behind exactly
    what a run on a brand-new object does. (The assumption "clients do not retain cached objects",
    as a theorem about the model of `load_and_run_pipeline`; the correspondence harness checks the
    real `Pipeline`, `pipelinerunner.run` and the pype step against it with re-used objects.) -/
theorem run_ignores_slots (w : World) (st : LState) (s' : Nat → Option Ver) (c l : Nat) (r : Rq) :
    (Stack.run w { st with slot := s' } c l r).1 = (Stack.run w st c l r).1 ∧
    ∃ s'', (Stack.run w { st with slot := s' } c l r).2 = { (Stack.run w st c l r).2 with slot := s'' } := by
  simp only [Stack.run, getLoader_slot_irrelevant, getPipeline_slot_irrelevant]
  split
  · exact ⟨rfl, _, rfl⟩
  · rename_i x hx
    have h1 := getStep_slot_irrelevant (getPipeline w (getLoader st l).2.2 (getLoader st l).1 l r).2.2.2
      (fun c' => if c' = c then some x else s' c')
    have h2 := getStep_slot_irrelevant (getPipeline w (getLoader st l).2.2 (getLoader st l).1 l r).2.2.2
      (fun c' => if c' = c then some x else (getPipeline w (getLoader st l).2.2 (getLoader st l).1 l r).2.2.2.slot c')
    simp only at h1 h2
    simp only [h1, h2]
    exact ⟨trivial, _, rfl⟩

/-! example worlds: the file loader's pipeline `p` is file 0, whose content is version 1, then 2 -/
def exRq : Rq := { pt := false, ps := "None", name := "p" }
def exW1 : World := { resolve := fun r => if r.name == "p" then some 0 else none, fileVer := fun _ => 1,
                      custom := fun _ _ => some 10 }
def exW2 : World := { exW1 with fileVer := fun _ => 2 }

theorem exW_ok : WorldsOk exW1 [.run 7 0 exRq, .world exW2, .run 7 0 exRq, .clearAll, .run 7 0 exRq] := by
  have h1 : WorldOk exW1 := worldOk_of_falsy _ (by intro l r r' _ _ hn; simp [World.fresh, exW1, hn])
  have h2 : WorldOk exW2 := worldOk_of_falsy _ (by intro l r r' _ _ hn; simp [World.fresh, exW2, exW1, hn])
  refine ⟨h1, ?_⟩
  intro w' hw'
  simp at hw'
  exact hw' ▸ h2

/-- one client object (7): runs version 1; the source changes; the warm caches still serve
    version 1 (not a clean run); `clear_all()`; the same object now runs version 2. -/
example : (session exW1 LState.init Flags.none
      [.run 7 0 exRq, .world exW2, .run 7 0 exRq, .clearAll, .run 7 0 exRq]).map
        (fun x => (x.1.ran, x.2.1, x.2.2)) =
    [(some 1, true, some 1), (some 1, false, some 2), (some 2, true, some 2)] := by
  decide +kernel

/-- `retaining_client_breaks_clear` — NOT pypyr: were the client to re-use the definition it holds
    (`Stack.runRetaining`), `clear_all_refreshes` would be false: the same session ends with the
    pre-clear version. The hypothesis "the slot is never read" is essential, not decoration. -/
theorem retaining_client_breaks_clear :
    let st := (execAll exW1 LState.init [.run 7 0 exRq, .world exW2, .clearAll]).2
    (Stack.run exW2 st 7 0 exRq).1.ran = some 2 ∧ (runRetaining exW2 st 7 0 exRq).1.ran = some 1 := by
  decide +kernel

end Layers

/-! ### `add_sys_path` -/

/-- `syspath_once`: for every interleaving of `add_sys_path` calls by any number of threads,
    `sys.path` (duplicate-free before) stays duplicate-free: a path is appended at most once. -/
theorem syspath_once (ex : Nat → Bool) (base : List Nat) (prog : Tid → List Nat) (sched : List Tid)
    (hbase : base.Nodup) : (spRun ex (spInit base prog) sched).sysPath.Nodup :=
  (spInv_run ex base sched _ (spInv_init ex base prog hbase)).nodup

/-- `syspath_keeps_prior`: entries are only appended; the user's prior `sys.path` stays a prefix. -/
theorem syspath_keeps_prior (ex : Nat → Bool) (base : List Nat) (prog : Tid → List Nat)
    (sched : List Tid) (hbase : base.Nodup) : base <+: (spRun ex (spInit base prog) sched).sysPath :=
  (spInv_run ex base sched _ (spInv_init ex base prog hbase)).keeps

/-- `syspath_added`: once `add_sys_path(p)` has run to completion (p is in `_known_dirs`) for an
    existing directory, p is on `sys.path`. -/
theorem syspath_added (ex : Nat → Bool) (base : List Nat) (prog : Tid → List Nat) (sched : List Tid)
    (hbase : base.Nodup) (p : Nat) (hk : p ∈ (spRun ex (spInit base prog) sched).known)
    (hex : ex p = true) : p ∈ (spRun ex (spInit base prog) sched).sysPath :=
  (spInv_run ex base sched _ (spInv_init ex base prog hbase)).known p hk hex

def exSpProg : Tid → List Nat
  | 0 => [7, 8]
  | 1 => [7]
  | _ => []
example : (spRun (fun p => p == 7) (spInit [1] exSpProg)
    [0, 1, 0, 1, 0, 1, 0, 0, 0, 0, 1, 1, 1, 1, 0, 0, 0]).sysPath = [1, 7] := by decide

end Pypyr.C13
