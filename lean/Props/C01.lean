/-
  C01 — Step-groups run in order, fail fast, and route to success/failure handlers.

  Model: `PypyrModel/Flow/Runner.lean` (`runSteps` = `run_pipeline_steps`, `runStepGroup`,
  `runGroupList` = the `for step_group in groups` loop, `runFailureGroup`, `runGroups` =
  `run_step_groups`, `runPipeline` = `_run_pipeline`, `runRoot` = `Pipeline.run`).
  `mainPhase` (Props/Lemmas/FlowRunner.lean) = the body of the `try` of `run_step_groups`:
  the requested groups in order, then the success group.

  Everything is for arbitrary programs (any steps, any decorators, any nesting of call / jump /
  pype), arbitrary states, arbitrary fuel, arbitrary list lengths (induction on the lists).
  `StepsChain prog pipe fuel pre s s'` / `GroupsChain …` (Props/Lemmas/C01_Seq.lean, `SeqChain`)
  say: the leading elements `pre` ran one after the other, each from the state its predecessor
  left, each ended normally, and the state went from `s` to `s'`.
-/
import Props.Lemmas.C01_Runner
import Props.Lemmas.FlowGlobalRun
import Props.Lemmas.FlowFuel
import Props.Lemmas.C01_Oracle

namespace Pypyr.C01
open Pypyr Pypyr.Flow

/-! ## which groups run: the defaulting rule -/

/-- **The defaulting rule of `_run_pipeline`, closed form, for all inputs**: explicit non-empty
    `groups` are kept together with whatever success/failure were (or were not) given; otherwise the
    group is `steps`, and `on_success`/`on_failure` are defaulted only when neither a success nor a
    failure group was given; the list of groups to run is never empty. (`groupsBad = false`: `groups`
    is a list of names - possibly written as a string, whose characters are the names - or absent;
    the remaining case, a truthy `groups` that cannot be iterated, is `effectiveGroups_not_iterable` /
    `groups_not_iterable` below.) -/
theorem effectiveGroups_spec (pi : PipeInst) (hgb : pi.groupsBad = false) :
    (∀ g gs, pi.groups = some (g :: gs) → effectiveGroups pi = (g :: gs, pi.success, pi.failure)) ∧
    (groupsGiven pi = false → nameGiven pi.success = false → nameGiven pi.failure = false →
        effectiveGroups pi = (["steps"], some "on_success", some "on_failure")) ∧
    (groupsGiven pi = false → (nameGiven pi.success = true ∨ nameGiven pi.failure = true) →
        effectiveGroups pi = (["steps"], pi.success, pi.failure)) ∧
    (effectiveGroups pi).1 ≠ [] ∧
    effectiveGroups pi =
      (if groupsGiven pi then (pi.groups.getD [], pi.success, pi.failure)
       else if !nameGiven pi.success && !nameGiven pi.failure then (["steps"], some "on_success", some "on_failure")
       else (["steps"], pi.success, pi.failure)) :=
  ⟨effectiveGroups_given pi hgb, effectiveGroups_default_all pi hgb, effectiveGroups_default_groups_only pi hgb,
   effectiveGroups_nonempty pi hgb, effectiveGroups_eq pi hgb⟩

/-- `groups` given as a truthy value that is no collection of names (`groups: 5` in a pype step, the
    API called with `groups=5`): it counts as "given" - success / failure handlers are exactly the
    ones passed, nothing is defaulted. -/
theorem effectiveGroups_not_iterable (pi : PipeInst) (hgb : pi.groupsBad = true) :
    effectiveGroups pi = ([], pi.success, pi.failure) := effectiveGroups_bad pi hgb

/-! ## steps of a group: declaration order, fail fast -/

/-- **Steps run in declaration order**: a step list ends normally exactly when its steps ran left to
    right, each starting from the state its predecessor left and each ending normally; the final
    state is the last step's. (`ds.length < fuel`: the fuel sufficed.) -/
theorem steps_in_declaration_order (prog : Program) (pipe : String) (ds : List StepDef) (fuel : Nat) (s s' : St) :
    runSteps fuel prog pipe ds s = (s', .ok) ↔ (ds.length < fuel ∧ StepsChain prog pipe fuel ds s s') := by
  rw [runSteps_eq_seqRun]; exact seqRun_ok_iff _ ds fuel s s'

/-- **Fail fast inside a group** (and the same for every other way of not ending normally): when the
    steps `pre` ended normally and the next step `d` ends with `r ≠ ok` — an error, a Stop, a jump — the
    whole step list ends with exactly that result in exactly that step's final state: no step of `post`
    runs (the result does not depend on `post` at all). -/
theorem runSteps_stops_at_first_nonok (prog : Program) (pipe : String) (pre post : List StepDef) (d : StepDef)
    (fuel : Nat) (s s0 s1 : St) (r : Res)
    (hpre : StepsChain prog pipe fuel pre s s0) (hlen : pre.length < fuel)
    (hd : runStep (fuel - pre.length - 1) prog pipe d s0 = (s1, r)) (hr : r ≠ .ok) :
    runSteps fuel prog pipe (pre ++ d :: post) s = (s1, r) := by
  rw [runSteps_eq_seqRun]
  exact seqRun_first_nonok _ pre post d fuel s s0 s1 r hpre hlen hd hr

/-- … conversely: whenever a step list ends with anything but `ok`, that result is the result of one of
    its steps, all steps before it ended normally in order, and the final state is that step's. -/
theorem runSteps_nonok_origin (prog : Program) (pipe : String) (ds : List StepDef) (fuel : Nat) (s s' : St) (r : Res)
    (h : runSteps fuel prog pipe ds s = (s', r)) (hr : r ≠ .ok) (hf : r ≠ .outOfFuel) :
    ∃ pre d post s0, ds = pre ++ d :: post ∧ StepsChain prog pipe fuel pre s s0 ∧ pre.length < fuel ∧
      runStep (fuel - pre.length - 1) prog pipe d s0 = (s', r) := by
  rw [runSteps_eq_seqRun] at h
  exact seqRun_nonok_origin _ ds fuel s s' r h hr hf

/-- a step that ends in an error ends its step-group with that error: the rest of the group is skipped -/
theorem failing_step_ends_group (prog : Program) (pipe g : String) (pre post : List StepDef) (d : StepDef)
    (fuel : Nat) (s s0 s1 : St) (e : ExcV) (h : Bool) (raiseStop : Bool)
    (hg : groupSteps prog pipe g = pre ++ d :: post) (hg0 : g ≠ "")
    (hpre : StepsChain prog pipe fuel pre s s0) (hlen : pre.length < fuel)
    (hd : runStep (fuel - pre.length - 1) prog pipe d s0 = (s1, .err e h)) :
    runStepGroup (fuel + 1) prog pipe g raiseStop s = (s1, .err e h) := by
  rw [runStepGroup_eq' fuel prog pipe g raiseStop s _
      (getPipelineSteps_of_groupSteps prog pipe g _ (by simp) hg) hg0,
    runSteps_stops_at_first_nonok prog pipe pre post d fuel s s0 s1 _ hpre hlen hd (by simp)]

/-! ## groups: in order, group after group, fail fast -/

/-- **Groups run in the order requested, group after group**: the loop over the requested groups ends
    normally exactly when the groups ran left to right, each from the state its predecessor left, each
    ending normally. -/
theorem groups_in_order (prog : Program) (pipe : String) (gs : List String) (fuel : Nat) (s s' : St) :
    runGroupList fuel prog pipe gs s = (s', .ok) ↔ (gs.length < fuel ∧ GroupsChain prog pipe fuel gs s s') := by
  rw [runGroupList_eq_seqRun]; exact seqRun_ok_iff _ gs fuel s s'

theorem runGroupList_stops_at_first_nonok (prog : Program) (pipe : String) (pre post : List String) (g : String)
    (fuel : Nat) (s s0 s1 : St) (r : Res)
    (hpre : GroupsChain prog pipe fuel pre s s0) (hlen : pre.length < fuel)
    (hg : runStepGroup (fuel - pre.length - 1) prog pipe g false s0 = (s1, r)) (hr : r ≠ .ok) :
    runGroupList fuel prog pipe (pre ++ g :: post) s = (s1, r) := by
  rw [runGroupList_eq_seqRun]
  exact seqRun_first_nonok _ pre post g fuel s s0 s1 r hpre hlen hg hr

theorem runGroupList_nonok_origin (prog : Program) (pipe : String) (gs : List String) (fuel : Nat) (s s' : St) (r : Res)
    (h : runGroupList fuel prog pipe gs s = (s', r)) (hr : r ≠ .ok) (hf : r ≠ .outOfFuel) :
    ∃ pre g post s0, gs = pre ++ g :: post ∧ GroupsChain prog pipe fuel pre s s0 ∧ pre.length < fuel ∧
      runStepGroup (fuel - pre.length - 1) prog pipe g false s0 = (s', r) := by
  rw [runGroupList_eq_seqRun] at h
  exact seqRun_nonok_origin _ gs fuel s s' r h hr hf

/-! ## the same at ONE fuel: the budget plays no role

`StepsChain` / `GroupsChain` above follow the interpreter's own fuel bookkeeping (element `i` runs with
`fuel - i - 1`). By fuel monotonicity (`Props/Lemmas/FlowFuel.lean`: a computation that ends within a budget
ends identically within every larger one) the same facts hold with every element run at one and the same
fuel `F` (`StepsChainAt` / `GroupsChainAt`), for every total budget that is large enough. -/

/-- **A run does not depend on the budget it is given**: if `Pipeline.run` ends (normally or with an error)
    within fuel `n`, it ends in the same state with the same outcome within every `m ≥ n`. Every statement of
    this file that names a fuel is therefore a statement about the one run of that pipeline. -/
theorem run_is_fuel_independent (prog : Program) (pi : PipeInst) (n : Nat) (s s' : St) (r : Res)
    (h : runRoot n prog pi s = (s', r)) (hr : r ≠ .outOfFuel) :
    ∀ m, n ≤ m → runRoot m prog pi s = (s', r) :=
  runRoot_fuel_mono prog pi n s s' r h hr

/-- declaration order, at one fuel: the steps of `ds` end normally one after the other, each run with fuel
    `F` ⇒ `run_pipeline_steps` over `ds` ends normally in the last step's state, for every budget above
    `F + ds.length`. -/
theorem steps_in_declaration_order_one_fuel (prog : Program) (pipe : String) (ds : List StepDef) (F : Nat)
    (s s' : St) (h : StepsChainAt prog pipe F ds s s') :
    ∀ N, F + ds.length < N → runSteps N prog pipe ds s = (s', .ok) := by
  intro N hN
  rw [runSteps_eq_seqRun]
  exact seqRun_ok_at _ (fun d n m hnm => runStep_fuel_ext prog pipe d hnm) F ds s s' h N hN

/-- fail fast, at one fuel: `pre` ended normally, `d` ends with `r` (not `ok`) - all at fuel `F`: the step
    list `pre ++ d :: post` ends with exactly `(s1, r)` for every budget `N ≥ F + pre.length + 1`. -/
theorem runSteps_stops_at_first_nonok_one_fuel (prog : Program) (pipe : String) (pre post : List StepDef)
    (d : StepDef) (F : Nat) (s s0 s1 : St) (r : Res)
    (hpre : StepsChainAt prog pipe F pre s s0) (hd : runStep F prog pipe d s0 = (s1, r))
    (hr : r ≠ .ok) (hf : r ≠ .outOfFuel) :
    ∀ N, F + pre.length + 1 ≤ N → runSteps N prog pipe (pre ++ d :: post) s = (s1, r) := by
  intro N hN
  rw [runSteps_eq_seqRun]
  exact seqRun_first_nonok_at _ (fun d n m hnm => runStep_fuel_ext prog pipe d hnm) F pre post d s s0 s1 r
    hpre hd hr hf N hN

/-- the same for the loop over the requested groups. -/
theorem groups_in_order_one_fuel (prog : Program) (pipe : String) (gs : List String) (F : Nat)
    (s s' : St) (h : GroupsChainAt prog pipe F gs s s') :
    ∀ N, F + gs.length < N → runGroupList N prog pipe gs s = (s', .ok) := by
  intro N hN
  rw [runGroupList_eq_seqRun]
  exact seqRun_ok_at _ (fun g n m hnm => runStepGroup_fuel_ext prog pipe g false hnm) F gs s s' h N hN

theorem runGroupList_stops_at_first_nonok_one_fuel (prog : Program) (pipe : String) (pre post : List String)
    (g : String) (F : Nat) (s s0 s1 : St) (r : Res)
    (hpre : GroupsChainAt prog pipe F pre s s0) (hg : runStepGroup F prog pipe g false s0 = (s1, r))
    (hr : r ≠ .ok) (hf : r ≠ .outOfFuel) :
    ∀ N, F + pre.length + 1 ≤ N → runGroupList N prog pipe (pre ++ g :: post) s = (s1, r) := by
  intro N hN
  rw [runGroupList_eq_seqRun]
  exact seqRun_first_nonok_at _ (fun g n m hnm => runStepGroup_fuel_ext prog pipe g false hnm) F pre post g
    s s0 s1 r hpre hg hr hf N hN

/-! ## the success group: once, after all requested groups completed, and only then -/

/-- **The success group runs after all requested groups ended normally, from the state they left, and
    only then**: if the loop over the groups ended in any other way (error, Stop, …), the main phase ends
    there with that result and that state — the success group is not entered. (A success group name that
    is `None` or empty means "none".) -/
theorem success_only_after_all_ok (fuel : Nat) (prog : Program) (pipe : String) (groups : List String)
    (success : Option String) (s : St) :
    (∀ s1, runGroupList fuel prog pipe groups s = (s1, .ok) →
        mainPhase fuel prog pipe groups success s =
          (if nameGiven success then runStepGroup fuel prog pipe (success.getD "") false s1 else (s1, .ok))) ∧
    (∀ s1 r, runGroupList fuel prog pipe groups s = (s1, r) → r ≠ .ok →
        mainPhase fuel prog pipe groups success s = (s1, r)) := by
  constructor
  · intro s1 h; rw [mainPhase_eq, h]
  · intro s1 r h hr; rw [mainPhase_eq, h]; cases r <;> simp_all

/-! ## routing of the main phase's result -/

/-- **`run_step_groups`, the readable characterisation** (for a non-empty list of groups; an empty list
    is a `ValueError`): run the main phase; any result other than an error — normal completion, Stop,
    StopPipeline — is handed on as it is (no handler runs); on an error the failure group, if one is
    named, runs **once**, from the state the failure left, and its outcome decides (`handlerOutcome`):
    ended normally (this includes every error of its own, see `failure_group_errors_dropped`) ⇒ the
    ORIGINAL error; StopStepGroup ⇒ quiet end; Stop / StopPipeline ⇒ that instruction. -/
theorem runGroups_char (fuel : Nat) (prog : Program) (pipe : String) (g : String) (gs : List String)
    (success failure : Option String) (s : St) :
    runGroups (fuel + 1) prog pipe (g :: gs) success failure s =
      (match mainPhase fuel prog pipe (g :: gs) success s with
       | (s1, .err e h) =>
         if hasFailureGroup failure then handlerOutcome e h (runFailureGroup fuel prog pipe failure s1)
         else (s1, .err e h)
       | other => other) :=
  runGroups_char_eq fuel prog pipe g gs success failure s

/-- no error escapes ⇒ the run of the groups returns normally, with the final context of the main phase -/
theorem runGroups_ok (fuel : Nat) (prog : Program) (pipe : String) (g : String) (gs : List String)
    (success failure : Option String) (s s1 : St)
    (hm : mainPhase fuel prog pipe (g :: gs) success s = (s1, .ok)) :
    runGroups (fuel + 1) prog pipe (g :: gs) success failure s = (s1, .ok) := by
  rw [runGroups_char, hm]

/-- an error with no failure group named: the caller gets that error, nothing else runs -/
theorem runGroups_err_no_handler (fuel : Nat) (prog : Program) (pipe : String) (g : String) (gs : List String)
    (success failure : Option String) (s s1 : St) (e : ExcV) (h : Bool)
    (hm : mainPhase fuel prog pipe (g :: gs) success s = (s1, .err e h))
    (hf : hasFailureGroup failure = false) :
    runGroups (fuel + 1) prog pipe (g :: gs) success failure s = (s1, .err e h) := by
  rw [runGroups_char, hm]; simp [hf]

/-- an error, the failure group ran (once, from `s1`) and ended without a Stop instruction — whether its
    steps succeeded or failed: **the caller receives the original error** -/
theorem runGroups_err_handler_done (fuel : Nat) (prog : Program) (pipe : String) (g : String) (gs : List String)
    (success failure : Option String) (s s1 s2 : St) (e : ExcV) (h : Bool)
    (hm : mainPhase fuel prog pipe (g :: gs) success s = (s1, .err e h))
    (hf : hasFailureGroup failure = true)
    (hh : runFailureGroup fuel prog pipe failure s1 = (s2, .ok)) :
    runGroups (fuel + 1) prog pipe (g :: gs) success failure s = (s2, .err e h) := by
  rw [runGroups_char, hm]; simp [hf, hh, handlerOutcome]

/-- only a Stop instruction issued by the failure group itself changes the outcome: StopStepGroup ⇒ quiet
    end; Stop / StopPipeline ⇒ that instruction -/
theorem runGroups_err_handler_stops (fuel : Nat) (prog : Program) (pipe : String) (g : String) (gs : List String)
    (success failure : Option String) (s s1 s2 : St) (e : ExcV) (h : Bool)
    (hm : mainPhase fuel prog pipe (g :: gs) success s = (s1, .err e h))
    (hf : hasFailureGroup failure = true) :
    (runFailureGroup fuel prog pipe failure s1 = (s2, .stopGroup) →
       runGroups (fuel + 1) prog pipe (g :: gs) success failure s = (s2, .ok)) ∧
    (runFailureGroup fuel prog pipe failure s1 = (s2, .stop) →
       runGroups (fuel + 1) prog pipe (g :: gs) success failure s = (s2, .stop)) ∧
    (runFailureGroup fuel prog pipe failure s1 = (s2, .stopPipeline) →
       runGroups (fuel + 1) prog pipe (g :: gs) success failure s = (s2, .stopPipeline)) := by
  refine ⟨?_, ?_, ?_⟩ <;> intro hh <;> rw [runGroups_char, hm] <;> simp [hf, hh, handlerOutcome]

/-- **An error raised inside the failure group never comes out of it** — nor does a jump or a call:
    for all programs, groups, states and fuel `run_failure_step_group` ends normally, with a Stop-family
    instruction, or (model artefact) out of fuel. -/
theorem failure_group_errors_dropped (fuel : Nat) (prog : Program) (pipe : String) (g : Option String) (s : St) :
    (∀ e h, (runFailureGroup fuel prog pipe g s).2 ≠ .err e h) ∧
    (∀ c, (runFailureGroup fuel prog pipe g s).2 ≠ .jump c) ∧
    (∀ c, (runFailureGroup fuel prog pipe g s).2 ≠ .call c) := by
  have h := runFailureGroup_result fuel prog pipe g s
  refine ⟨?_, ?_, ?_⟩ <;> intros <;> intro hc <;> rw [hc] at h <;> simp at h

/-- the failure group's own step-level error is turned into a normal end of the handler -/
theorem failure_group_error_is_swallowed (fuel : Nat) (prog : Program) (pipe name : String) (s s1 : St)
    (e : ExcV) (h : Bool) (hn : name ≠ "")
    (hg : runStepGroup fuel prog pipe name true s = (s1, .err e h)) :
    runFailureGroup (fuel + 1) prog pipe (some name) s = (s1, .ok) := by
  rw [runFailureGroup_eq fuel prog pipe name s hn, hg]

/-- **A malformed failure group cannot replace the original error either.** When what stands under the
    failure group's name is not a sequence at all and has no length (`on_failure: 42`, `1.5`, `true`, a
    tagged scalar - a yaml slip), looking the group up raises; that is one more "the failure handler
    failed": `run_failure_step_group` ends normally, no step having run. -/
theorem malformed_failure_group_is_swallowed (fuel : Nat) (prog : Program) (pipe name : String) (s : St)
    (n m : String) (hn : name ≠ "") (hg : getPipelineSteps prog pipe name = .error (n, m)) :
    runFailureGroup (fuel + 2) prog pipe (some name) s = ((raiseNew s n m).1, .ok) := by
  rw [runFailureGroup_eq (fuel + 1) prog pipe name s hn, runStepGroup_unsized fuel prog pipe name true s n m hg hn]
  rfl

/-- … hence with such a failure group the caller of `run_step_groups` still receives the original error
    (same exception object), and nothing but the exception counter of the run has changed. -/
theorem runGroups_err_handler_malformed (fuel : Nat) (prog : Program) (pipe : String) (g : String) (gs : List String)
    (success : Option String) (name : String) (s s1 : St) (e : ExcV) (h : Bool) (n m : String) (hn : name ≠ "")
    (hm : mainPhase (fuel + 2) prog pipe (g :: gs) success s = (s1, .err e h))
    (hg : getPipelineSteps prog pipe name = .error (n, m)) :
    runGroups (fuel + 3) prog pipe (g :: gs) success (some name) s = ((raiseNew s1 n m).1, .err e h) :=
  runGroups_err_handler_done (fuel + 2) prog pipe g gs success (some name) s s1 _ e h hm
    (by simp [hasFailureGroup, hn])
    (malformed_failure_group_is_swallowed fuel prog pipe name s1 n m hn hg)

/-- **The caller receives the original error**: if `run_step_groups` ends with `.err e h` then the main
    phase ended with that very exception object (same id, name, message, same `handled` flag); the final
    state is the main phase's (no handler) or the failure group's, which ran from there and ended
    normally. An error raised by the failure group never replaces it. -/
theorem runGroups_err_is_original (fuel : Nat) (prog : Program) (pipe : String) (g : String) (gs : List String)
    (success failure : Option String) (s s' : St) (e : ExcV) (h : Bool)
    (hr : runGroups (fuel + 1) prog pipe (g :: gs) success failure s = (s', .err e h)) :
    ∃ s1, mainPhase fuel prog pipe (g :: gs) success s = (s1, .err e h) ∧
      ((hasFailureGroup failure = false ∧ s' = s1) ∨
       (hasFailureGroup failure = true ∧ runFailureGroup fuel prog pipe failure s1 = (s', .ok))) :=
  runGroups_err_origin fuel prog pipe g gs success failure s s' e h hr

/-- … and further down: that error of the main phase is the error of one of the requested groups (all
    groups before it having ended normally, in order), or — all requested groups having ended normally —
    of the success group. -/
theorem mainPhase_err_origin (fuel : Nat) (prog : Program) (pipe : String) (groups : List String)
    (success : Option String) (s s1 : St) (e : ExcV) (h : Bool)
    (hm : mainPhase fuel prog pipe groups success s = (s1, .err e h)) :
    (∃ pre g post s0, groups = pre ++ g :: post ∧ GroupsChain prog pipe fuel pre s s0 ∧ pre.length < fuel ∧
        runStepGroup (fuel - pre.length - 1) prog pipe g false s0 = (s1, .err e h)) ∨
    (∃ s0, runGroupList fuel prog pipe groups s = (s0, .ok) ∧ nameGiven success = true ∧
        runStepGroup fuel prog pipe (success.getD "") false s0 = (s1, .err e h)) := by
  rw [mainPhase_eq] at hm
  generalize hl : runGroupList fuel prog pipe groups s = p at hm
  obtain ⟨s0, r⟩ := p
  by_cases hok : r = .ok
  · subst hok
    simp only [] at hm
    by_cases hn : nameGiven success = true
    · rw [if_pos hn] at hm; exact .inr ⟨s0, rfl, hn, hm⟩
    · rw [if_neg hn] at hm; simp at hm
  · have : (s0, r) = (s1, .err e h) := by cases r <;> simp_all
    injection this with h1 h2
    subst h1 h2
    exact .inl (runGroupList_nonok_origin prog pipe groups fuel s s0 _ hl (by simp) (by simp))

/-! ## the handler, counted on the observable trace -/

/-- how many events of the probe trace carry tag `t` -/
def countTag (t : String) (evs : List Event) : Nat := (evs.filter (·.tag == t)).length

/-- **The failure group runs at most once per activation of `run_step_groups`, and not at all when the main
    phase did not fail - read off the probe trace.** Let `t` be a tag no step of the main phase emits (`hmain`)
    and of which one run of the failure group, from whatever state, emits exactly `k` events (`hhand`; `k = 1` for
    the tag of a step the handler executes once - e.g. its first step). Then over the whole activation the
    number of `t`-events grows by exactly `k` when the main phase ended in an error and a failure group is
    named, and by `0` in every other case: normal completion, Stop / StopPipeline, no handler named. -/
theorem handler_runs_once_on_trace (fuel : Nat) (prog : Program) (pipe : String) (g : String) (gs : List String)
    (success failure : Option String) (s : St) (t : String) (k : Nat)
    (hmain : countTag t (mainPhase fuel prog pipe (g :: gs) success s).1.trace = countTag t s.trace)
    (hhand : ∀ s1, countTag t (runFailureGroup fuel prog pipe failure s1).1.trace = countTag t s1.trace + k) :
    countTag t (runGroups (fuel + 1) prog pipe (g :: gs) success failure s).1.trace =
      countTag t s.trace +
        (if (mainPhase fuel prog pipe (g :: gs) success s).2.isErr && hasFailureGroup failure then k else 0) := by
  rw [runGroups_char]
  generalize mainPhase fuel prog pipe (g :: gs) success s = p at hmain
  obtain ⟨s1, r⟩ := p
  cases r with
  | err e h =>
    simp only [Res.isErr, Bool.true_and]
    by_cases hf : hasFailureGroup failure = true
    · simp only [hf, if_true]
      have h1 := hhand s1
      generalize runFailureGroup fuel prog pipe failure s1 = q at h1
      obtain ⟨s2, r2⟩ := q
      have : (handlerOutcome e h (s2, r2)).1 = s2 := by cases r2 <;> rfl
      rw [this, h1, hmain]
    · simp only [hf, Bool.false_eq_true, if_false, Nat.add_zero]; exact hmain
  | _ => simp only [Res.isErr, Bool.false_and, Bool.false_eq_true, if_false, Nat.add_zero]; exact hmain

/-! ## names that are no group names, `groups` that is no collection (the two `assert`s, the `for`) -/

/-- **`assert step_group_name`**: the empty string is no group name. Running the group `''` raises
    AssertionError before anything is looked up (whatever stands under `''` in the yaml) - an error of
    the phase it occurs in like any other: -/
theorem empty_group_name_raises (fuel : Nat) (prog : Program) (pipe : String) (raiseStop : Bool) (s : St) :
    runStepGroup (fuel + 1) prog pipe "" raiseStop s = raiseNew s "AssertionError" "" :=
  runStepGroup_empty_name fuel prog pipe raiseStop s

/-- … as a requested group (`groups=['a', '']`, `jump: ''`, `call: {groups: ['a', '']}`): the groups before
    it ran in order, nothing after it runs, the main phase ends with the AssertionError (so the failure
    group runs and the caller receives it, by `runGroups_char`). -/
theorem empty_group_name_in_groups (prog : Program) (pipe : String) (pre post : List String)
    (fuel : Nat) (s s0 : St) (hpre : GroupsChain prog pipe (fuel + 2) pre s s0) (hlen : pre.length ≤ fuel) :
    runGroupList (fuel + 2) prog pipe (pre ++ "" :: post) s = raiseNew s0 "AssertionError" "" := by
  have h := runGroupList_stops_at_first_nonok prog pipe pre post "" (fuel + 2) s s0
    (raiseNew s0 "AssertionError" "").1 (raiseNew s0 "AssertionError" "").2 hpre (by omega)
    (by
      obtain ⟨k, hk⟩ : ∃ k, fuel + 2 - pre.length - 1 = k + 1 := ⟨fuel - pre.length, by omega⟩
      rw [hk, runStepGroup_empty_name])
    (by simp [raiseNew])
  exact h

/-- a success group named `''` is "no success group" (`if success_group:`), a failure group named `''`
    "no failure group" (`if failure_group:`): the `assert` is never reached for them. -/
theorem empty_handler_names_mean_none (fuel : Nat) (prog : Program) (pipe : String) (groups : List String) (s : St) :
    mainPhase fuel prog pipe groups (some "") s = mainPhase fuel prog pipe groups none s ∧
    hasFailureGroup (some "") = false := by
  constructor
  · unfold mainPhase
    generalize runGroupList fuel prog pipe groups s = p
    obtain ⟨s1, r⟩ := p
    cases r <;> rfl
  · rfl

/-- **`groups` that cannot be iterated** (`groups: 5`): no group runs; the `for` raises TypeError inside
    the `try` of `run_step_groups`, so the failure group given (if any) runs once from there and decides
    as for every other error - ended normally: the caller receives that TypeError; StopStepGroup: quiet
    end; Stop / StopPipeline: that instruction. -/
theorem groups_not_iterable (fuel : Nat) (prog : Program) (pi : PipeInst) (pd : PipeDef) (s s1 : St)
    (hp : prog.find? pi.name = some pd) (hgb : pi.groupsBad = true)
    (hprep : prepareContext pd pi { s with stack := pi.name :: s.stack } = (s1, .ok)) :
    let e : ExcV := ⟨s1.nextExc, "TypeError", "~object is not iterable"⟩
    let s1' := (raiseNew s1 "TypeError" "~object is not iterable").1
    let pop : St × Res → St × Res := fun p => ({ p.1 with stack := p.1.stack.drop 1 }, p.2)
    runPipeline (fuel + 1) prog pi s =
      pop (if hasFailureGroup pi.failure then
             match handlerOutcome e false (runFailureGroup fuel prog pi.name pi.failure s1') with
             | (s2, .stopPipeline) => (s2, .ok)
             | other => other
           else (s1', .err e false)) := by
  rw [runPipeline_groupsBad fuel prog pi pd s hp hgb]
  simp only [hprep]
  by_cases hf : hasFailureGroup pi.failure = true
  · simp only [hf, if_true]
    generalize runFailureGroup fuel prog pi.name pi.failure _ = q
    obtain ⟨s2, r2⟩ := q
    cases r2 <;> rfl
  · simp only [hf]; rfl

/-! ## what the caller of the pipeline gets -/

/-- an error leaving `_run_pipeline` is the parser's error (after the failure group ran once) or the
    error `run_step_groups` ended with — the same exception object. -/
theorem pipeline_err_is_original (fuel : Nat) (prog : Program) (pi : PipeInst) (pd : PipeDef) (s s' : St)
    (e : ExcV) (h : Bool) (hp : prog.find? pi.name = some pd) (hgb : pi.groupsBad = false)
    (hr : runPipeline (fuel + 1) prog pi s = (s', .err e h)) :
    (∃ s1 s2, prepareContext pd pi { s with stack := pi.name :: s.stack } = (s1, .err e h) ∧
        (runFailureGroup fuel prog pi.name (effectiveGroups pi).2.2 s1 = (s2, .ok) ∨
         runFailureGroup fuel prog pi.name (effectiveGroups pi).2.2 s1 = (s2, .stopGroup)) ∧
        s' = { s2 with stack := s2.stack.drop 1 }) ∨
    (∃ s1 s2, prepareContext pd pi { s with stack := pi.name :: s.stack } = (s1, .ok) ∧
        runGroups fuel prog pi.name (effectiveGroups pi).1 (effectiveGroups pi).2.1 (effectiveGroups pi).2.2 s1
          = (s2, .err e h) ∧
        s' = { s2 with stack := s2.stack.drop 1 }) :=
  runPipeline_err_origin fuel prog pi pd s s' e h hp hgb hr

/-- **What the API caller gets** (`Pipeline.run`): it returns normally (with the final context `s'.ctx`)
    iff the pipeline ended normally or with a Stop-family instruction; it raises `e` iff the pipeline
    ended with the error `e` — exactly that exception object. -/
theorem root_outcome (fuel : Nat) (prog : Program) (pi : PipeInst) (s s' : St) :
    (runRoot fuel prog pi s = (s', .ok) ↔
       ∃ r, runPipeline fuel prog pi s = (s', r) ∧ (r = .ok ∨ r.isStopFamily = true)) ∧
    (∀ e h, runRoot fuel prog pi s = (s', .err e h) ↔ runPipeline fuel prog pi s = (s', .err e h)) :=
  ⟨runRoot_ok_iff fuel prog pi s s', fun e h => runRoot_err_iff fuel prog pi s s' e h⟩

/-- **No event is ever taken back**: whatever the routing does (handlers, Stops, nested pipelines), the
    probe trace at the end of any run extends the trace at its beginning — so "no later step ran" can be
    read off the final trace. -/
theorem trace_only_grows (fuel : Nat) (prog : Program) (pi : PipeInst) (s : St) :
    ∃ evs, (runRoot fuel prog pi s).1.trace = s.trace ++ evs :=
  runRoot_rel tracePrefixRel_global prog fuel pi s

/-! ## non-vacuity: concrete runs -/

def probe (tag : String) : StepDef :=
  { name := some "vprobe", inArgs := some [("p", .dict [(.str "tag", .str tag)])] }

def failing (tag err : String) : StepDef :=
  { name := some "vprobe", inArgs := some [("p", .dict [(.str "tag", .str tag), (.str "failRest", .str err)])] }

/-- two requested groups, the second fails at its second step; the failure group fails itself at its
    second step -/
def demoProg : Program := ⟨[{ name := "main", groups := [
  ("a", .steps [probe "a1", probe "a2"]),
  ("b", .steps [probe "b1", failing "b2" "E1", probe "b3"]),
  ("c", .steps [probe "c1"]),
  ("good", .steps [probe "ok1"]),
  ("bad", .steps [probe "f1", failing "f2" "E2", probe "f3"]),
  ("quiet", .steps [probe "q1", { name := some "pypyr.steps.stopstepgroup", simple := true }, probe "q2"]),
  ("slip", .unsized),                                             -- `slip: 42`
  ("word", .str "zq"),                                            -- `word: zq`
  ("items", .steps [probe "i1", itemStep (.int 3), probe "i2"])] }]⟩  -- `- 3` between two steps

/-- declaration order up to the failure; nothing of the rest of `b`, nothing of `c`, no success group;
    the failure group once, up to *its* failure; the caller gets the ORIGINAL error (id 0, `E1`), not the
    failure group's (id 1, `E2`). -/
example :
    let r := runRoot 50 demoProg { name := "main", groups := some ["a", "b", "c"], success := some "good",
                                    failure := some "bad" } {}
    r.2 = .err ⟨0, "E1", "boom b2"⟩ false ∧
    r.1.trace.map (·.tag) = ["a1", "a2", "b1", "b2", "f1", "f2"] ∧ r.1.nextExc = 2 := by
  decide +kernel

/-- without the failing group: all requested groups in order, then the success group once; normal return -/
example :
    let r := runRoot 50 demoProg { name := "main", groups := some ["a", "c"], success := some "good",
                                    failure := some "bad" } {}
    r.2 = .ok ∧ r.1.trace.map (·.tag) = ["a1", "a2", "c1", "ok1"] := by
  decide +kernel

/-- a StopStepGroup issued by the failure group turns the failure into a quiet end -/
example :
    let r := runRoot 50 demoProg { name := "main", groups := some ["a", "b", "c"], success := some "good",
                                    failure := some "quiet" } {}
    r.2 = .ok ∧ r.1.trace.map (·.tag) = ["a1", "a2", "b1", "b2", "q1"] := by
  decide +kernel

/-- a failure group that is not a sequence of steps (a scalar without a length; a string; a sequence with
    an item that is no step): its own TypeError / module-not-found / AttributeError never replaces the
    original error `E1` (exception object 0) -/
example :
    (runRoot 50 demoProg { name := "main", groups := some ["a", "b", "c"], success := some "good",
                           failure := some "slip" } {}).2 = .err ⟨0, "E1", "boom b2"⟩ false ∧
    (runRoot 50 demoProg { name := "main", groups := some ["a", "b", "c"], success := some "good",
                           failure := some "word" } {}).2 = .err ⟨0, "E1", "boom b2"⟩ false ∧
    (let r := runRoot 50 demoProg { name := "main", groups := some ["a", "b", "c"], success := some "good",
                                     failure := some "items" } {}
     r.2 = .err ⟨0, "E1", "boom b2"⟩ false ∧ r.1.trace.map (·.tag) = ["a1", "a2", "b1", "b2", "i1"]) := by
  decide +kernel

/-- the hypothesis of `malformed_failure_group_is_swallowed` / `runGroups_err_handler_malformed` on `slip` -/
example : getPipelineSteps demoProg "main" "slip" = .error ("TypeError", "~object of this type has no len()") := by
  rfl

/-- … while the same shapes as a *requested* group are that group's own error -/
example :
    (runRoot 50 demoProg { name := "main", groups := some ["a", "slip", "c"] } {}).2 =
      .err ⟨0, "TypeError", "~object of this type has no len()"⟩ false ∧
    (runRoot 50 demoProg { name := "main", groups := some ["word"] } {}).2 =
      .err ⟨0, "pypyr.errors.PyModuleNotFoundError", "~module not found"⟩ false := by
  decide +kernel

/-- `groups=['a', '', 'c']`: `a` ran, `''` is no group name - the AssertionError ends the main phase (`c` and
    the success group do not run), the failure group runs once, the caller receives the AssertionError;
    `groups: 5`: no group runs, the failure group that was given runs once, the caller receives the TypeError -/
example :
    (let r := runRoot 50 demoProg { name := "main", groups := some ["a", "", "c"], success := some "good",
                                     failure := some "bad" } {}
     r.2 = .err ⟨0, "AssertionError", ""⟩ false ∧ r.1.trace.map (·.tag) = ["a1", "a2", "f1", "f2"]) ∧
    (let r := runRoot 50 demoProg { name := "main", groupsBad := true, success := some "c", failure := some "good" } {}
     r.2 = .err ⟨0, "TypeError", "~object is not iterable"⟩ false ∧ r.1.trace.map (·.tag) = ["ok1"]) := by
  decide +kernel

/-- the hypotheses of `runSteps_stops_at_first_nonok_one_fuel` on group `b` of the demo at the one fuel 20:
    `b1` ends normally, `b2` fails - so the list ends with that error for every budget ≥ 22. -/
example :
    let s : St := { stack := ["main"] }
    (∃ s0, StepsChainAt demoProg "main" 20 [probe "b1"] s s0 ∧
      (runStep 20 demoProg "main" (failing "b2" "E1") s0).2 = .err ⟨0, "E1", "boom b2"⟩ false) ∧
    (runSteps 22 demoProg "main" ([probe "b1"] ++ failing "b2" "E1" :: [probe "b3"]) s).2 =
      .err ⟨0, "E1", "boom b2"⟩ false := by
  refine ⟨⟨(runStep 20 demoProg "main" (probe "b1") { stack := ["main"] }).1,
    ⟨_, Prod.ext rfl (by decide +kernel : (runStep 20 demoProg "main" (probe "b1") { stack := ["main"] }).2 = .ok), rfl⟩,
    ?_⟩, ?_⟩
  · decide +kernel
  · decide +kernel

/-- `handler_runs_once_on_trace` on the demo, tag `f1` (the first step of the failure group `bad`): the main phase
    emits none, one run of the handler exactly one - so the activation that fails shows `f1` once, the one that
    does not fail not at all. -/
example :
    let s : St := { stack := ["main"] }
    countTag "f1" (mainPhase 40 demoProg "main" ["a", "b", "c"] (some "good") s).1.trace = countTag "f1" s.trace ∧
    countTag "f1" (runFailureGroup 40 demoProg "main" (some "bad") s).1.trace = countTag "f1" s.trace + 1 ∧
    countTag "f1" (runGroups 41 demoProg "main" ["a", "b", "c"] (some "good") (some "bad") s).1.trace = 1 ∧
    countTag "f1" (runGroups 41 demoProg "main" ["a", "c"] (some "good") (some "bad") s).1.trace = 0 := by
  decide +kernel

/-- the hypotheses of `runGroups_err_handler_done` hold on the first run: main phase error, handler named,
    handler ended "normally" although its own step failed -/
example :
    let r1 := mainPhase 40 demoProg "main" ["a", "b", "c"] (some "good") { stack := ["main"] }
    let r2 := runFailureGroup 40 demoProg "main" (some "bad") r1.1
    r1.2 = .err ⟨0, "E1", "boom b2"⟩ false ∧ hasFailureGroup (some "bad") = true ∧
      r2.2 = .ok ∧ r2.1.nextExc = 2 := by
  decide +kernel

/-- the defaulting rule on the four interesting argument patterns -/
example :
    effectiveGroups { name := "p" } = (["steps"], some "on_success", some "on_failure") ∧
    effectiveGroups { name := "p", success := some "sg" } = (["steps"], some "sg", none) ∧
    effectiveGroups { name := "p", groups := some ["g"] } = (["g"], none, none) ∧
    effectiveGroups { name := "p", groups := some [], failure := some "" } =
      (["steps"], some "on_success", some "on_failure") := by
  decide +kernel

/-! ## the harness's oracle is the model -/

/-- **`floworacle.straight_oracle` = the model, for every straight-line pipeline.** The directed C01 / C02
    families judge the implementation against a small Python oracle (`harness/floworacle.py: straight_oracle`);
    `C01o.oracle` is that function transcribed (`Props/Lemmas/C01_Oracle.lean`), `C01o.renderProg` its
    `render_straight`. For every list of groups of the seven step kinds (succeeds / fails / fails swallowed /
    never runs in five spellings / the three stop instructions), every `groups`, `success`, `failure` argument
    (requested names non-empty), every start state without `runErrors`, every fuel above a bound linear in the
    input: the model's run ends, with exactly the oracle's probe events in order, exactly the oracle's number of
    `runErrors` entries, and the oracle's outcome - error name and message, or success (Stop, StopPipeline,
    StopStepGroup included). So what the families check the implementation against is not a second opinion:
    it is the model the theorems of this file are about. -/
theorem straight_oracle_is_the_model (gs : List (String × List C01o.SStep)) (req : Option (List String))
    (succ fail : Option String) (s : St) (fuel : Nat)
    (hre : Ctx.get? s.ctx "runErrors" = none)
    (hreq : ∀ g ∈ (C01o.oDefault req succ fail).1, g ≠ "")
    (hf : (C01o.oDefault req succ fail).1.length + C01o.maxLen gs + 7 ≤ fuel) :
    let d := C01o.oDefault req succ fail
    let o := C01o.oracle gs d.1 d.2.1 d.2.2 {}
    ∃ s' r, runRoot fuel (C01o.renderProg gs) { name := "main", groups := req, success := succ, failure := fail } s = (s', r) ∧
      s'.trace.map (·.tag) = s.trace.map (·.tag) ++ o.1.tags ∧
      (C07.runErrorsOf s').length = o.1.nerr ∧
      (match C01o.outcomeOf o.2 with
       | some (n, m) => ∃ e h, r = .err e h ∧ e.name = n ∧ e.msg = m
       | none => r = .ok) :=
  C01o.straight_oracle_eq_model gs req succ fail s fuel hre hreq hf

/-- the oracle's defaulting is `effectiveGroups` -/
theorem oracle_defaulting (req : Option (List String)) (succ fail : Option String) :
    effectiveGroups { name := "main", groups := req, success := succ, failure := fail } = C01o.oDefault req succ fail :=
  C01o.oDefault_eq req succ fail

/-- hypotheses satisfiable, and the statement evaluated on one case of `c01_family` (failure in `steps`, the
    handler ends with StopStepGroup): the model's run = the oracle's answer -/
example :
    let gs : List (String × List C01o.SStep) :=
      [("steps", [.ok "s0", .fail "s1" "ValueError" false, .ok "s2"]), ("on_success", [.ok "os"]),
       ("on_failure", [.ok "h1", .stopGroup, .ok "h3"])]
    let r := runRoot 20 (C01o.renderProg gs) { name := "main" } {}
    C01o.oDefault none none none = (["steps"], some "on_success", some "on_failure") ∧
    C01o.oracle gs ["steps"] (some "on_success") (some "on_failure") {} = (⟨["s0", "s1", "h1"], 1⟩, .ok) ∧
    r.1.trace.map (·.tag) = ["s0", "s1", "h1"] ∧ r.2 = .ok ∧ (C07.runErrorsOf r.1).length = 1 := by
  decide +kernel


/-! ## a failure handler that hands over (jump / call) and fails again -/

/-- **A jump inside the failure group.** When the failure group's steps end with a jump, the jumped-to
    groups are run from there (with the jump's own success / failure groups); whatever ERROR they end
    with - at any depth of further jumps, calls and handlers, since the hypothesis is about the whole
    nested `run_step_groups` - the failure group has ended normally as far as its caller is concerned. -/
theorem handler_jump_error_is_dropped (fuel : Nat) (prog : Program) (pipe name : String) (ss : List StepDef)
    (s s1 s2 : St) (c : CofCfg) (e2 : ExcV) (h2 : Bool) (hn : name ≠ "")
    (hs : getPipelineSteps prog pipe name = .ok ss)
    (hj : runSteps fuel prog pipe ss s = (s1, .jump c))
    (ht : runGroups fuel prog pipe c.groups c.success c.failure s1 = (s2, .err e2 h2)) :
    runFailureGroup (fuel + 2) prog pipe (some name) s = (s2, .ok) := by
  rw [runFailureGroup_eq (fuel + 1) prog pipe name s hn, runStepGroup_eq' fuel prog pipe name true s ss hs hn, hj]
  simp only [ht]

/-- **… so the caller still receives the ORIGINAL error**: the main phase failed with `e`; the failure
    group jumped to other groups in which a second error `e2` was raised: `run_step_groups` ends with `e`
    (the same exception object, same `handled` flag), in the state the jumped-to groups left. -/
theorem runGroups_err_handler_jumps_and_fails (fuel : Nat) (prog : Program) (pipe : String) (g : String) (gs : List String)
    (success : Option String) (name : String) (ss : List StepDef) (s s1 s2 s3 : St) (e : ExcV) (h : Bool)
    (c : CofCfg) (e2 : ExcV) (h2 : Bool) (hn : name ≠ "")
    (hm : mainPhase (fuel + 2) prog pipe (g :: gs) success s = (s1, .err e h))
    (hs : getPipelineSteps prog pipe name = .ok ss)
    (hj : runSteps fuel prog pipe ss s1 = (s2, .jump c))
    (ht : runGroups fuel prog pipe c.groups c.success c.failure s2 = (s3, .err e2 h2)) :
    runGroups (fuel + 3) prog pipe (g :: gs) success (some name) s = (s3, .err e h) :=
  runGroups_err_handler_done (fuel + 2) prog pipe g gs success (some name) s s1 s3 e h hm
    (by simp [hasFailureGroup, hn])
    (handler_jump_error_is_dropped fuel prog pipe name ss s1 s2 s3 c e2 h2 hn hs hj ht)

/-- **A step of the failure group that fails** - in particular a call / switch step whose called groups
    failed (the error comes back to the step, `handled`), at any position: the steps before it ran, the
    failure group has ended normally as far as its caller is concerned. -/
theorem handler_step_error_is_dropped (fuel : Nat) (prog : Program) (pipe name : String) (ss : List StepDef)
    (s s1 : St) (e2 : ExcV) (h2 : Bool) (hn : name ≠ "")
    (hs : getPipelineSteps prog pipe name = .ok ss)
    (hj : runSteps fuel prog pipe ss s = (s1, .err e2 h2)) :
    runFailureGroup (fuel + 2) prog pipe (some name) s = (s1, .ok) := by
  rw [runFailureGroup_eq (fuel + 1) prog pipe name s hn, runStepGroup_eq' fuel prog pipe name true s ss hs hn, hj]

/-- **Whatever the failure group does**: if `run_step_groups` ends with an error at all, it is the main
    phase's - never one that was raised while the failure group (or anything it jumped to or called)
    was running: the result of `run_step_groups`, when an error, is the result of its main phase. -/
theorem handler_never_replaces_error (fuel : Nat) (prog : Program) (pipe : String) (g : String) (gs : List String)
    (success failure : Option String) (s s' : St) (e : ExcV) (h : Bool)
    (hr : runGroups (fuel + 1) prog pipe (g :: gs) success failure s = (s', .err e h)) :
    (mainPhase fuel prog pipe (g :: gs) success s).2 = .err e h := by
  obtain ⟨s1, hm, _⟩ := runGroups_err_is_original fuel prog pipe g gs success failure s s' e h hr
  rw [hm]

/-- the handler `jumper` jumps to `t`, whose second step raises `E2` -/
def handoverProg : Program := ⟨[{ name := "main", groups := [
  ("steps", .steps [probe "a", failing "f" "E1", probe "b"]),
  ("jumper", .steps [probe "h", { name := some "pypyr.steps.jump", inArgs := some [("jump", .str "t")] }, probe "nh"]),
  ("caller", .steps [probe "h", { name := some "pypyr.steps.call", inArgs := some [("call", .dict [(.str "groups", .tuple [.str "t"]), (.str "failure", .str "tf")])] }, probe "nh"]),
  ("t", .steps [probe "t1", failing "t2" "E2", probe "t3"]),
  ("tf", .steps [probe "tf1", { name := some "pypyr.steps.jump", inArgs := some [("jump", .str "t")] }])] }]⟩

/-- hypotheses satisfiable, and the conclusion on concrete runs: the failure handler jumps (calls, with a
    failure group that jumps again) to a group that raises `E2` (`E2` twice) - the caller receives `E1`,
    exception object 0 -/
example :
    (let r := runRoot 50 handoverProg { name := "main", groups := some ["steps"], failure := some "jumper" } {}
     r.2 = .err ⟨0, "E1", "boom f"⟩ false ∧ r.1.trace.map (·.tag) = ["a", "f", "h", "t1", "t2"] ∧ r.1.nextExc = 2) ∧
    (let r := runRoot 50 handoverProg { name := "main", groups := some ["steps"], failure := some "caller" } {}
     r.2 = .err ⟨0, "E1", "boom f"⟩ false ∧
     r.1.trace.map (·.tag) = ["a", "f", "h", "t1", "t2", "tf1", "t1", "t2"] ∧ r.1.nextExc = 3) := by
  decide +kernel

end Pypyr.C01
