/-
  C01 — Step-groups run in order, fail fast, and route to success/failure handlers.

  Model: `PypyrModel/Flow/Runner.lean` (`runSteps` = `run_pipeline_steps`, `runStepGroup`,
  `runGroupList` = the `for step_group in groups` loop, `runFailureGroup`, `runGroups` =
  `run_step_groups`, `runPipeline` = `_run_pipeline`, `runRoot` = `Pipeline.run`).
  `mainPhase` (Props/Lemmas/FlowRunner.lean) = the body of the `try` of `run_step_groups`:
  the requested groups in order, then the success group.

  Everything is for arbitrary programs (any steps, any decorators, any nesting of call / jump /
  pype), arbitrary states, arbitrary fuel, arbitrary list lengths (induction on the lists).
  `StepsChain prog pipe fuel pre s s'` / `GroupsChain …` (Props/Lemmas/C01_Seq.lean, `SeqChain`)
  say: the leading elements `pre` ran one after the other, each from the state its predecessor
  left, each ended normally, and the state went from `s` to `s'`.
-/
import Props.Lemmas.C01_Runner
import Props.Lemmas.FlowGlobalRun

namespace Pypyr.C01
open Pypyr Pypyr.Flow

/-! ## which groups run: the defaulting rule -/

/-- **The defaulting rule of `_run_pipeline`, closed form, for all inputs**: explicit non-empty
    `groups` are kept together with whatever success/failure were (or were not) given; otherwise the
    group is `steps`, and `on_success`/`on_failure` are defaulted only when neither a success nor a
    failure group was given; the list of groups to run is never empty. -/
theorem effectiveGroups_spec (pi : PipeInst) :
    (∀ g gs, pi.groups = some (g :: gs) → effectiveGroups pi = (g :: gs, pi.success, pi.failure)) ∧
    (groupsGiven pi = false → nameGiven pi.success = false → nameGiven pi.failure = false →
        effectiveGroups pi = (["steps"], some "on_success", some "on_failure")) ∧
    (groupsGiven pi = false → (nameGiven pi.success = true ∨ nameGiven pi.failure = true) →
        effectiveGroups pi = (["steps"], pi.success, pi.failure)) ∧
    (effectiveGroups pi).1 ≠ [] ∧
    effectiveGroups pi =
      (if groupsGiven pi then (pi.groups.getD [], pi.success, pi.failure)
       else if !nameGiven pi.success && !nameGiven pi.failure then (["steps"], some "on_success", some "on_failure")
       else (["steps"], pi.success, pi.failure)) :=
  ⟨effectiveGroups_given pi, effectiveGroups_default_all pi, effectiveGroups_default_groups_only pi,
   effectiveGroups_nonempty pi, effectiveGroups_eq pi⟩

/-! ## steps of a group: declaration order, fail fast -/

/-- **Steps run in declaration order**: a step list ends normally exactly when its steps ran left to
    right, each starting from the state its predecessor left and each ending normally; the final
    state is the last step's. (`ds.length < fuel`: the fuel sufficed.) -/
theorem steps_in_declaration_order (prog : Program) (pipe : String) (ds : List StepDef) (fuel : Nat) (s s' : St) :
    runSteps fuel prog pipe ds s = (s', .ok) ↔ (ds.length < fuel ∧ StepsChain prog pipe fuel ds s s') := by
  rw [runSteps_eq_seqRun]; exact seqRun_ok_iff _ ds fuel s s'

/-- **Fail fast inside a group** (and the same for every other way of not ending normally): when the
    steps `pre` ended normally and the next step `d` ends with `r ≠ ok` — an error, a Stop, a jump — the
    whole step list ends with exactly that result in exactly that step's final state: no step of `post`
    runs (the result does not depend on `post` at all). -/
theorem runSteps_stops_at_first_nonok (prog : Program) (pipe : String) (pre post : List StepDef) (d : StepDef)
    (fuel : Nat) (s s0 s1 : St) (r : Res)
    (hpre : StepsChain prog pipe fuel pre s s0) (hlen : pre.length < fuel)
    (hd : runStep (fuel - pre.length - 1) prog pipe d s0 = (s1, r)) (hr : r ≠ .ok) :
    runSteps fuel prog pipe (pre ++ d :: post) s = (s1, r) := by
  rw [runSteps_eq_seqRun]
  exact seqRun_first_nonok _ pre post d fuel s s0 s1 r hpre hlen hd hr

/-- … conversely: whenever a step list ends with anything but `ok`, that result is the result of one of
    its steps, all steps before it ended normally in order, and the final state is that step's. -/
theorem runSteps_nonok_origin (prog : Program) (pipe : String) (ds : List StepDef) (fuel : Nat) (s s' : St) (r : Res)
    (h : runSteps fuel prog pipe ds s = (s', r)) (hr : r ≠ .ok) (hf : r ≠ .outOfFuel) :
    ∃ pre d post s0, ds = pre ++ d :: post ∧ StepsChain prog pipe fuel pre s s0 ∧ pre.length < fuel ∧
      runStep (fuel - pre.length - 1) prog pipe d s0 = (s', r) := by
  rw [runSteps_eq_seqRun] at h
  exact seqRun_nonok_origin _ ds fuel s s' r h hr hf

/-- a step that ends in an error ends its step-group with that error: the rest of the group is skipped -/
theorem failing_step_ends_group (prog : Program) (pipe g : String) (pre post : List StepDef) (d : StepDef)
    (fuel : Nat) (s s0 s1 : St) (e : ExcV) (h : Bool) (raiseStop : Bool)
    (hg : groupSteps prog pipe g = pre ++ d :: post)
    (hpre : StepsChain prog pipe fuel pre s s0) (hlen : pre.length < fuel)
    (hd : runStep (fuel - pre.length - 1) prog pipe d s0 = (s1, .err e h)) :
    runStepGroup (fuel + 1) prog pipe g raiseStop s = (s1, .err e h) := by
  rw [runStepGroup_eq' fuel prog pipe g raiseStop s _
      (getPipelineSteps_of_groupSteps prog pipe g _ (by simp) hg),
    runSteps_stops_at_first_nonok prog pipe pre post d fuel s s0 s1 _ hpre hlen hd (by simp)]

/-! ## groups: in order, group after group, fail fast -/

/-- **Groups run in the order requested, group after group**: the loop over the requested groups ends
    normally exactly when the groups ran left to right, each from the state its predecessor left, each
    ending normally. -/
theorem groups_in_order (prog : Program) (pipe : String) (gs : List String) (fuel : Nat) (s s' : St) :
    runGroupList fuel prog pipe gs s = (s', .ok) ↔ (gs.length < fuel ∧ GroupsChain prog pipe fuel gs s s') := by
  rw [runGroupList_eq_seqRun]; exact seqRun_ok_iff _ gs fuel s s'

theorem runGroupList_stops_at_first_nonok (prog : Program) (pipe : String) (pre post : List String) (g : String)
    (fuel : Nat) (s s0 s1 : St) (r : Res)
    (hpre : GroupsChain prog pipe fuel pre s s0) (hlen : pre.length < fuel)
    (hg : runStepGroup (fuel - pre.length - 1) prog pipe g false s0 = (s1, r)) (hr : r ≠ .ok) :
    runGroupList fuel prog pipe (pre ++ g :: post) s = (s1, r) := by
  rw [runGroupList_eq_seqRun]
  exact seqRun_first_nonok _ pre post g fuel s s0 s1 r hpre hlen hg hr

theorem runGroupList_nonok_origin (prog : Program) (pipe : String) (gs : List String) (fuel : Nat) (s s' : St) (r : Res)
    (h : runGroupList fuel prog pipe gs s = (s', r)) (hr : r ≠ .ok) (hf : r ≠ .outOfFuel) :
    ∃ pre g post s0, gs = pre ++ g :: post ∧ GroupsChain prog pipe fuel pre s s0 ∧ pre.length < fuel ∧
      runStepGroup (fuel - pre.length - 1) prog pipe g false s0 = (s', r) := by
  rw [runGroupList_eq_seqRun] at h
  exact seqRun_nonok_origin _ gs fuel s s' r h hr hf

/-! ## the success group: once, after all requested groups completed, and only then -/

/-- **The success group runs after all requested groups ended normally, from the state they left, and
    only then**: if the loop over the groups ended in any other way (error, Stop, …), the main phase ends
    there with that result and that state — the success group is not entered. (A success group name that
    is `None` or empty means "none".) -/
theorem success_only_after_all_ok (fuel : Nat) (prog : Program) (pipe : String) (groups : List String)
    (success : Option String) (s : St) :
    (∀ s1, runGroupList fuel prog pipe groups s = (s1, .ok) →
        mainPhase fuel prog pipe groups success s =
          (if nameGiven success then runStepGroup fuel prog pipe (success.getD "") false s1 else (s1, .ok))) ∧
    (∀ s1 r, runGroupList fuel prog pipe groups s = (s1, r) → r ≠ .ok →
        mainPhase fuel prog pipe groups success s = (s1, r)) := by
  constructor
  · intro s1 h; rw [mainPhase_eq, h]
  · intro s1 r h hr; rw [mainPhase_eq, h]; cases r <;> simp_all

/-! ## routing of the main phase's result -/

/-- **`run_step_groups`, the readable characterisation** (for a non-empty list of groups; an empty list
    is a `ValueError`): run the main phase; any result other than an error — normal completion, Stop,
    StopPipeline — is handed on as it is (no handler runs); on an error the failure group, if one is
    named, runs **once**, from the state the failure left, and its outcome decides (`handlerOutcome`):
    ended normally (this includes every error of its own, see `failure_group_errors_dropped`) ⇒ the
    ORIGINAL error; StopStepGroup ⇒ quiet end; Stop / StopPipeline ⇒ that instruction. -/
theorem runGroups_char (fuel : Nat) (prog : Program) (pipe : String) (g : String) (gs : List String)
    (success failure : Option String) (s : St) :
    runGroups (fuel + 1) prog pipe (g :: gs) success failure s =
      (match mainPhase fuel prog pipe (g :: gs) success s with
       | (s1, .err e h) =>
         if hasFailureGroup failure then handlerOutcome e h (runFailureGroup fuel prog pipe failure s1)
         else (s1, .err e h)
       | other => other) :=
  runGroups_char_eq fuel prog pipe g gs success failure s

/-- no error escapes ⇒ the run of the groups returns normally, with the final context of the main phase -/
theorem runGroups_ok (fuel : Nat) (prog : Program) (pipe : String) (g : String) (gs : List String)
    (success failure : Option String) (s s1 : St)
    (hm : mainPhase fuel prog pipe (g :: gs) success s = (s1, .ok)) :
    runGroups (fuel + 1) prog pipe (g :: gs) success failure s = (s1, .ok) := by
  rw [runGroups_char, hm]

/-- an error with no failure group named: the caller gets that error, nothing else runs -/
theorem runGroups_err_no_handler (fuel : Nat) (prog : Program) (pipe : String) (g : String) (gs : List String)
    (success failure : Option String) (s s1 : St) (e : ExcV) (h : Bool)
    (hm : mainPhase fuel prog pipe (g :: gs) success s = (s1, .err e h))
    (hf : hasFailureGroup failure = false) :
    runGroups (fuel + 1) prog pipe (g :: gs) success failure s = (s1, .err e h) := by
  rw [runGroups_char, hm]; simp [hf]

/-- an error, the failure group ran (once, from `s1`) and ended without a Stop instruction — whether its
    steps succeeded or failed: **the caller receives the original error** -/
theorem runGroups_err_handler_done (fuel : Nat) (prog : Program) (pipe : String) (g : String) (gs : List String)
    (success failure : Option String) (s s1 s2 : St) (e : ExcV) (h : Bool)
    (hm : mainPhase fuel prog pipe (g :: gs) success s = (s1, .err e h))
    (hf : hasFailureGroup failure = true)
    (hh : runFailureGroup fuel prog pipe failure s1 = (s2, .ok)) :
    runGroups (fuel + 1) prog pipe (g :: gs) success failure s = (s2, .err e h) := by
  rw [runGroups_char, hm]; simp [hf, hh, handlerOutcome]

/-- only a Stop instruction issued by the failure group itself changes the outcome: StopStepGroup ⇒ quiet
    end; Stop / StopPipeline ⇒ that instruction -/
theorem runGroups_err_handler_stops (fuel : Nat) (prog : Program) (pipe : String) (g : String) (gs : List String)
    (success failure : Option String) (s s1 s2 : St) (e : ExcV) (h : Bool)
    (hm : mainPhase fuel prog pipe (g :: gs) success s = (s1, .err e h))
    (hf : hasFailureGroup failure = true) :
    (runFailureGroup fuel prog pipe failure s1 = (s2, .stopGroup) →
       runGroups (fuel + 1) prog pipe (g :: gs) success failure s = (s2, .ok)) ∧
    (runFailureGroup fuel prog pipe failure s1 = (s2, .stop) →
       runGroups (fuel + 1) prog pipe (g :: gs) success failure s = (s2, .stop)) ∧
    (runFailureGroup fuel prog pipe failure s1 = (s2, .stopPipeline) →
       runGroups (fuel + 1) prog pipe (g :: gs) success failure s = (s2, .stopPipeline)) := by
  refine ⟨?_, ?_, ?_⟩ <;> intro hh <;> rw [runGroups_char, hm] <;> simp [hf, hh, handlerOutcome]

/-- **An error raised inside the failure group never comes out of it** — nor does a jump or a call:
    for all programs, groups, states and fuel `run_failure_step_group` ends normally, with a Stop-family
    instruction, or (model artefact) out of fuel. -/
theorem failure_group_errors_dropped (fuel : Nat) (prog : Program) (pipe : String) (g : Option String) (s : St) :
    (∀ e h, (runFailureGroup fuel prog pipe g s).2 ≠ .err e h) ∧
    (∀ c, (runFailureGroup fuel prog pipe g s).2 ≠ .jump c) ∧
    (∀ c, (runFailureGroup fuel prog pipe g s).2 ≠ .call c) := by
  have h := runFailureGroup_result fuel prog pipe g s
  refine ⟨?_, ?_, ?_⟩ <;> intros <;> intro hc <;> rw [hc] at h <;> simp at h

/-- the failure group's own step-level error is turned into a normal end of the handler -/
theorem failure_group_error_is_swallowed (fuel : Nat) (prog : Program) (pipe name : String) (s s1 : St)
    (e : ExcV) (h : Bool) (hn : name ≠ "")
    (hg : runStepGroup fuel prog pipe name true s = (s1, .err e h)) :
    runFailureGroup (fuel + 1) prog pipe (some name) s = (s1, .ok) := by
  rw [runFailureGroup_eq fuel prog pipe name s hn, hg]

/-- **A malformed failure group cannot replace the original error either.** When what stands under the
    failure group's name is not a sequence at all and has no length (`on_failure: 42`, `1.5`, `true`, a
    tagged scalar - a yaml slip), looking the group up raises; that is one more "the failure handler
    failed": `run_failure_step_group` ends normally, no step having run. -/
theorem malformed_failure_group_is_swallowed (fuel : Nat) (prog : Program) (pipe name : String) (s : St)
    (n m : String) (hn : name ≠ "") (hg : getPipelineSteps prog pipe name = .error (n, m)) :
    runFailureGroup (fuel + 2) prog pipe (some name) s = ((raiseNew s n m).1, .ok) := by
  rw [runFailureGroup_eq (fuel + 1) prog pipe name s hn, runStepGroup_unsized fuel prog pipe name true s n m hg]
  rfl

/-- … hence with such a failure group the caller of `run_step_groups` still receives the original error
    (same exception object), and nothing but the exception counter of the run has changed. -/
theorem runGroups_err_handler_malformed (fuel : Nat) (prog : Program) (pipe : String) (g : String) (gs : List String)
    (success : Option String) (name : String) (s s1 : St) (e : ExcV) (h : Bool) (n m : String) (hn : name ≠ "")
    (hm : mainPhase (fuel + 2) prog pipe (g :: gs) success s = (s1, .err e h))
    (hg : getPipelineSteps prog pipe name = .error (n, m)) :
    runGroups (fuel + 3) prog pipe (g :: gs) success (some name) s = ((raiseNew s1 n m).1, .err e h) :=
  runGroups_err_handler_done (fuel + 2) prog pipe g gs success (some name) s s1 _ e h hm
    (by simp [hasFailureGroup, hn])
    (malformed_failure_group_is_swallowed fuel prog pipe name s1 n m hn hg)

/-- **The caller receives the original error**: if `run_step_groups` ends with `.err e h` then the main
    phase ended with that very exception object (same id, name, message, same `handled` flag); the final
    state is the main phase's (no handler) or the failure group's, which ran from there and ended
    normally. An error raised by the failure group never replaces it. -/
theorem runGroups_err_is_original (fuel : Nat) (prog : Program) (pipe : String) (g : String) (gs : List String)
    (success failure : Option String) (s s' : St) (e : ExcV) (h : Bool)
    (hr : runGroups (fuel + 1) prog pipe (g :: gs) success failure s = (s', .err e h)) :
    ∃ s1, mainPhase fuel prog pipe (g :: gs) success s = (s1, .err e h) ∧
      ((hasFailureGroup failure = false ∧ s' = s1) ∨
       (hasFailureGroup failure = true ∧ runFailureGroup fuel prog pipe failure s1 = (s', .ok))) :=
  runGroups_err_origin fuel prog pipe g gs success failure s s' e h hr

/-- … and further down: that error of the main phase is the error of one of the requested groups (all
    groups before it having ended normally, in order), or — all requested groups having ended normally —
    of the success group. -/
theorem mainPhase_err_origin (fuel : Nat) (prog : Program) (pipe : String) (groups : List String)
    (success : Option String) (s s1 : St) (e : ExcV) (h : Bool)
    (hm : mainPhase fuel prog pipe groups success s = (s1, .err e h)) :
    (∃ pre g post s0, groups = pre ++ g :: post ∧ GroupsChain prog pipe fuel pre s s0 ∧ pre.length < fuel ∧
        runStepGroup (fuel - pre.length - 1) prog pipe g false s0 = (s1, .err e h)) ∨
    (∃ s0, runGroupList fuel prog pipe groups s = (s0, .ok) ∧ nameGiven success = true ∧
        runStepGroup fuel prog pipe (success.getD "") false s0 = (s1, .err e h)) := by
  rw [mainPhase_eq] at hm
  generalize hl : runGroupList fuel prog pipe groups s = p at hm
  obtain ⟨s0, r⟩ := p
  by_cases hok : r = .ok
  · subst hok
    simp only [] at hm
    by_cases hn : nameGiven success = true
    · rw [if_pos hn] at hm; exact .inr ⟨s0, rfl, hn, hm⟩
    · rw [if_neg hn] at hm; simp at hm
  · have : (s0, r) = (s1, .err e h) := by cases r <;> simp_all
    injection this with h1 h2
    subst h1 h2
    exact .inl (runGroupList_nonok_origin prog pipe groups fuel s s0 _ hl (by simp) (by simp))

/-! ## what the caller of the pipeline gets -/

/-- an error leaving `_run_pipeline` is the parser's error (after the failure group ran once) or the
    error `run_step_groups` ended with — the same exception object. -/
theorem pipeline_err_is_original (fuel : Nat) (prog : Program) (pi : PipeInst) (pd : PipeDef) (s s' : St)
    (e : ExcV) (h : Bool) (hp : prog.find? pi.name = some pd)
    (hr : runPipeline (fuel + 1) prog pi s = (s', .err e h)) :
    (∃ s1 s2, prepareContext pd pi { s with stack := pi.name :: s.stack } = (s1, .err e h) ∧
        (runFailureGroup fuel prog pi.name (effectiveGroups pi).2.2 s1 = (s2, .ok) ∨
         runFailureGroup fuel prog pi.name (effectiveGroups pi).2.2 s1 = (s2, .stopGroup)) ∧
        s' = { s2 with stack := s2.stack.drop 1 }) ∨
    (∃ s1 s2, prepareContext pd pi { s with stack := pi.name :: s.stack } = (s1, .ok) ∧
        runGroups fuel prog pi.name (effectiveGroups pi).1 (effectiveGroups pi).2.1 (effectiveGroups pi).2.2 s1
          = (s2, .err e h) ∧
        s' = { s2 with stack := s2.stack.drop 1 }) :=
  runPipeline_err_origin fuel prog pi pd s s' e h hp hr

/-- **What the API caller gets** (`Pipeline.run`): it returns normally (with the final context `s'.ctx`)
    iff the pipeline ended normally or with a Stop-family instruction; it raises `e` iff the pipeline
    ended with the error `e` — exactly that exception object. -/
theorem root_outcome (fuel : Nat) (prog : Program) (pi : PipeInst) (s s' : St) :
    (runRoot fuel prog pi s = (s', .ok) ↔
       ∃ r, runPipeline fuel prog pi s = (s', r) ∧ (r = .ok ∨ r.isStopFamily = true)) ∧
    (∀ e h, runRoot fuel prog pi s = (s', .err e h) ↔ runPipeline fuel prog pi s = (s', .err e h)) :=
  ⟨runRoot_ok_iff fuel prog pi s s', fun e h => runRoot_err_iff fuel prog pi s s' e h⟩

/-- **No event is ever taken back**: whatever the routing does (handlers, Stops, nested pipelines), the
    probe trace at the end of any run extends the trace at its beginning — so "no later step ran" can be
    read off the final trace. -/
theorem trace_only_grows (fuel : Nat) (prog : Program) (pi : PipeInst) (s : St) :
    ∃ evs, (runRoot fuel prog pi s).1.trace = s.trace ++ evs :=
  runRoot_rel tracePrefixRel_global prog fuel pi s

/-! ## non-vacuity: concrete runs -/

def probe (tag : String) : StepDef :=
  { name := some "vprobe", inArgs := some [("p", .dict [(.str "tag", .str tag)])] }

def failing (tag err : String) : StepDef :=
  { name := some "vprobe", inArgs := some [("p", .dict [(.str "tag", .str tag), (.str "failRest", .str err)])] }

/-- two requested groups, the second fails at its second step; the failure group fails itself at its
    second step -/
def demoProg : Program := ⟨[{ name := "main", groups := [
  ("a", .steps [probe "a1", probe "a2"]),
  ("b", .steps [probe "b1", failing "b2" "E1", probe "b3"]),
  ("c", .steps [probe "c1"]),
  ("good", .steps [probe "ok1"]),
  ("bad", .steps [probe "f1", failing "f2" "E2", probe "f3"]),
  ("quiet", .steps [probe "q1", { name := some "pypyr.steps.stopstepgroup", simple := true }, probe "q2"]),
  ("slip", .unsized),                                             -- `slip: 42`
  ("word", .str "zq"),                                            -- `word: zq`
  ("items", .steps [probe "i1", itemStep (.int 3), probe "i2"])] }]⟩  -- `- 3` between two steps

/-- declaration order up to the failure; nothing of the rest of `b`, nothing of `c`, no success group;
    the failure group once, up to *its* failure; the caller gets the ORIGINAL error (id 0, `E1`), not the
    failure group's (id 1, `E2`). -/
example :
    let r := runRoot 50 demoProg { name := "main", groups := some ["a", "b", "c"], success := some "good",
                                    failure := some "bad" } {}
    r.2 = .err ⟨0, "E1", "boom b2"⟩ false ∧
    r.1.trace.map (·.tag) = ["a1", "a2", "b1", "b2", "f1", "f2"] ∧ r.1.nextExc = 2 := by
  decide +kernel

/-- without the failing group: all requested groups in order, then the success group once; normal return -/
example :
    let r := runRoot 50 demoProg { name := "main", groups := some ["a", "c"], success := some "good",
                                    failure := some "bad" } {}
    r.2 = .ok ∧ r.1.trace.map (·.tag) = ["a1", "a2", "c1", "ok1"] := by
  decide +kernel

/-- a StopStepGroup issued by the failure group turns the failure into a quiet end -/
example :
    let r := runRoot 50 demoProg { name := "main", groups := some ["a", "b", "c"], success := some "good",
                                    failure := some "quiet" } {}
    r.2 = .ok ∧ r.1.trace.map (·.tag) = ["a1", "a2", "b1", "b2", "q1"] := by
  decide +kernel

/-- a failure group that is not a sequence of steps (a scalar without a length; a string; a sequence with
    an item that is no step): its own TypeError / module-not-found / AttributeError never replaces the
    original error `E1` (exception object 0) -/
example :
    (runRoot 50 demoProg { name := "main", groups := some ["a", "b", "c"], success := some "good",
                           failure := some "slip" } {}).2 = .err ⟨0, "E1", "boom b2"⟩ false ∧
    (runRoot 50 demoProg { name := "main", groups := some ["a", "b", "c"], success := some "good",
                           failure := some "word" } {}).2 = .err ⟨0, "E1", "boom b2"⟩ false ∧
    (let r := runRoot 50 demoProg { name := "main", groups := some ["a", "b", "c"], success := some "good",
                                     failure := some "items" } {}
     r.2 = .err ⟨0, "E1", "boom b2"⟩ false ∧ r.1.trace.map (·.tag) = ["a1", "a2", "b1", "b2", "i1"]) := by
  decide +kernel

/-- the hypothesis of `malformed_failure_group_is_swallowed` / `runGroups_err_handler_malformed` on `slip` -/
example : getPipelineSteps demoProg "main" "slip" = .error ("TypeError", "~object of this type has no len()") := by
  rfl

/-- … while the same shapes as a *requested* group are that group's own error -/
example :
    (runRoot 50 demoProg { name := "main", groups := some ["a", "slip", "c"] } {}).2 =
      .err ⟨0, "TypeError", "~object of this type has no len()"⟩ false ∧
    (runRoot 50 demoProg { name := "main", groups := some ["word"] } {}).2 =
      .err ⟨0, "pypyr.errors.PyModuleNotFoundError", "~module not found"⟩ false := by
  decide +kernel

/-- the hypotheses of `runGroups_err_handler_done` hold on the first run: main phase error, handler named,
    handler ended "normally" although its own step failed -/
example :
    let r1 := mainPhase 40 demoProg "main" ["a", "b", "c"] (some "good") { stack := ["main"] }
    let r2 := runFailureGroup 40 demoProg "main" (some "bad") r1.1
    r1.2 = .err ⟨0, "E1", "boom b2"⟩ false ∧ hasFailureGroup (some "bad") = true ∧
      r2.2 = .ok ∧ r2.1.nextExc = 2 := by
  decide +kernel

/-- the defaulting rule on the four interesting argument patterns -/
example :
    effectiveGroups { name := "p" } = (["steps"], some "on_success", some "on_failure") ∧
    effectiveGroups { name := "p", success := some "sg" } = (["steps"], some "sg", none) ∧
    effectiveGroups { name := "p", groups := some ["g"] } = (["g"], none, none) ∧
    effectiveGroups { name := "p", groups := some [], failure := some "" } =
      (["steps"], some "on_success", some "on_failure") := by
  decide +kernel

end Pypyr.C01
