/-
  C10 — contextmerge changes only the named paths; default never overwrites.

  Theorems about `Merge.mergeRec` / `defaultsRec` (`PypyrModel/Merge.lean`), the models of
  `Context.merge.merge_recurse` and `Context.set_defaults.defaults_recurse`, for ALL contexts,
  incoming trees, formatters and fuel (induction on the fuel that bounds the depth of the incoming
  tree; the statements are about every run that returns). Property theorems only; helper lemmas
  live in Props/Lemmas/C10_Merge.lean.

  Vocabulary (Props/Lemmas/C10_Merge.lean): `getPath cur p` — the value at the path of keys `p`
  below the dict content `cur`; the *trace* `t` returned by the model lists every incoming node
  visited with its path of FORMATTED keys and whether it was written (`true`) or only descended
  into (`false`); `Untouched t p` — `p` is not a path of the incoming tree (not a prefix of a
  visited path) and does not lie at or below a written path.

  Outside the model (objects are trees here): aliasing. `incoming_unmodified` — the incoming
  mapping is an immutable value of the model, so "the incoming mapping is left unmodified" cannot
  even be stated here; it is checked by the correspondence harness on the real objects (deep
  snapshot before/after, incl. ruamel CommentedMap inputs), as is the identity of untouched
  values. The two known ways in which the real code breaks C10 through aliasing (a `{k:ff}` result
  extended in place; the step's incoming mapping being a context value that names itself) are
  reported by the check's alias streams.
-/
import PypyrModel.Merge
import Props.Lemmas.C10_Merge
import Props.C09

namespace Pypyr.C10
open Pypyr Pypyr.Merge

/-! ## Frame condition -/

/-- **`merge_frame`, general form.** Whatever formatter is used and wherever in the context the
    merge happens (`rebuild`), every path of the old content that the incoming tree does not name
    keeps its old value. -/
theorem mergeRec_frame' (fmt : Fmt) (fuel : Nat) (rebuild : Pairs → Pairs) (cur add cur' : Pairs)
    (t : Trace) (h : mergeRec fmt fuel rebuild cur add = .ok (cur', t)) :
    ∀ p, p ≠ [] → Untouched t p → getPath cur' p = getPath cur p :=
  mergeRec_frame fmt fuel rebuild cur add cur' t h

/-- **`merge_frame`** for `Context.merge`: every path of the old context that is not a path of the
    incoming tree (after key formatting) and not below a written one keeps its old value. -/
theorem merge_frame (fuel : Nat) (root : Pairs) (add : Val) (root' : Pairs) (t : Trace)
    (h : merge fuel root add = .ok (root', t)) :
    ∀ p, p ≠ [] → Untouched t p → getPath root' p = getPath root p := by
  unfold merge mergeWith at h
  split at h
  · exact mergeRec_frame _ fuel id root _ root' t h
  · cases h

/-- In particular a top-level key that no incoming key formats to keeps its value. -/
theorem merge_frame_key (fuel : Nat) (root : Pairs) (add : Val) (root' : Pairs) (t : Trace)
    (h : merge fuel root add = .ok (root', t)) (k : Val)
    (hk : ∀ w ∈ t, w.1.head? ≠ some k) : dictGet? root' k = dictGet? root k := by
  have hne : TraceNE t := by
    unfold merge mergeWith at h
    split at h
    · exact mergeRec_trace_ne _ fuel id root _ root' t h
    · cases h
  have := merge_frame fuel root add root' t h [k] (by simp) (by
    intro w hw
    have hkw := hk w hw
    have hw0 := hne w hw
    cases hw1 : w.1 with
    | nil => exact absurd hw1 hw0
    | cons a rest =>
      rw [hw1] at hkw
      simp only [List.head?_cons, ne_eq, Option.some.injEq] at hkw
      constructor
      · intro hp; simp at hp; exact hkw hp.symm
      · intro _ hp; simp at hp; exact hkw hp.1)
  simp only [getPath_cons, getIn] at this
  cases h1 : dictGet? root' k <;> cases h2 : dictGet? root k <;> simp_all

/-! ## The type table (`merge_table`): what one incoming item does, per incoming kind × existing kind

  `mergeItem fmt recur rebuild cur k v` is the body of the `for k, v in add_me.items()` loop;
  `ctxOf (rebuild cur)` is the context as it is at that moment. Each theorem gives the new content
  and the trace entry; the written value is then read back with `dictGet?_dictSet_eq`. -/

section table
variable (fmt : Fmt) (recur : (Pairs → Pairs) → Pairs → Pairs → Except Exc (Pairs × Trace))
  (rebuild : Pairs → Pairs) (cur : Pairs) (k v fk fv : Val)

/-- Both "same mergeable kind" tests of the code fail for this pair. -/
def mergeable : Val → Val → Bool
  | .dict _, .dict _ => true
  | .list _, .list _ => true
  | .tuple _, .tuple _ => true
  | .set _, .set _ => true
  | _, _ => false

/-- Incoming string or special tag: overwrite with the formatted value, whatever is there. -/
theorem merge_table_str (hv : isStrLike v = true) (hk : fmt (ctxOf (rebuild cur)) k = .ok fk)
    (hfv : fmt (ctxOf (rebuild cur)) v = .ok fv) (hh : hashable fk = true) :
    mergeItem fmt recur rebuild cur k v = .ok (dictSet cur fk fv, [([fk], true)]) := by
  unfold mergeItem; simp [hk, hv, hfv, hh]

/-- Incoming bytes: overwrite with the bytes themselves (not formatted). -/
theorem merge_table_bytes (b : String) (hk : fmt (ctxOf (rebuild cur)) k = .ok fk) (hh : hashable fk = true) :
    mergeItem fmt recur rebuild cur k (.bytes b) = .ok (dictSet cur fk (.bytes b), [([fk], true)]) := by
  unfold mergeItem; simp [hk, isStrLike, hh]

/-- Key not in the destination: add the formatted value. -/
theorem merge_table_absent (hv : isStrLike v = false) (hb : ∀ b, v ≠ .bytes b)
    (hk : fmt (ctxOf (rebuild cur)) k = .ok fk) (hh : hashable fk = true)
    (habs : dictGet? cur fk = none) (hfv : fmt (ctxOf (rebuild cur)) v = .ok fv) :
    mergeItem fmt recur rebuild cur k v = .ok (dictSet cur fk fv, [([fk], true)]) := by
  unfold mergeItem
  cases v <;> simp_all [isStrLike]

/-- Mapping into mapping: recurse; the destination keeps every key the incoming mapping does not
    name (`mergeRec_frame'` applied to the sub-merge). -/
theorem merge_table_dict_dict (sub csub csub' : Pairs) (t : Trace)
    (hk : fmt (ctxOf (rebuild cur)) k = .ok fk) (hh : hashable fk = true)
    (hold : dictGet? cur fk = some (.dict csub))
    (hrec : recur (fun s => rebuild (dictSet cur fk (.dict s))) csub sub = .ok (csub', t)) :
    mergeItem fmt recur rebuild cur k (.dict sub) =
      .ok (dictSet cur fk (.dict csub'), ([fk], false) :: under fk t) := by
  unfold mergeItem; simp [hk, isStrLike, hh, hold, hrec]

/-- List into list: the existing members first, then the formatted incoming members. -/
theorem merge_table_list_list (ns xs ys : List Val)
    (hk : fmt (ctxOf (rebuild cur)) k = .ok fk) (hh : hashable fk = true)
    (hold : dictGet? cur fk = some (.list xs))
    (hfv : fmt (ctxOf (rebuild cur)) (.list ns) = .ok (.list ys)) :
    mergeItem fmt recur rebuild cur k (.list ns) = .ok (dictSet cur fk (.list (xs ++ ys)), [([fk], true)]) := by
  unfold mergeItem; simp [hk, isStrLike, hh, hold, hfv]

/-- Tuple into tuple: concatenation, existing members first. -/
theorem merge_table_tuple_tuple (ns xs ys : List Val)
    (hk : fmt (ctxOf (rebuild cur)) k = .ok fk) (hh : hashable fk = true)
    (hold : dictGet? cur fk = some (.tuple xs))
    (hfv : fmt (ctxOf (rebuild cur)) (.tuple ns) = .ok (.tuple ys)) :
    mergeItem fmt recur rebuild cur k (.tuple ns) = .ok (dictSet cur fk (.tuple (xs ++ ys)), [([fk], true)]) := by
  unfold mergeItem; simp [hk, isStrLike, hh, hold, hfv]

/-- Set into set: union (existing members, then the new ones not yet present). -/
theorem merge_table_set_set (ns xs ys : List Val)
    (hk : fmt (ctxOf (rebuild cur)) k = .ok fk) (hh : hashable fk = true)
    (hold : dictGet? cur fk = some (.set xs))
    (hfv : fmt (ctxOf (rebuild cur)) (.set ns) = .ok (.set ys)) :
    mergeItem fmt recur rebuild cur k (.set ns) =
      .ok (dictSet cur fk (.set (ys.foldl setInsert xs)), [([fk], true)]) := by
  unfold mergeItem; simp [hk, isStrLike, hh, hold, hfv]

/-- Any other pair (kinds differ, or scalars / None / objects): overwrite with the formatted value. -/
theorem merge_table_other (old : Val) (hv : isStrLike v = false) (hb : ∀ b, v ≠ .bytes b)
    (hk : fmt (ctxOf (rebuild cur)) k = .ok fk) (hh : hashable fk = true)
    (hold : dictGet? cur fk = some old) (hm : mergeable old v = false)
    (hfv : fmt (ctxOf (rebuild cur)) v = .ok fv) :
    mergeItem fmt recur rebuild cur k v = .ok (dictSet cur fk fv, [([fk], true)]) := by
  unfold mergeItem
  cases v <;> simp_all [isStrLike] <;> cases old <;> simp_all [mergeable]

end table

example : dictGet? (dictSet [(Val.str "a", Val.int 1)] (.str "a") (.int 2)) (.str "a") = some (.int 2) := by
  decide +kernel

/-- **`merge_lists_extend`** with the real formatter: the result is `old ++ formatted new`, where
    the formatted new members are the incoming members formatted one by one, in order (C09
    `fmt_list_elementwise`). -/
theorem merge_lists_extend (f : Nat)
    (recur : (Pairs → Pairs) → Pairs → Pairs → Except Exc (Pairs × Trace))
    (rebuild : Pairs → Pairs) (cur : Pairs) (k fk : Val) (ns xs : List Val) (r : Val)
    (hk : fmtVal (f + 1) (ctxOf (rebuild cur)) k = .ok fk) (hh : hashable fk = true)
    (hold : dictGet? cur fk = some (.list xs))
    (hfv : fmtVal (f + 1) (ctxOf (rebuild cur)) (.list ns) = .ok r) :
    ∃ ys, ys.length = ns.length ∧
      C09.All₂ (fun x y => fmtIter f (ctxOf (rebuild cur)) false x = .ok y) ns ys ∧
      mergeItem (fmtVal (f + 1)) recur rebuild cur k (.list ns) =
        .ok (dictSet cur fk (.list (xs ++ ys)), [([fk], true)]) ∧
      dictGet? (dictSet cur fk (.list (xs ++ ys))) fk = some (.list (xs ++ ys)) := by
  obtain ⟨ys, rfl, hlen, hall⟩ := C09.fmt_list_elementwise f _ false ns r hfv
  exact ⟨ys, hlen, hall, merge_table_list_list _ recur rebuild cur k fk ns xs ys hk hh hold hfv,
    dictGet?_dictSet_eq _ _ _⟩

/-- What an item wrote stays until the end of the call unless a later item names that key again:
    the value at `fk` after the whole fold is the value after the first item. -/
theorem merge_item_persists (fmt : Fmt) (n : Nat) (rebuild : Pairs → Pairs) (cur : Pairs) (k v : Val)
    (rest : Pairs) (cur1 cur2 : Pairs) (t1 t2 : Trace) (fk : Val)
    (_h1 : mergeItem fmt (mergeRec fmt n) rebuild cur k v = .ok (cur1, t1))
    (h2 : mergeRec fmt (n + 1) rebuild cur1 rest = .ok (cur2, t2))
    (hun : Untouched t2 [fk]) : dictGet? cur2 fk = dictGet? cur1 fk := by
  have := mergeRec_frame fmt (n + 1) rebuild cur1 rest cur2 t2 h2 [fk] (by simp) hun
  simp only [getPath_cons, getIn] at this
  cases h1 : dictGet? cur2 fk <;> cases h2 : dictGet? cur1 fk <;> simp_all

/-! ## Defaults -/

/-- **`defaults_never_overwrites`**: after `set_defaults` every existing path still exists; a value
    that is not a mapping is THE SAME value — also when it is `None` —, a mapping is still a mapping
    (it may have gained keys). For every formatter, context, defaults tree and fuel. -/
theorem defaults_never_overwrites (fuel : Nat) (root : Pairs) (add : Val) (root' : Pairs) (t : Trace)
    (h : setDefaults fuel root add = .ok (root', t)) :
    ∀ p x, p ≠ [] → getPath root p = some x →
      ∃ x', getPath root' p = some x' ∧ (isDict x = false → x' = x) ∧ (isDict x = true → isDict x' = true) := by
  unfold setDefaults setDefaultsWith at h
  split at h
  · exact (defaultsRec_ok _ fuel id root _ root' t h).keeps
  · cases h

/-- The `None` case spelled out. -/
theorem defaults_keeps_none (fuel : Nat) (root : Pairs) (add : Val) (root' : Pairs) (t : Trace)
    (h : setDefaults fuel root add = .ok (root', t)) (p : List Val) (hp : p ≠ [])
    (hnone : getPath root p = some .none) : getPath root' p = some .none := by
  obtain ⟨x', hx', hk, _⟩ := defaults_never_overwrites fuel root add root' t h p .none hp hnone
  rw [hx', hk (by simp [isDict])]

/-- **`defaults_adds_exactly_missing`**: (1) whatever exists afterwards and did not exist before
    lies at or below a path the defaults name and that was written; (2) every written path was
    missing before and exists afterwards; (3) every path the trace does not touch reads the same. -/
theorem defaults_adds_exactly_missing (fuel : Nat) (root : Pairs) (add : Val) (root' : Pairs) (t : Trace)
    (h : setDefaults fuel root add = .ok (root', t)) :
    (∀ p, p ≠ [] → getPath root p = none → getPath root' p ≠ none → ∃ w ∈ t, w.2 = true ∧ w.1 <+: p) ∧
    (∀ w ∈ t, w.2 = true → getPath root w.1 = none ∧ getPath root' w.1 ≠ none) ∧
    (∀ p, p ≠ [] → Untouched t p → getPath root' p = getPath root p) := by
  unfold setDefaults setDefaultsWith at h
  split at h
  · have ok := defaultsRec_ok _ fuel id root _ root' t h
    exact ⟨ok.adds.1, ok.adds.2, defaultsRec_frame _ fuel id root _ root' t h⟩
  · cases h

/-- The general forms, for any formatter and any place in the context. -/
theorem defaultsRec_spec (fmt : Fmt) (fuel : Nat) (rebuild : Pairs → Pairs) (cur add cur' : Pairs) (t : Trace)
    (h : defaultsRec fmt fuel rebuild cur add = .ok (cur', t)) :
    Keeps cur cur' ∧ Adds cur cur' t ∧ Frame cur cur' t :=
  ⟨(defaultsRec_ok fmt fuel rebuild cur add cur' t h).keeps,
   (defaultsRec_ok fmt fuel rebuild cur add cur' t h).adds,
   defaultsRec_frame fmt fuel rebuild cur add cur' t h⟩

/-! ## The steps -/

/-- `pypyr.steps.contextmerge` / `pypyr.steps.default`: when the step succeeds its effect on the
    context is exactly `Context.merge(context['contextMerge'])` / `set_defaults(context['defaults'])`,
    so the theorems above apply; the key must exist and must not be `None`. -/
theorem assertKeyHasValue_ok (root : Pairs) (key caller : String) (add : Val)
    (h : assertKeyHasValue root key caller = .ok add) :
    dictGet? root (.str key) = some add ∧ add ≠ .none := by
  unfold assertKeyHasValue at h
  split at h
  · cases h
  · cases h
  · rename_i v hne hv
    cases h
    exact ⟨hv, hne⟩

theorem runStep_ok (useDefaults : Bool) (fuel : Nat) (root root' : Pairs)
    (h : runStep useDefaults fuel root = .ok root') :
    ∃ add t, dictGet? root (.str (if useDefaults then "defaults" else "contextMerge")) = some add ∧
      add ≠ .none ∧
      (if useDefaults then setDefaults fuel root add else merge fuel root add) = .ok (root', t) := by
  cases useDefaults
  all_goals
    simp only [runStep, Bool.false_eq_true, if_false, if_true] at h ⊢
    split at h
    · cases h
    · rename_i add hadd
      have ⟨h1, h2⟩ := assertKeyHasValue_ok _ _ _ _ hadd
      split at h
      · cases h
      · rename_i r t hm
        split at h
        · cases h
        · split at h
          · cases h
          · split at h
            · cases h; exact ⟨add, t, h1, h2, hm⟩
            · cases h

theorem runStep_requires_key (useDefaults : Bool) (fuel : Nat) (root : Pairs)
    (hk : dictGet? root (.str (if useDefaults then "defaults" else "contextMerge")) = none) :
    ∃ e, runStep useDefaults fuel root = .error e ∧ e.name = "pypyr.errors.KeyNotInContextError" := by
  unfold runStep assertKeyHasValue
  simp only []
  rw [hk]
  exact ⟨_, rfl, rfl⟩

theorem runStep_requires_value (useDefaults : Bool) (fuel : Nat) (root : Pairs)
    (hk : dictGet? root (.str (if useDefaults then "defaults" else "contextMerge")) = some .none) :
    ∃ e, runStep useDefaults fuel root = .error e ∧ e.name = "pypyr.errors.KeyInContextHasNoValueError" := by
  unfold runStep assertKeyHasValue
  simp only []
  rw [hk]
  exact ⟨_, rfl, rfl⟩

/-! ## Concrete runs (the docstring example of `pypyr.steps.contextmerge` and of `default`) -/

def docCtx : Pairs :=
  [(.str "key1", .str "value1"), (.str "key2", .str "value2"),
   (.str "key3", .dict [(.str "k31", .str "value31"), (.str "k32", .str "value32")]),
   (.str "none", .none)]

def docAdd : Val :=
  .dict [(.str "key2", .str "aaa_{key1}_zzz"), (.str "key3", .dict [(.str "k33", .str "value33")]),
         (.str "key4", .str "bbb_{key2}_yyy"), (.str "none", .str "x")]

example : (match merge 8 docCtx docAdd with
    | .ok (r, _) => r == [(.str "key1", .str "value1"), (.str "key2", .str "aaa_value1_zzz"),
        (.str "key3", .dict [(.str "k31", .str "value31"), (.str "k32", .str "value32"), (.str "k33", .str "value33")]),
        (.str "none", .str "x"), (.str "key4", .str "bbb_aaa_value1_zzz_yyy")]
    | .error _ => false) = true := by decide +kernel

example : (match setDefaults 8 docCtx docAdd with
    | .ok (r, t) => r == [(.str "key1", .str "value1"), (.str "key2", .str "value2"),
        (.str "key3", .dict [(.str "k31", .str "value31"), (.str "k32", .str "value32"), (.str "k33", .str "value33")]),
        (.str "none", .none), (.str "key4", .str "bbb_value2_yyy")]
        && t == [([.str "key3"], false), ([.str "key3", .str "k33"], true), ([.str "key4"], true)]
    | .error _ => false) = true := by decide +kernel

end Pypyr.C10
