/-
  C10 — contextmerge changes only the named paths; default never overwrites.

  Theorems about `Merge.mergeRec` / `defaultsRec` (`PypyrModel/Merge.lean`), the models of
  `Context.merge.merge_recurse` and `Context.set_defaults.defaults_recurse`, for ALL contexts,
  incoming trees, formatters and fuel (induction on the fuel that bounds the depth of the incoming
  tree; the statements are about every run that returns). Property theorems only; helper lemmas
  live in Props/Lemmas/C10_Merge.lean.

  Vocabulary (Props/Lemmas/C10_Merge.lean): `getPath cur p` — the value at the path of keys `p`
  below the dict content `cur`; the *trace* `t` returned by the model lists every incoming node
  visited with its path of FORMATTED keys and whether it was written (`true`) or only descended
  into (`false`); `Untouched t p` — `p` is not a path of the incoming tree (not a prefix of a
  visited path) and does not lie at or below a written path.

  The trace is ghost output of the model; section "the trace is determined by the incoming tree" ties it to
  the incoming mapping: `MergeRun` / `DefaultsRun` (Props/Lemmas/C10_Trace.lean) are big-step SPECIFICATIONS
  of the two loops written without the model (key formatted against the context as merged so far; descend
  iff mapping into mapping; otherwise the value of the type table `Written` / the formatted default when
  missing / nothing); every run of the model satisfies them with the trace it returned
  (`trace_sound_complete`), they determine content and named paths (`trace_determined`), and the frame is
  restated over the incoming keys (`merge_frame_named`) and over the specification's named paths
  (`merge_frame_named_paths`) without mentioning the returned trace.

  Tree level (objects are trees): the incoming mapping is an immutable value there, so "the incoming
  mapping is left unmodified" cannot even be stated. It is stated and proved at HEAP level (last
  section, `MergeHeap` of `PypyrModel/Merge.lean`: context, incoming mappings and everything they hold
  are objects; merge writes to objects): `incoming_unmodified` — over a whole SEQUENCE of merge /
  set_defaults operations on one context no object of any incoming mapping is written, provided the
  context shares no list / dict object with them to begin with — because what formatting hands back
  never is a container of the formatted value (`formatted_value_is_fresh`). The two known ways in which
  the real code breaks C10 through aliasing (a `{k:ff}` result extended in place: both objects belong to
  the context; the step's incoming mapping being a context value that names itself: the separation
  hypothesis fails) are reported by the check's alias streams.
-/
import PypyrModel.Merge
import Props.Lemmas.C10_Merge
import Props.Lemmas.C10_Trace
import Props.Lemmas.C10_Heap
import Props.Lemmas.C10_Table
import Props.Lemmas.C10_Fail
import Props.C09

namespace Pypyr.C10
open Pypyr Pypyr.Merge

/-! ## Frame condition -/

/-- **`merge_frame`, general form.** Whatever formatter is used and wherever in the context the
    merge happens (`rebuild`), every path of the old content that the incoming tree does not name
    keeps its old value. -/
theorem mergeRec_frame' (fmt : Fmt) (fuel : Nat) (rebuild : Pairs → Pairs) (cur add cur' : Pairs)
    (t : Trace) (h : mergeRec fmt fuel rebuild cur add = .ok (cur', t)) :
    ∀ p, p ≠ [] → Untouched t p → getPath cur' p = getPath cur p :=
  mergeRec_frame fmt fuel rebuild cur add cur' t h

/-- **`merge_frame`** for `Context.merge`: every path of the old context that is not a path of the
    incoming tree (after key formatting) and not below a written one keeps its old value. -/
theorem merge_frame (fuel : Nat) (root : Pairs) (add : Val) (root' : Pairs) (t : Trace)
    (h : merge fuel root add = .ok (root', t)) :
    ∀ p, p ≠ [] → Untouched t p → getPath root' p = getPath root p := by
  unfold merge mergeWith at h
  split at h
  · exact mergeRec_frame _ fuel id root _ root' t h
  · cases h

/-- In particular a top-level key that no incoming key formats to keeps its value. -/
theorem merge_frame_key (fuel : Nat) (root : Pairs) (add : Val) (root' : Pairs) (t : Trace)
    (h : merge fuel root add = .ok (root', t)) (k : Val)
    (hk : ∀ w ∈ t, w.1.head? ≠ some k) : dictGet? root' k = dictGet? root k := by
  have hne : TraceNE t := by
    unfold merge mergeWith at h
    split at h
    · exact mergeRec_trace_ne _ fuel id root _ root' t h
    · cases h
  have := merge_frame fuel root add root' t h [k] (by simp) (by
    intro w hw
    have hkw := hk w hw
    have hw0 := hne w hw
    cases hw1 : w.1 with
    | nil => exact absurd hw1 hw0
    | cons a rest =>
      rw [hw1] at hkw
      simp only [List.head?_cons, ne_eq, Option.some.injEq] at hkw
      constructor
      · intro hp; simp at hp; exact hkw hp.symm
      · intro _ hp; simp at hp; exact hkw hp.1)
  simp only [getPath_cons, getIn] at this
  cases h1 : dictGet? root' k <;> cases h2 : dictGet? root k <;> simp_all

/-! ## The type table (`merge_table`): what one incoming item does, per incoming kind × existing kind

  `mergeItem fmt recur rebuild cur k v` is the body of the `for k, v in add_me.items()` loop;
  `ctxOf (rebuild cur)` is the context as it is at that moment. Each theorem gives the new content
  and the trace entry; the written value is then read back with `dictGet?_dictSet_eq`. -/

section table
variable (fmt : Fmt) (recur : (Pairs → Pairs) → Pairs → Pairs → Except Exc (Pairs × Trace))
  (rebuild : Pairs → Pairs) (cur : Pairs) (k v fk fv : Val)

-- `mergeable old v` ("one of the same-mergeable-kind tests of the code succeeds for this pair") is defined in
-- Props/Lemmas/C10_Trace.lean

/-- Incoming string or special tag: overwrite with the formatted value, whatever is there. -/
theorem merge_table_str (hv : isStrLike v = true) (hk : fmt (ctxOf (rebuild cur)) k = .ok fk)
    (hfv : fmt (ctxOf (rebuild cur)) v = .ok fv) (hh : hashable fk = true) :
    mergeItem fmt recur rebuild cur k v = .ok (dictSet cur fk fv, [([fk], true)]) := by
  unfold mergeItem; simp [hk, hv, hfv, hh]

/-- Incoming bytes: overwrite with the bytes themselves (not formatted). -/
theorem merge_table_bytes (b : String) (hk : fmt (ctxOf (rebuild cur)) k = .ok fk) (hh : hashable fk = true) :
    mergeItem fmt recur rebuild cur k (.bytes b) = .ok (dictSet cur fk (.bytes b), [([fk], true)]) := by
  unfold mergeItem; simp [hk, isStrLike, hh]

/-- Key not in the destination: add the formatted value. -/
theorem merge_table_absent (hv : isStrLike v = false) (hb : ∀ b, v ≠ .bytes b)
    (hk : fmt (ctxOf (rebuild cur)) k = .ok fk) (hh : hashable fk = true)
    (habs : dictGet? cur fk = none) (hfv : fmt (ctxOf (rebuild cur)) v = .ok fv) :
    mergeItem fmt recur rebuild cur k v = .ok (dictSet cur fk fv, [([fk], true)]) := by
  unfold mergeItem
  cases v <;> simp_all [isStrLike]

/-- Mapping into mapping: recurse; the destination keeps every key the incoming mapping does not
    name (`mergeRec_frame'` applied to the sub-merge). -/
theorem merge_table_dict_dict (sub csub csub' : Pairs) (t : Trace)
    (hk : fmt (ctxOf (rebuild cur)) k = .ok fk) (hh : hashable fk = true)
    (hold : dictGet? cur fk = some (.dict csub))
    (hrec : recur (fun s => rebuild (dictSet cur fk (.dict s))) csub sub = .ok (csub', t)) :
    mergeItem fmt recur rebuild cur k (.dict sub) =
      .ok (dictSet cur fk (.dict csub'), ([fk], false) :: under fk t) := by
  unfold mergeItem; simp [hk, isStrLike, hh, hold, hrec]

/-- List into list: the existing members first, then the formatted incoming members. -/
theorem merge_table_list_list (ns xs ys : List Val)
    (hk : fmt (ctxOf (rebuild cur)) k = .ok fk) (hh : hashable fk = true)
    (hold : dictGet? cur fk = some (.list xs))
    (hfv : fmt (ctxOf (rebuild cur)) (.list ns) = .ok (.list ys)) :
    mergeItem fmt recur rebuild cur k (.list ns) = .ok (dictSet cur fk (.list (xs ++ ys)), [([fk], true)]) := by
  unfold mergeItem; simp [hk, isStrLike, hh, hold, hfv]

/-- Tuple into tuple: concatenation, existing members first. -/
theorem merge_table_tuple_tuple (ns xs ys : List Val)
    (hk : fmt (ctxOf (rebuild cur)) k = .ok fk) (hh : hashable fk = true)
    (hold : dictGet? cur fk = some (.tuple xs))
    (hfv : fmt (ctxOf (rebuild cur)) (.tuple ns) = .ok (.tuple ys)) :
    mergeItem fmt recur rebuild cur k (.tuple ns) = .ok (dictSet cur fk (.tuple (xs ++ ys)), [([fk], true)]) := by
  unfold mergeItem; simp [hk, isStrLike, hh, hold, hfv]

/-- Set into set: union (existing members, then the new ones not yet present). -/
theorem merge_table_set_set (ns xs ys : List Val)
    (hk : fmt (ctxOf (rebuild cur)) k = .ok fk) (hh : hashable fk = true)
    (hold : dictGet? cur fk = some (.set xs))
    (hfv : fmt (ctxOf (rebuild cur)) (.set ns) = .ok (.set ys)) :
    mergeItem fmt recur rebuild cur k (.set ns) =
      .ok (dictSet cur fk (.set (ys.foldl setInsert xs)), [([fk], true)]) := by
  unfold mergeItem; simp [hk, isStrLike, hh, hold, hfv]

/-- Any other pair (kinds differ, or scalars / None / objects): overwrite with the formatted value. -/
theorem merge_table_other (old : Val) (hv : isStrLike v = false) (hb : ∀ b, v ≠ .bytes b)
    (hk : fmt (ctxOf (rebuild cur)) k = .ok fk) (hh : hashable fk = true)
    (hold : dictGet? cur fk = some old) (hm : mergeable old v = false)
    (hfv : fmt (ctxOf (rebuild cur)) v = .ok fv) :
    mergeItem fmt recur rebuild cur k v = .ok (dictSet cur fk fv, [([fk], true)]) := by
  unfold mergeItem
  cases v <;> simp_all [isStrLike] <;> cases old <;> simp_all [mergeable]

end table

example : dictGet? (dictSet [(Val.str "a", Val.int 1)] (.str "a") (.int 2)) (.str "a") = some (.int 2) := by
  decide +kernel

/-- **`merge_lists_extend`** with the real formatter: the result is `old ++ formatted new`, where
    the formatted new members are the incoming members formatted one by one, in order (C09
    `fmt_list_elementwise`). -/
theorem merge_lists_extend (f : Nat)
    (recur : (Pairs → Pairs) → Pairs → Pairs → Except Exc (Pairs × Trace))
    (rebuild : Pairs → Pairs) (cur : Pairs) (k fk : Val) (ns xs : List Val) (r : Val)
    (hk : fmtVal (f + 1) (ctxOf (rebuild cur)) k = .ok fk) (hh : hashable fk = true)
    (hold : dictGet? cur fk = some (.list xs))
    (hfv : fmtVal (f + 1) (ctxOf (rebuild cur)) (.list ns) = .ok r) :
    ∃ ys, ys.length = ns.length ∧
      C09.All₂ (fun x y => fmtIter f (ctxOf (rebuild cur)) false x = .ok y) ns ys ∧
      mergeItem (fmtVal (f + 1)) recur rebuild cur k (.list ns) =
        .ok (dictSet cur fk (.list (xs ++ ys)), [([fk], true)]) ∧
      dictGet? (dictSet cur fk (.list (xs ++ ys))) fk = some (.list (xs ++ ys)) := by
  obtain ⟨ys, rfl, hlen, hall⟩ := C09.fmt_list_elementwise f _ false ns r hfv
  exact ⟨ys, hlen, hall, merge_table_list_list _ recur rebuild cur k fk ns xs ys hk hh hold hfv,
    dictGet?_dictSet_eq _ _ _⟩

/-- What an item wrote stays until the end of the call unless a later item names that key again:
    the value at `fk` after the whole fold is the value after the first item. -/
theorem merge_item_persists (fmt : Fmt) (n : Nat) (rebuild : Pairs → Pairs) (cur : Pairs) (k v : Val)
    (rest : Pairs) (cur1 cur2 : Pairs) (t1 t2 : Trace) (fk : Val)
    (_h1 : mergeItem fmt (mergeRec fmt n) rebuild cur k v = .ok (cur1, t1))
    (h2 : mergeRec fmt (n + 1) rebuild cur1 rest = .ok (cur2, t2))
    (hun : Untouched t2 [fk]) : dictGet? cur2 fk = dictGet? cur1 fk := by
  have := mergeRec_frame fmt (n + 1) rebuild cur1 rest cur2 t2 h2 [fk] (by simp) hun
  simp only [getPath_cons, getIn] at this
  cases h1 : dictGet? cur2 fk <;> cases h2 : dictGet? cur1 fk <;> simp_all

/-! ## Defaults -/

/-- **`defaults_never_overwrites`**: after `set_defaults` every existing path still exists; a value
    that is not a mapping is THE SAME value — also when it is `None` —, a mapping is still a mapping
    (it may have gained keys). For every formatter, context, defaults tree and fuel. -/
theorem defaults_never_overwrites (fuel : Nat) (root : Pairs) (add : Val) (root' : Pairs) (t : Trace)
    (h : setDefaults fuel root add = .ok (root', t)) :
    ∀ p x, p ≠ [] → getPath root p = some x →
      ∃ x', getPath root' p = some x' ∧ (isDict x = false → x' = x) ∧ (isDict x = true → isDict x' = true) := by
  unfold setDefaults setDefaultsWith at h
  split at h
  · exact (defaultsRec_ok _ fuel id root _ root' t h).keeps
  · cases h

/-- The `None` case spelled out. -/
theorem defaults_keeps_none (fuel : Nat) (root : Pairs) (add : Val) (root' : Pairs) (t : Trace)
    (h : setDefaults fuel root add = .ok (root', t)) (p : List Val) (hp : p ≠ [])
    (hnone : getPath root p = some .none) : getPath root' p = some .none := by
  obtain ⟨x', hx', hk, _⟩ := defaults_never_overwrites fuel root add root' t h p .none hp hnone
  rw [hx', hk (by simp [isDict])]

/-- **`defaults_adds_exactly_missing`**: (1) whatever exists afterwards and did not exist before
    lies at or below a path the defaults name and that was written; (2) every written path was
    missing before and exists afterwards; (3) every path the trace does not touch reads the same. -/
theorem defaults_adds_exactly_missing (fuel : Nat) (root : Pairs) (add : Val) (root' : Pairs) (t : Trace)
    (h : setDefaults fuel root add = .ok (root', t)) :
    (∀ p, p ≠ [] → getPath root p = none → getPath root' p ≠ none → ∃ w ∈ t, w.2 = true ∧ w.1 <+: p) ∧
    (∀ w ∈ t, w.2 = true → getPath root w.1 = none ∧ getPath root' w.1 ≠ none) ∧
    (∀ p, p ≠ [] → Untouched t p → getPath root' p = getPath root p) := by
  unfold setDefaults setDefaultsWith at h
  split at h
  · have ok := defaultsRec_ok _ fuel id root _ root' t h
    exact ⟨ok.adds.1, ok.adds.2, defaultsRec_frame _ fuel id root _ root' t h⟩
  · cases h

/-- The general forms, for any formatter and any place in the context. -/
theorem defaultsRec_spec (fmt : Fmt) (fuel : Nat) (rebuild : Pairs → Pairs) (cur add cur' : Pairs) (t : Trace)
    (h : defaultsRec fmt fuel rebuild cur add = .ok (cur', t)) :
    Keeps cur cur' ∧ Adds cur cur' t ∧ Frame cur cur' t :=
  ⟨(defaultsRec_ok fmt fuel rebuild cur add cur' t h).keeps,
   (defaultsRec_ok fmt fuel rebuild cur add cur' t h).adds,
   defaultsRec_frame fmt fuel rebuild cur add cur' t h⟩

/-- the context and the incoming mapping of the docstrings of `pypyr.steps.contextmerge` / `default` -/
def docCtx : Pairs :=
  [(.str "key1", .str "value1"), (.str "key2", .str "value2"),
   (.str "key3", .dict [(.str "k31", .str "value31"), (.str "k32", .str "value32")]),
   (.str "none", .none)]

def docAdd : Val :=
  .dict [(.str "key2", .str "aaa_{key1}_zzz"), (.str "key3", .dict [(.str "k33", .str "value33")]),
         (.str "key4", .str "bbb_{key2}_yyy"), (.str "none", .str "x")]

/-! ## The trace is determined by the incoming tree

  `MergeRun fmt rebuild cur add cur' hs t` (Props/Lemmas/C10_Trace.lean) is a specification of the loop of
  `merge_recurse` that does not mention the model: going through the incoming items `add` in order, the
  key is formatted against the context as merged so far (`ctxOf (rebuild cur_i)`) to a hashable `fk_i`;
  if `current[fk_i]` and the incoming value are both mappings the item DESCENDS (named paths
  `([fk_i], false)` followed by `under fk_i t_i`, `t_i` the named paths of the nested run), otherwise it is
  WRITTEN (`([fk_i], true)`) with the value the type table `Written` prescribes. `hs` is the list of
  `(fk_i, what was done)`, one per incoming item, in order. `DefaultsRun` likewise, with a third case:
  the key exists (not mapping × mapping) — left alone, NO entry. -/

/-- **`trace_sound_complete`** (merge). A run of the model that returns satisfies the specification with
    the very trace it returned: there are formatted keys `hs`, exactly one per incoming item and in order
    (`hs.length = add.length`), each the result of formatting that item's key against the context as
    merged so far (inside `MergeRun`), no item is left alone, and the depth-1 entries of the trace are
    EXACTLY `[fk_i]`, in that order, flagged `false` exactly for the mapping × mapping descents; the
    nested entries are `under fk_i t_i` with `t_i` the trace of the nested run (inside `MergeRun`). -/
theorem trace_sound_complete (fmt : Fmt) (fuel : Nat) (rebuild : Pairs → Pairs) (cur add cur' : Pairs) (t : Trace)
    (h : mergeRec fmt (fuel + 1) rebuild cur add = .ok (cur', t)) :
    ∃ hs : Heads, MergeRun fmt rebuild cur add cur' hs t ∧ hs.length = add.length ∧
      (∀ hd ∈ hs, hd.2 ≠ Did.kept) ∧
      depth1 t = hs.map (fun hd => ([hd.1], hd.2 == Did.wrote)) := by
  obtain ⟨hs, hrun⟩ := mergeRec_run fmt (fuel + 1) rebuild cur add cur' t h
  exact ⟨hs, hrun, hrun.length, hrun.no_kept,
    by rw [hrun.heads_eq, filterMap_headEntry_no_kept hs hrun.no_kept]⟩

/-- **`trace_sound_complete`** (set_defaults): one head per incoming item, in order; an existing key whose
    pair is not mapping × mapping is `kept` and contributes NO trace entry; the depth-1 entries of the
    trace are exactly the other heads, in order (`true`: the key was missing and has been added). -/
theorem trace_sound_complete_defaults (fmt : Fmt) (fuel : Nat) (rebuild : Pairs → Pairs) (cur add cur' : Pairs)
    (t : Trace) (h : defaultsRec fmt (fuel + 1) rebuild cur add = .ok (cur', t)) :
    ∃ hs : Heads, DefaultsRun fmt rebuild cur add cur' hs t ∧ hs.length = add.length ∧
      depth1 t = hs.filterMap headEntry := by
  obtain ⟨hs, hrun⟩ := defaultsRec_run fmt (fuel + 1) rebuild cur add cur' t h
  exact ⟨hs, hrun, hrun.length, hrun.heads_eq⟩

/-- **`trace_determined`**: the specification is a FUNCTION of (formatter, place, existing content,
    incoming tree) — whatever content `c2` and named paths `np` satisfy it are the content and the trace the
    model returned. So `Untouched t p` is a statement about the incoming tree. -/
theorem trace_determined (fmt : Fmt) (fuel : Nat) (rebuild : Pairs → Pairs) (cur add cur' : Pairs) (t : Trace)
    (h : mergeRec fmt fuel rebuild cur add = .ok (cur', t))
    (hs : Heads) (c2 : Pairs) (np : Trace) (hspec : MergeRun fmt rebuild cur add c2 hs np) :
    c2 = cur' ∧ np = t := by
  obtain ⟨hs', hrun⟩ := mergeRec_run fmt fuel rebuild cur add cur' t h
  exact hspec.deterministic hrun

theorem trace_determined_defaults (fmt : Fmt) (fuel : Nat) (rebuild : Pairs → Pairs) (cur add cur' : Pairs)
    (t : Trace) (h : defaultsRec fmt fuel rebuild cur add = .ok (cur', t))
    (hs : Heads) (c2 : Pairs) (np : Trace) (hspec : DefaultsRun fmt rebuild cur add c2 hs np) :
    c2 = cur' ∧ np = t := by
  obtain ⟨hs', hrun⟩ := defaultsRec_run fmt fuel rebuild cur add cur' t h
  exact hspec.deterministic hrun

/-- The converse of `trace_sound_complete`: whatever satisfies the specification is returned by the
    model as soon as the fuel exceeds the nesting depth of the incoming tree. -/
theorem spec_is_returned (fmt : Fmt) (rebuild : Pairs → Pairs) (cur add cur' : Pairs) (hs : Heads) (t : Trace)
    (hspec : MergeRun fmt rebuild cur add cur' hs t) (fuel : Nat) (hf : depthP add < fuel) :
    mergeRec fmt fuel rebuild cur add = .ok (cur', t) :=
  hspec.complete fuel hf

theorem spec_is_returned_defaults (fmt : Fmt) (rebuild : Pairs → Pairs) (cur add cur' : Pairs) (hs : Heads)
    (t : Trace) (hspec : DefaultsRun fmt rebuild cur add cur' hs t) (fuel : Nat) (hf : depthP add < fuel) :
    defaultsRec fmt fuel rebuild cur add = .ok (cur', t) :=
  hspec.complete fuel hf

/-- **`merge_frame_named`, general form**: the frame stated over the INCOMING KEYS. If `mergeRec` returns,
    there are the formatted keys `hs` of the incoming items (`MergeRun`: the i-th is
    `fmt (ctxOf (rebuild cur_i)) k_i`), and every key `k` that no incoming key formats to has the value it
    had — no trace in the hypothesis. -/
theorem mergeRec_frame_named (fmt : Fmt) (fuel : Nat) (rebuild : Pairs → Pairs) (cur add cur' : Pairs) (t : Trace)
    (h : mergeRec fmt fuel rebuild cur add = .ok (cur', t)) :
    ∃ hs : Heads, MergeRun fmt rebuild cur add cur' hs t ∧ hs.length = add.length ∧
      ∀ k, (∀ hd ∈ hs, hd.1 ≠ k) → dictGet? cur' k = dictGet? cur k := by
  obtain ⟨hs, hrun⟩ := mergeRec_run fmt fuel rebuild cur add cur' t h
  exact ⟨hs, hrun, hrun.length, fun k hk => hrun.frame_key k hk⟩

/-- **`merge_frame_named`** for `Context.merge`. -/
theorem merge_frame_named (fuel : Nat) (root : Pairs) (add : Val) (root' : Pairs) (t : Trace)
    (h : merge fuel root add = .ok (root', t)) :
    ∃ (kvs : Pairs) (hs : Heads), add = .dict kvs ∧ MergeRun (fmtVal fuel) id root kvs root' hs t ∧
      hs.length = kvs.length ∧
      ∀ k, (∀ hd ∈ hs, hd.1 ≠ k) → dictGet? root' k = dictGet? root k := by
  unfold merge mergeWith at h
  split at h
  · rename_i kvs
    obtain ⟨hs, hrun, hlen, hfr⟩ := mergeRec_frame_named _ fuel id root kvs root' t h
    exact ⟨kvs, hs, rfl, hrun, hlen, hfr⟩
  · cases h

/-- **`merge_frame_named_paths`**: the nested form. `np` are the named paths of the SPECIFICATION
    (computed from the incoming tree and the formatter's answers; by `trace_determined` they are the
    trace): a path of the old content that is not a prefix of a named path and not at or below a written
    one has the value it had. Proved from the specification alone (`MergeRun.frame`). -/
theorem merge_frame_named_paths (fmt : Fmt) (rebuild : Pairs → Pairs) (cur add cur' : Pairs) (hs : Heads)
    (np : Trace) (hspec : MergeRun fmt rebuild cur add cur' hs np) :
    ∀ p, p ≠ [] → Untouched np p → getPath cur' p = getPath cur p :=
  hspec.frame

/-- the same for `set_defaults`; in addition a key the defaults name but that exists (`kept`) keeps its
    value -/
theorem defaults_frame_named (fmt : Fmt) (fuel : Nat) (rebuild : Pairs → Pairs) (cur add cur' : Pairs) (t : Trace)
    (h : defaultsRec fmt fuel rebuild cur add = .ok (cur', t)) :
    ∃ hs : Heads, DefaultsRun fmt rebuild cur add cur' hs t ∧ hs.length = add.length ∧
      (∀ k, (∀ hd ∈ hs, hd.1 = k → hd.2 = Did.kept) → dictGet? cur' k = dictGet? cur k) ∧
      (∀ p, p ≠ [] → Untouched t p → getPath cur' p = getPath cur p) := by
  obtain ⟨hs, hrun⟩ := defaultsRec_run fmt fuel rebuild cur add cur' t h
  exact ⟨hs, hrun, hrun.length, fun k hk => hrun.frame_key k hk, hrun.frame⟩

/-- **Per incoming item** (`pre` the items before it, `post` those after): the context as merged so far is
    the result `cur_i` of the run over `pre`; the item's key formats against it to a hashable `fk`; the item
    contributes its entries `t_i` to the trace right after those of `pre`; and the head entry is flagged
    `false` — followed by the nested entries `under fk ts`, `ts` the trace of the nested run on the two
    mappings — EXACTLY when destination and incoming value are both mappings (`descends`), otherwise it is
    the single entry `([fk], true)` and `current[fk]` is the table value. -/
theorem merge_item_named (fmt : Fmt) (n : Nat) (rebuild : Pairs → Pairs) (cur pre post cur' : Pairs)
    (k v : Val) (t : Trace)
    (h : mergeRec fmt (n + 1) rebuild cur (pre ++ (k, v) :: post) = .ok (cur', t)) :
    ∃ cur_i t_pre fk cur_j t_i t_post, mergeRec fmt (n + 1) rebuild cur pre = .ok (cur_i, t_pre) ∧
      fmt (ctxOf (rebuild cur_i)) k = .ok fk ∧ hashable fk = true ∧
      mergeRec fmt (n + 1) rebuild cur_j post = .ok (cur', t_post) ∧ t = t_pre ++ (t_i ++ t_post) ∧
      ((descends cur_i fk v = false ∧ t_i = [([fk], true)] ∧
          ∃ x, Written fmt (ctxOf (rebuild cur_i)) (dictGet? cur_i fk) v x ∧ cur_j = dictSet cur_i fk x) ∨
       (descends cur_i fk v = true ∧ ∃ csub sub csub' ts, v = .dict sub ∧
          dictGet? cur_i fk = some (.dict csub) ∧
          mergeRec fmt n (fun s => rebuild (dictSet cur_i fk (.dict s))) csub sub = .ok (csub', ts) ∧
          cur_j = dictSet cur_i fk (.dict csub') ∧ t_i = ([fk], false) :: under fk ts)) := by
  simp only [mergeRec] at h ⊢
  obtain ⟨cur_i, t_pre, t2, hpre, hrest, rfl⟩ := foldItems_append pre cur _ cur' t h
  obtain ⟨cur_j, t_i, t_post, hitem, hpost, rfl⟩ := foldItems_cons hrest
  obtain ⟨fk, hk, hh, hcase⟩ := mergeItem_spec hitem
  refine ⟨cur_i, t_pre, fk, cur_j, t_i, t_post, hpre, hk, hh, hpost, rfl, ?_⟩
  rcases hcase with hw | ⟨csub, sub, csub', ts, rfl, hold, hrec, rfl, rfl⟩
  · exact Or.inl hw
  · exact Or.inr ⟨descends_of_both hold, csub, sub, csub', ts, rfl, hold, hrec, rfl, rfl⟩

/-- **`merge_visits_every_item`**: every incoming item ends as a write or a descent — the trace has exactly
    one depth-1 entry per incoming item. -/
theorem merge_visits_every_item (fmt : Fmt) (fuel : Nat) (rebuild : Pairs → Pairs) (cur add cur' : Pairs)
    (t : Trace) (h : mergeRec fmt (fuel + 1) rebuild cur add = .ok (cur', t)) :
    (depth1 t).length = add.length := by
  obtain ⟨hs, _, hlen, _, hd⟩ := trace_sound_complete fmt fuel rebuild cur add cur' t h
  rw [hd, List.length_map, hlen]

/-- the docstring example: the heads are the four incoming keys, `key3` descended, the others written -/
example : (match merge 8 docCtx docAdd with
    | .ok (_, t) => depth1 t == [([.str "key2"], true), ([.str "key3"], false), ([.str "key4"], true),
                                 ([.str "none"], true)]
    | .error _ => false) = true := by decide +kernel

/-! ## Defaults: every missing key IS added -/

/-- **`defaults_complete`**. Take any incoming item `(k, v)` of the defaults (`pre` the items before it,
    `post` those after). The context as merged so far is the result `cur_i` of the run over `pre`; the key
    formats against it to a hashable `fk`; and IF `fk` IS MISSING at that moment, then the default is
    formatted against the same context to `fv`, the trace has the entry `([fk], true)` at that position,
    right after the item `current[fk]` is `fv`, and at the end it still is `fv` — unless `fv` is a mapping,
    which may have gained keys from a later incoming mapping that formats to the same key (`Keeps`).
    Together with `defaults_never_overwrites` and `defaults_adds_exactly_missing`: exactly the missing
    ones are added. -/
theorem defaults_complete (fmt : Fmt) (n : Nat) (rebuild : Pairs → Pairs) (cur pre post cur' : Pairs)
    (k v : Val) (t : Trace)
    (h : defaultsRec fmt (n + 1) rebuild cur (pre ++ (k, v) :: post) = .ok (cur', t)) :
    ∃ cur_i t_pre fk, defaultsRec fmt (n + 1) rebuild cur pre = .ok (cur_i, t_pre) ∧
      fmt (ctxOf (rebuild cur_i)) k = .ok fk ∧ hashable fk = true ∧
      (dictGet? cur_i fk = none →
        ∃ fv t_post, fmt (ctxOf (rebuild cur_i)) v = .ok fv ∧
          defaultsRec fmt (n + 1) rebuild (dictSet cur_i fk fv) post = .ok (cur', t_post) ∧
          t = t_pre ++ ([fk], true) :: t_post ∧
          dictGet? (dictSet cur_i fk fv) fk = some fv ∧
          ∃ x', dictGet? cur' fk = some x' ∧ (isDict fv = false → x' = fv) ∧
            (isDict fv = true → isDict x' = true)) := by
  simp only [defaultsRec] at h ⊢
  obtain ⟨cur_i, t_pre, t2, hpre, hrest, rfl⟩ := foldItems_append pre cur _ cur' t h
  obtain ⟨cur_j, t_i, t_post, hitem, hpost, rfl⟩ := foldItems_cons hrest
  obtain ⟨fk, hk, hh, hcase⟩ := defaultsItem_spec hitem
  refine ⟨cur_i, t_pre, fk, hpre, hk, hh, ?_⟩
  intro hmiss
  rcases hcase with ⟨old, hold, _⟩ | ⟨_, fv, hf, rfl, rfl⟩ | ⟨csub, _, _, _, _, hold, _⟩
  · rw [hmiss] at hold; cases hold
  · refine ⟨fv, t_post, hf, hpost, rfl, dictGet?_dictSet_eq _ _ _, ?_⟩
    have hk' := (defaultsRec_ok fmt (n + 1) rebuild _ post cur' t_post (by simp only [defaultsRec]; exact hpost)).keeps
    have := hk' [fk] fv (by simp) (by simp [getPath_cons, dictGet?_dictSet_eq, getIn])
    obtain ⟨x', hx', h1, h2⟩ := this
    refine ⟨x', ?_, h1, h2⟩
    simp only [getPath_cons] at hx'
    cases hg : dictGet? cur' fk with
    | none => rw [hg] at hx'; cases hx'
    | some y => rw [hg] at hx'; simp only [getIn] at hx'; exact hx'
  · rw [hmiss] at hold; cases hold

/-- `defaults_complete` for `Context.set_defaults` on the docstring example: `key4` is missing when its
    item is reached and ends with the default formatted THEN (`key2` still `value2`). -/
example : (match defaultsRec (fmtVal 8) 8 id docCtx
      [(.str "key2", .str "aaa_{key1}_zzz"), (.str "key3", .dict [(.str "k33", .str "value33")])] with
    | .ok (cur_i, _) => dictGet? cur_i (.str "key4") == none &&
        (match fmtVal 8 (ctxOf cur_i) (.str "bbb_{key2}_yyy") with
         | .ok v => v == .str "bbb_value2_yyy"
         | .error _ => false)
    | .error _ => false) = true := by decide +kernel

/-! ## Enough fuel ⇒ no OutOfFuel -/

/-- **`merge_enough_fuel`**: `mergeRec … 0` is OutOfFuel and every mapping × mapping descent uses one unit,
    so what is needed is `fuel > depthP add` (`depthP`: nesting depth of the mapping VALUES of the incoming
    items; a flat mapping has depth 0 and needs fuel 1). The recursion descends only when the destination
    holds a mapping too, so the incoming tree alone bounds it. Hypothesis on the formatter: it never
    answers OutOfFuel itself (with the real `fmtVal fuel` a self-referential expression can: the divergence
    class, RecursionError in the implementation). -/
theorem merge_enough_fuel (fmt : Fmt) (hfmt : ∀ c v, fmt c v ≠ .error outOfFuel)
    (fuel : Nat) (root : Pairs) (add : Val) (hf : depthV add ≤ fuel) (hd : isDict add = true) :
    mergeWith fmt fuel root add ≠ .error outOfFuel := by
  cases add <;> simp [isDict] at hd
  rename_i kvs
  simp only [mergeWith]
  exact mergeRec_enough_fuel fmt hfmt fuel id root kvs (by simp only [depthV] at hf; omega)

theorem setDefaults_enough_fuel (fmt : Fmt) (hfmt : ∀ c v, fmt c v ≠ .error outOfFuel)
    (fuel : Nat) (root : Pairs) (add : Val) (hf : depthV add ≤ fuel) (hd : isDict add = true) :
    setDefaultsWith fmt fuel root add ≠ .error outOfFuel := by
  cases add <;> simp [isDict] at hd
  rename_i kvs
  simp only [setDefaultsWith]
  exact defaultsRec_enough_fuel fmt hfmt fuel id root kvs (by simp only [depthV] at hf; omega)

/-- the general forms, anywhere in the context -/
theorem mergeRec_enough_fuel' (fmt : Fmt) (hfmt : ∀ c v, fmt c v ≠ .error outOfFuel)
    (fuel : Nat) (rebuild : Pairs → Pairs) (cur add : Pairs) (hf : depthP add < fuel) :
    mergeRec fmt fuel rebuild cur add ≠ .error outOfFuel :=
  mergeRec_enough_fuel fmt hfmt fuel rebuild cur add hf

theorem defaultsRec_enough_fuel' (fmt : Fmt) (hfmt : ∀ c v, fmt c v ≠ .error outOfFuel)
    (fuel : Nat) (rebuild : Pairs → Pairs) (cur add : Pairs) (hf : depthP add < fuel) :
    defaultsRec fmt fuel rebuild cur add ≠ .error outOfFuel :=
  defaultsRec_enough_fuel fmt hfmt fuel rebuild cur add hf

/-- the bound is tight: the docstring incoming mapping has depth 2 as a value (one nested mapping), fuel 2
    suffices, fuel 1 does not (`key3` descends) -/
example : depthV docAdd = 2 := by decide +kernel
example : (match mergeWith (fun _ v => .ok v) 2 docCtx docAdd with | .ok _ => true | .error _ => false) = true := by
  decide +kernel
example : (match mergeWith (fun _ v => .ok v) 1 docCtx docAdd with
    | .error e => e.name == "OutOfFuel" | .ok _ => false) = true := by decide +kernel

/-! ## The steps -/

/-- `pypyr.steps.contextmerge` / `pypyr.steps.default`: when the step succeeds its effect on the
    context is exactly `Context.merge(context['contextMerge'])` / `set_defaults(context['defaults'])`,
    so the theorems above apply; the key must exist and must not be `None`. -/
theorem assertKeyHasValue_ok (root : Pairs) (key caller : String) (add : Val)
    (h : assertKeyHasValue root key caller = .ok add) :
    dictGet? root (.str key) = some add ∧ add ≠ .none := by
  unfold assertKeyHasValue at h
  split at h
  · cases h
  · cases h
  · rename_i v hne hv
    cases h
    exact ⟨hv, hne⟩

theorem runStep_ok (useDefaults : Bool) (fuel : Nat) (root root' : Pairs)
    (h : runStep useDefaults fuel root = .ok root') :
    ∃ add t, dictGet? root (.str (if useDefaults then "defaults" else "contextMerge")) = some add ∧
      add ≠ .none ∧
      (if useDefaults then setDefaults fuel root add else merge fuel root add) = .ok (root', t) := by
  cases useDefaults
  all_goals
    simp only [runStep, Bool.false_eq_true, if_false, if_true] at h ⊢
    split at h
    · cases h
    · rename_i add hadd
      have ⟨h1, h2⟩ := assertKeyHasValue_ok _ _ _ _ hadd
      split at h
      · cases h
      · rename_i r t hm
        split at h
        · cases h
        · split at h
          · cases h
          · split at h
            · cases h; exact ⟨add, t, h1, h2, hm⟩
            · cases h

theorem runStep_requires_key (useDefaults : Bool) (fuel : Nat) (root : Pairs)
    (hk : dictGet? root (.str (if useDefaults then "defaults" else "contextMerge")) = none) :
    ∃ e, runStep useDefaults fuel root = .error e ∧ e.name = "pypyr.errors.KeyNotInContextError" := by
  unfold runStep assertKeyHasValue
  simp only []
  rw [hk]
  exact ⟨_, rfl, rfl⟩

theorem runStep_requires_value (useDefaults : Bool) (fuel : Nat) (root : Pairs)
    (hk : dictGet? root (.str (if useDefaults then "defaults" else "contextMerge")) = some .none) :
    ∃ e, runStep useDefaults fuel root = .error e ∧ e.name = "pypyr.errors.KeyInContextHasNoValueError" := by
  unfold runStep assertKeyHasValue
  simp only []
  rw [hk]
  exact ⟨_, rfl, rfl⟩

/-! ## Sequences of operations (tree level) -/

/-- A step run with its input mapping `a` (`in:` argument) sees exactly `a` under its key. -/
theorem withInput_get (root : Pairs) (d : Bool) (a : Val) :
    dictGet? (withInput root d (some a)) (.str (stepKey d)) = some a := by
  simp [withInput, dictGet?_dictSet_eq]

/-- **The steps are `Context.merge` / `set_defaults` of the mapping under their key, nothing else**:
    when a step op succeeds there is a trace `t` with which the very same `merge` / `setDefaults` call
    on the context (holding the input mapping under the step's key) returns the step's result — each
    incoming key and value formatted once, against the context as merged so far, exactly as in
    `mergeItem`. -/
theorem runOp_step_is_merge (fuel : Nat) (root root' : Pairs) (d : Bool) (a : Val)
    (h : runOp fuel root (.step d (some a)) = .ok root') :
    a ≠ .none ∧ ∃ t, (if d then setDefaults fuel (withInput root d (some a)) a
                        else merge fuel (withInput root d (some a)) a) = .ok (root', t) := by
  simp only [runOp] at h
  obtain ⟨add, t, h1, h2, h3⟩ := runStep_ok d fuel _ root' h
  have hk : (if d then "defaults" else "contextMerge") = stepKey d := by cases d <;> rfl
  rw [hk, withInput_get] at h1
  cases h1
  exact ⟨h2, t, h3⟩

/-- A sequence of `set_defaults` calls never changes a value that existed when the sequence started
    (even `None`); mappings stay mappings. -/
theorem runOps_defaults_never_overwrite (fuel : Nat) :
    ∀ (adds : List Val) (i : Nat) (root root' : Pairs),
      runOpsFrom fuel i root (adds.map Op.defaults) = .ok root' →
      ∀ p x, p ≠ [] → getPath root p = some x →
        ∃ x', getPath root' p = some x' ∧ (isDict x = false → x' = x) ∧ (isDict x = true → isDict x' = true)
  | [], i, root, root', h => by
    simp only [List.map_nil, runOpsFrom] at h
    cases h
    intro p x _ hx
    exact ⟨x, hx, fun _ => rfl, fun hd => hd⟩
  | a :: rest, i, root, root', h => by
    simp only [List.map_cons, runOpsFrom] at h
    split at h
    · cases h
    · rename_i root1 h1
      intro p x hp hx
      simp only [runOp] at h1
      cases hsd : setDefaults fuel root a with
      | error e => rw [hsd] at h1; cases h1
      | ok rt =>
        obtain ⟨r1, t⟩ := rt
        rw [hsd] at h1
        cases h1
        obtain ⟨x1, hx1, hk1, hd1⟩ := defaults_never_overwrites fuel root a r1 t hsd p x hp hx
        obtain ⟨x2, hx2, hk2, hd2⟩ := runOps_defaults_never_overwrite fuel rest (i + 1) r1 root' h p x1 hp hx1
        refine ⟨x2, hx2, ?_, ?_⟩
        · intro hnd
          have e1 := hk1 hnd
          subst e1
          exact hk2 hnd
        · intro hd; exact hd2 (hd1 hd)

/-! ## Failed operations: an entry is written as a whole or not at all

  `mergeRec` / `defaultsRec` say nothing about the context an operation leaves when it RAISES — and a pipeline
  goes on with that context (`swallow: True`, retry, failure handlers, loops). `mergeRecS` / `defaultsRecS`
  (`PypyrModel/Merge.lean`) return it; the check compares it with the real context after every failed
  operation and runs sequences past swallowed failures (`runOpsS`). Proved here, for ALL formatters, contexts,
  incoming trees and fuel:
  * the state-returning walks agree with the `Except` walks (same result when they return, same exception);
  * the context a failed walk leaves IS the result of a successful walk over a truncation of the incoming tree
    (`Trunc`: the entries before the failing one, the failing one dropped — or, a mapping into a mapping, cut
    off the same way one level down —, nothing after it). So everything proved about runs that return — the
    frame, the type table (`list × list → old ++ ALL formatted incoming members`, formatted against the context
    before the entry wrote), defaults never overwrite — holds of the state a failure leaves: no path is ever
    half-written, and doing the operation again extends from the old members.
  * a default for a path that exists (and is not mapping × mapping) is not evaluated: the loop body returns the
    content unchanged whatever the default is and whatever formatting it would do. -/

/-- **The state-returning merge agrees with the merge** (returns: same content, no exception). -/
theorem mergeRecS_of_ok (fmt : Fmt) (fuel : Nat) (rebuild : Pairs → Pairs) (cur add cur' : Pairs) (t : Trace)
    (h : mergeRec fmt fuel rebuild cur add = .ok (cur', t)) :
    mergeRecS fmt fuel rebuild cur add = (cur', none) := by
  rw [mergeRec_eq_genRec] at h
  exact (genRecS_agrees fmt (mergeItem fmt) fuel rebuild cur add).1 cur' t h

/-- … and raises the same exception when the merge raises. -/
theorem mergeRecS_of_error (fmt : Fmt) (fuel : Nat) (rebuild : Pairs → Pairs) (cur add : Pairs) (e : Exc)
    (h : mergeRec fmt fuel rebuild cur add = .error e) :
    (mergeRecS fmt fuel rebuild cur add).2 = some e := by
  rw [mergeRec_eq_genRec] at h
  exact (genRecS_agrees fmt (mergeItem fmt) fuel rebuild cur add).2 e h

theorem defaultsRecS_of_ok (fmt : Fmt) (fuel : Nat) (rebuild : Pairs → Pairs) (cur add cur' : Pairs) (t : Trace)
    (h : defaultsRec fmt fuel rebuild cur add = .ok (cur', t)) :
    defaultsRecS fmt fuel rebuild cur add = (cur', none) := by
  rw [defaultsRec_eq_genRec] at h
  exact (genRecS_agrees fmt (defaultsItem fmt) fuel rebuild cur add).1 cur' t h

theorem defaultsRecS_of_error (fmt : Fmt) (fuel : Nat) (rebuild : Pairs → Pairs) (cur add : Pairs) (e : Exc)
    (h : defaultsRec fmt fuel rebuild cur add = .error e) :
    (defaultsRecS fmt fuel rebuild cur add).2 = some e := by
  rw [defaultsRec_eq_genRec] at h
  exact (genRecS_agrees fmt (defaultsItem fmt) fuel rebuild cur add).2 e h

/-- **`failed_merge_is_merge_of_truncation`.** When `merge_recurse` raises (anything but the model's own
    out-of-fuel), the content it leaves is what a SUCCESSFUL `merge_recurse` of a truncation of the incoming
    mapping produces from the same content: entries are written whole or not at all. -/
theorem failed_merge_is_merge_of_truncation (fmt : Fmt) (fuel : Nat) (rebuild : Pairs → Pairs) (cur add : Pairs)
    (e : Exc) (he : e ≠ outOfFuel) (h : mergeRec fmt fuel rebuild cur add = .error e) :
    ∃ add', Trunc add' add ∧ ∃ t, mergeRec fmt fuel rebuild cur add' = .ok ((mergeRecS fmt fuel rebuild cur add).1, t) := by
  rw [mergeRec_eq_genRec] at h ⊢
  exact genRec_failed_is_trunc fmt (mergeItem fmt) (mergeItem_descendLaw fmt) e he fuel rebuild cur add h

/-- the same for `defaults_recurse` -/
theorem failed_defaults_is_defaults_of_truncation (fmt : Fmt) (fuel : Nat) (rebuild : Pairs → Pairs)
    (cur add : Pairs) (e : Exc) (he : e ≠ outOfFuel) (h : defaultsRec fmt fuel rebuild cur add = .error e) :
    ∃ add', Trunc add' add ∧
      ∃ t, defaultsRec fmt fuel rebuild cur add' = .ok ((defaultsRecS fmt fuel rebuild cur add).1, t) := by
  rw [defaultsRec_eq_genRec] at h ⊢
  exact genRec_failed_is_trunc fmt (defaultsItem fmt) (defaultsItem_descendLaw fmt) e he fuel rebuild cur add h

/-- Consequence, with the frame theorem: after a FAILED merge every path the truncated tree does not name has
    its old value — in particular every path named only by the failing entry or by an entry after it. -/
theorem failed_merge_frame (fmt : Fmt) (fuel : Nat) (rebuild : Pairs → Pairs) (cur add : Pairs)
    (e : Exc) (he : e ≠ outOfFuel) (h : mergeRec fmt fuel rebuild cur add = .error e) :
    ∃ add' t, Trunc add' add ∧ mergeRec fmt fuel rebuild cur add' = .ok ((mergeRecS fmt fuel rebuild cur add).1, t) ∧
      ∀ p, p ≠ [] → Untouched t p → getPath (mergeRecS fmt fuel rebuild cur add).1 p = getPath cur p := by
  obtain ⟨add', htr, t, hok⟩ := failed_merge_is_merge_of_truncation fmt fuel rebuild cur add e he h
  exact ⟨add', t, htr, hok, mergeRec_frame fmt fuel rebuild cur add' _ t hok⟩

/-- The failing entry itself, when it does not descend: the loop body's state is the content AS IT WAS
    (`current[k].extend(…)` has not appended a single member, `current[k] = …` has not happened). -/
theorem failed_entry_writes_nothing (fmt : Fmt) (item : Item) (recur : Rec) (recurS : RecS)
    (rebuild : Pairs → Pairs) (cur : Pairs) (k v : Val) (e : Exc)
    (h : item recur rebuild cur k v = .error e) (hd : Merge.descends fmt rebuild cur k v = none) :
    itemS fmt item recur recurS rebuild cur k v = (cur, some e) := by
  simp only [itemS, h, hd]

/-- the demo of the seeded change C10-5 in the model: `log: [checkout, build, 'tag {release_tag}']` merged into
    `log: [boot]` without `release_tag` raises and leaves `log == [boot]`; merged again after `release_tag`
    arrived it gives each member once -/
def failCtx : Pairs := [(.str "log", .list [.str "boot"]), (.str "keep", .int 1)]
def failAdd : Val := .dict [(.str "log", .list [.str "checkout", .str "build", .str "tag {release_tag}"])]

example : (match runOpsS 8 failCtx [(.merge failAdd, true),
      (.merge (.dict [(.str "release_tag", .str "v1.2.3")]), false), (.merge failAdd, false)] with
    | .ok (r, errs) => dictGet? r (.str "log") ==
          some (.list [.str "boot", .str "checkout", .str "build", .str "tag v1.2.3"]) &&
        errs.map (fun ie => (ie.1, ie.2.name)) == [(0, "pypyr.errors.KeyNotInContextError")]
    | .error _ => false) = true := by decide +kernel

example : mergeLeft 8 failCtx failAdd = failCtx := by decide +kernel

/-- hypotheses of `failed_merge_is_merge_of_truncation` are satisfiable, and the truncation is a real one:
    a failure two levels down keeps the entries before it at both levels -/
example : (match mergeRec (fmtVal 8) 8 id [(.str "job", .dict [(.str "steps", .list [.str "s0"])])]
      [(.str "a", .str "one"), (.str "job", .dict [(.str "name", .str "j2"),
        (.str "steps", .list [.str "s1", .str "{nope}"]), (.str "late", .int 1)]), (.str "z", .int 1)] with
    | .error e => e.name == "pypyr.errors.KeyNotInContextError" | .ok _ => false) = true ∧
  (mergeRecS (fmtVal 8) 8 id [(.str "job", .dict [(.str "steps", .list [.str "s0"])])]
      [(.str "a", .str "one"), (.str "job", .dict [(.str "name", .str "j2"),
        (.str "steps", .list [.str "s1", .str "{nope}"]), (.str "late", .int 1)]), (.str "z", .int 1)]).1 =
    [(.str "job", .dict [(.str "steps", .list [.str "s0"]), (.str "name", .str "j2")]), (.str "a", .str "one")] := by
  constructor <;> decide +kernel

/-! ### a default for a path that exists is not evaluated -/

/-- **`default_for_existing_path_not_evaluated`.** The key formats to `fk`, `current[fk]` exists, and it is not
    the case that both it and the default are mappings: the loop body of `defaults_recurse` returns the content
    unchanged and names nothing — for EVERY default `v` and whatever the formatter would do with it (fail, pop a
    port, …): `fmt` is not applied to `v`. -/
theorem default_for_existing_path_not_evaluated (fmt : Fmt) (recur : Rec) (rebuild : Pairs → Pairs) (cur : Pairs)
    (k v fk old : Val) (hk : fmt (ctxOf (rebuild cur)) k = .ok fk) (hh : hashable fk = true)
    (hold : dictGet? cur fk = some old) (hnd : ¬ ∃ csub sub, old = .dict csub ∧ v = .dict sub) :
    defaultsItem fmt recur rebuild cur k v = .ok (cur, []) := by
  unfold defaultsItem
  simp only [hk, hh, hold, Bool.not_true, Bool.false_eq_true, if_false]
  split
  · rename_i csub sub
    exact absurd ⟨csub, sub, rfl, rfl⟩ hnd
  · rfl

/-- … hence two formatters that agree on the KEY give the same result on such an entry, however they differ on
    the default itself (one may raise on it, the other not) -/
theorem default_for_existing_path_formatter_irrelevant (fmt fmt' : Fmt) (recur : Rec) (rebuild : Pairs → Pairs)
    (cur : Pairs) (k v v' fk old : Val) (hk : fmt (ctxOf (rebuild cur)) k = .ok fk)
    (hk' : fmt' (ctxOf (rebuild cur)) k = .ok fk) (hh : hashable fk = true)
    (hold : dictGet? cur fk = some old) (hnd : ∀ csub, old ≠ .dict csub) :
    defaultsItem fmt recur rebuild cur k v = defaultsItem fmt' recur rebuild cur k v' := by
  rw [default_for_existing_path_not_evaluated fmt recur rebuild cur k v fk old hk hh hold
        (fun ⟨c, _, ho, _⟩ => hnd c ho),
      default_for_existing_path_not_evaluated fmt' recur rebuild cur k v' fk old hk' hh hold
        (fun ⟨c, _, ho, _⟩ => hnd c ho)]

/-- the demo of the seeded change C10-6 in the model: `out_dir` is given, its default `'{base_dir}/out'` cannot
    be formatted (no `base_dir`), `db.url` likewise one level down, `db: None` against a default mapping: the
    call returns, nothing existing changed, the missing defaults are added -/
example : (match setDefaults 8
      [(.str "out_dir", .str "/srv/given"), (.str "db", .dict [(.str "url", .str "pg://given")]), (.str "n", .none)]
      (.dict [(.str "out_dir", .str "{base_dir}/out"), (.str "retries", .int 3),
              (.str "db", .dict [(.str "url", .str "pg://{db_host}/db"), (.str "pool", .int 5)]),
              (.str "n", .dict [(.str "u", .str "{db_host}")]), (.str "label", .str "writes to {out_dir}")]) with
    | .ok (r, _) => r == [(.str "out_dir", .str "/srv/given"),
        (.str "db", .dict [(.str "url", .str "pg://given"), (.str "pool", .int 5)]), (.str "n", .none),
        (.str "retries", .int 3), (.str "label", .str "writes to /srv/given")]
    | .error _ => false) = true := by decide +kernel

/-! ### sequences that go on after a swallowed failure -/

/-- one operation with its state: agrees with `runOp` -/
theorem runOpS_of_ok (fuel : Nat) (root r : Pairs) (op : Op) (h : runOp fuel root op = .ok r) :
    runOpS fuel root op = (r, none) := by
  cases op with
  | merge add =>
    simp only [runOp] at h
    simp only [runOpS]
    cases hm : merge fuel root add with
    | error e => simp [hm, Except.map] at h
    | ok rt => obtain ⟨r', t⟩ := rt; simp [hm, Except.map] at h; simp [h]
  | defaults add =>
    simp only [runOp] at h
    simp only [runOpS]
    cases hm : setDefaults fuel root add with
    | error e => simp [hm, Except.map] at h
    | ok rt => obtain ⟨r', t⟩ := rt; simp [hm, Except.map] at h; simp [h]
  | step d add =>
    simp only [runOp] at h
    simp only [runOpS, h]

theorem runOpS_of_error (fuel : Nat) (root : Pairs) (op : Op) (e : Exc) (h : runOp fuel root op = .error e) :
    (runOpS fuel root op).2 = some e := by
  cases op with
  | merge add =>
    simp only [runOp] at h
    simp only [runOpS]
    cases hm : merge fuel root add with
    | error e' => simp [hm, Except.map] at h; simp [h]
    | ok rt => simp [hm, Except.map] at h
  | defaults add =>
    simp only [runOp] at h
    simp only [runOpS]
    cases hm : setDefaults fuel root add with
    | error e' => simp [hm, Except.map] at h; simp [h]
    | ok rt => simp [hm, Except.map] at h
  | step d add =>
    simp only [runOp] at h
    simp only [runOpS, h]
    split <;> rfl

/-- **`runOpsS_unflagged`.** Without any `swallow` flag the sequence with states is the sequence: same final
    context, no recorded failure; same index and exception when an operation fails. -/
theorem runOpsS_unflagged (fuel : Nat) : ∀ (ops : List Op) (i : Nat) (root : Pairs),
    runOpsSFrom fuel i root (ops.map fun o => (o, false)) = (runOpsFrom fuel i root ops).map fun r => (r, []) := by
  intro ops
  induction ops with
  | nil => intro i root; rfl
  | cons op rest ih =>
    intro i root
    simp only [List.map, runOpsSFrom, runOpsFrom]
    cases hop : runOp fuel root op with
    | ok r1 =>
      rw [runOpS_of_ok fuel root r1 op hop]
      exact ih (i + 1) r1
    | error e =>
      have h2 := runOpS_of_error fuel root op e hop
      cases hs : runOpS fuel root op with
      | mk r1 oe =>
        rw [hs] at h2
        simp only at h2
        subst h2
        simp [Except.map]

/-! ## Heap level: the incoming mapping is left unmodified — also by every LATER operation

  `MergeHeap` (`PypyrModel/Merge.lean`): the context is the dict object `root` of a heap, an incoming
  mapping is an object `add`, `Context.merge` writes to objects. `P` below is the set of objects the
  context owns (`C10H.FInv`: closed under "member of", contains every atom — leaf, bytearray, str —
  and everything allocated from now on); `A` is ANY set of addresses that existed at the start and
  shares no list / dict object with `P` — in particular all objects of all incoming mappings. -/

section heap
open Pypyr.FmtHeap Pypyr.MergeHeap Pypyr.C10H

/-- **A formatted value never is, nor holds, a container of the value that was formatted**
    (`formatted_value_is_fresh`): whatever `get_formatted_value` returns lies in `P`, and every object
    it allocated holds only objects of `P` — where `P` is any set that contains the context's objects,
    all atoms, and all new addresses. The formatted value may share atoms (numbers, None, bytes,
    bytearray, brace-free strings) with its input, and context objects through `{k:ff}` / `!py`; a
    list, dict, set or tuple of the input is never handed back. -/
theorem formatted_value_is_fresh (P : Ref → Prop) (fuel : Nat) (h h' : Heap) (root x r : Ref)
    (inv : FInv P h) (hroot : P root) (hf : fmtAt fuel h root x = .ok (r, h')) :
    P r ∧ FInv P h' ∧ (∀ (i : Nat) (c : Cell), h[i]? = some c → h'[i]? = some c) := by
  unfold fmtAt at hf
  have ⟨hp, inv'⟩ := fmtHeap_fresh (hctxOf_CtxP inv hroot) inv hf
  exact ⟨hp, inv', fun i c hc => (fmtHeap_ext hf).get hc⟩

/-- `Context.merge` keeps the ownership invariant and writes no protected address. -/
theorem mergeH_inv (P A : Ref → Prop) (h0 : Heap) (fuel : Nat) (root add : Ref) (h h' : Heap)
    (m : MInv P A h0 h) (hroot : P root) (hm : mergeH fuel root add h = .ok h') : MInv P A h0 h' :=
  mergeRecH_inv hroot fuel root add h h' m hroot hm

/-- `Context.set_defaults` keeps the ownership invariant and writes no protected address. -/
theorem setDefaultsH_inv (P A : Ref → Prop) (h0 : Heap) (fuel : Nat) (root add : Ref) (h h' : Heap)
    (m : MInv P A h0 h) (hroot : P root) (hm : setDefaultsH fuel root add h = .ok h') : MInv P A h0 h' :=
  defaultsRecH_inv hroot fuel root add h h' m hroot hm

/-- `Context.merge` / `Context.set_defaults` called directly (not through a step, which first stores
    its input mapping IN the context). -/
def isPlain : OpH → Bool
  | .merge _ | .defaults _ => true
  | .step _ _ => false

theorem runOpsH_inv (P A : Ref → Prop) (h0 : Heap) (fuel : Nat) (root : Ref) (hroot : P root) :
    ∀ (ops : List OpH) (i : Nat) (h h' : Heap), (∀ op ∈ ops, isPlain op = true) → MInv P A h0 h →
      runOpsHFrom fuel root i h ops = .ok h' → MInv P A h0 h'
  | [], i, h, h', _, m, hr => by simp only [runOpsHFrom] at hr; cases hr; exact m
  | op :: rest, i, h, h', hp, m, hr => by
    simp only [runOpsHFrom] at hr
    split at hr
    · cases hr
    · rename_i h1 h1r
      have m1 : MInv P A h0 h1 := by
        cases op with
        | merge a => exact mergeH_inv P A h0 fuel root a h h1 m hroot h1r
        | defaults a => exact setDefaultsH_inv P A h0 fuel root a h h1 m hroot h1r
        | step d a => have := hp (.step d a) (by simp); simp [isPlain] at this
      exact runOpsH_inv P A h0 fuel root hroot rest (i + 1) h1 h' (fun o ho => hp o (by simp [ho])) m1 hr

/-- **`incoming_unmodified`, for sequences.** Run any sequence of `merge` / `set_defaults` operations
    on the context object `root`. Let `S0` be a set of objects of the initial heap `h0` that contains the
    context, is closed under "member of" and contains every atom; let `A` be any set of addresses of
    `h0` that shares no list / dict object with `S0` (for instance: every object of every incoming
    mapping of the sequence). Then after the WHOLE sequence every address of `A` holds exactly what it
    held before: an incoming mapping is modified neither by its own operation nor by any later one —
    whatever an operation stored in the context is an object the context owns, never a list / dict of
    an incoming mapping, however empty. -/
theorem incoming_unmodified (fuel : Nat) (root : Ref) (h0 h' : Heap) (ops : List OpH) (S0 A : Ref → Prop)
    (hplain : ∀ op ∈ ops, isPlain op = true) (hroot : S0 root)
    (hclosed : ∀ x c, S0 x → h0[x]? = some c → ∀ y ∈ children c, S0 y)
    (hatoms : ∀ x c, h0[x]? = some c → isAtomCell c = true → S0 x)
    (hsic : SicOk h0) (hA : ∀ x, A x → x < h0.length)
    (hsep : ∀ x c, S0 x → A x → h0[x]? = some c → isMutCell c = false)
    (hrun : runOpsH fuel root h0 ops = .ok h') :
    ∀ x, A x → h'[x]? = h0[x]? := by
  let P : Ref → Prop := fun x => S0 x ∨ h0.length ≤ x
  have m0 : MInv P A h0 h0 := by
    refine ⟨⟨?_, ?_, hsic, fun x hx => Or.inr hx⟩, ?_, fun _ _ => rfl, hA⟩
    · intro x c hp hx y hy
      rcases hp with hp | hp
      · exact Or.inl (hclosed x c hp hx y hy)
      · rw [List.getElem?_eq_none hp] at hx; cases hx
    · intro x c hx ha; exact Or.inl (hatoms x c hx ha)
    · intro x c hp ha hx
      rcases hp with hp | hp
      · exact hsep x c hp ha hx
      · exact absurd (Nat.lt_of_lt_of_le (hA x ha) hp) (Nat.lt_irrefl _)
  exact (runOpsH_inv P A h0 fuel root (Or.inl hroot) ops 0 h0 h' hplain m0 hrun).frozen

/-- **`incoming_unmodified` in the property's words**: under the hypotheses of `incoming_unmodified`,
    with `A` closed under "member of" (all objects of the incoming mappings), every incoming mapping is
    deep-equal before and after the whole sequence. -/
theorem incoming_deep_equal (fuel : Nat) (root : Ref) (h0 h' : Heap) (ops : List OpH) (S0 A : Ref → Prop)
    (hplain : ∀ op ∈ ops, isPlain op = true) (hroot : S0 root)
    (hclosed : ∀ x c, S0 x → h0[x]? = some c → ∀ y ∈ children c, S0 y)
    (hatoms : ∀ x c, h0[x]? = some c → isAtomCell c = true → S0 x)
    (hsic : SicOk h0) (hA : ∀ x, A x → x < h0.length)
    (hAcl : ∀ x c, A x → h0[x]? = some c → ∀ y ∈ children c, A y)
    (hsep : ∀ x c, S0 x → A x → h0[x]? = some c → isMutCell c = false)
    (hrun : runOpsH fuel root h0 ops = .ok h') :
    ∀ (f : Nat) (a : Ref), A a → readVal f h' a = readVal f h0 a :=
  readVal_of_frozen
    (incoming_unmodified fuel root h0 h' ops S0 A hplain hroot hclosed hatoms hsic hA hsep hrun) hAcl

/-! ### the merge table on objects with their classes (`are_all_this_type` is `isinstance`)

  `Mapping`, `list`, `tuple` and `collections.abc.Set` tests accept subclasses and mixed classes:
  frozenset | set, set | frozenset, a tuple subclass + a tuple, CommentedSeq.extend(list), OrderedDict into
  dict … Cells carry a class tag (0 = builtin; set tag 1 = frozenset; other numbers = subclasses).
  `AtKey …` (Props/Lemmas/C10_Table.lean): the incoming item's key formats to `fk` and `current[fk]`
  exists and is the object `old`. The statements hold for ALL class tags of both operands. -/

/-- **`mergeH_table_dict`**: mapping × mapping of any two mapping classes → `merge_recurse` into the
    existing dict OBJECT (which therefore keeps its class). -/
theorem mergeH_table_dict {fuel : Nat} {recur : Ref → Ref → Heap → Except Exc Heap} {root cur k v : Ref}
    {h h1 : Heap} {fk old : Ref} {fkv : Val} {tc : Nat} {kvs : List (Ref × Ref)}
    (a : AtKey fuel root cur k h fk h1 fkv tc kvs old) {tv to : Nat} {vs os : List (Ref × Ref)}
    (hv : h1[v]? = some (.dict tv vs)) (ho : h1[old]? = some (.dict to os)) :
    mergeItemH fuel recur root cur k v h = recur old v h1 :=
  C10H.mergeH_table_dict a hv ho

/-- **`mergeH_table_list`**: list × list of any two list classes → the existing list OBJECT `old` is
    rewritten in place to `old ++ formatted new` and keeps ITS class tag `t`; `current` is not written;
    the incoming list `v` and the formatted list `fv` are not written. -/
theorem mergeH_table_list {fuel : Nat} {recur : Ref → Ref → Heap → Except Exc Heap} {root cur k v : Ref}
    {h h1 h2 : Heap} {fk fv old : Ref} {fkv : Val} {tc : Nat} {kvs : List (Ref × Ref)}
    (a : AtKey fuel root cur k h fk h1 fkv tc kvs old) {tv t t' : Nat} {vs xs ys : List Ref}
    (hv : h1[v]? = some (.list tv vs)) (ho : h1[old]? = some (.list t xs))
    (hf : fmtAt fuel h1 root v = .ok (fv, h2)) (hfc : h2[fv]? = some (.list t' ys)) :
    mergeItemH fuel recur root cur k v h = .ok (h2.set old (.list t (xs ++ ys))) ∧
    (h2.set old (.list t (xs ++ ys)))[old]? = some (.list t (xs ++ ys)) ∧
    (h2.set old (.list t (xs ++ ys)))[cur]? = h2[cur]? ∧
    (old ≠ v → (h2.set old (.list t (xs ++ ys)))[v]? = some (.list tv vs)) ∧
    (old ≠ fv → (h2.set old (.list t (xs ++ ys)))[fv]? = some (.list t' ys)) :=
  C10H.mergeH_table_list a hv ho hf hfc

/-- **`mergeH_table_tuple`**: tuple × tuple of any two tuple classes → `current[k] + formatted`:
    CPython's `tuple_concat` hands back an EXACT-tuple operand itself when the other operand is empty;
    otherwise the result is a NEW PLAIN tuple (tag 0), whatever the operands' classes. -/
theorem mergeH_table_tuple {fuel : Nat} {recur : Ref → Ref → Heap → Except Exc Heap} {root cur k v : Ref}
    {h h1 h2 : Heap} {fk fv old : Ref} {fkv : Val} {tc : Nat} {kvs : List (Ref × Ref)}
    (a : AtKey fuel root cur k h fk h1 fkv tc kvs old) {tv tx ty : Nat} {vs xs ys : List Ref}
    (hv : h1[v]? = some (.tuple tv vs)) (ho : h1[old]? = some (.tuple tx xs))
    (hf : fmtAt fuel h1 root v = .ok (fv, h2)) (hfc : h2[fv]? = some (.tuple ty ys)) :
    mergeItemH fuel recur root cur k v h =
      if ys.isEmpty && tx == 0 then writeKey h2 cur fkv fk old
      else if xs.isEmpty && ty == 0 then writeKey h2 cur fkv fk fv
      else writeKey (h2 ++ [.tuple 0 (xs ++ ys)]) cur fkv fk h2.length :=
  C10H.mergeH_table_tuple a hv ho hf hfc

/-- tuple × tuple when no shortcut applies: `current` (and only `current`) is rewritten, to refer to the
    NEW object `h2.length`, a plain tuple with members old ++ formatted new; no operand is written. -/
theorem mergeH_table_tuple_new {fuel : Nat} {recur : Ref → Ref → Heap → Except Exc Heap} {root cur k v : Ref}
    {h h1 h2 : Heap} {fk fv old : Ref} {fkv : Val} {tc : Nat} {kvs : List (Ref × Ref)}
    (a : AtKey fuel root cur k h fk h1 fkv tc kvs old) {tv tx ty : Nat} {vs xs ys : List Ref}
    (hv : h1[v]? = some (.tuple tv vs)) (ho : h1[old]? = some (.tuple tx xs))
    (hf : fmtAt fuel h1 root v = .ok (fv, h2)) (hfc : h2[fv]? = some (.tuple ty ys))
    (h1n : (ys.isEmpty && tx == 0) = false) (h2n : (xs.isEmpty && ty == 0) = false) :
    let h3 := h2 ++ [Cell.tuple 0 (xs ++ ys)]
    let h' := h3.set cur (.dict tc (setPairH h3 kvs fkv fk h2.length))
    mergeItemH fuel recur root cur k v h = .ok h' ∧
    h'[h2.length]? = some (.tuple 0 (xs ++ ys)) ∧
    h'[old]? = some (.tuple tx xs) ∧ h'[v]? = some (.tuple tv vs) ∧ h'[fv]? = some (.tuple ty ys) :=
  C10H.mergeH_table_tuple_new a hv ho hf hfc h1n h2n

/-- **`mergeH_table_set`**: set × set of any two `collections.abc.Set` classes (set, frozenset,
    subclasses; in any combination) → `current` (and only `current`) is rewritten, to refer to the NEW
    object `h2.length` whose class is the base type of the LEFT operand (`unionTag t`: frozenset | x is a
    frozenset; set | x and MySet | x are plain sets), members = the existing ones first
    (`unionH_prefix`), then the formatted new ones not yet present; no operand is written. -/
theorem mergeH_table_set {fuel : Nat} {recur : Ref → Ref → Heap → Except Exc Heap} {root cur k v : Ref}
    {h h1 h2 : Heap} {fk fv old : Ref} {fkv : Val} {tc : Nat} {kvs : List (Ref × Ref)}
    (a : AtKey fuel root cur k h fk h1 fkv tc kvs old) {tv t t' : Nat} {vs xs ys : List Ref}
    (hv : h1[v]? = some (.set tv vs)) (ho : h1[old]? = some (.set t xs))
    (hf : fmtAt fuel h1 root v = .ok (fv, h2)) (hfc : h2[fv]? = some (.set t' ys)) :
    let h3 := h2 ++ [Cell.set (unionTag t) (unionH h2 xs ys)]
    let h' := h3.set cur (.dict tc (setPairH h3 kvs fkv fk h2.length))
    mergeItemH fuel recur root cur k v h = .ok h' ∧
    h'[h2.length]? = some (.set (unionTag t) (unionH h2 xs ys)) ∧
    h'[old]? = some (.set t xs) ∧ h'[v]? = some (.set tv vs) ∧ h'[fv]? = some (.set t' ys) :=
  C10H.mergeH_table_set a hv ho hf hfc

/-- the class of a union: frozenset stays frozenset, every other left operand gives a plain set -/
theorem mergeH_union_class (t : Nat) : (unionTag t = 1 ↔ t = 1) ∧ (unionTag t = 0 ↔ t ≠ 1) := by
  unfold unionTag
  by_cases h : t = 1 <;> simp [h]

/-- the existing members of a union come first, in place and order -/
theorem mergeH_union_members (h : Heap) (xs ys : List Ref) : xs <+: unionH h xs ys :=
  unionH_prefix h xs ys

/- Concrete runs through `mergeH` with mixed classes. Heap: 0 's', 1 the number 1, 2 the EXISTING container
   holding 1, 3 the context {s: 2}; 4 the number 2, 5 the INCOMING container holding 2, 6 the incoming
   mapping {s: 5}. Formatting 5 allocates 7 (same class as 5); the merged container is 8. -/
def mixHeap (old new : List Ref → Cell) : Heap :=
  [.str "s", .leaf (.int 1), old [1], .dict 0 [(0, 2)], .leaf (.int 2), new [4], .dict 0 [(0, 5)]]

/-- what the context's `s` refers to afterwards, and that cell -/
def mixResult (old new : List Ref → Cell) : Option (Ref × Cell) :=
  match mergeH 8 3 6 (mixHeap old new) with
  | .ok h => (match h[3]? with
      | some (Cell.dict 0 [(0, r)]) => (match h[r]? with | some c => some (r, c) | none => none)
      | _ => none)
  | .error _ => none

-- frozenset | MySet → a NEW frozenset; MySet | frozenset → a NEW plain set
example : (match mixResult (.set 1) (.set 3) with | some (8, .set 1 [1, 4]) => true | _ => false) = true := by
  decide +kernel
example : (match mixResult (.set 3) (.set 1) with | some (8, .set 0 [1, 4]) => true | _ => false) = true := by
  decide +kernel
-- MyTuple + tuple → a NEW plain tuple; tuple + MyTuple likewise
example : (match mixResult (.tuple 3) (.tuple 0) with | some (8, .tuple 0 [1, 4]) => true | _ => false) = true := by
  decide +kernel
example : (match mixResult (.tuple 0) (.tuple 3) with | some (8, .tuple 0 [1, 4]) => true | _ => false) = true := by
  decide +kernel
-- (1,) + MyTuple() → the existing exact tuple ITSELF (object 2); MyTuple((1,)) + () → a new plain tuple
example : (match mixResult (.tuple 0) (fun _ => .tuple 3 []) with | some (2, .tuple 0 [1]) => true | _ => false) = true := by
  decide +kernel
example : (match mixResult (.tuple 3) (fun _ => .tuple 0 []) with | some (8, .tuple 0 [1]) => true | _ => false) = true := by
  decide +kernel
-- CommentedSeq.extend(MyList) → the SAME list object 2, still a CommentedSeq
example : (match mixResult (.list 2) (.list 3) with | some (2, .list 2 [1, 4]) => true | _ => false) = true := by
  decide +kernel

/- A concrete sequence (the accumulator pattern). Heap: 0 'name', 1 'job1', 2 the context {name: job1};
   3 'results', 4 the EMPTY list [], 5 the first incoming mapping {results: []}; 6 ['r-{name}'] (7 its
   member), 8 the second incoming mapping {results: [..]}. After merge(5); merge(8) the context's
   `results` is a list the context owns holding 'r-job1', and object 4 is still the empty list. -/
def accHeap : Heap :=
  [.str "name", .str "job1", .dict 0 [(0, 1)], .str "results", .list 0 [], .dict 0 [(3, 4)],
   .list 0 [7], .str "r-{name}", .dict 0 [(3, 6)]]

example : (match runOpsH 8 2 accHeap [.merge 5, .merge 8] with
    | .ok h => (match h[4]?, h[5]? with
          | some (Cell.list 0 []), some (Cell.dict 0 [(3, 4)]) => true
          | _, _ => false) &&
        (match h[2]? with
         | some (Cell.dict 0 [(0, 1), (3, r)]) => r ≥ 9 &&
            (match h[r]? with | some (Cell.list 0 [s]) => deepVal h s == some (.str "r-job1") | _ => false)
         | _ => false)
    | .error _ => false) = true := by decide +kernel

/-- The hypotheses of `incoming_unmodified` are satisfiable on that heap: `S0` = the context's objects
    and the atoms, `A` = the objects of both incoming mappings. -/
example : ∀ h', runOpsH 8 2 accHeap [.merge 5, .merge 8] = .ok h' →
    ∀ x, x ∈ [3, 4, 5, 6, 7, 8] → h'[x]? = accHeap[x]? := by
  intro h' hrun
  refine incoming_unmodified 8 2 accHeap h' [.merge 5, .merge 8] (fun x => x ∈ [0, 1, 2, 3, 7])
    (fun x => x ∈ [3, 4, 5, 6, 7, 8]) (by simp [isPlain]) (by simp) ?_ ?_ ?_ ?_ ?_ hrun
  · intro x c hx hc y hy
    simp only [List.mem_cons, List.not_mem_nil, or_false] at hx
    rcases hx with rfl | rfl | rfl | rfl | rfl <;> simp [accHeap] at hc <;> subst hc <;> simp [children] at hy
    rcases hy with rfl | rfl <;> simp
  · intro x c hc ha
    rcases lt9 x (getElem?_lt hc) with rfl | rfl | rfl | rfl | rfl | rfl | rfl | rfl | rfl <;>
      simp [accHeap] at hc <;> subst hc <;> simp [isAtomCell] at ha <;> simp
  · intro x p hx
    rcases lt9 x (getElem?_lt hx) with rfl | rfl | rfl | rfl | rfl | rfl | rfl | rfl | rfl <;>
      simp [accHeap] at hx
  · intro x hx
    simp only [List.mem_cons, List.not_mem_nil, or_false] at hx
    rcases hx with rfl | rfl | rfl | rfl | rfl | rfl <;> simp [accHeap]
  · intro x c hs ha hc
    simp only [List.mem_cons, List.not_mem_nil, or_false] at hs ha
    rcases hs with rfl | rfl | rfl | rfl | rfl <;> simp at ha <;> simp [accHeap] at hc <;> subst hc <;> rfl

end heap

/-! ## Concrete runs (the docstring example of `pypyr.steps.contextmerge` and of `default`) -/

-- `docCtx` / `docAdd` are defined above (before the section on the trace)

example : (match merge 8 docCtx docAdd with
    | .ok (r, _) => r == [(.str "key1", .str "value1"), (.str "key2", .str "aaa_value1_zzz"),
        (.str "key3", .dict [(.str "k31", .str "value31"), (.str "k32", .str "value32"), (.str "k33", .str "value33")]),
        (.str "none", .str "x"), (.str "key4", .str "bbb_aaa_value1_zzz_yyy")]
    | .error _ => false) = true := by decide +kernel

example : (match setDefaults 8 docCtx docAdd with
    | .ok (r, t) => r == [(.str "key1", .str "value1"), (.str "key2", .str "value2"),
        (.str "key3", .dict [(.str "k31", .str "value31"), (.str "k32", .str "value32"), (.str "k33", .str "value33")]),
        (.str "none", .none), (.str "key4", .str "bbb_value2_yyy")]
        && t == [([.str "key3"], false), ([.str "key3", .str "k33"], true), ([.str "key4"], true)]
    | .error _ => false) = true := by decide +kernel

/-- a sequence on the docstring context: defaults, then merge, then the default step -/
example : (match runOps 8 docCtx [.defaults docAdd, .merge docAdd, .step true (some docAdd)] with
    | .ok r => dictGet? r (.str "key4") == some (.str "bbb_aaa_value1_zzz_yyy") &&
               dictGet? r (.str "none") == some (.str "x") && (dictGet? r (.str "defaults")).isSome
    | .error _ => false) = true := by decide +kernel

/-! ## Incoming keys of EVERY kind are formatted, at every site

  "Both apply formatting to incoming keys": keys are `Val`s in the model — str, int, bool, None, float, bytes,
  tuples (nested) are all inside it (`hashable`); a frozenset key is not (the tree model has one, mutable, set
  kind): such cases are implementation-only in the check, judged by the monitors written from the property text.
  Special tags are unhashable in the real code and cannot be keys. Nothing below assumes anything about the kind
  of `k`: the key of every item that `merge_recurse` / `defaults_recurse` walk themselves (the root — `rebuild = id` —
  and every existing mapping, any depth — any `rebuild`) goes through the FULL formatter; a tuple key is therefore
  formatted member by member (`tuple_key_memberwise`, nested by iteration), and the key of an entry below a
  brand-new path — formatted by the formatter's Mapping branch — is the same formatted key (`new_path_key_agrees`):
  the two sites cannot disagree. `strOnlyKeys` is the counter-model (format a key only when it is a str / special
  tag): it differs from the model on a tuple key (`str_only_keys_differs`). -/

/-- Every successful item of `merge_recurse`, at any site: the key — of any kind — was formatted by the
    formatter, the formatted key is hashable, it IS a key of the destination afterwards and heads the trace. -/
theorem merge_item_key_formatted {fmt : Fmt}
    {recur : (Pairs → Pairs) → Pairs → Pairs → Except Exc (Pairs × Trace)}
    {rebuild : Pairs → Pairs} {cur : Pairs} {k v : Val} {cur1 : Pairs} {t1 : Trace}
    (h : mergeItem fmt recur rebuild cur k v = .ok (cur1, t1)) :
    ∃ fk, fmt (ctxOf (rebuild cur)) k = .ok fk ∧ hashable fk = true ∧ (dictGet? cur1 fk).isSome = true ∧
      (t1.head?).map (·.1) = some [fk] := by
  obtain ⟨fk, hk, hh, hc⟩ := mergeItem_spec h
  refine ⟨fk, hk, hh, ?_⟩
  rcases hc with ⟨_, rfl, x, _, rfl⟩ | ⟨csub, sub, csub', ts, rfl, _, _, rfl, rfl⟩
  · simp [dictGet?_dictSet_eq]
  · simp [dictGet?_dictSet_eq]

/-- The same for `defaults_recurse`: the formatted key is a key of the destination afterwards (it was one
    already, or it has been added), whatever kind of value the raw key is. -/
theorem defaults_item_key_formatted {fmt : Fmt}
    {recur : (Pairs → Pairs) → Pairs → Pairs → Except Exc (Pairs × Trace)}
    {rebuild : Pairs → Pairs} {cur : Pairs} {k v : Val} {cur1 : Pairs} {t1 : Trace}
    (h : defaultsItem fmt recur rebuild cur k v = .ok (cur1, t1)) :
    ∃ fk, fmt (ctxOf (rebuild cur)) k = .ok fk ∧ hashable fk = true ∧ (dictGet? cur1 fk).isSome = true := by
  obtain ⟨fk, hk, hh, hc⟩ := defaultsItem_spec h
  refine ⟨fk, hk, hh, ?_⟩
  rcases hc with ⟨old, hold, _, rfl, _⟩ | ⟨_, fv, _, rfl, _⟩ | ⟨csub, sub, csub', ts, rfl, _, _, rfl, _⟩
  · simp [hold]
  · simp [dictGet?_dictSet_eq]
  · simp [dictGet?_dictSet_eq]

/-- A tuple key is formatted member by member (a member that is itself a tuple: apply again). -/
theorem tuple_key_memberwise (fuel : Nat) (ctx : Ctx) (ks : List Val) (fk : Val)
    (h : fmtVal (fuel + 1) ctx (.tuple ks) = .ok fk) :
    ∃ ys, fk = .tuple ys ∧ ys.length = ks.length ∧ C09.All₂ (fun x y => fmtVal fuel ctx x = .ok y) ks ys :=
  C09.fmt_tuple_elementwise fuel ctx false ks fk h

/-- Below a brand-new path the entry goes through the formatter's Mapping branch: the key stored there is the
    key `get_formatted_value(k)` gives — the very function `mergeItem` / `defaultsItem` apply on existing paths. -/
theorem new_path_key_agrees (fuel : Nat) (ctx : Ctx) (k v r : Val)
    (h : fmtVal (fuel + 1) ctx (.dict [(k, v)]) = .ok r) :
    ∃ fk fv, r = .dict [(fk, fv)] ∧ fmtVal (fuel + 1) ctx k = .ok fk ∧ fmtVal (fuel + 1) ctx v = .ok fv := by
  simp only [fmtVal, fmtIter, mapE] at h
  cases hk : fmtIter fuel ctx false k with
  | error e => simp [hk] at h
  | ok fk =>
    cases hv : fmtIter fuel ctx false v with
    | error e => simp [hk, hv] at h
    | ok fv =>
      simp [hk, hv, rebuildDict, dictSet] at h
      exact ⟨fk, fv, h.symm, C09.fmtIter_mono (Nat.le_succ _) hk, C09.fmtIter_mono (Nat.le_succ _) hv⟩

/-- Counter-model: a formatter that leaves everything but str / special tags alone (what a key site guarded by
    `isinstance(k, (str, SpecialTagDirective))` amounts to). -/
def strOnlyKeys (fmt : Fmt) : Fmt := fun c v => if isStrLike v then fmt c v else .ok v

def keyCtx : Pairs :=
  [(.str "env", .str "prod"), (.tuple [.str "prod", .str "port"], .list [.int 80]),
   (.str "svc", .dict [(.str "web", .dict [(.tuple [.str "prod", .tuple [.str "prod", .int 1]], .none)])])]

def keyAdd : Val := .dict
  [(.tuple [.str "{env}", .str "port"], .list [.int 443]),
   (.str "svc", .dict [(.str "web", .dict [(.tuple [.str "{env}", .tuple [.str "{env}", .int 1]], .str "x {env}")])]),
   (.str "fresh", .dict [(.tuple [.str "{env}", .str "port"], .str "{env}-8080")])]

/-- tuple keys (nested too) at the root, at depth 3 under existing mappings and below a new path: formatted
    everywhere; the existing list is extended, the existing None overwritten (merge) / kept (set_defaults) -/
example : (match merge 8 keyCtx keyAdd with
    | .ok (r, _) => r == [(.str "env", .str "prod"), (.tuple [.str "prod", .str "port"], .list [.int 80, .int 443]),
        (.str "svc", .dict [(.str "web", .dict [(.tuple [.str "prod", .tuple [.str "prod", .int 1]], .str "x prod")])]),
        (.str "fresh", .dict [(.tuple [.str "prod", .str "port"], .str "prod-8080")])]
    | .error _ => false) = true := by decide +kernel

example : (match setDefaults 8 keyCtx keyAdd with
    | .ok (r, _) => r == keyCtx ++ [(.str "fresh", .dict [(.tuple [.str "prod", .str "port"], .str "prod-8080")])]
    | .error _ => false) = true := by decide +kernel

/-- the counter-model stores the entries under the RAW tuple keys on existing paths: it is not the model -/
theorem str_only_keys_differs :
    (match mergeWith (strOnlyKeys (fmtVal 8)) 8 keyCtx keyAdd, merge 8 keyCtx keyAdd with
     | .ok (r1, _), .ok (r2, _) => r1 != r2 && (dictGet? r1 (.tuple [.str "{env}", .str "port"])).isSome
     | _, _ => false) = true := by decide +kernel


end Pypyr.C10
