/-
  Translated_C18 — the Lean definitions GENERATED from the six built-in context parsers
  `pypyr/parser/{keyvaluepairs,list,string,keys,dict,argskwargs}.py` by harness/translate.py
  (Generated/TranslatedParser*.lean, regenerated on every check) are equal, on every input, to the
  hand-written model `Cli.parse` (PypyrModel/Cli.lean §3) that the C18 parser theorems
  (Props/C18.lean, Props/Lemmas/C18_Parsers.lean) are about.

  Domain: `args` is `None` or a list of `str` (what `pypyr.cli` / `pipelinerunner.run` pass). The model
  takes a list and is used with `args_in.getD []`; the theorems below show that this is sound:
  `None` and `[]` give the same result in the code. The translated result is a dynamic value
  (`Val.none` for Python `None`), the model's an `Option Val`: `ofVal` converts.
  The `json` parser: `json.loads` is an opaque function of the joined text - a PARAMETER `loads` of both the
  translated definition and the model; the translator accepts exactly the call `json.loads(<str>)` (any further
  positional or keyword argument - `strict=False`, `cls=`, `object_hook=`, `parse_float=` … - selects a
  different function of the text and makes the translation fail = this file does not build). What `loads`
  is (Python's strict RFC 8259 decoder) is the harness's business: `check_parsers` compares with the stdlib
  decoder on texts with raw control characters, non-ASCII, quotes, escapes, lone surrogates, NaN, duplicates.
  Not covered here: everything the file-based parsers do.
-/
import Generated.TranslatedParserKeyvaluepairs
import Generated.TranslatedParserList
import Generated.TranslatedParserString
import Generated.TranslatedParserKeys
import Generated.TranslatedParserDict
import Generated.TranslatedParserArgskwargs
import Generated.TranslatedParserJson
import PypyrModel.Cli

set_option linter.unusedSimpArgs false

namespace Pypyr.TranslatedC18
open Pypyr Pypyr.Cli Pypyr.Translated

/-- Python `None` ↦ `none`, any other value ↦ `some`. -/
def ofVal : Val → Option Val
  | .none => none
  | v => some v

/-! ## primitives of PyRt = helpers of the model -/

theorem dictSet_eq (d : List (Val × Val)) (k v : Val) : PyRt.dictSet d k v = Pypyr.dictSet d k v := by
  induction d with
  | nil => rfl
  | cons kv rest ih =>
    obtain ⟨k', v'⟩ := kv
    by_cases h : k' = k <;> simp [PyRt.dictSet, Pypyr.dictSet, h, ih]

theorem partitionChars_eq (cs : List Char) : PyRt.partitionChars '=' cs = partitionEq cs := by
  induction cs with
  | nil => rfl
  | cons c rest ih => by_cases h : c = '=' <;> simp [PyRt.partitionChars, partitionEq, h, ih]

theorem partitionChar_eq (a : String) :
    PyRt.partitionChar a '=' = (keyOf a, if hasSep a then "=" else "", valOf a) := by
  simp [PyRt.partitionChar, keyOf, hasSep, valOf, partitionChars_eq]; rfl

theorem strJoin_eq : ∀ xs : List String, PyRt.strJoin " " xs = joinSp xs
  | [] => rfl
  | [_] => rfl
  | a :: b :: rest => by simp [PyRt.strJoin, joinSp, strJoin_eq (b :: rest)]

theorem dictOfPairs_map {α : Type} (f : α → Val × Val) (l : List α) :
    PyRt.dictOfPairs (l.map f) = l.foldl (fun d a => Pypyr.dictSet d (f a).1 (f a).2) [] := by
  simp only [PyRt.dictOfPairs, List.foldl_map]
  congr 1; funext d a; exact dictSet_eq d _ _

theorem truthyList_eq {α : Type} (l : List α) : PyRt.truthyList l = !l.isEmpty := rfl

/-! ## the parsers -/

theorem isEmpty_false_of_ne {α : Type} {l : List α} (h : l ≠ []) : l.isEmpty = false := by
  cases l <;> simp_all

theorem translated_keyvaluepairs_eq_model (loads : String → Except Exc Val) (args : Option (List String)) :
    parse loads .keyvaluepairs (args.getD []) = .ok (ofVal (ParserKeyvaluepairs.get_parsed_context args)) := by
  rcases args with _ | l
  · simp [ParserKeyvaluepairs.get_parsed_context, parse, ofVal]
  · by_cases h : l = []
    · subst h; simp [ParserKeyvaluepairs.get_parsed_context, parse, ofVal, truthyList_eq]
    · simp [ParserKeyvaluepairs.get_parsed_context, parse, ofVal, truthyList_eq, isEmpty_false_of_ne h, kvDict,
        List.map_map, dictOfPairs_map, Function.comp_def, partitionChar_eq]

theorem translated_list_eq_model (loads : String → Except Exc Val) (args : Option (List String)) :
    parse loads .list (args.getD []) = .ok (ofVal (ParserList.get_parsed_context args)) := by
  rcases args with _ | ⟨_ | ⟨a, rest⟩⟩ <;>
    simp [ParserList.get_parsed_context, parse, ofVal, truthyList_eq, strList]

theorem translated_string_eq_model (loads : String → Except Exc Val) (args : Option (List String)) :
    parse loads .string (args.getD []) = .ok (ofVal (ParserString.get_parsed_context args)) := by
  rcases args with _ | ⟨_ | ⟨a, rest⟩⟩ <;>
    simp [ParserString.get_parsed_context, parse, ofVal, truthyList_eq, strJoin_eq]

theorem translated_keys_eq_model (loads : String → Except Exc Val) (args : Option (List String)) :
    parse loads .keys (args.getD []) = .ok (ofVal (ParserKeys.get_parsed_context args)) := by
  rcases args with _ | l
  · simp [ParserKeys.get_parsed_context, parse, ofVal]
  · by_cases h : l = []
    · subst h; simp [ParserKeys.get_parsed_context, parse, ofVal, truthyList_eq]
    · simp [ParserKeys.get_parsed_context, parse, ofVal, truthyList_eq, isEmpty_false_of_ne h, dictOfPairs_map]

theorem translated_dict_eq_model (loads : String → Except Exc Val) (args : Option (List String)) :
    parse loads .dict (args.getD []) = .ok (ofVal (ParserDict.get_parsed_context args)) := by
  rcases args with _ | l
  · simp [ParserDict.get_parsed_context, parse, ofVal]
  · by_cases h : l = []
    · subst h; simp [ParserDict.get_parsed_context, parse, ofVal, truthyList_eq]
    · simp [ParserDict.get_parsed_context, parse, ofVal, truthyList_eq, isEmpty_false_of_ne h, kvDict,
        List.map_map, dictOfPairs_map, Function.comp_def, partitionChar_eq]

/-- any loop body that does what the argskwargs loop does, folded over the arguments, is the model's
    `argsKwargsLoop` (the state is the pair (out, arg_list)). -/
theorem argskwargs_fold (f : List (Val × Val) × List String → String → List (Val × Val) × List String)
    (hf : ∀ st a, f st a = if hasSep a then (Pypyr.dictSet st.1 (.str (keyOf a)) (.str (valOf a)), st.2)
                           else (st.1, st.2 ++ [a]))
    (args : List String) (out : List (Val × Val)) (al : List String) :
    List.foldl f (out, al) args = argsKwargsLoop args out al := by
  induction args generalizing out al with
  | nil => rfl
  | cons a rest ih =>
    by_cases h : hasSep a <;> simp [List.foldl, argsKwargsLoop, hf, h, ih]

theorem translated_argskwargs_eq_model (loads : String → Except Exc Val) (args : Option (List String)) :
    parse loads .argskwargs (args.getD []) = .ok (ofVal (ParserArgskwargs.get_parsed_context args)) := by
  rcases args with _ | l
  · simp [ParserArgskwargs.get_parsed_context, parse, ofVal, PyRt.dictOfPairs, PyRt.dictSet]
  · by_cases h : l = []
    · subst h
      simp [ParserArgskwargs.get_parsed_context, parse, ofVal, truthyList_eq, PyRt.dictOfPairs, PyRt.dictSet]
    · simp only [ParserArgskwargs.get_parsed_context, parse, truthyList_eq, isEmpty_false_of_ne h, Option.getD_some,
        Bool.not_false, if_true, Bool.false_eq_true, if_false]
      rw [argskwargs_fold _ (by
        intro st a; obtain ⟨o, al⟩ := st
        by_cases hs : hasSep a <;> simp [partitionChar_eq, PyRt.truthyStr, dictSet_eq, hs])]
      simp [ofVal, dictSet_eq, strList]

/-- the json parser: for EVERY `loads` (the same one on both sides, applied to the space-joined text and to
    nothing else) the translated code is the model: `None` without arguments, the loaded object when it is a
    dict, `loads`'s own error unchanged, the TypeError (with the message of the code) for any other value. -/
theorem translated_json_eq_model (loads : String → Except Exc Val) (args : Option (List String)) :
    parse loads .json (args.getD []) = (ParserJson.get_parsed_context args loads).map ofVal := by
  rcases args with _ | l
  · simp [ParserJson.get_parsed_context, parse, ofVal, Except.map, pure, Except.pure]
  · by_cases h : l = []
    · subst h; simp [ParserJson.get_parsed_context, parse, ofVal, truthyList_eq, Except.map, pure, Except.pure]
    · simp only [ParserJson.get_parsed_context, parse, truthyList_eq, isEmpty_false_of_ne h, Option.getD_some,
        Bool.not_false, if_true, Bool.false_eq_true, if_false, strJoin_eq]
      rcases hl : loads (joinSp l) with e | v
      · simp [Except.map, bind, Except.bind]
      · cases v <;> simp [Except.map, bind, Except.bind, pure, Except.pure, ofVal, typeErrorJson, throw, throwThe,
          MonadExceptOf.throw]

/-- the translated json parser looks at the argument list only through `loads (' '.join(args))`: two `loads`
    that agree on that one text give the same result. -/
theorem translated_json_uses_loads_on_joined_text (l1 l2 : String → Except Exc Val) (args : List String)
    (h : l1 (joinSp args) = l2 (joinSp args)) :
    ParserJson.get_parsed_context (some args) l1 = ParserJson.get_parsed_context (some args) l2 := by
  by_cases hn : args = []
  · subst hn; simp [ParserJson.get_parsed_context, truthyList_eq]
  · simp only [ParserJson.get_parsed_context, truthyList_eq, isEmpty_false_of_ne hn, Bool.not_false, if_true,
      strJoin_eq, h]

example : ParserJson.get_parsed_context (some ["{", "}"]) (fun s => if s = "{ }" then .ok (.dict []) else .error ⟨"E", s⟩)
    = .ok (.dict []) := by
  simp [ParserJson.get_parsed_context, PyRt.truthyList, PyRt.strJoin, bind, Except.bind, pure, Except.pure]

example : ParserKeyvaluepairs.get_parsed_context (some ["a=b", "c", "a=d=e"]) =
    .dict [(.str "a", .str "d=e"), (.str "c", .str "")] := by decide +kernel

example : ParserArgskwargs.get_parsed_context (some ["x", "k=v", "y"]) =
    .dict [(.str "k", .str "v"), (.str "argList", .list [.str "x", .str "y"])] := by decide +kernel

end Pypyr.TranslatedC18
