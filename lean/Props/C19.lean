/-
  C19 — pipeline and custom-module resolution order.

  Theorems about `PypyrModel/Resolve.lean` (a transliteration of `pypyr/loaders/file.py`,
  `pype.get_arguments`, `add_sys_path`): for EVERY file system (existence predicate), every name,
  every parent. Helper lemmas: `Props/Lemmas/C19_Find.lean`.
-/
import Props.Lemmas.C19_Find

namespace Pypyr.C19
open Pypyr.Resolve

/-! example file system for the non-vacuity examples: cwd `/w`, built-ins `/b`;
    `x.yaml` exists in `/w/pipelines` and `/b`, `/p` is a directory, `/p/x.yaml` does not exist. -/
def exFs : Fs :=
  { cwd := ["w"], builtin := ["b"],
    isFile := fun p => p == ["w", "pipelines", "x.yaml"] || p == ["b", "x.yaml"] || p == ["p", "y.yaml"],
    dirExists := fun d => d == ["w"] || d == ["w", "pipelines"] || d == ["b"] || d == ["p"] }

/-- `resolve_first_existing` (spelled out): a relative name resolves to the first existing file
    among `parent/<name>.yaml` (only if a parent is given, exists and is not the cwd),
    `cwd/<name>.yaml`, `cwd/pipelines/<name>.yaml`, `{pypyr}/pipelines/<name>.yaml`; if none
    exists the result is the not-found error. For every existence predicate. -/
theorem resolve_first_existing (fs : Fs) (parts : List String) (parent : Option Path) :
    getPipelinePath fs (.rel parts) parent =
      match (candidates fs parent parts).find? fs.isFile with
      | some p => .ok p
      | none => .error (notFoundMsg ("/".intercalate (fileParts parts)) (searchDirs fs parent)) := by
  simp only [getPipelinePath, findPipeline_eq_find, candidates]
  cases List.find? fs.isFile (List.map (fun x => x ++ fileParts parts) (searchDirs fs parent)) <;> rfl

/-- the candidate list, written out -/
theorem candidates_spelled_out (fs : Fs) (parts : List String) (parent : Option Path) :
    candidates fs parent parts =
      (match parent with
       | some p => if fs.dirExists p = true ∧ p ≠ fs.cwd then [p ++ fileParts parts] else []
       | none => []) ++
      [fs.cwd ++ fileParts parts, fs.cwd ++ ["pipelines"] ++ fileParts parts,
       fs.builtin ++ fileParts parts] := by
  cases parent with
  | none => simp [candidates, searchDirs, cwdPipelines]
  | some p =>
    by_cases h1 : fs.dirExists p = true <;> by_cases h2 : p = fs.cwd <;>
      simp [candidates, searchDirs, cwdPipelines, h1, h2]

/-- `resolve_first_existing`, positional form: the result is a candidate that exists and every
    candidate before it does not. -/
theorem resolve_first_existing_pos (fs : Fs) (parts : List String) (parent : Option Path) (p : Path)
    (h : getPipelinePath fs (.rel parts) parent = .ok p) :
    fs.isFile p = true ∧ ∃ before after, candidates fs parent parts = before ++ p :: after ∧
      ∀ q ∈ before, fs.isFile q = false := by
  rw [resolve_first_existing] at h
  split at h
  · rename_i q hq
    cases h
    obtain ⟨hp, as, bs, heq, hb⟩ := List.find?_eq_some_iff_append.mp hq
    exact ⟨hp, as, bs, heq, fun q hq => by simpa using hb q hq⟩
  · cases h

/-- … and conversely: if any candidate exists, resolution succeeds. -/
theorem resolve_some_existing (fs : Fs) (parts : List String) (parent : Option Path) (q : Path)
    (hq : q ∈ candidates fs parent parts) (hf : fs.isFile q = true) :
    ∃ p, getPipelinePath fs (.rel parts) parent = .ok p := by
  rw [resolve_first_existing]
  cases hfind : (candidates fs parent parts).find? fs.isFile with
  | some p => exact ⟨p, rfl⟩
  | none => exact absurd hf (by simpa using List.find?_eq_none.mp hfind q hq)

example : getPipelinePath exFs (.rel ["x"]) (some ["p"]) = .ok ["w", "pipelines", "x.yaml"] ∧
    candidates exFs (some ["p"]) ["x"] =
      [["p", "x.yaml"], ["w", "x.yaml"], ["w", "pipelines", "x.yaml"], ["b", "x.yaml"]] := by
  constructor <;> rfl

/-- `resolve_absolute_only`: an absolute name is looked for at exactly that path — found iff it
    exists there; the parent, the cwd and every other file are irrelevant. -/
theorem resolve_absolute_only (fs : Fs) (parts : List String) (parent : Option Path) :
    getPipelinePath fs (.abs parts) parent =
      if fs.isFile (fileParts parts) = true then .ok (fileParts parts)
      else .error (pathStr (fileParts parts) ++ " does not exist.") := by
  simp [getPipelinePath]

theorem resolve_absolute_nowhere_else (fs fs' : Fs) (parts : List String) (parent parent' : Option Path)
    (h : fs.isFile (fileParts parts) = fs'.isFile (fileParts parts)) :
    getPipelinePath fs (.abs parts) parent = getPipelinePath fs' (.abs parts) parent' := by
  simp [getPipelinePath, h]

example : getPipelinePath exFs (.abs ["q", "x"]) (some ["p"]) = .error "/q/x.yaml does not exist." ∧
    getPipelinePath exFs (.abs ["p", "y"]) none = .ok ["p", "y.yaml"] := by
  constructor <;> rfl

/-- `not_found_lists_searched`: when no candidate exists the error text is the file name followed
    by the searched directories, one per line, in search order — and these are exactly the
    directories of the candidates. -/
theorem not_found_lists_searched (fs : Fs) (parts : List String) (parent : Option Path)
    (h : ∀ q ∈ candidates fs parent parts, fs.isFile q = false) :
    getPipelinePath fs (.rel parts) parent =
      .error ("/".intercalate (fileParts parts) ++ " not found in any of the following:\n" ++
              "\n".intercalate ((searchDirs fs parent).map pathStr)) ∧
    candidates fs parent parts = (searchDirs fs parent).map (· ++ fileParts parts) := by
  refine ⟨?_, rfl⟩
  rw [resolve_first_existing]
  have : (candidates fs parent parts).find? fs.isFile = none :=
    List.find?_eq_none.mpr (fun q hq => by simp [h q hq])
  rw [this]
  rfl

example : getPipelinePath exFs (.rel ["sub", "z"]) (some ["p"]) =
    .error "sub/z.yaml not found in any of the following:\n/p\n/w\n/w/pipelines\n/b" := by
  rfl

/-! ### what a pype child inherits -/

/-- `child_parent_default`, row 1: an explicit `parent` (even `None`) wins. -/
theorem child_parent_explicit (pype : PypeIn) (info : Info) (p : Option Path)
    (h : pype.parent = some p) : childParent pype info = p := by
  simp [childParent, h]

/-- rows 2/3: without an explicit `parent` the child gets the caller's parent iff
    resolveFromParent (default: the caller's `is_parent_cascading`) is truthy AND the child's loader
    equals the caller's loader; else no parent. -/
theorem child_parent_default (pype : PypeIn) (info : Info) (h : pype.parent = none) :
    childParent pype info =
      if ((match pype.resolveFromParent with | some v => v.truthy | none => info.isParentCascading) = true
          ∧ childLoader pype info = some info.loader)
      then info.parent else none := by
  simp only [childParent, h]
  by_cases h2 : childLoader pype info = some info.loader
  · cases pype.resolveFromParent with
    | none => cases info.isParentCascading <;> simp [h2]
    | some v => cases v.truthy <;> simp [h2]
  · cases pype.resolveFromParent with
    | none => cases info.isParentCascading <;> simp [h2]
    | some v => cases v.truthy <;> simp [h2]

/-- the loader a child uses when `pype.loader` is absent: the caller's, if that cascades. -/
theorem child_loader_default (pype : PypeIn) (info : Info) (h : pype.loader = none) :
    childLoader pype info = if info.isLoaderCascading then some info.loader else none := by
  simp [childLoader, h]

/-- `child_resolves_from_parent_first`: a pype child of a file-loaded pipeline, with no
    `loader`/`resolveFromParent`/`parent` keys, is looked for in the calling pipeline's directory
    first, then cwd, cwd/pipelines, built-ins. -/
theorem child_resolves_from_parent_first (fs : Fs) (callerPath : Path) (parts : List String)
    (pype : PypeIn) (h1 : pype.loader = none) (h2 : pype.resolveFromParent = none) (h3 : pype.parent = none) :
    childLoader pype (infoOf (.file callerPath)) = some fileLoader ∧
    childParent pype (infoOf (.file callerPath)) = some (dirOf callerPath) ∧
    getPipelinePath fs (.rel parts) (childParent pype (infoOf (.file callerPath))) =
      match (candidates fs (some (dirOf callerPath)) parts).find? fs.isFile with
      | some p => .ok p
      | none => .error (notFoundMsg ("/".intercalate (fileParts parts)) (searchDirs fs (some (dirOf callerPath)))) := by
  have hp : childParent pype (infoOf (.file callerPath)) = some (dirOf callerPath) := by
    simp [childParent, childLoader, infoOf, h1, h2, h3]
  refine ⟨by simp [childLoader, infoOf, h1], hp, ?_⟩
  rw [hp, resolve_first_existing]

/-- "unless told otherwise": with a falsy `resolveFromParent` (and no explicit parent) the child
    gets no parent and is looked for in cwd, cwd/pipelines, built-ins only. -/
theorem child_resolve_from_parent_off (fs : Fs) (info : Info) (parts : List String) (pype : PypeIn)
    (v : Val) (h2 : pype.resolveFromParent = some v) (hv : v.truthy = false) (h3 : pype.parent = none) :
    childParent pype info = none ∧
    candidates fs (childParent pype info) parts =
      [fs.cwd ++ fileParts parts, fs.cwd ++ ["pipelines"] ++ fileParts parts, fs.builtin ++ fileParts parts] := by
  have hp : childParent pype info = none := by simp [childParent, h2, hv, h3]
  exact ⟨hp, by rw [hp, candidates_spelled_out]; rfl⟩

/-- a child given another loader than its caller's gets no parent by default. -/
theorem child_other_loader_no_parent (pype : PypeIn) (info : Info) (l : Option String)
    (h1 : pype.loader = some l) (hl : l ≠ some info.loader) (h3 : pype.parent = none) :
    childParent pype info = none := by
  simp [childParent, childLoader, h1, h3, hl]

example : childParent { loader := none, resolveFromParent := none, parent := none }
      (infoOf (.file ["p", "y.yaml"])) = some ["p"] ∧
    childParent { loader := none, resolveFromParent := some (.bool false), parent := none }
      (infoOf (.file ["p", "y.yaml"])) = none ∧
    childParent { loader := some (some "other"), resolveFromParent := none, parent := none }
      (infoOf (.file ["p", "y.yaml"])) = none ∧
    childParent { loader := none, resolveFromParent := some (.bool false), parent := some (some ["q"]) }
      (infoOf (.file ["p", "y.yaml"])) = some ["q"] := by decide

/-! ### custom modules next to a loaded pipeline are importable -/

/-- `sys_path_has_pipeline_dir`: after `get_pipeline_definition` returned a pipeline file, that
    file's directory is on `sys.path` (whether it was parsed now or served from `file_cache`), and
    the invariant that makes this true is kept — so it holds after any sequence of loads. -/
theorem sys_path_has_pipeline_dir (fs : Fs) (hfs : FsOk fs) (st : LoadState) (hg : Good fs st)
    (name : Name) (parent : Option Path) (p : Path)
    (h : (getPipelineDefinition fs st name parent).1 = .ok p) :
    dirOf p ∈ (getPipelineDefinition fs st name parent).2.sysPath ∧
    Good fs (getPipelineDefinition fs st name parent).2 := by
  unfold getPipelineDefinition at h ⊢
  cases hr : getPipelinePath fs name parent with
  | error e => simp [hr] at h
  | ok q =>
    simp only [hr] at h ⊢
    have hfile := getPipelinePath_isFile fs name parent q hr
    have hdir := hfs q hfile
    by_cases hc : q ∈ st.fileCache
    · simp only [hc, if_true] at h ⊢
      have e := Except.ok.inj h; subst e
      exact ⟨hg.cached q hc, hg⟩
    · simp only [hc, if_false] at h ⊢
      have e := Except.ok.inj h; subst e
      have hk : ∀ d ∈ ({ st with fileCache := q :: st.fileCache } : LoadState).known,
          fs.dirExists d = true → d ∈ ({ st with fileCache := q :: st.fileCache } : LoadState).sysPath := hg.known
      refine ⟨addSysPath_mem fs _ _ hk hdir, ⟨?_, addSysPath_known fs _ _ hk⟩⟩
      intro x hx
      rw [addSysPath_fileCache] at hx
      rcases List.mem_cons.mp hx with e | hx
      · subst e; exact addSysPath_mem fs _ _ hk hdir
      · exact addSysPath_mono fs _ _ _ (hg.cached x hx)

/-- the empty start state satisfies the invariant -/
theorem good_init (fs : Fs) (sysPath : List Path) : Good fs { fileCache := [], sysPath := sysPath, known := [] } :=
  ⟨by simp, by simp⟩

example : (getPipelineDefinition exFs { fileCache := [], sysPath := [["site"]], known := [] }
    (.rel ["x"]) none).2.sysPath = [["site"], ["w", "pipelines"]] := by decide

end Pypyr.C19
